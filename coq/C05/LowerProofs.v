(* Equivalence of each lowering step with the construct it replaces, for every
   world, every state and all operand expressions. *)
From V Require Import Common.Base C05.Syntax C05.Sem C05.Lower C05.Frame.

Section Proofs.
  Variable S : Type.
  Variable w : world S.
  Variable th : val.
  Notation ev := (eval w th).

  (* reading identifier x has no effect and no event (it may throw) *)
  Definition pure_var (x : Z) : Prop := forall s, exists r, w_getvar w x s = ([], s, r).

  Definition obs_eq (e1 e2 : expr) : Prop :=
    forall m s, observe (ev e1 m s) = observe (ev e2 m s).

  Lemma agree_tset L m n v : ~ In n L -> agree L (tset m n v) m.
  Proof. intros Hn k Hk. apply tget_tset_other. intro; subst; contradiction. Qed.

  (* evaluating b does not depend on a temporary that does not occur in it *)
  Lemma fresh_irrelevant b n v m s : ~ In n (tmps b) ->
    observe (ev b (tset m n v) s) = observe (ev b m s).
  Proof.
    intro Hn. destruct (eval_framed S w th b) as [F _].
    specialize (F (tset m n v) m s (agree_tset _ _ _ _ Hn)).
    destruct (ev b (tset m n v) s) as [[[t1 m1] s1] r1], (ev b m s) as [[[t2 m2] s2] r2].
    destruct F as (-> & -> & -> & _). reflexivity.
  Qed.

  Lemma frame_ex b m1 m2 s : agree (tmps b) m1 m2 ->
    exists m1', ev b m1 s = (let '(t, _, s', r) := ev b m2 s in (t, m1', s', r)) /\
                (forall k, ~ In k (tmps b) -> tget m1' k = tget m1 k).
  Proof.
    intro Ha. destruct (eval_framed S w th b) as [F G].
    specialize (F m1 m2 s Ha). specialize (G m1 s).
    destruct (ev b m1 s) as [[[t1 m1'] s1] r1], (ev b m2 s) as [[[t2 m2'] s2] r2].
    destruct F as (-> & -> & -> & _). exists m1'. split; [reflexivity | exact G].
  Qed.

  Ltac simp := cbn -[observe tget tset eval_list]; unfold bind, ret, lift; cbn -[observe tget tset eval_list].
  Ltac norm := repeat rewrite ?app_nil_r, ?app_nil_l, <- ?app_assoc; try reflexivity.
  Ltac dev e m s := let t := fresh "t" in let m' := fresh "m" in let s' := fresh "s" in
                    let o := fresh "o" in let v := fresh "v" in
                    destruct (ev e m s) as [[[t m'] s'] [o | v]]; simp; norm.
  Ltac dw c := let t := fresh "t" in let s' := fresh "s" in let o := fresh "x" in let v := fresh "v" in
               destruct c as [[t s'] [o | v]]; simp; norm.
  (* evaluate b under a store that differs from m only on temporaries outside b *)
  Ltac frame b m' m s H :=
    let mm := fresh "m" in let E := fresh "E" in let K := fresh "K" in
    destruct (frame_ex b m' m s H) as (mm & E & K); rewrite E; clear E.

  Theorem lowerNullish_equiv a b n :
    ~ In n (tmps b) ->
    (forall x, a = EId x -> pure_var x) ->
    obs_eq (fst (lowerNullishCoalescing a b n)) (EBin BNullish a b).
  Proof.
    intros Hn Hp m s. unfold lowerNullishCoalescing, capture.
    destruct (is_inline_value a) eqn:Ei.
    - destruct a; try discriminate Ei; simp.
      all: try solve [dev b m s].
      + destruct (nullish th); simp; dev b m s.
      + destruct (Hp x eq_refl s) as [r Hr]. rewrite Hr. destruct r as [x0 | v0]; simp; norm.
        destruct (nullish x0); simp; [dev b m s |]. rewrite Hr; simp. norm.
      + destruct (nullish (tget m n0)); simp; dev b m s.
    - simp. dev a m s.
      destruct (nullish (valof o)); simp; norm.
      + frame b (tset m0 n (valof o)) m0 s0 (agree_tset (tmps b) m0 n (valof o) Hn). dev b m0 s0.
      + rewrite tget_tset_same. norm.
  Qed.
  (* ---- assignment operators ---- *)

  (* x may be read again later: reading is pure and getters do not change it *)
  Definition stable_var (x : Z) : Prop :=
    pure_var x /\
    forall b k s, match w_get w b k s with (_, s', _) => snd (w_getvar w x s') = snd (w_getvar w x s) end.

  Lemma agree_tset2 L m n v n' v' : ~ In n L -> ~ In n' L -> agree L (tset (tset m n v) n' v') m.
  Proof.
    intros Hn Hn' k Hk. rewrite !tget_tset_other; [reflexivity | |]; intro; subst; contradiction.
  Qed.

  (* simulation up to the temporaries in flight: the lowered code runs in a
     store that differs from the native one only on L *)
  Definition sim (L : list Z) (m1 m2 : tstore) : Prop := forall k, ~ In k L -> tget m1 k = tget m2 k.

  Lemma sim_ev L b m1 m2 s :
    sim L m1 m2 -> (forall k, In k L -> ~ In k (tmps b)) ->
    match ev b m1 s, ev b m2 s with
    | (t1, m1', s1, r1), (t2, m2', s2, r2) =>
        t1 = t2 /\ s1 = s2 /\ r1 = r2 /\ sim L m1' m2' /\ (forall k, In k L -> tget m1' k = tget m1 k)
    end.
  Proof.
    intros Hs Hd. destruct (eval_framed S w th b) as [F G].
    assert (Ha : agree (tmps b) m1 m2).
    { intros k Hk. apply Hs. intro HL. exact (Hd k HL Hk). }
    specialize (F m1 m2 s Ha). pose proof (G m1 s) as G1. pose proof (G m2 s) as G2.
    destruct (ev b m1 s) as [[[t1 m1'] s1] r1], (ev b m2 s) as [[[t2 m2'] s2] r2].
    destruct F as (-> & -> & -> & Ha'). repeat split; try reflexivity.
    - intros k Hk. destruct (in_dec Z.eq_dec k (tmps b)) as [Hb | Hb].
      + apply Ha', Hb.
      + rewrite (G1 k Hb), (G2 k Hb). apply Hs, Hk.
    - intros k Hk. apply G1. apply Hd, Hk.
  Qed.

  Lemma sim_tset L m n v : In n L -> sim L (tset m n v) m.
  Proof. intros Hn k Hk. apply tget_tset_other. intro; subst; contradiction. Qed.

  Lemma sim_tset_l L m1 m2 n v : In n L -> sim L m1 m2 -> sim L (tset m1 n v) m2.
  Proof. intros Hn Hs k Hk. rewrite tget_tset_other; [apply Hs, Hk | intro; subst; contradiction]. Qed.

  (* run the same sub-expression on both sides *)
  Ltac simev b m1 m2 s Hs Hd :=
    let Q := fresh "Q" in let t := fresh "t" in let ml := fresh "ml" in let mn := fresh "mn" in
    let s' := fresh "s" in let o := fresh "o" in let Hs' := fresh "Hs" in let Hk := fresh "Hk" in
    pose proof (sim_ev _ b m1 m2 s Hs Hd) as Q;
    destruct (ev b m1 s) as [[[t ml] s'] o], (ev b m2 s) as [[[? mn] ?] ?];
    destruct Q as (<- & <- & <- & Hs' & Hk); destruct o as [o | ?]; simp; norm.

  Theorem lowerLogicalAsg_dot_captured F op t name v n :
    f_logasg F = true ->
    is_inline_value t = false ->
    ~ In n (tmps v) ->
    forall r, lowerLogicalAsg F op (EDot t name OcNone) v n = Some r ->
    (op = BOr -> obs_eq (fst r) (EOpAsg AOr (EDot t name OcNone) v)) /\
    (op = BAnd -> obs_eq (fst r) (EOpAsg AAnd (EDot t name OcNone) v)).
  Proof.
    intros HF Hi Hn r. unfold lowerLogicalAsg, lowerAssignmentOperator, capture. rewrite HF, Hi.
    intro E; injection E as <-. cbn [fst].
    assert (Hd : forall k, In k [n] -> ~ In k (tmps v)) by (intros k [<- | []]; exact Hn).
    split; intros -> m s; simp.
    - dev t m s.
      dw (w_get w (valof o) (VStr name) s0).
      destruct (truthy x); simp; norm.
      rewrite tget_tset_same.
      simev v (tset m0 n (valof o)) m0 s1 (sim_tset [n] m0 n (valof o) (or_introl eq_refl)) Hd.
      dw (w_set w (valof o) (VStr name) (valof o0) s2).
    - dev t m s.
      dw (w_get w (valof o) (VStr name) s0).
      destruct (truthy x); simp; norm.
      rewrite tget_tset_same.
      simev v (tset m0 n (valof o)) m0 s1 (sim_tset [n] m0 n (valof o) (or_introl eq_refl)) Hd.
      dw (w_set w (valof o) (VStr name) (valof o0) s2).
  Qed.

  (* identifier targets are read once and written once by both forms: no side condition *)
  Theorem lowerLogicalAsg_id_equiv F x v n r :
    f_logasg F = true ->
    (lowerLogicalAsg F BOr (EId x) v n = Some r -> obs_eq (fst r) (EOpAsg AOr (EId x) v)) /\
    (lowerLogicalAsg F BAnd (EId x) v n = Some r -> obs_eq (fst r) (EOpAsg AAnd (EId x) v)).
  Proof.
    intro HF. unfold lowerLogicalAsg, lowerAssignmentOperator. rewrite HF.
    split; intro E; injection E as <-; intros m s; simp;
      dw (w_getvar w x s); destruct (truthy x0); simp; norm; dev v m s0; dw (w_setvar w x (valof o) s1).
  Qed.

  Theorem lowerExpAsg_id_equiv x v n :
    obs_eq (fst (lowerExpAsg (EId x) v n)) (EOpAsg APow (EId x) v).
  Proof.
    intros m s. unfold lowerExpAsg, lowerAssignmentOperator. simp.
    dw (w_getvar w x s). dev v m s0. dw (w_binop w BPow x0 (valof o) s1). dw (w_setvar w x x1 s2).
  Qed.

  Theorem lowerExpAsg_dot_captured t name v n :
    is_inline_value t = false ->
    ~ In n (tmps v) ->
    obs_eq (fst (lowerExpAsg (EDot t name OcNone) v n)) (EOpAsg APow (EDot t name OcNone) v).
  Proof.
    intros Hi Hn m s. unfold lowerExpAsg, lowerAssignmentOperator, capture. rewrite Hi. simp.
    assert (Hd : forall k, In k [n] -> ~ In k (tmps v)) by (intros k [<- | []]; exact Hn).
    dev t m s. rewrite tget_tset_same.
    dw (w_get w (valof o) (VStr name) s0).
    simev v (tset m0 n (valof o)) m0 s1 (sim_tset [n] m0 n (valof o) (or_introl eq_refl)) Hd.
    dw (w_binop w BPow x (valof o0) s2).
    dw (w_set w (valof o) (VStr name) x0 s3).
  Qed.

  (* a.b ??= v, both when ?? itself is lowered and when it is not *)
  Theorem lowerNullishAsg_dot_captured F t name v n r :
    f_logasg F = true ->
    is_inline_value t = false ->
    ~ In n (tmps v) -> ~ In (n + 1) (tmps v) ->
    lowerNullishAsg F (EDot t name OcNone) v n = Some r ->
    obs_eq (fst r) (EOpAsg ANullish (EDot t name OcNone) v).
  Proof.
    intros HF Hi Hn Hn1. unfold lowerNullishAsg, lowerAssignmentOperator, lowerNullishCoalescing, capture.
    rewrite HF, Hi. cbn [is_inline_value].
    assert (Hd : forall k, In k [n; n + 1] -> ~ In k (tmps v)) by (intros k [<- | [<- | []]]; assumption).
    destruct (f_nullish F); intro E; injection E as <-; intros m s; simp.
    - dev t m s.
      dw (w_get w (valof o) (VStr name) s0).
      destruct (nullish x); simp; norm; [| rewrite tget_tset_same; norm].
      rewrite tget_tset_other by lia. rewrite tget_tset_same.
      assert (Hs : sim [n; n + 1] (tset (tset m0 n (valof o)) (n + 1) x) m0).
      { apply sim_tset_l; [right; left; reflexivity |]. apply sim_tset; left; reflexivity. }
      simev v (tset (tset m0 n (valof o)) (n + 1) x) m0 s1 Hs Hd.
      dw (w_set w (valof o) (VStr name) (valof o0) s2).
    - dev t m s.
      dw (w_get w (valof o) (VStr name) s0).
      destruct (nullish x); simp; norm.
      rewrite tget_tset_same.
      assert (Hs : sim [n; n + 1] (tset m0 n (valof o)) m0) by (apply sim_tset; left; reflexivity).
      simev v (tset m0 n (valof o)) m0 s1 Hs Hd.
      dw (w_set w (valof o) (VStr name) (valof o0) s2).
  Qed.

  (* ---- optional chains ---- *)

  Lemma not_inline_match {A} t (X Y : A) : is_inline_value t = false ->
    match t with ENull | EUndef => X | _ => Y end = Y.
  Proof. destruct t; cbn; intro H; try reflexivity; discriminate H. Qed.

  (* t?.name  =>  (_n = t) == null ? void 0 : _n.name *)
  Theorem lowerOptionalChain_dot_captured F t name n :
    f_optchain F = true ->
    is_inline_value t = false ->
    obs_eq (fst (fst (lowerOptionalChain F (EDot t name OcStart) (mkIn false false) out0 n)))
           (EDot t name OcStart).
  Proof.
    intros HF Hi m s. unfold lowerOptionalChain. cbn [flatten is_delete].
    rewrite (not_inline_match t _ _ Hi). rewrite HF. cbn [negb thisArg out0 storeThis andb].
    unfold capture. rewrite Hi. cbn [apply_links fst]. simp.
    dev t m s.
    destruct (nullish (valof o)); simp; norm.
    rewrite tget_tset_same. dw (w_get w (valof o) (VStr name) s0).
  Qed.

  (* delete t?.name  =>  (_n = t) == null ? true : delete _n.name *)
  Theorem lowerOptionalChain_delete_captured F t name n :
    f_optchain F = true ->
    is_inline_value t = false ->
    obs_eq (fst (fst (lowerOptionalChain F (EDelete (EDot t name OcStart)) (mkIn true false) out0 n)))
           (EDelete (EDot t name OcStart)).
  Proof.
    intros HF Hi m s. unfold lowerOptionalChain. cbn [flatten is_delete app].
    rewrite (not_inline_match t _ _ Hi). rewrite HF. cbn [negb thisArg out0 storeThis andb].
    unfold capture. rewrite Hi. cbn [apply_links fst]. simp.
    dev t m s.
    destruct (nullish (valof o)); simp; norm.
    rewrite tget_tset_same. dw (w_del w (valof o) (VStr name) s0).
  Qed.

  Lemma sim_list L args m1 m2 s :
    sim L m1 m2 -> (forall k, In k L -> ~ In k (flat_map tmps args)) ->
    match eval_list S w th args m1 s, eval_list S w th args m2 s with
    | (t1, m1', s1, r1), (t2, m2', s2, r2) =>
        t1 = t2 /\ s1 = s2 /\ r1 = r2 /\ sim L m1' m2' /\ (forall k, In k L -> tget m1' k = tget m1 k)
    end.
  Proof.
    intros Hs Hd.
    assert (Hf : framed S (flat_map tmps args) (eval_list S w th args)).
    { apply framed_eval_list. apply Forall_forall. intros e _. apply eval_framed. }
    destruct Hf as [F G].
    assert (Ha : agree (flat_map tmps args) m1 m2).
    { intros k Hk. apply Hs. intro HL. exact (Hd k HL Hk). }
    specialize (F m1 m2 s Ha). pose proof (G m1 s) as G1. pose proof (G m2 s) as G2.
    destruct (eval_list S w th args m1 s) as [[[t1 m1'] s1] r1], (eval_list S w th args m2 s) as [[[t2 m2'] s2] r2].
    destruct F as (-> & -> & -> & Ha'). repeat split; try reflexivity.
    - intros k Hk. destruct (in_dec Z.eq_dec k (flat_map tmps args)) as [Hb | Hb].
      + apply Ha', Hb.
      + rewrite (G1 k Hb), (G2 k Hb). apply Hs, Hk.
    - intros k Hk. apply G1. apply Hd, Hk.
  Qed.

  (* f.call(t, ...) reaches f with this = t: reading "call" from a non-nullish
     callee is pure (Function.prototype.call intact, no own "call" property) *)
  Definition call_intact : Prop :=
    forall fv s, nullish fv = false -> exists c, w_get w fv (VStr name_call) s = ([], s, Ok c).

  (* t.name?.(args)  =>  (_n1 = (_n = t).name) == null ? void 0 : _n1.call(_n, args) *)
  Theorem lowerOptionalChain_call_captured F t name args n :
    f_optchain F = true ->
    is_inline_value t = false ->
    call_intact ->
    (forall k, In k [n; n + 1] -> ~ In k (flat_map tmps args)) ->
    obs_eq (fst (fst (lowerOptionalChain F (ECall (EDot t name OcNone) args OcStart) (mkIn false false) out0 n)))
           (ECall (EDot t name OcNone) args OcStart).
  Proof.
    intros HF Hi Hc Hd m s. unfold lowerOptionalChain. cbn [flatten is_delete].
    rewrite HF. cbn [negb thisArg out0 storeThis andb].
    unfold capture. rewrite Hi. cbn [is_inline_value apply_links fst].
    cbn -[eval observe]. cbn [eval]. fold (eval_list S w th args).
    simp.
    dev t m s.
    dw (w_get w (valof o) (VStr name) s0).
    destruct (nullish x) eqn:Hx; simp; norm.
    rewrite tget_tset_same.
    destruct (Hc x s1 Hx) as [c Ec]. rewrite Ec. simp.
    rewrite tget_tset_other by lia. rewrite tget_tset_same.
    assert (Hs : sim [n; n + 1] (tset (tset m0 n (valof o)) (n + 1) x) m0).
    { apply sim_tset_l; [right; left; reflexivity |]. apply sim_tset; left; reflexivity. }
    pose proof (sim_list _ args _ _ s1 Hs Hd) as Q.
    destruct (eval_list S w th args (tset (tset m0 n (valof o)) (n + 1) x) s1) as [[[ta ml] sa] ra],
             (eval_list S w th args m0 s1) as [[[tb mn] sb] rb].
    destruct Q as (<- & <- & <- & _ & _). destruct ra as [vs | ?]; simp; norm.
    dw (w_call w x (valof o) vs sa).
  Qed.

  Lemma sim_weaken L L' m1 m2 : incl L L' -> sim L m1 m2 -> sim L' m1 m2.
  Proof. intros Hi Hs k Hk. apply Hs. intro; apply Hk, Hi; assumption. Qed.

  (* t[k] ||= v / t[k] &&= v with both object and key captured:
     (_n = t)[_n1 = k] || (_n[_n1] = v) *)
  Theorem lowerLogicalAsg_index_captured F op t k v n :
    f_logasg F = true ->
    is_inline_value t = false -> is_inline_value k = false ->
    ~ In n (tmps k) -> ~ In n (tmps v) -> ~ In (n + 1) (tmps v) ->
    forall r, lowerLogicalAsg F op (EIndex t k OcNone) v n = Some r ->
    (op = BOr -> obs_eq (fst r) (EOpAsg AOr (EIndex t k OcNone) v)) /\
    (op = BAnd -> obs_eq (fst r) (EOpAsg AAnd (EIndex t k OcNone) v)).
  Proof.
    intros HF Hi Hik Hnk Hn Hn1 r. unfold lowerLogicalAsg, lowerAssignmentOperator, capture. rewrite HF, Hi, Hik.
    intro E; injection E as <-. cbn [fst].
    assert (Hdk : forall j, In j [n] -> ~ In j (tmps k)) by (intros j [<- | []]; exact Hnk).
    assert (Hdv : forall j, In j [n; n + 1] -> ~ In j (tmps v)) by (intros j [<- | [<- | []]]; assumption).
    split; intros -> m s; simp.
    - dev t m s.
      simev k (tset m0 n (valof o)) m0 s0 (sim_tset [n] m0 n (valof o) (or_introl eq_refl)) Hdk.
      dw (w_get w (valof o) (valof o0) s1).
      destruct (truthy x); simp; norm.
      rewrite tget_tset_other by lia. rewrite (Hk n (or_introl eq_refl)). rewrite !tget_tset_same.
      assert (Hs2 : sim [n; n + 1] (tset ml (n + 1) (valof o0)) mn).
      { apply sim_tset_l; [right; left; reflexivity |]. eapply sim_weaken; [| exact Hs]. intros j [<- | []]; left; reflexivity. }
      simev v (tset ml (n + 1) (valof o0)) mn s2 Hs2 Hdv.
      dw (w_set w (valof o) (valof o0) (valof o1) s3).
    - dev t m s.
      simev k (tset m0 n (valof o)) m0 s0 (sim_tset [n] m0 n (valof o) (or_introl eq_refl)) Hdk.
      dw (w_get w (valof o) (valof o0) s1).
      destruct (truthy x); simp; norm.
      rewrite tget_tset_other by lia. rewrite (Hk n (or_introl eq_refl)). rewrite !tget_tset_same.
      assert (Hs2 : sim [n; n + 1] (tset ml (n + 1) (valof o0)) mn).
      { apply sim_tset_l; [right; left; reflexivity |]. eapply sim_weaken; [| exact Hs]. intros j [<- | []]; left; reflexivity. }
      simev v (tset ml (n + 1) (valof o0)) mn s2 Hs2 Hdv.
      dw (w_set w (valof o) (valof o0) (valof o1) s3).
  Qed.
End Proofs.



(* ---- the full statement is false of the faithful model: witnesses ---- *)
From V Require Import C05.Witness.

Definition lowering_preserves_behaviour : Prop :=
  forall (S : Type) (w : world S) (th : val) (F : feat) (e : expr) (s : S),
    tmps e = [] -> run w th (lower F e) s = run w th e s.

Lemma refute (e : expr) :
  tmps e = [] -> wit_run (lower all_features e) <> wit_run e -> ~ lowering_preserves_behaviour.
Proof. intros Ht Hne H. apply Hne. apply (H Z wit_world VUndef all_features e 1 Ht). Qed.

Lemma refuted_F1 : wit_run (lower all_features f1_src) <> wit_run f1_src.
Proof. vm_compute. discriminate. Qed.
Lemma refuted_F2 : wit_run (lower all_features f2_src) <> wit_run f2_src.
Proof. vm_compute. discriminate. Qed.
Lemma refuted_F3 : wit_run (lower all_features f3_src) <> wit_run f3_src.
Proof. vm_compute. discriminate. Qed.
Lemma refuted_F4 : wit_run (lower all_features f4_src) <> wit_run f4_src.
Proof. vm_compute. discriminate. Qed.
Lemma refuted_F6 : wit_run (lower all_features f6_src) <> wit_run f6_src.
Proof. vm_compute. discriminate. Qed.

Lemma lowering_refuted_all :
  exists (S : Type) (w : world S) (th : val) (F : feat) (e : expr) (s : S),
    tmps e = [] /\ run w th (lower F e) s <> run w th e s.
Proof. exists Z, wit_world, VUndef, all_features, f4_src, 1. split; [reflexivity | exact refuted_F4]. Qed.
