(* Per-step equivalence theorems in full generality: every operand may be
   captured in a temporary or be one of the expressions esbuild duplicates
   instead (literals, this, identifiers); identifiers must then be constant
   bindings (the refutation witnesses F1-F3 are exactly the non-constant ones). *)
From V Require Import Common.Base C05.Syntax C05.Sem C05.Lower C05.Frame C05.SimLogic.

Section Steps.
  Variable S : Type.
  Variable w : world S.
  Variable th : val.
  Notation ev := (eval w th).
  Notation simM := (simM S).

  (* x is a constant binding: reading it never has an effect and always gives
     the same outcome (a value, or e.g. a ReferenceError) *)
  Definition const_var (x : Z) : Prop := exists r, forall s, w_getvar w x s = ([], s, r).

  Definition dupable (t : expr) : Prop :=
    match t with
    | ENull | EUndef | EThis | EBool _ | ENum _ | EStr _ => True
    | EId x => const_var x
    | _ => False
    end.

  (* t is either captured in a temporary or may be evaluated twice *)
  Definition cap_ok (t : expr) : Prop := is_inline_value t = false \/ dupable t.

  Lemma dup_const t : is_inline_value t = true -> dupable t ->
    exists c : res val, forall m s,
      ev t m s = ([], m, s, match c with Ok v => Ok (ov v) | Throw x => Throw x end).
  Proof.
    destruct t; cbn; intros Hi Hd; try discriminate Hi; try contradiction;
      try solve [eexists (Ok _); intros; reflexivity].
    destruct Hd as [r Hr]. exists r. intros m s. unfold bind, lift, ret. rewrite Hr.
    destruct r; reflexivity.
  Qed.

  (* what the store (or the constancy of t) remembers about the value of t *)
  Definition remp (t : expr) (n : Z) (v : val) (m : tstore) : Prop :=
    if is_inline_value t then (forall m' s', ev t m' s' = ([], m', s', Ok (ov v))) else tget m n = v.

  Lemma remp_stable (L : tpred) t n v : L n -> stable L (remp t n v).
  Proof.
    intros Hn. unfold remp. destruct (is_inline_value t).
    - apply stable_const.
    - apply stable_tget, Hn.
  Qed.

  Lemma remp_tset t n v m k x : k <> n -> remp t n v m -> remp t n v (tset m k x).
  Proof.
    unfold remp. destruct (is_inline_value t); intros Hk H; [exact H |].
    rewrite tget_tset_other by exact Hk. exact H.
  Qed.

  Lemma piece_first (L : tpred) (Pre : tstore -> Prop) t n f a n1 :
    capture t n = (f, a, n1) -> cap_ok t -> L n ->
    (forall k, L k -> ~ In k (tmps t)) -> stable L Pre ->
    (forall m v, Pre m -> Pre (tset m n v)) ->
    simM L Pre (fun m x y => valof x = valof y /\ remp t n (valof y) m /\ Pre m) (ev f) (ev t).
  Proof.
    unfold capture, remp. intros Hc Hok Hn Hd Hst Hset.
    destruct (is_inline_value t) eqn:Hi.
    - injection Hc as <- <- <-.
      destruct Hok as [Hok | Hdup]; [congruence |].
      destruct (dup_const t Hi Hdup) as [c Hc].
      intros m m0 s Hs Hp. rewrite !Hc.
      split; [reflexivity |]. split; [reflexivity |]. split; [exact Hs |].
      destruct c as [v | x]; [| reflexivity].
      split; [reflexivity |]. split; [| exact Hp]. intros m' s'. apply Hc.
    - injection Hc as <- <- <-.
      intros m m0 s Hs Hp. cbn [eval]. unfold bind.
      pose proof (simM_fresh S w th L Pre t Hd Hst m m0 s Hs Hp) as Q.
      destruct (ev t m s) as [[[t1 m1] s1] r1], (ev t m0 s) as [[[t2 m2] s2] r2].
      destruct Q as (-> & -> & Hs1 & Hr).
      destruct r1 as [x | v], r2 as [y | v0]; try contradiction.
      + destruct Hr as [-> Hp1]. rewrite app_nil_r.
        repeat split; auto.
        * apply simL_tset; assumption.
        * cbn. apply tget_tset_same.
      + auto.
  Qed.

  Lemma piece_again t n f a n1 v m s :
    capture t n = (f, a, n1) -> remp t n v m -> ev a m s = ([], m, s, Ok (ov v)).
  Proof.
    unfold capture, remp. destruct (is_inline_value t); intros Hc H; injection Hc as <- <- <-.
    - apply H.
    - cbn. rewrite H. reflexivity.
  Qed.

  Lemma simM_pure {A B} (L : tpred) (P : Prop) (Pre : tstore -> Prop) (Post : tstore -> A -> B -> Prop) cl cn :
    (P -> simM L Pre Post cl cn) -> simM L (fun m => P /\ Pre m) Post cl cn.
  Proof. intros H m m0 s Hs [p Hp]. apply (H p); assumption. Qed.

  Definition veq (m : tstore) (a b : out) : Prop := valof a = valof b.

  (* ---- a ?? b, all operands ---- *)
  Theorem lowerNullish_general a b n :
    cap_ok a -> ~ In n (tmps a) -> ~ In n (tmps b) ->
    forall m s, observe (ev (fst (lowerNullishCoalescing a b n)) m s) = observe (ev (EBin BNullish a b) m s).
  Proof.
    intros Hok Hna Hnb. unfold lowerNullishCoalescing.
    destruct (capture a n) as [[f ag] n1] eqn:Hc. cbn [fst].
    set (L := fun k : Z => k = n).
    apply (simM_observe S L veq); [intros ? ? ? H; exact H |].
    assert (Hda : forall k, L k -> ~ In k (tmps a)) by (intros k ->; exact Hna).
    assert (Hdb : forall k, L k -> ~ In k (tmps b)) by (intros k ->; exact Hnb).
    cbn [eval].
    apply simM_assoc_l. eapply simM_bind.
    - apply (piece_first L (fun _ => True) a n f ag n1 Hc Hok eq_refl Hda (stable_true L)). auto.
    - intros x y. apply simM_ret_l. apply simM_pure. intro E. cbn [valof ov]. rewrite E.
      destruct (nullish (valof y)); cbn [xorb truthy].
      + eapply simM_bind.
        * apply simM_fresh; [exact Hdb |].
          apply stable_and; [apply remp_stable; reflexivity | apply stable_true].
        * intros r r0. apply simM_ret. intros m0 [-> _]. reflexivity.
      + eapply simM_left_pure.
        * intros m0 s0 [Hr _]. apply (piece_again a n f ag n1 _ m0 s0 Hc Hr).
        * cbn beta. apply simM_ret. intros; reflexivity.
  Qed.

  (* ---- compound assignment: the three short-circuit operators ---- *)
  Definition pairop (bop : binop) (aop : asgop) : Prop :=
    (bop = BOr /\ aop = AOr) \/ (bop = BAnd /\ aop = AAnd) \/ (bop = BNullish /\ aop = ANullish).

  Ltac split_if := match goal with |- context [if ?c then _ else _] => destruct c end.

  Definition Ln (n : Z) (c : Z) : tpred := fun k => n <= k < n + c.

  (* target  t.name *)
  Theorem logasg_dot_general bop aop t name v n f a n1 :
    pairop bop aop -> capture t n = (f, a, n1) -> cap_ok t ->
    ~ In n (tmps t) -> ~ In n (tmps v) ->
    forall m s, observe (ev (EBin bop (EDot f name OcNone) (EAssign (EDot a name OcNone) v)) m s)
              = observe (ev (EOpAsg aop (EDot t name OcNone) v) m s).
  Proof.
    intros Hop Hc Hok Hnt Hnv.
    set (L := fun k : Z => k = n).
    apply (simM_observe S L veq); [intros ? ? ? H; exact H |].
    assert (Hdt : forall k, L k -> ~ In k (tmps t)) by (intros k ->; exact Hnt).
    assert (Hdv : forall k, L k -> ~ In k (tmps v)) by (intros k ->; exact Hnv).
    assert (Hst : forall y, stable L (fun m0 : tstore => remp t n y m0 /\ True)).
    { intro y. apply stable_and; [apply remp_stable; reflexivity | apply stable_true]. }
    destruct Hop as [[-> ->] | [[-> ->] | [-> ->]]]; cbn [eval access opasg];
      (apply simM_assoc_l; eapply simM_bind;
       [ apply (piece_first L (fun _ => True) t n f a n1 Hc Hok eq_refl Hdt (stable_true L)); auto |]);
      intros x y; apply simM_pure; intro E; rewrite E;
      (apply simM_assoc_l; eapply simM_bind; [apply simM_lift |]);
      intros l l0; apply simM_pure; intros ->;
      apply simM_ret_l; cbn [valof];
      split_if;
      try (apply simM_ret; intros; reflexivity);
      apply simM_assoc_l;
      (eapply simM_left_pure;
       [ intros m0 s0 [Hr _]; apply (piece_again t n f a n1 _ m0 s0 Hc Hr) |]);
      cbn [valof ov];
      (apply simM_assoc_l; eapply simM_bind; [apply simM_fresh; [exact Hdv | apply Hst] |]);
      intros r r0; apply simM_pure; intros ->;
      (apply simM_assoc_l; eapply simM_bind; [apply simM_lift |]);
      intros u u0; cbn beta; apply simM_ret_l; apply simM_ret; intros; reflexivity.
  Qed.

  Lemma capture_next t n f a n1 : capture t n = (f, a, n1) ->
    n1 = (if is_inline_value t then n else n + 1).
  Proof. unfold capture. destruct (is_inline_value t); intro H; injection H as <- <- <-; reflexivity. Qed.

  Lemma remp_tset' t n v m k x : (is_inline_value t = false -> k <> n) -> remp t n v m -> remp t n v (tset m k x).
  Proof.
    unfold remp. destruct (is_inline_value t); intros Hk H; [exact H |].
    rewrite tget_tset_other by (apply Hk; reflexivity). exact H.
  Qed.

  (* target  t[k] : object and key evaluated once, in this order, ToPropertyKey
     (inside the world's get/set) applied to the same key value as natively *)
  Theorem logasg_index_general bop aop t k v n f a n1 kf ka n2 :
    pairop bop aop -> capture t n = (f, a, n1) -> capture k n1 = (kf, ka, n2) ->
    cap_ok t -> cap_ok k ->
    (forall j, n <= j < n + 2 -> ~ In j (tmps t) /\ ~ In j (tmps k) /\ ~ In j (tmps v)) ->
    forall m s, observe (ev (EBin bop (EIndex f kf OcNone) (EAssign (EIndex a ka OcNone) v)) m s)
              = observe (ev (EOpAsg aop (EIndex t k OcNone) v) m s).
  Proof.
    intros Hop Hc Hck Hok Hokk Hfr.
    set (L := fun j : Z => n <= j < n + 2).
    apply (simM_observe S L veq); [intros ? ? ? H; exact H |].
    assert (Hdt : forall j, L j -> ~ In j (tmps t)) by (intros j Hj; apply (Hfr j Hj)).
    assert (Hdk : forall j, L j -> ~ In j (tmps k)) by (intros j Hj; apply (Hfr j Hj)).
    assert (Hdv : forall j, L j -> ~ In j (tmps v)) by (intros j Hj; apply (Hfr j Hj)).
    pose proof (capture_next t n f a n1 Hc) as Hn1.
    assert (Ln : L n) by (unfold L; lia).
    assert (Ln1 : L n1) by (unfold L; destruct (is_inline_value t); lia).
    assert (Hst1 : forall y, stable L (fun m0 : tstore => remp t n y m0 /\ True)).
    { intro y. apply stable_and; [apply remp_stable; exact Ln | apply stable_true]. }
    assert (Hst2 : forall y y2, stable L (fun m0 : tstore => remp k n1 y2 m0 /\ remp t n y m0 /\ True)).
    { intros y y2. apply stable_and; [apply remp_stable; exact Ln1 | apply Hst1]. }
    destruct Hop as [[-> ->] | [[-> ->] | [-> ->]]]; cbn [eval access opasg];
      (apply simM_assoc_l; eapply simM_bind;
       [ apply (piece_first L (fun _ => True) t n f a n1 Hc Hok Ln Hdt (stable_true L)); auto |]);
      intros x y; apply simM_pure; intro E; rewrite E;
      (apply simM_assoc_l; eapply simM_bind;
       [ apply (piece_first L _ k n1 kf ka n2 Hck Hokk Ln1 Hdk (Hst1 (valof y)));
         intros m0 v0 [Hr _]; split; [| exact I];
         apply remp_tset'; [intro Hi; rewrite Hi in Hn1; lia | exact Hr] |]);
      intros x2 y2; apply simM_pure; intro E2; rewrite E2;
      (apply simM_assoc_l; eapply simM_bind; [apply simM_lift |]);
      intros l l0; apply simM_pure; intros ->;
      apply simM_ret_l; cbn [valof];
      split_if;
      try (apply simM_ret; intros; reflexivity);
      apply simM_assoc_l;
      (eapply simM_left_pure;
       [ intros m0 s0 [_ [Hr _]]; apply (piece_again t n f a n1 _ m0 s0 Hc Hr) |]);
      cbn beta; apply simM_assoc_l;
      (eapply simM_left_pure;
       [ intros m0 s0 [Hr _]; apply (piece_again k n1 kf ka n2 _ m0 s0 Hck Hr) |]);
      cbn [valof ov];
      (apply simM_assoc_l; eapply simM_bind; [apply simM_fresh; [exact Hdv | apply Hst2] |]);
      intros r r0; apply simM_pure; intros ->;
      (apply simM_assoc_l; eapply simM_bind; [apply simM_lift |]);
      intros u u0; cbn beta; apply simM_ret_l; apply simM_ret; intros; reflexivity.
  Qed.

  (* target  x  (read once, written once by both forms: no side condition) *)
  Theorem logasg_id_general bop aop x v :
    pairop bop aop ->
    forall m s, observe (ev (EBin bop (EId x) (EAssign (EId x) v)) m s)
              = observe (ev (EOpAsg aop (EId x) v) m s).
  Proof.
    intros Hop.
    set (L := fun _ : Z => False).
    apply (simM_observe S L veq); [intros ? ? ? H; exact H |].
    assert (Hdv : forall j, L j -> ~ In j (tmps v)) by (intros j []).
    destruct Hop as [[-> ->] | [[-> ->] | [-> ->]]]; cbn [eval opasg];
      (apply simM_assoc_l; eapply simM_bind; [apply simM_lift |]);
      intros l l0; apply simM_pure; intros ->;
      apply simM_ret_l; cbn [valof ov];
      split_if;
      try (apply simM_ret; intros; reflexivity);
      (apply simM_assoc_l; eapply simM_bind; [apply simM_fresh; [exact Hdv | apply stable_true] |]);
      intros r r0; apply simM_pure; intros ->;
      (apply simM_assoc_l; eapply simM_bind; [apply simM_lift |]);
      intros u u0; cbn beta; apply simM_ret_l; apply simM_ret; intros; reflexivity.
  Qed.

  (* ---- exponent assignment:  A = __pow(B, v) ---- *)
  Ltac al := repeat apply simM_assoc_l.

  Theorem powasg_dot_general t name v n f a n1 :
    capture t n = (f, a, n1) -> cap_ok t ->
    ~ In n (tmps t) -> ~ In n (tmps v) ->
    forall m s, observe (ev (EAssign (EDot f name OcNone) (EPowCall (EDot a name OcNone) v)) m s)
              = observe (ev (EOpAsg APow (EDot t name OcNone) v) m s).
  Proof.
    intros Hc Hok Hnt Hnv.
    set (L := fun k : Z => k = n).
    apply (simM_observe S L veq); [intros ? ? ? H; exact H |].
    assert (Hdt : forall k, L k -> ~ In k (tmps t)) by (intros k ->; exact Hnt).
    assert (Hdv : forall k, L k -> ~ In k (tmps v)) by (intros k ->; exact Hnv).
    assert (Hst : forall y, stable L (fun m0 : tstore => remp t n y m0 /\ True)).
    { intro y. apply stable_and; [apply remp_stable; reflexivity | apply stable_true]. }
    cbn [eval access opasg].
    eapply simM_bind;
      [ apply (piece_first L (fun _ => True) t n f a n1 Hc Hok eq_refl Hdt (stable_true L)); auto |].
    intros x y. apply simM_pure. intro E. rewrite E.
    al. eapply simM_left_pure;
      [ intros m0 s0 [Hr _]; apply (piece_again t n f a n1 _ m0 s0 Hc Hr) |].
    cbn [valof ov]. al. eapply simM_bind; [apply simM_lift |].
    intros l l0. apply simM_pure. intros ->. apply simM_ret_l. cbn [valof].
    al. eapply simM_bind; [apply simM_fresh; [exact Hdv | apply Hst] |].
    intros r r0. apply simM_pure. intros ->.
    al. eapply simM_bind; [apply simM_lift |].
    intros p p0. apply simM_pure. intros ->. apply simM_ret_l. cbn [valof ov].
    eapply simM_bind; [apply simM_lift |].
    intros u u0. apply simM_ret. intros; reflexivity.
  Qed.

  Theorem powasg_index_general t k v n f a n1 kf ka n2 :
    capture t n = (f, a, n1) -> capture k n1 = (kf, ka, n2) ->
    cap_ok t -> cap_ok k ->
    (forall j, n <= j < n + 2 -> ~ In j (tmps t) /\ ~ In j (tmps k) /\ ~ In j (tmps v)) ->
    forall m s, observe (ev (EAssign (EIndex f kf OcNone) (EPowCall (EIndex a ka OcNone) v)) m s)
              = observe (ev (EOpAsg APow (EIndex t k OcNone) v) m s).
  Proof.
    intros Hc Hck Hok Hokk Hfr.
    set (L := fun j : Z => n <= j < n + 2).
    apply (simM_observe S L veq); [intros ? ? ? H; exact H |].
    assert (Hdt : forall j, L j -> ~ In j (tmps t)) by (intros j Hj; apply (Hfr j Hj)).
    assert (Hdk : forall j, L j -> ~ In j (tmps k)) by (intros j Hj; apply (Hfr j Hj)).
    assert (Hdv : forall j, L j -> ~ In j (tmps v)) by (intros j Hj; apply (Hfr j Hj)).
    pose proof (capture_next t n f a n1 Hc) as Hn1.
    assert (Ln : L n) by (unfold L; lia).
    assert (Ln1 : L n1) by (unfold L; destruct (is_inline_value t); lia).
    assert (Hst1 : forall y, stable L (fun m0 : tstore => remp t n y m0 /\ True)).
    { intro y. apply stable_and; [apply remp_stable; exact Ln | apply stable_true]. }
    assert (Hst2 : forall y y2, stable L (fun m0 : tstore => remp k n1 y2 m0 /\ remp t n y m0 /\ True)).
    { intros y y2. apply stable_and; [apply remp_stable; exact Ln1 | apply Hst1]. }
    cbn [eval access opasg].
    eapply simM_bind;
      [ apply (piece_first L (fun _ => True) t n f a n1 Hc Hok Ln Hdt (stable_true L)); auto |].
    intros x y. apply simM_pure. intro E. rewrite E.
    eapply simM_bind;
      [ apply (piece_first L _ k n1 kf ka n2 Hck Hokk Ln1 Hdk (Hst1 (valof y)));
        intros m0 v0 [Hr _]; split; [| exact I];
        apply remp_tset'; [intro Hi; rewrite Hi in Hn1; lia | exact Hr] |].
    intros x2 y2. apply simM_pure. intro E2. rewrite E2.
    al. eapply simM_left_pure;
      [ intros m0 s0 [_ [Hr _]]; apply (piece_again t n f a n1 _ m0 s0 Hc Hr) |].
    cbn beta. al. eapply simM_left_pure;
      [ intros m0 s0 [Hr _]; apply (piece_again k n1 kf ka n2 _ m0 s0 Hck Hr) |].
    cbn [valof ov]. al. eapply simM_bind; [apply simM_lift |].
    intros l l0. apply simM_pure. intros ->. apply simM_ret_l. cbn [valof].
    al. eapply simM_bind; [apply simM_fresh; [exact Hdv | apply Hst2] |].
    intros r r0. apply simM_pure. intros ->.
    al. eapply simM_bind; [apply simM_lift |].
    intros p p0. apply simM_pure. intros ->. apply simM_ret_l. cbn [valof ov].
    eapply simM_bind; [apply simM_lift |].
    intros u u0. apply simM_ret. intros; reflexivity.
  Qed.

  Theorem powasg_id_general x v :
    forall m s, observe (ev (EAssign (EId x) (EPowCall (EId x) v)) m s)
              = observe (ev (EOpAsg APow (EId x) v) m s).
  Proof.
    set (L := fun _ : Z => False).
    apply (simM_observe S L veq); [intros ? ? ? H; exact H |].
    assert (Hdv : forall j, L j -> ~ In j (tmps v)) by (intros j []).
    cbn [eval opasg].
    al. eapply simM_bind; [apply simM_lift |].
    intros l l0. apply simM_pure. intros ->. apply simM_ret_l. cbn [valof ov].
    al. eapply simM_bind; [apply simM_fresh; [exact Hdv | apply stable_true] |].
    intros r r0. apply simM_pure. intros ->.
    al. eapply simM_bind; [apply simM_lift |].
    intros p p0. apply simM_pure. intros ->. apply simM_ret_l. cbn [valof ov].
    eapply simM_bind; [apply simM_lift |].
    intros u u0. apply simM_ret. intros; reflexivity.
  Qed.

  (* ---- the model's lowering functions, any well-formed target ---- *)
  Definition below (n : Z) (e : expr) : Prop := forall j, In j (tmps e) -> j < n.

  Definition valid_target (tgt : expr) : Prop :=
    match tgt with
    | EId _ => True
    | EDot t _ OcNone => cap_ok t
    | EIndex t k OcNone => cap_ok t /\ cap_ok k
    | _ => False
    end.

  Lemma below_not n e j : below n e -> n <= j -> ~ In j (tmps e).
  Proof. intros H Hj Hin. specialize (H j Hin). lia. Qed.

  Lemma capture_tmps t n f a n1 : capture t n = (f, a, n1) -> below n t ->
    below n1 f /\ below n1 a /\ n <= n1 <= n + 1.
  Proof.
    unfold capture. destruct (is_inline_value t); intros H Hb; injection H as <- <- <-.
    - repeat split; auto; lia.
    - repeat split; try lia.
      + intros j Hj. cbn in Hj. destruct Hj as [<- | Hj]; [lia | specialize (Hb j Hj); lia].
      + intros j Hj. cbn in Hj. destruct Hj as [<- | []]. lia.
  Qed.

  Theorem lowerLogicalAsg_general F bop aop tgt v n r :
    f_logasg F = true -> (bop = BOr /\ aop = AOr) \/ (bop = BAnd /\ aop = AAnd) ->
    valid_target tgt -> below n tgt -> below n v ->
    lowerLogicalAsg F bop tgt v n = Some r ->
    forall m s, observe (ev (fst r) m s) = observe (ev (EOpAsg aop tgt v) m s).
  Proof.
    intros HF Hop Hvt Hbt Hbv. unfold lowerLogicalAsg. rewrite HF. intro E; injection E as <-.
    assert (Hp : pairop bop aop) by (destruct Hop as [H | H]; [left | right; left]; exact H).
    destruct tgt; try contradiction; cbn [lowerAssignmentOperator].
    - cbn [fst]. apply logasg_id_general, Hp.
    - destruct o; try contradiction. cbn in Hbt.
      destruct (capture tgt n) as [[f a] n1] eqn:Hc. cbn [fst].
      apply (logasg_dot_general bop aop tgt name v n f a n1 Hp Hc Hvt);
        [apply (below_not n tgt n Hbt) | apply (below_not n v n Hbv)]; lia.
    - destruct o; try contradiction. destruct Hvt as [Ht Hk].
      assert (Hb1 : below n tgt1) by (intros j Hj; apply Hbt; cbn; apply in_app_iff; auto).
      assert (Hb2 : below n tgt2) by (intros j Hj; apply Hbt; cbn; apply in_app_iff; auto).
      destruct (capture tgt1 n) as [[f a] n1] eqn:Hc.
      destruct (capture tgt2 n1) as [[kf ka] n2] eqn:Hck. cbn [fst].
      apply (logasg_index_general bop aop tgt1 tgt2 v n f a n1 kf ka n2 Hp Hc Hck Ht Hk).
      intros j Hj. repeat split; [apply (below_not n tgt1 j Hb1) | apply (below_not n tgt2 j Hb2) | apply (below_not n v j Hbv)]; lia.
  Qed.

  Theorem lowerExpAsg_general tgt v n :
    valid_target tgt -> below n tgt -> below n v ->
    forall m s, observe (ev (fst (lowerExpAsg tgt v n)) m s) = observe (ev (EOpAsg APow tgt v) m s).
  Proof.
    intros Hvt Hbt Hbv. unfold lowerExpAsg.
    destruct tgt; try contradiction; cbn [lowerAssignmentOperator].
    - cbn [fst]. apply powasg_id_general.
    - destruct o; try contradiction. cbn in Hbt.
      destruct (capture tgt n) as [[f a] n1] eqn:Hc. cbn [fst].
      apply (powasg_dot_general tgt name v n f a n1 Hc Hvt);
        [apply (below_not n tgt n Hbt) | apply (below_not n v n Hbv)]; lia.
    - destruct o; try contradiction. destruct Hvt as [Ht Hk].
      assert (Hb1 : below n tgt1) by (intros j Hj; apply Hbt; cbn; apply in_app_iff; auto).
      assert (Hb2 : below n tgt2) by (intros j Hj; apply Hbt; cbn; apply in_app_iff; auto).
      destruct (capture tgt1 n) as [[f a] n1] eqn:Hc.
      destruct (capture tgt2 n1) as [[kf ka] n2] eqn:Hck. cbn [fst].
      apply (powasg_index_general tgt1 tgt2 v n f a n1 kf ka n2 Hc Hck Ht Hk).
      intros j Hj. repeat split; [apply (below_not n tgt1 j Hb1) | apply (below_not n tgt2 j Hb2) | apply (below_not n v j Hbv)]; lia.
  Qed.

  (* a ??= v; when ?? itself is lowered the identifier target "x != null ? x : x = v"
     reads x twice, so x must be a constant binding *)
  Theorem lowerNullishAsg_general F tgt v n r :
    f_logasg F = true ->
    valid_target tgt -> below n tgt -> below n v ->
    (f_nullish F = true -> forall x, tgt = EId x -> const_var x) ->
    lowerNullishAsg F tgt v n = Some r ->
    forall m s, observe (ev (fst r) m s) = observe (ev (EOpAsg ANullish tgt v) m s).
  Proof.
    intros HF Hvt Hbt Hbv Hcx. unfold lowerNullishAsg. rewrite HF. intro E; injection E as <-.
    assert (Hp : pairop BNullish ANullish) by (right; right; split; reflexivity).
    destruct tgt; try contradiction; cbn [lowerAssignmentOperator].
    - destruct (f_nullish F) eqn:HN; cbn [fst].
      + intros m s. rewrite lowerNullish_general.
        * apply logasg_id_general, Hp.
        * right. cbn. apply (Hcx eq_refl x eq_refl).
        * cbn. tauto.
        * cbn. apply (below_not n v n Hbv). lia.
      + apply logasg_id_general, Hp.
    - destruct o; try contradiction. cbn in Hbt.
      destruct (capture tgt n) as [[f a] n1] eqn:Hc.
      destruct (capture_tmps tgt n f a n1 Hc Hbt) as (Hbf & Hba & Hn1).
      assert (Hfin : forall m s, observe (ev (EBin BNullish (EDot f name OcNone) (EAssign (EDot a name OcNone) v)) m s)
                               = observe (ev (EOpAsg ANullish (EDot tgt name OcNone) v) m s)).
      { apply (logasg_dot_general BNullish ANullish tgt name v n f a n1 Hp Hc Hvt);
          [apply (below_not n tgt n Hbt) | apply (below_not n v n Hbv)]; lia. }
      destruct (f_nullish F); cbn [fst]; [| exact Hfin].
      intros m s. rewrite lowerNullish_general; [apply Hfin | left; reflexivity | |].
      + cbn. apply (below_not n1 f n1 Hbf). lia.
      + cbn. rewrite in_app_iff. intros [H | H].
        * apply (below_not n1 a n1 Hba) in H; [exact H | lia].
        * apply (below_not n v n1 Hbv) in H; [exact H | lia].
    - destruct o; try contradiction. destruct Hvt as [Ht Hk].
      assert (Hb1 : below n tgt1) by (intros j Hj; apply Hbt; cbn; apply in_app_iff; auto).
      assert (Hb2 : below n tgt2) by (intros j Hj; apply Hbt; cbn; apply in_app_iff; auto).
      destruct (capture tgt1 n) as [[f a] n1] eqn:Hc.
      destruct (capture_tmps tgt1 n f a n1 Hc Hb1) as (Hbf & Hba & Hn1).
      assert (Hb2' : below n1 tgt2) by (intros j Hj; specialize (Hb2 j Hj); lia).
      destruct (capture tgt2 n1) as [[kf ka] n2] eqn:Hck.
      destruct (capture_tmps tgt2 n1 kf ka n2 Hck Hb2') as (Hbkf & Hbka & Hn2).
      assert (Hfin : forall m s, observe (ev (EBin BNullish (EIndex f kf OcNone) (EAssign (EIndex a ka OcNone) v)) m s)
                               = observe (ev (EOpAsg ANullish (EIndex tgt1 tgt2 OcNone) v) m s)).
      { apply (logasg_index_general BNullish ANullish tgt1 tgt2 v n f a n1 kf ka n2 Hp Hc Hck Ht Hk).
        intros j Hj. repeat split; [apply (below_not n tgt1 j Hb1) | apply (below_not n tgt2 j Hb2) | apply (below_not n v j Hbv)]; lia. }
      destruct (f_nullish F); cbn [fst]; [| exact Hfin].
      intros m s. rewrite lowerNullish_general; [apply Hfin | left; reflexivity | |].
      + cbn. rewrite in_app_iff. intros [H | H].
        * specialize (Hbf n2 H). lia.
        * apply (below_not n2 kf n2 Hbkf) in H; [exact H | lia].
      + cbn. rewrite !in_app_iff. intros [[H | H] | H].
        * specialize (Hba n2 H). lia.
        * apply (below_not n2 ka n2 Hbka) in H; [exact H | lia].
        * apply (below_not n v n2 Hbv) in H; [exact H | lia].
  Qed.
End Steps.
