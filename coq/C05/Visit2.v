(* The whole-visitor theorem for expressions WITH optional-chain links:
   composition of the chain theorems (Chain2.v) with the congruences and the
   per-step theorems, by induction over the expression tree.  A chain fragment
   (a node whose parent is an OcCont link or a delete) is carried through the
   induction unlowered but with lowered pieces, exactly as visitExprInOut does;
   the root of the chain applies lowerOptionalChain. *)
From V Require Import Common.Base C05.Syntax C05.Sem C05.Lower C05.Frame C05.LowerProofs C05.SimLogic
     C05.Steps C05.Compose C05.Visit C05.Chain C05.Chain2.

Section Visit2.
  Variable S : Type.
  Variable w : world S.
  Variable th : val.
  Notation ev := (eval w th).
  Notation evl := (eval_list S w th).
  Notation simM := (simM S).
  Notation Rv := (Rv S w th).
  Notation Rb := (Rb S w th).
  Notation Rx := (Rx S w th).

  Definition is_chain_link (e : expr) : bool :=
    match e with
    | EDot _ _ o | EIndex _ _ o | ECall _ _ o => negb (oc_eqb o OcNone)
    | _ => false
    end.

  (* ---- congruence for the links of a chain (exact outcomes: value, base, short-circuit) ---- *)
  Ltac pre H := cbn beta; first [apply simM_pre_const | apply simM_pre_and]; intro H.
  Ltac lft := eapply simM_bind; [apply simM_lift |]; let a := fresh "x" in let b := fresh "x" in
              let E := fresh "E" in intros a b; pre E; subst.
  Ltac fin := apply simM_ret; intros; cbn; auto.

  Lemma cong_dot_start t' t name : Rv t' t -> Rx (EDot t' name OcStart) (EDot t name OcStart).
  Proof.
    intro H. unfold Compose.Rx, R. cbn [eval access].
    eapply simM_bind; [exact H |]. intros a a0. pre E. unfold pv in E. rewrite E.
    destruct (nullish (valof a0)); [fin |]. lft. fin.
  Qed.

  Lemma cong_dot_cont t' t name : Rx t' t -> Rx (EDot t' name OcCont) (EDot t name OcCont).
  Proof.
    intro H. unfold Compose.Rx, R. cbn [eval access].
    eapply simM_bind; [exact H |]. intros a a0. pre E. subst a0.
    destruct a; [| fin]. lft. fin.
  Qed.

  Lemma cong_index_start t' t k' k : Rv t' t -> Rv k' k -> Rx (EIndex t' k' OcStart) (EIndex t k OcStart).
  Proof.
    intros H Hk. unfold Compose.Rx, R. cbn [eval access].
    eapply simM_bind; [exact H |]. intros a a0. pre E. unfold pv in E. rewrite E.
    destruct (nullish (valof a0)); [fin |].
    eapply simM_bind; [exact Hk |]. intros b b0. pre E2. unfold pv in E2. rewrite E2. lft. fin.
  Qed.

  Lemma cong_index_cont t' t k' k : Rx t' t -> Rv k' k -> Rx (EIndex t' k' OcCont) (EIndex t k OcCont).
  Proof.
    intros H Hk. unfold Compose.Rx, R. cbn [eval access].
    eapply simM_bind; [exact H |]. intros a a0. pre E. subst a0.
    destruct a; [| fin].
    eapply simM_bind; [exact Hk |]. intros b b0. pre E2. unfold pv in E2. rewrite E2. lft. fin.
  Qed.

  Lemma cong_call_start f' f args' args :
    Rb f' f -> Forall2 Rv args' args -> Rx (ECall f' args' OcStart) (ECall f args OcStart).
  Proof.
    intros H Ha. unfold Compose.Rx, R. cbn [eval access]. fold (evl args'). fold (evl args).
    eapply simM_bind; [exact H |]. intros a a0. pre E. destruct E as [E1 E2]. rewrite E1, E2.
    destruct (nullish (valof a0)); [fin |].
    eapply simM_bind; [apply cong_list, Ha |]. intros vs vs0. pre E. subst. lft. fin.
  Qed.

  Lemma cong_call_cont f' f args' args :
    Rx f' f -> Forall2 Rv args' args -> Rx (ECall f' args' OcCont) (ECall f args OcCont).
  Proof.
    intros H Ha. unfold Compose.Rx, R. cbn [eval access]. fold (evl args'). fold (evl args).
    eapply simM_bind; [exact H |]. intros a a0. pre E. subst a0.
    destruct a; [| fin].
    eapply simM_bind; [apply cong_list, Ha |]. intros vs vs0. pre E. subst. lft. fin.
  Qed.

  (* delete of a chain: the last member link deletes; a short circuit gives true *)
  Lemma cong_delete_dot_oc t' t name o :
    (o = OcCont -> Rx t' t) -> (o <> OcCont -> Rv t' t) ->
    Rx (EDelete (EDot t' name o)) (EDelete (EDot t name o)).
  Proof.
    intros Hc Hv. unfold Compose.Rx, R. cbn [eval].
    destruct o.
    - apply cong_delete_dot. apply Hv. discriminate.
    - cbn [access]. eapply simM_bind; [apply Hv; discriminate |]. intros a a0. pre E. unfold pv in E. rewrite E.
      eapply simM_bind with (Mid := fun _ (x y : out) => x = y).
      + destruct (nullish (valof a0)); [fin |]. lft. fin.
      + intros b b0. pre E2. subst. fin.
    - cbn [access]. eapply simM_bind; [apply Hc; reflexivity |]. intros a a0. pre E. subst a0.
      eapply simM_bind with (Mid := fun _ (x y : out) => x = y).
      + destruct a; [| fin]. lft. fin.
      + intros b b0. pre E2. subst. fin.
  Qed.

  Lemma cong_delete_index_oc t' t k' k o :
    (o = OcCont -> Rx t' t) -> (o <> OcCont -> Rv t' t) -> Rv k' k ->
    Rx (EDelete (EIndex t' k' o)) (EDelete (EIndex t k o)).
  Proof.
    intros Hc Hv Hk. unfold Compose.Rx, R. cbn [eval].
    destruct o.
    - apply cong_delete_index; [apply Hv; discriminate | exact Hk].
    - cbn [access]. eapply simM_bind; [apply Hv; discriminate |]. intros a a0. pre E. unfold pv in E. rewrite E.
      eapply simM_bind with (Mid := fun _ (x y : out) => x = y).
      + destruct (nullish (valof a0)); [fin |].
        eapply simM_bind; [exact Hk |]. intros b b0. pre E2. unfold pv in E2. rewrite E2. lft. fin.
      + intros b b0. pre E2. subst. fin.
    - cbn [access]. eapply simM_bind; [apply Hc; reflexivity |]. intros a a0. pre E. subst a0.
      eapply simM_bind with (Mid := fun _ (x y : out) => x = y).
      + destruct a; [| fin].
        eapply simM_bind; [exact Hk |]. intros b b0. pre E2. unfold pv in E2. rewrite E2. lft. fin.
      + intros b b0. pre E2. subst. fin.
  Qed.

  (* ---- the temporaries of what lowerOptionalChain builds ---- *)
  Definition links_below (n : Z) (ls : list link) : Prop :=
    forall l, In l ls -> forall j, In j (link_tmps l) -> j < n.

  Lemma flatten_below e : forall c start ls swc, below c e -> flatten e = Some (start, ls, swc) ->
    below c start /\ links_below c ls.
  Proof.
    induction e using expr_ind'; intros c start ls swc Hb E; cbn [flatten] in E; try discriminate E.
    - (* EDot *)
      destruct o.
      + destruct (flatten e) as [[[st ls0] c0] |] eqn:E0; [| discriminate E]. injection E as <- <- <-.
        destruct (IHe c st ls0 c0 Hb eq_refl) as [H1 H2]. split; [exact H1 |].
        intros l Hl j Hj. apply in_app_iff in Hl. destruct Hl as [Hl | [<- | []]]; [apply (H2 l Hl j Hj) | contradiction].
      + injection E as <- <- <-. split; [exact Hb |]. intros l [<- | []] j Hj. contradiction.
      + destruct (flatten e) as [[[st ls0] c0] |] eqn:E0; [| discriminate E]. injection E as <- <- <-.
        destruct (IHe c st ls0 c0 Hb eq_refl) as [H1 H2]. split; [exact H1 |].
        intros l Hl j Hj. apply in_app_iff in Hl. destruct Hl as [Hl | [<- | []]]; [apply (H2 l Hl j Hj) | contradiction].
    - (* EIndex *)
      assert (Hb1 : below c e1) by (intros j Hj; apply Hb; cbn; apply in_app_iff; auto).
      assert (Hb2 : below c e2) by (intros j Hj; apply Hb; cbn; apply in_app_iff; auto).
      destruct o.
      + destruct (flatten e1) as [[[st ls0] c0] |] eqn:E0; [| discriminate E]. injection E as <- <- <-.
        destruct (IHe1 c st ls0 c0 Hb1 eq_refl) as [H1 H2]. split; [exact H1 |].
        intros l Hl j Hj. apply in_app_iff in Hl. destruct Hl as [Hl | [<- | []]]; [apply (H2 l Hl j Hj) | apply Hb2, Hj].
      + injection E as <- <- <-. split; [exact Hb1 |]. intros l [<- | []] j Hj. apply Hb2, Hj.
      + destruct (flatten e1) as [[[st ls0] c0] |] eqn:E0; [| discriminate E]. injection E as <- <- <-.
        destruct (IHe1 c st ls0 c0 Hb1 eq_refl) as [H1 H2]. split; [exact H1 |].
        intros l Hl j Hj. apply in_app_iff in Hl. destruct Hl as [Hl | [<- | []]]; [apply (H2 l Hl j Hj) | apply Hb2, Hj].
    - (* ECall *)
      assert (Hb1 : below c e) by (intros j Hj; apply Hb; cbn; apply in_app_iff; auto).
      assert (Hb2 : forall j, In j (flat_map tmps args) -> j < c) by (intros j Hj; apply Hb; cbn; apply in_app_iff; auto).
      destruct o.
      + destruct (flatten e) as [[[st ls0] c0] |] eqn:E0; [| discriminate E]. injection E as <- <- <-.
        destruct (IHe c st ls0 c0 Hb1 eq_refl) as [H1 H2]. split; [exact H1 |].
        intros l Hl j Hj. apply in_app_iff in Hl. destruct Hl as [Hl | [<- | []]]; [apply (H2 l Hl j Hj) | apply Hb2, Hj].
      + injection E as <- <- <-. split; [exact Hb1 |]. intros l [<- | []] j Hj. apply Hb2, Hj.
      + destruct (flatten e) as [[[st ls0] c0] |] eqn:E0; [| discriminate E]. injection E as <- <- <-.
        destruct (IHe c st ls0 c0 Hb1 eq_refl) as [H1 H2]. split; [exact H1 |].
        intros l Hl j Hj. apply in_app_iff in Hl. destruct Hl as [Hl | [<- | []]]; [apply (H2 l Hl j Hj) | apply Hb2, Hj].
    - (* EDelete *)
      destruct (flatten e) as [[[st ls0] c0] |] eqn:E0; [| discriminate E]. injection E as <- <- <-.
      destruct (IHe c st ls0 c0 Hb eq_refl) as [H1 H2]. split; [exact H1 |].
      intros l Hl j Hj. apply in_app_iff in Hl. destruct Hl as [Hl | [<- | []]]; [apply (H2 l Hl j Hj) | contradiction].
  Qed.

  Lemma link_apply_below n l result (thisA : option expr) (inner : bool) :
    below n result -> (forall t, thisA = Some t -> below n t) -> (forall j, In j (link_tmps l) -> j < n) ->
    below n (match l with
             | LDot name => EDot result name OcNone
             | LIndex k => EIndex result k OcNone
             | LCall args => match inner, thisA with
                             | true, Some t => ECallThis result t args
                             | _, _ => ECall result args OcNone
                             end
             | LDelete => EDelete result
             end).
  Proof.
    intros Hr Ht Hl. destruct l; cbn [link_tmps] in Hl.
    - exact Hr.
    - intros j Hj. cbn in Hj. apply in_app_iff in Hj. destruct Hj; [apply Hr | apply Hl]; assumption.
    - destruct inner, thisA as [t |]; intros j Hj; cbn in Hj; rewrite ?in_app_iff in Hj;
        repeat match goal with H : _ \/ _ |- _ => destruct H end;
        first [apply Hr; assumption | apply Hl; assumption | apply (Ht t eq_refl); assumption].
    - exact Hr.
  Qed.

  Lemma apply_links_below ls : forall result thisA inner store n res pth n4,
    apply_links ls result thisA inner store n = (res, pth, n4) ->
    below n result -> (forall t, thisA = Some t -> below n t) -> links_below n ls ->
    n <= n4 <= n + 1 /\ below n4 res /\ (forall t, pth = Some t -> below n4 t).
  Proof.
    induction ls as [| l rest IH]; intros result thisA inner store n res pth n4 E Hr Ht Hl; cbn [apply_links] in E.
    - injection E as <- <- <-. split; [lia |]. split; [exact Hr | intros t Hpt; discriminate Hpt].
    - assert (Hl1 : forall j, In j (link_tmps l) -> j < n) by (apply Hl; left; reflexivity).
      assert (Hlr : links_below n rest) by (intros x Hx; apply Hl; right; exact Hx).
      destruct rest as [| l2 rest2].
      + (* outermost *)
        destruct (true && store) eqn:Est.
        * destruct (capture result n) as [[f a] n1] eqn:Hc.
          destruct (capture_tmps result n f a n1 Hc Hr) as (Hf & Ha & Hn1).
          injection E as <- <- <-. split; [lia |]. split.
          -- apply link_apply_below; [exact Hf | | intros j Hj; specialize (Hl1 j Hj); lia].
             intros t Hth. apply (below_mono n n1); [lia | apply Ht, Hth].
          -- intros t Hpt. injection Hpt as <-. exact Ha.
        * injection E as <- <- <-. split; [lia |]. split; [| intros t Hpt; discriminate Hpt].
          apply link_apply_below; assumption.
      + cbn [andb] in E. apply IH in E; auto. apply link_apply_below; assumption.
  Qed.

  Lemma links_below_mono n n' ls : n <= n' -> links_below n ls -> links_below n' ls.
  Proof. intros Hn H l Hl j Hj. specialize (H l Hl j Hj). lia. Qed.

  Lemma loc_below F e0 i childOut n lo o n' :
    lowerOptionalChain F e0 i childOut n = (lo, o, n') ->
    below n e0 -> (forall t, thisArg childOut = Some t -> below n t) ->
    n <= n' <= n + 3 /\ below n' lo /\ (forall t, thisArg o = Some t -> below n' t) /\ childChain o = false.
  Proof.
    intros E Hb Ht. unfold lowerOptionalChain in E.
    destruct (flatten e0) as [[[start links] swc] |] eqn:Hfl.
    2: { injection E as <- <- <-. split; [lia |]. split; [exact Hb |]. split; [intros t H; discriminate H | reflexivity]. }
    destruct (flatten_below e0 n start links swc Hb Hfl) as [Hbs Hbl].
    assert (Hlit : forall (x : expr), (x = EBool true \/ x = EUndef) -> below n x).
    { intros x [-> | ->]; intros j Hj; cbn in Hj; contradiction. }
    assert (Hwhen : below n (if is_delete e0 then EBool true else EUndef)).
    { apply Hlit. destruct (is_delete e0); auto. }
    assert (Hdead : (lo, o, n') = ((if is_delete e0 then EBool true else EUndef), out0, n) ->
                    n <= n' <= n + 3 /\ below n' lo /\ (forall t, thisArg o = Some t -> below n' t) /\ childChain o = false).
    { intro E'. injection E' as -> -> ->. split; [lia |]. split; [exact Hwhen |]. split; [intros t H; discriminate H | reflexivity]. }
    assert (Hmain : (if negb (f_optchain F) then (e0, out0, n) else
              let '(start0, thisA, n0) :=
                if swc then
                  match thisArg childOut with
                  | Some t => (start, Some t, n)
                  | None =>
                      match start with
                      | EDot tg name _ => let '(f, a, n1) := capture tg n in (EDot f name OcNone, Some a, n1)
                      | EIndex tg k _ => let '(f, a, n1) := capture tg n in (EIndex f k OcNone, Some a, n1)
                      | _ => (start, None, n)
                      end
                  end
                else (start, None, n) in
              let '(first, again, n1) := capture start0 n0 in
              let '(result, parentThis, n2) :=
                apply_links links again thisA true (storeThis i && ends_with_access e0) n1 in
              (EIf (EEqNull false first) (if is_delete e0 then EBool true else EUndef) result,
               mkOut parentThis false, n2)) = (lo, o, n') ->
            n <= n' <= n + 3 /\ below n' lo /\ (forall t, thisArg o = Some t -> below n' t) /\ childChain o = false).
    { destruct (negb (f_optchain F)).
      { intro E'. injection E' as <- <- <-. split; [lia |]. split; [exact Hb |]. split; [intros t H; discriminate H | reflexivity]. }
      assert (Hstep : forall start0 thisA n0, n <= n0 <= n + 1 -> below n0 start0 ->
                (forall t, thisA = Some t -> below n0 t) ->
                (let '(first, again, n1) := capture start0 n0 in
                 let '(result, parentThis, n2) :=
                   apply_links links again thisA true (storeThis i && ends_with_access e0) n1 in
                 (EIf (EEqNull false first) (if is_delete e0 then EBool true else EUndef) result,
                  mkOut parentThis false, n2)) = (lo, o, n') ->
                n <= n' <= n + 3 /\ below n' lo /\ (forall t, thisArg o = Some t -> below n' t) /\ childChain o = false).
      { intros start0 thisA n0 Hn0 Hb0 Ht0.
        destruct (capture start0 n0) as [[first again] n1] eqn:Hc.
        destruct (capture_tmps start0 n0 first again n1 Hc Hb0) as (Hbf & Hba & Hn1).
        destruct (apply_links links again thisA true (storeThis i && ends_with_access e0) n1) as [[result pth] n2] eqn:Hal.
        intro E'. injection E' as <- <- <-.
        destruct (apply_links_below links again thisA true _ n1 result pth n2 Hal Hba) as (Hn2 & Hbr & Hbp).
        { intros t Hth. apply (below_mono n0 n1); [lia | apply Ht0, Hth]. }
        { apply (links_below_mono n n1); [lia | exact Hbl]. }
        split; [lia |]. split; [| split; [exact Hbp | reflexivity]].
        intros j Hj. cbn in Hj. rewrite !in_app_iff in Hj. destruct Hj as [Hj | [Hj | Hj]].
        - specialize (Hbf j Hj). lia.
        - pose proof (below_mono n n2 _ ltac:(lia) Hwhen j Hj). assumption.
        - apply Hbr, Hj. }
      destruct swc; [| apply Hstep; [lia | exact Hbs | intros t H; discriminate H]].
      destruct (thisArg childOut) as [t |] eqn:Hta.
      { apply Hstep; [lia | exact Hbs |]. intros t' H. injection H as <-. apply Ht. reflexivity. }
      destruct start; try (apply Hstep; [lia | exact Hbs | intros t H; discriminate H]).
      - (* EDot *) cbn in Hbs. destruct (capture start n) as [[f a] n1] eqn:Hc.
        destruct (capture_tmps start n f a n1 Hc Hbs) as (Hbf & Hba & Hn1).
        apply Hstep; [lia | exact Hbf |]. intros t H. injection H as <-. exact Hba.
      - (* EIndex *)
        assert (Hb1 : below n start1) by (intros j Hj; apply Hbs; cbn; apply in_app_iff; auto).
        assert (Hb2 : below n start2) by (intros j Hj; apply Hbs; cbn; apply in_app_iff; auto).
        destruct (capture start1 n) as [[f a] n1] eqn:Hc.
        destruct (capture_tmps start1 n f a n1 Hc Hb1) as (Hbf & Hba & Hn1).
        apply Hstep; [lia | | intros t H; injection H as <-; exact Hba].
        intros j Hj. cbn in Hj. apply in_app_iff in Hj. destruct Hj as [Hj | Hj]; [apply Hbf, Hj | specialize (Hb2 j Hj); lia]. }
    destruct start; try (apply Hmain; exact E); apply Hdead; symmetry; exact E.
  Qed.

  Lemma apply_links_nostore ls : forall result thisA inner n,
    snd (fst (apply_links ls result thisA inner false n)) = None.
  Proof.
    induction ls as [| l rest IH]; intros result thisA inner n; [reflexivity |].
    cbn [apply_links]. destruct rest; [rewrite andb_false_r; reflexivity |]. cbn [andb]. apply IH.
  Qed.

  Lemma loc_this_none F e0 i childOut n :
    storeThis i && ends_with_access e0 = false ->
    thisArg (snd (fst (lowerOptionalChain F e0 i childOut n))) = None.
  Proof.
    intro Hst. unfold lowerOptionalChain.
    destruct (flatten e0) as [[[start links] swc] |]; [| reflexivity].
    rewrite Hst.
    assert (G : forall start0 thisA n0,
              thisArg (snd (fst (let '(first, again, n1) := capture start0 n0 in
                                 let '(result, parentThis, n2) := apply_links links again thisA true false n1 in
                                 (EIf (EEqNull false first) (if is_delete e0 then EBool true else EUndef) result,
                                  mkOut parentThis false, n2)))) = None).
    { intros start0 thisA n0. destruct (capture start0 n0) as [[first again] n1].
      pose proof (apply_links_nostore links again thisA true n1) as H.
      destruct (apply_links links again thisA true false n1) as [[result pth] n2]. exact H. }
    destruct start; try reflexivity;
      (destruct (negb (f_optchain F)); [reflexivity |]);
      (destruct swc; [| apply G]);
      (destruct (thisArg childOut); [apply G |]); try apply G.
    - destruct (capture start n) as [[f a] n1]. apply G.
    - destruct (capture start1 n) as [[f a] n1]. apply G.
  Qed.

  Lemma capture_robust2 (L : tpred) bound t n f a n1 :
    capture t n = (f, a, n1) -> cap_ok S w t -> L n -> n1 <= bound -> robust S w th L bound a.
  Proof.
    unfold capture. destruct (is_inline_value t) eqn:Hi; intros Hc Hok Hn Hb; injection Hc as <- <- <-.
    - destruct Hok as [Hok | Hd]; [congruence |]. apply robust_const; assumption.
    - apply robust_tmp; [assumption | lia].
  Qed.

  (* ---- the source fragment with optional chains ---- *)
  Hypothesis Hbin : binop_nonnull S w.
  Hypothesis Hdel : del_nonnull S w.
  Hypothesis Hci : call_intact S w.
  Variable F : feat.
  Variable C : Z -> Prop.
  Hypothesis HC : forall x, C x -> const_var S w x.
  Notation all_const := (all_const C).
  Notation sub_inv := (sub_inv S w th).

  Definition is_nullish_bin (e : expr) : bool := match e with EBin BNullish _ _ => true | _ => false end.

  Fixpoint src2 (e : expr) : Prop :=
    let fix all (l : list expr) : Prop :=
      match l with [] => True | x :: r => src2 x /\ all r end in
    match e with
    | ENull | EUndef | EThis | EBool _ | ENum _ | EStr _ | EId _ => True
    | EDot t _ o => src2 t /\ (o = OcCont -> is_chain_link t = true) /\
        (f_optchain F = true -> o = OcStart -> all_const (head_ids t))
    | EIndex t k o => src2 t /\ src2 k /\ (o = OcCont -> is_chain_link t = true) /\
        (f_optchain F = true -> o = OcStart -> all_const (head_ids t))
    | ECall f args o => src2 f /\ all args /\ (o = OcCont -> is_chain_link f = true) /\
        (* a call on a chain that ends in a member access needs the this value of the
           inner chain: parenthesised (refuted, F4) or optional (not composed yet) *)
        (o <> OcCont -> is_chain_access f = false) /\
        (o = OcStart -> is_nullish_bin f = false) /\
        (f_optchain F = true -> o = OcStart ->
         match f with
         | EDot tg _ _ | EIndex tg _ _ => all_const (head_ids tg)
         | _ => all_const (head_ids f)
         end)
    | EDelete d => ends_with_access d = true /\ src2 d
    | EAssign tgt v => tgt_shape tgt /\ src2 tgt /\ src2 v
    | EBin op a b => src2 a /\ src2 b /\
        (op = BNullish -> f_nullish F = true -> all_const (head_ids a))
    | EOpAsg op tgt v => tgt_shape tgt /\ src2 tgt /\ src2 v /\
        (op_lowered F op = true ->
         match tgt with
         | EDot t _ _ => all_const (head_ids t)
         | EIndex t k _ => all_const (head_ids t) /\ all_const (head_ids k)
         | EId x => op = ANullish -> f_nullish F = true -> C x
         | _ => True
         end)
    | _ => False
    end.

  Fixpoint srcs2 (l : list expr) : Prop := match l with [] => True | x :: r => src2 x /\ srcs2 r end.

  Definition ok_in (i : xin) (e : expr) : Prop := storeThis i = true -> is_chain_access e = false.

  Definition nonacc (e e' : expr) : Prop :=
    ends_with_access e = false -> is_nullish_bin e = false -> ends_with_access e' = false.

  Definition inv2 (e e' : expr) (n n' : Z) : Prop :=
    n <= n' /\ below n' e' /\ Rv e' e /\
    (ends_with_access e = true -> is_chain_link e = false -> Rx e' e /\ ends_with_access e' = true) /\
    (forall k, e' <> ETmp k) /\ (forall x, e' = EId x -> In x (head_ids e)).

  Definition startfacts (swc : bool) (start' : expr) : Prop :=
    if swc then
      (exists tg name, start' = EDot tg name OcNone /\ cap_ok S w tg) \/
      (exists tg k, start' = EIndex tg k OcNone /\ cap_ok S w tg) \/
      (ends_with_access start' = false /\ cap_ok S w start')
    else cap_ok S w start'.

  Definition chainfacts (e' : expr) : Prop :=
    f_optchain F = true ->
    exists start' ls' swc, flatten e' = Some (start', ls', swc) /\ no_delete ls' /\ startfacts swc start'.

  Definition fsub (e e' : expr) : Prop :=
    match e with
    | EDot t name o => exists t', e' = EDot t' name o /\ (o = OcCont -> Rx t' t) /\ (o <> OcCont -> Rv t' t)
    | EIndex t k o => exists t' k', e' = EIndex t' k' o /\ (o = OcCont -> Rx t' t) /\ (o <> OcCont -> Rv t' t) /\ Rv k' k
    | _ => True
    end.

  Definition fragc (e e' : expr) (o : xout) (n n' : Z) : Prop :=
    n <= n' /\ below n' e' /\ frag e' /\ Rx e' e /\ childChain o = true /\ thisArg o = None /\ chainfacts e' /\ fsub e e' /\
    ends_with_access e' = ends_with_access e.

  Definition concl2 (i : xin) (e : expr) (r : expr * xout * Z) (n : Z) : Prop :=
    match r with (e', o, n') =>
      if hasChainParent i && is_chain_link e then fragc e e' o n n'
      else inv2 e e' n n' /\ (is_chain_link e = false -> sub_inv e e') /\
           childChain o = false /\ thisArg o = None /\ nonacc e e'
    end.

  Definition Lge (n : Z) : tpred := fun k => n <= k.

  Lemma links_below_fresh n ls : links_below n ls -> links_fresh (Lge n) ls.
  Proof. intros H l Hl k Hk Hin. specialize (H l Hl k Hin). unfold Lge in Hk. lia. Qed.

  Lemma below_fresh n e : below n e -> forall k, Lge n k -> ~ In k (tmps e).
  Proof. intros H k Hk Hin. specialize (H k Hin). unfold Lge in Hk. lia. Qed.

  (* observational equality of a lowered chain with the chain it replaces
     (same pieces): all cases of steps 1-5 *)
  Lemma root_obs e' i out n1 :
    below n1 e' -> frag e' -> thisArg out = None -> chainfacts e' ->
    (storeThis i = true -> ends_with_access e' = false) ->
    forall m s, observe (ev (fst (fst (lowerOptionalChain F e' i out n1))) m s) = observe (ev e' m s).
  Proof.
    intros Hb Hfr Hto Hcf Hsti.
    destruct (frag_flatten e' Hfr) as (start & ls & swc & Hfl & Hne).
    destruct (flatten_below e' n1 start ls swc Hb Hfl) as [Hbs Hbl].
    destruct (native_chain S w th e' Hfr start ls swc Hfl) as [_ Hnat].
    assert (Hdec : (start = ENull \/ start = EUndef) \/ (start <> ENull /\ start <> EUndef)).
    { destruct start; try (right; split; discriminate); left; auto. }
    destruct Hdec as [Hdead | [Hn1 Hn2]].
    { apply (chain_dead S w th F e' i out n1 start ls swc Hfr Hfl Hdead). }
    destruct (f_optchain F) eqn:HF.
    2: { intros m s. unfold lowerOptionalChain. rewrite Hfl, (start_match start _ _ Hn1 Hn2), HF. reflexivity. }
    destruct (Hcf HF) as (start' & ls' & swc' & Hfl' & Hnd & Hsf).
    rewrite Hfl in Hfl'. injection Hfl' as <- <- <-.
    assert (Hstore : storeThis i && ends_with_access e' = false).
    { destruct (storeThis i) eqn:Es; [rewrite (Hsti eq_refl) |]; reflexivity. }
    pose proof (flatten_head e' Hfr start ls swc Hfl) as Hhd.
    set (L := Lge n1).
    assert (Ln1 : L n1) by (unfold L, Lge; lia).
    assert (Hlf : links_fresh L ls) by (apply links_below_fresh, Hbl).
    assert (Hmd : mode_of false (storeThis i && ends_with_access e') = TPlain) by (rewrite Hstore; reflexivity).
    destruct swc; cbn [startfacts] in Hsf.
    - (* the chain starts with a call *)
      destruct ls as [| l0 rest]; [contradiction |].
      destruct l0; cbn [head_call] in Hhd; try discriminate Hhd.
      assert (Hndr : no_delete rest) by (inversion Hnd; assumption).
      destruct Hsf as [(tg & name & -> & Hok) | [(tg & key & -> & Hok) | (Hna & Hok)]].
      + (* tg.name?.( *)
        cbn in Hbs.
        destruct (capture tg n1) as [[f a] n2] eqn:Hc.
        destruct (capture_tmps tg n1 f a n2 Hc Hbs) as (_ & _ & Hn2b).
        assert (Ln2 : L n2) by (unfold L, Lge; lia).
        pose proof (loc_sound_some S w th L F e' i out n1 (EDot tg name OcNone) args rest true
                      (EDot f name OcNone) a n2 (EAssign (ETmp n2) (EDot f name OcNone)) (ETmp n2) (n2 + 1)
                      (ev (EDot tg name OcNone)) false) as T.
        cbn zeta in T. rewrite Hmd in T.
        apply (simM_observe S L (fun m a0 b => PostR S w th TPlain (thisArg (snd (fst (lowerOptionalChain F e' i out n1)))) m a0 b)).
        { intros m0 a0 b0 [H _]. exact H. }
        eapply simM_ext; [intros; reflexivity | intros m0 s0; apply Hnat |].
        apply T; auto; try discriminate.
        * apply (frag_not_delete e' Hfr).
        * cbn [step2]. rewrite Hto, Hc. reflexivity.
        * apply (start_member S w th L (LCall args :: rest) tg name n1 f a n2 Hc Hok Ln1 Ln2 (below_fresh n1 tg Hbs)).
        * apply robust_tmp; [exact Ln2 | lia].
        * apply (capture_robust2 L (n2 + 1) tg n1 f a n2 Hc Hok Ln1). lia.
        * unfold L, Lge. lia.
      + (* tg[key]?.( *)
        assert (Hb1 : below n1 tg) by (intros j Hj; apply Hbs; cbn; apply in_app_iff; auto).
        assert (Hb2 : below n1 key) by (intros j Hj; apply Hbs; cbn; apply in_app_iff; auto).
        destruct (capture tg n1) as [[f a] n2] eqn:Hc.
        destruct (capture_tmps tg n1 f a n2 Hc Hb1) as (_ & _ & Hn2b).
        assert (Ln2 : L n2) by (unfold L, Lge; lia).
        pose proof (loc_sound_some S w th L F e' i out n1 (EIndex tg key OcNone) args rest true
                      (EIndex f key OcNone) a n2 (EAssign (ETmp n2) (EIndex f key OcNone)) (ETmp n2) (n2 + 1)
                      (ev (EIndex tg key OcNone)) false) as T.
        cbn zeta in T. rewrite Hmd in T.
        apply (simM_observe S L (fun m a0 b => PostR S w th TPlain (thisArg (snd (fst (lowerOptionalChain F e' i out n1)))) m a0 b)).
        { intros m0 a0 b0 [H _]. exact H. }
        eapply simM_ext; [intros; reflexivity | intros m0 s0; apply Hnat |].
        apply T; auto; try discriminate.
        * apply (frag_not_delete e' Hfr).
        * cbn [step2]. rewrite Hto, Hc. reflexivity.
        * apply (start_index S w th L (LCall args :: rest) tg key n1 f a n2 Hc Hok Ln1 Ln2 (below_fresh n1 tg Hb1) (below_fresh n1 key Hb2)).
        * apply robust_tmp; [exact Ln2 | lia].
        * apply (capture_robust2 L (n2 + 1) tg n1 f a n2 Hc Hok Ln1). lia.
        * unfold L, Lge. lia.
      + (* start?.( with a start that is not a member access *)
        destruct (capture start n1) as [[first again] n3] eqn:Hc.
        destruct (capture_tmps start n1 first again n3 Hc Hbs) as (_ & _ & Hn3b).
        pose proof (loc_sound_none S w th L F e' i out n1 start (LCall args :: rest) true first again n3
                      (ev start) false) as T.
        cbn zeta in T. rewrite Hmd in T.
        apply (simM_observe S L (fun m a0 b => PostR S w th TPlain (thisArg (snd (fst (lowerOptionalChain F e' i out n1)))) m a0 b)).
        { intros m0 a0 b0 [H _]. exact H. }
        eapply simM_ext; [intros; reflexivity | intros m0 s0; apply Hnat |].
        apply T; auto; try discriminate.
        * apply (frag_not_delete e' Hfr).
        * cbn [step2]. rewrite Hto. destruct start; try reflexivity; discriminate Hna.
        * apply (start_plain S w th L (LCall args :: rest) start n1 first again n3 Hc Hok Ln1 (below_fresh n1 start Hbs)).
          intros _ m0 s0. apply (nonaccess_base S w th start Hna m0 s0).
        * apply (capture_robust2 L n3 start n1 first again n3 Hc Hok Ln1). lia.
        * unfold L, Lge. lia.
    - (* the chain starts with a member access *)
      destruct (capture start n1) as [[first again] n3] eqn:Hc.
      destruct (capture_tmps start n1 first again n3 Hc Hbs) as (_ & _ & Hn3b).
      pose proof (loc_sound_none S w th L F e' i out n1 start ls false first again n3 (ev start) false) as T.
      cbn zeta in T. rewrite Hmd in T.
      apply (simM_observe S L (fun m a0 b => PostR S w th TPlain (thisArg (snd (fst (lowerOptionalChain F e' i out n1)))) m a0 b)).
      { intros m0 a0 b0 [H _]. exact H. }
      eapply simM_ext; [intros; reflexivity | intros m0 s0; apply Hnat |].
      apply T; auto; try discriminate.
      * apply (frag_not_delete e' Hfr).
      * apply (start_plain S w th L ls start n1 first again n3 Hc Hsf Ln1 (below_fresh n1 start Hbs)).
        intro Hh. rewrite <- Hhd in Hh. discriminate Hh.
      * apply (capture_robust2 L n3 start n1 first again n3 Hc Hsf Ln1). lia.
      * unfold L, Lge. lia.
  Qed.

  Lemma root_del_obs e' i out n1 :
    below n1 e' -> frag e' -> ends_with_access e' = true -> thisArg out = None -> chainfacts e' ->
    forall m s, observe (ev (fst (fst (lowerOptionalChain F (EDelete e') i out n1))) m s) = observe (ev (EDelete e') m s).
  Proof.
    intros Hb Hfr Hacc Hto Hcf.
    destruct (native_delete S w th e' Hfr Hacc) as (start & pre & lm & swc & Hfl & Hmem & Hhd & Hnat).
    set (ls := pre ++ [lm]) in *.
    destruct (flatten_below e' n1 start ls swc Hb Hfl) as [Hbs Hbl].
    assert (HflD : flatten (EDelete e') = Some (start, ls ++ [LDelete], swc)) by (cbn [flatten]; rewrite Hfl; reflexivity).
    assert (Hdec : (start = ENull \/ start = EUndef) \/ (start <> ENull /\ start <> EUndef)).
    { destruct start; try (right; split; discriminate); left; auto. }
    destruct Hdec as [Hdead | [Hn1 Hn2]].
    { intros m s. rewrite Hnat. unfold lowerOptionalChain. rewrite HflD. cbn [is_delete].
      destruct Hdead as [-> | ->]; reflexivity. }
    destruct (f_optchain F) eqn:HF.
    2: { intros m s. unfold lowerOptionalChain. rewrite HflD, (start_match start _ _ Hn1 Hn2), HF. reflexivity. }
    destruct (Hcf HF) as (start' & ls' & swc' & Hfl' & Hnd & Hsf).
    rewrite Hfl in Hfl'. injection Hfl' as <- <- <-.
    set (L := Lge n1).
    assert (Ln1 : L n1) by (unfold L, Lge; lia).
    assert (Hlf : links_fresh L ls) by (apply links_below_fresh, Hbl).
    assert (Hmd : mode_of true (storeThis i && ends_with_access (EDelete e')) = TDelete) by reflexivity.
    assert (Hnat' : forall m0 s0, ev (EDelete e') m0 s0 =
              bind (ev start) (fun r => if nullish (valof r) then ret (ov (VBool true)) else tail_run S w th TDelete ls r) m0 s0).
    { intros m0 s0. rewrite Hnat. unfold tail_run, ls. rewrite removelast_last, last_last. reflexivity. }
    assert (Hlsne : ls <> []) by (unfold ls; destruct pre; discriminate).
    destruct swc; cbn [startfacts] in Hsf.
    - (* the chain starts with a call *)
      destruct pre as [| l0 pre0].
      { unfold ls in Hhd. cbn in Hhd. destruct lm; try discriminate Hhd; contradiction. }
      unfold ls in Hhd. cbn [app head_call] in Hhd. destruct l0; try discriminate Hhd.
      set (rest := pre0 ++ [lm]).
      assert (Els : ls = LCall args :: rest) by reflexivity.
      assert (Hndr : no_delete rest) by (rewrite Els in Hnd; inversion Hnd; assumption).
      assert (Hdelh : TDelete = TDelete -> exists pre1 l1, rest = pre1 ++ [l1] /\ member_link l1).
      { intros _. exists pre0, lm. split; [reflexivity | exact Hmem]. }
      rewrite Els in *.
      destruct Hsf as [(tg & name & -> & Hok) | [(tg & key & -> & Hok) | (Hna & Hok)]].
      + cbn in Hbs.
        destruct (capture tg n1) as [[f a] n2] eqn:Hc.
        destruct (capture_tmps tg n1 f a n2 Hc Hbs) as (_ & _ & Hn2b).
        assert (Ln2 : L n2) by (unfold L, Lge; lia).
        pose proof (loc_sound_some S w th L F (EDelete e') i out n1 (EDot tg name OcNone) args rest true
                      (EDot f name OcNone) a n2 (EAssign (ETmp n2) (EDot f name OcNone)) (ETmp n2) (n2 + 1)
                      (ev (EDot tg name OcNone)) true) as T.
        cbn zeta in T. rewrite Hmd in T.
        apply (simM_observe S L (fun m a0 b => PostR S w th TDelete (thisArg (snd (fst (lowerOptionalChain F (EDelete e') i out n1)))) m a0 b)).
        { intros m0 a0 b0 [H _]. exact H. }
        eapply simM_ext; [intros; reflexivity | intros m0 s0; apply Hnat' |].
        apply T; auto; try discriminate.
        * cbn [step2]. rewrite Hto, Hc. reflexivity.
        * apply (start_member S w th L (LCall args :: rest) tg name n1 f a n2 Hc Hok Ln1 Ln2 (below_fresh n1 tg Hbs)).
        * apply robust_tmp; [exact Ln2 | lia].
        * apply (capture_robust2 L (n2 + 1) tg n1 f a n2 Hc Hok Ln1). lia.
        * unfold L, Lge. lia.
      + assert (Hb1 : below n1 tg) by (intros j Hj; apply Hbs; cbn; apply in_app_iff; auto).
        assert (Hb2 : below n1 key) by (intros j Hj; apply Hbs; cbn; apply in_app_iff; auto).
        destruct (capture tg n1) as [[f a] n2] eqn:Hc.
        destruct (capture_tmps tg n1 f a n2 Hc Hb1) as (_ & _ & Hn2b).
        assert (Ln2 : L n2) by (unfold L, Lge; lia).
        pose proof (loc_sound_some S w th L F (EDelete e') i out n1 (EIndex tg key OcNone) args rest true
                      (EIndex f key OcNone) a n2 (EAssign (ETmp n2) (EIndex f key OcNone)) (ETmp n2) (n2 + 1)
                      (ev (EIndex tg key OcNone)) true) as T.
        cbn zeta in T. rewrite Hmd in T.
        apply (simM_observe S L (fun m a0 b => PostR S w th TDelete (thisArg (snd (fst (lowerOptionalChain F (EDelete e') i out n1)))) m a0 b)).
        { intros m0 a0 b0 [H _]. exact H. }
        eapply simM_ext; [intros; reflexivity | intros m0 s0; apply Hnat' |].
        apply T; auto; try discriminate.
        * cbn [step2]. rewrite Hto, Hc. reflexivity.
        * apply (start_index S w th L (LCall args :: rest) tg key n1 f a n2 Hc Hok Ln1 Ln2 (below_fresh n1 tg Hb1) (below_fresh n1 key Hb2)).
        * apply robust_tmp; [exact Ln2 | lia].
        * apply (capture_robust2 L (n2 + 1) tg n1 f a n2 Hc Hok Ln1). lia.
        * unfold L, Lge. lia.
      + destruct (capture start n1) as [[first again] n3] eqn:Hc.
        destruct (capture_tmps start n1 first again n3 Hc Hbs) as (_ & _ & Hn3b).
        pose proof (loc_sound_none S w th L F (EDelete e') i out n1 start (LCall args :: rest) true first again n3
                      (ev start) true) as T.
        cbn zeta in T. rewrite Hmd in T.
        apply (simM_observe S L (fun m a0 b => PostR S w th TDelete (thisArg (snd (fst (lowerOptionalChain F (EDelete e') i out n1)))) m a0 b)).
        { intros m0 a0 b0 [H _]. exact H. }
        eapply simM_ext; [intros; reflexivity | intros m0 s0; apply Hnat' |].
        apply T; auto; try discriminate.
        * cbn [step2]. rewrite Hto. destruct start; try reflexivity; discriminate Hna.
        * apply (start_plain S w th L (LCall args :: rest) start n1 first again n3 Hc Hok Ln1 (below_fresh n1 start Hbs)).
          intros _ m0 s0. apply (nonaccess_base S w th start Hna m0 s0).
        * apply (capture_robust2 L n3 start n1 first again n3 Hc Hok Ln1). lia.
        * unfold L, Lge. lia.
        * intros _. exists (LCall args :: pre0), lm. split; [reflexivity | exact Hmem].
    - destruct (capture start n1) as [[first again] n3] eqn:Hc.
      destruct (capture_tmps start n1 first again n3 Hc Hbs) as (_ & _ & Hn3b).
      pose proof (loc_sound_none S w th L F (EDelete e') i out n1 start ls false first again n3 (ev start) true) as T.
      cbn zeta in T. rewrite Hmd in T.
      apply (simM_observe S L (fun m a0 b => PostR S w th TDelete (thisArg (snd (fst (lowerOptionalChain F (EDelete e') i out n1)))) m a0 b)).
      { intros m0 a0 b0 [H _]. exact H. }
      eapply simM_ext; [intros; reflexivity | intros m0 s0; apply Hnat' |].
      apply T; auto; try discriminate.
      * apply (start_plain S w th L ls start n1 first again n3 Hc Hsf Ln1 (below_fresh n1 start Hbs)).
        intro Hh. rewrite <- Hhd in Hh. discriminate Hh.
      * apply (capture_robust2 L n3 start n1 first again n3 Hc Hsf Ln1). lia.
      * unfold L, Lge. lia.
      * intros _. exists pre, lm. split; [reflexivity | exact Hmem].
  Qed.

  Lemma loc_shape e0 i co n :
    let lo := fst (fst (lowerOptionalChain F e0 i co n)) in
    lo = e0 \/ lo = EBool true \/ lo = EUndef \/ exists c a b, lo = EIf c a b.
  Proof.
    cbn zeta. unfold lowerOptionalChain.
    destruct (flatten e0) as [[[start links] swc] |]; [| left; reflexivity].
    assert (Hw : (if is_delete e0 then EBool true else EUndef) = EBool true \/ (if is_delete e0 then EBool true else EUndef) = EUndef)
      by (destruct (is_delete e0); auto).
    assert (G : forall start0 thisA n0,
              let lo := fst (fst (let '(first, again, n1) := capture start0 n0 in
                                  let '(result, parentThis, n2) :=
                                    apply_links links again thisA true (storeThis i && ends_with_access e0) n1 in
                                  (EIf (EEqNull false first) (if is_delete e0 then EBool true else EUndef) result,
                                   mkOut parentThis false, n2))) in
              lo = e0 \/ lo = EBool true \/ lo = EUndef \/ exists c a b, lo = EIf c a b).
    { intros start0 thisA n0. cbn zeta. destruct (capture start0 n0) as [[first again] n1].
      destruct (apply_links links again thisA true (storeThis i && ends_with_access e0) n1) as [[result pth] n2].
      right. right. right. eexists _, _, _. reflexivity. }
    destruct start; try (cbn [fst]; tauto);
      (destruct (negb (f_optchain F)); [left; reflexivity |]);
      (destruct swc; [| apply G]);
      (destruct (thisArg co); [apply G |]); try apply G.
    - destruct (capture start n) as [[f a] n1]. apply G.
    - destruct (capture start1 n) as [[f a] n1]. apply G.
  Qed.

  Lemma inv2_inv e e' n n' : is_chain_link e = false -> inv2 e e' n n' -> inv S w th e e' n n'.
  Proof.
    intros Hc (H1 & H2 & H3 & H4 & H5 & H6). split; [exact H1 |]. split; [exact H2 |]. split; [exact H3 |].
    split; [intro Ha; apply (H4 Ha Hc) |]. split; assumption.
  Qed.

  Lemma mkA i e e' o n n' :
    hasChainParent i && is_chain_link e = false ->
    inv2 e e' n n' -> (is_chain_link e = false -> sub_inv e e') -> childChain o = false -> thisArg o = None ->
    nonacc e e' -> concl2 i e (e', o, n') n.
  Proof.
    intros Hm H1 H2 H3 H4 H5. unfold concl2. rewrite Hm.
    split; [exact H1 |]. split; [exact H2 |]. split; [exact H3 |]. split; [exact H4 | exact H5].
  Qed.

  Lemma mk_inv2 e e' n n' :
    n <= n' -> below n' e' -> Rv e' e -> (ends_with_access e = false \/ is_chain_link e = true) ->
    (forall k, e' <> ETmp k) -> (forall x, e' = EId x -> In x (head_ids e)) -> inv2 e e' n n'.
  Proof.
    intros H1 H2 H3 H4 H5 H6. split; [exact H1 |]. split; [exact H2 |]. split; [exact H3 |].
    split; [intros Ha Hc; destruct H4; congruence |]. split; assumption.
  Qed.

  (* a chain node with lowered pieces: either it stays a fragment (its parent
     continues the chain) or it is the root and lowerOptionalChain is applied *)
  Lemma finish_frag i e e' oc n n1 :
    is_chain_link e = true -> (storeThis i = true -> ends_with_access e' = false) ->
    ends_with_access e' = ends_with_access e ->
    n <= n1 -> below n1 e' -> frag e' -> Rx e' e -> thisArg oc = None -> chainfacts e' -> fsub e e' ->
    concl2 i e (if true && negb (hasChainParent i) then lowerOptionalChain F e' i oc n1
                else (e', mkOut (keep_this i oc) true, n1)) n.
  Proof.
    intros Hcl Hsti Hea Hn Hb Hfr Hrx Hto Hcf Hfs. unfold concl2.
    destruct (hasChainParent i) eqn:Hcp; cbn [andb negb]; rewrite Hcl.
    - unfold keep_this. rewrite Hcp. repeat split; auto.
    - destruct (lowerOptionalChain F e' i oc n1) as [[lo o2] n'] eqn:El.
      destruct (loc_below F e' i oc n1 lo o2 n' El Hb) as (Hn' & Hbl & _ & Hcc).
      { intros t Ht. rewrite Hto in Ht. discriminate Ht. }
      assert (Hobs : forall m s, observe (ev lo m s) = observe (ev e' m s)).
      { pose proof (root_obs e' i oc n1 Hb Hfr Hto Hcf Hsti) as H. rewrite El in H. exact H. }
      pose proof (loc_shape e' i oc n1) as Hsh. rewrite El in Hsh. cbn [fst] in Hsh.
      assert (Hth : thisArg o2 = None).
      { pose proof (loc_this_none F e' i oc n1) as H. rewrite El in H. apply H.
        destruct (storeThis i) eqn:Es; [rewrite (Hsti eq_refl) |]; reflexivity. }
      split; [| split; [intro H; congruence | split; [exact Hcc | split; [exact Hth |]]]].
      + apply mk_inv2; [lia | exact Hbl | | right; exact Hcl | |].
        * eapply obs_then_R; [exact Hobs | apply Rx_Rv, Hrx].
        * intros k Hk. destruct Hsh as [-> | [-> | [-> | (c & a & b & ->)]]]; try discriminate Hk.
          subst e'. destruct Hfr.
        * intros x Hx. exfalso. destruct Hsh as [-> | [-> | [-> | (c & a & b & ->)]]]; try discriminate Hx.
          subst e'. destruct Hfr.
      + intros Hna _. destruct Hsh as [-> | [-> | [-> | (c & a & b & ->)]]]; try reflexivity. congruence.
  Qed.

  Lemma vlist_sound2 args :
    Forall (fun e => src2 e -> forall i c, ok_in i e -> concl2 i e (visit F i e c) c) args ->
    srcs2 args -> forall n,
      match vlist F args n with
      | (args', n2) => n <= n2 /\ (forall j, In j (flat_map tmps args') -> j < n2) /\ Forall2 Rv args' args
      end.
  Proof.
    induction 1 as [| x l Hx Hl IH]; intros Hs n; cbn [vlist].
    - split; [lia |]. split; [intros j [] | constructor].
    - destruct Hs as [Hsx Hsl]. specialize (Hx Hsx (mkIn false false) n ltac:(intro H; discriminate H)).
      destruct (visit F (mkIn false false) x n) as [[x' ox] n1].
      unfold concl2 in Hx. cbn [hasChainParent andb] in Hx.
      destruct Hx as ((Hn & Hb & Hr & _) & _).
      specialize (IH Hsl n1). destruct (vlist F l n1) as [l' n2].
      destruct IH as (Hn2 & Hbl & Hrl).
      split; [lia |]. split; [| constructor; assumption].
      intros j Hj. cbn in Hj. apply in_app_iff in Hj. destruct Hj as [Hj | Hj];
        [specialize (Hb j Hj); lia | apply Hbl, Hj].
  Qed.

  Lemma src2_srcs args :
    (fix all (l : list expr) : Prop := match l with [] => True | x :: r => src2 x /\ all r end) args = srcs2 args.
  Proof. induction args; cbn; congruence. Qed.

  Lemma A_of i e r n : hasChainParent i && is_chain_link e = false -> concl2 i e r n ->
    match r with (e', o, n') =>
      inv2 e e' n n' /\ (is_chain_link e = false -> sub_inv e e') /\ childChain o = false /\ thisArg o = None /\ nonacc e e'
    end.
  Proof. intros Hm H. destruct r as [[e' o] n']. unfold concl2 in H. rewrite Hm in H. exact H. Qed.

  Lemma F_of i e r n : hasChainParent i && is_chain_link e = true -> concl2 i e r n ->
    match r with (e', o, n') => fragc e e' o n n' end.
  Proof. intros Hm H. destruct r as [[e' o] n']. unfold concl2 in H. rewrite Hm in H. exact H. Qed.

  Lemma leafA i e n : tmps e = [] -> ends_with_access e = false -> is_chain_link e = false ->
    (forall k, e <> ETmp k) -> (forall x, e = EId x -> In x (head_ids e)) ->
    (match e with EId _ | EDot _ _ _ | EIndex _ _ _ => False | _ => True end) ->
    concl2 i e (e, out0, n) n.
  Proof.
    intros Ht Ha Hc Hk Hx Hsh. apply mkA; [rewrite Hc; apply andb_false_r | | | reflexivity | reflexivity |].
    - apply mk_inv2; auto; [lia | intros j Hj; rewrite Ht in Hj; contradiction | apply Rx_Rv, R_refl, Ht].
    - intros _. destruct e; try exact I; contradiction.
    - intros _ _. exact Ha.
  Qed.

  Lemma tgt_shape_nochain t : tgt_shape t -> is_chain_link t = false.
  Proof. destruct t; cbn; intro H; try contradiction; try reflexivity; destruct o; try contradiction; reflexivity. Qed.

  Lemma lowerNullish_na a b n : ends_with_access (fst (lowerNullishCoalescing a b n)) = false.
  Proof. unfold lowerNullishCoalescing. destruct (capture a n) as [[? ?] ?]. reflexivity. Qed.

  Lemma lowerExpAsg_na t v n : tgt_shape t -> ends_with_access (fst (lowerExpAsg t v n)) = false.
  Proof.
    intro Hsh. unfold lowerExpAsg. destruct t; try contradiction; cbn [lowerAssignmentOperator].
    - reflexivity.
    - destruct o; try contradiction. destruct (capture t n) as [[? ?] ?]. reflexivity.
    - destruct o; try contradiction. destruct (capture t1 n) as [[? ?] ?]. destruct (capture t2 z) as [[? ?] ?]. reflexivity.
  Qed.

  Lemma lowerLogicalAsg_na bop t v n r : tgt_shape t -> lowerLogicalAsg F bop t v n = Some r -> ends_with_access (fst r) = false.
  Proof.
    intro Hsh. unfold lowerLogicalAsg. destruct (f_logasg F); [| discriminate]. intro E; injection E as <-.
    destruct t; try contradiction; cbn [lowerAssignmentOperator].
    - reflexivity.
    - destruct o; try contradiction. destruct (capture t n) as [[? ?] ?]. reflexivity.
    - destruct o; try contradiction. destruct (capture t1 n) as [[? ?] ?]. destruct (capture t2 z) as [[? ?] ?]. reflexivity.
  Qed.

  Lemma lowerNullishAsg_na t v n r : tgt_shape t -> lowerNullishAsg F t v n = Some r -> ends_with_access (fst r) = false.
  Proof.
    intro Hsh. unfold lowerNullishAsg. destruct (f_logasg F); [| discriminate]. intro E; injection E as <-.
    destruct t; try contradiction; cbn [lowerAssignmentOperator].
    - destruct (f_nullish F); [apply lowerNullish_na | reflexivity].
    - destruct o; try contradiction. destruct (capture t n) as [[? ?] ?].
      destruct (f_nullish F); [apply lowerNullish_na | reflexivity].
    - destruct o; try contradiction. destruct (capture t1 n) as [[? ?] ?]. destruct (capture t2 z) as [[? ?] ?].
      destruct (f_nullish F); [apply lowerNullish_na | reflexivity].
  Qed.

  Lemma stdA i e e' n n' : is_chain_link e = false -> sub_inv e e' -> nonacc e e' -> inv2 e e' n n' ->
    concl2 i e (e', out0, n') n.
  Proof.
    intros Hc Hs Hna Hi. apply mkA; [rewrite Hc; apply andb_false_r | exact Hi | intros _; exact Hs | reflexivity | reflexivity | exact Hna].
  Qed.

  Lemma mk_inv2' e e' n n' :
    n <= n' -> below n' e' -> Rv e' e -> ends_with_access e = false ->
    (forall k, e' <> ETmp k) -> (forall x, e' = EId x -> In x (head_ids e)) -> inv2 e e' n n'.
  Proof. intros. apply mk_inv2; auto. Qed.

  Ltac nostore := let H := fresh in intro H; discriminate H.

  Lemma chain_ok_in i e : is_chain_access e = true -> ok_in i e -> storeThis i = true -> False.
  Proof. intros Hc Hok Hs. specialize (Hok Hs). congruence. Qed.

  Theorem visit_sound2 : forall e, src2 e -> forall i c, ok_in i e -> concl2 i e (visit F i e c) c.
  Proof.
    induction e using expr_ind'; intros Hs i c Hoki; cbn [src2] in Hs; try contradiction.
    - cbn [visit]. apply leafA; try reflexivity; try (intros; discriminate); exact I.
    - cbn [visit]. apply leafA; try reflexivity; try (intros; discriminate); exact I.
    - cbn [visit]. apply leafA; try reflexivity; try (intros; discriminate); exact I.
    - cbn [visit]. apply leafA; try reflexivity; try (intros; discriminate); exact I.
    - cbn [visit]. apply leafA; try reflexivity; try (intros; discriminate); exact I.
    - cbn [visit]. apply leafA; try reflexivity; try (intros; discriminate); exact I.
    - (* EId *) cbn [visit]. apply mkA; [apply andb_false_r | | | reflexivity | reflexivity | intros _ _; reflexivity].
      + apply mk_inv2; [lia | intros j [] | apply Rx_Rv, R_refl; reflexivity | left; reflexivity | intros; discriminate |].
        intros y Hy. injection Hy as ->. left. reflexivity.
      + intros _. reflexivity.
    - (* EDot *)
      destruct Hs as (Hst & Hcont & Hconst). cbn [visit].
      destruct o; cbn [oc_eqb orb andb].
      + (* plain member access *)
        pose proof (A_of (mkIn false false) e _ c eq_refl (IHe Hst (mkIn false false) c ltac:(nostore))) as IH.
        destruct (visit F (mkIn false false) e c) as [[t' ot] n1].
        destruct IH as ((Hn & Hb & Hr & _ & Hk & Hx) & _ & _ & Hth & _).
        apply mkA; [apply andb_false_r | | | reflexivity | unfold keep_this; rewrite Hth; destruct (hasChainParent i); reflexivity | intros H; discriminate H].
        * split; [exact Hn |]. split; [exact Hb |]. split; [apply Rx_Rv, cong_dot, Hr |].
          split; [intros _ _; split; [apply cong_dot, Hr | reflexivity] |]. split; intros; discriminate.
        * intros _. exists t'. repeat split; auto.
      + (* a?.name *)
        pose proof (A_of (mkIn false false) e _ c eq_refl (IHe Hst (mkIn false false) c ltac:(nostore))) as IH.
        destruct (visit F (mkIn false false) e c) as [[t' ot] n1].
        destruct IH as ((Hn & Hb & Hr & _ & Hk & Hx) & _ & _ & Hth & _).
        apply finish_frag; [reflexivity | | reflexivity | exact Hn | exact Hb | exact I | apply cong_dot_start, Hr | exact Hth | | ].
        * intro Hsi. exfalso. apply (chain_ok_in i (EDot e name OcStart) eq_refl Hoki Hsi).
        * intro HF. exists t', [LDot name], false. split; [reflexivity |]. split; [repeat constructor; discriminate |].
          cbn [startfacts]. apply (shape_cap_ok S w C HC e t'); [split; assumption | apply Hconst; auto].
        * exists t'. split; [reflexivity |]. split; [intro H; discriminate H | intros _; exact Hr].
      + (* ... .name continuing a chain *)
        assert (Hm : hasChainParent (mkIn true false) && is_chain_link e = true) by (cbn; apply Hcont; reflexivity).
        pose proof (F_of (mkIn true false) e _ c Hm (IHe Hst (mkIn true false) c ltac:(nostore))) as IH.
        destruct (visit F (mkIn true false) e c) as [[t' ot] n1].
        destruct IH as (Hn & Hb & Hfr & Hrx & Hcc & Hth & Hcf & _ & _).
        rewrite Hcc.
        apply finish_frag; [reflexivity | | reflexivity | exact Hn | exact Hb | exact Hfr | apply cong_dot_cont, Hrx | exact Hth | | ].
        * intro Hsi. exfalso. apply (chain_ok_in i (EDot e name OcCont) eq_refl Hoki Hsi).
        * intro HF. destruct (Hcf HF) as (st & ls & swc & Hfl & Hnd & Hsf).
          exists st, (ls ++ [LDot name]), swc. cbn [flatten]. rewrite Hfl. split; [reflexivity |].
          split; [apply Forall_app; split; [exact Hnd | repeat constructor; discriminate] | exact Hsf].
        * exists t'. split; [reflexivity |]. split; [intros _; exact Hrx | intro H; congruence].
    - (* EIndex *)
      destruct Hs as (Hst & Hsk & Hcont & Hconst). cbn [visit].
      destruct o; cbn [oc_eqb orb andb].
      + pose proof (A_of (mkIn false false) e1 _ c eq_refl (IHe1 Hst (mkIn false false) c ltac:(nostore))) as IH1.
        destruct (visit F (mkIn false false) e1 c) as [[t' ot] n1].
        destruct IH1 as ((Hn & Hb & Hr & _ & Hk & Hx) & _ & _ & Hth & _).
        pose proof (A_of (mkIn false false) e2 _ n1 eq_refl (IHe2 Hsk (mkIn false false) n1 ltac:(nostore))) as IH2.
        destruct (visit F (mkIn false false) e2 n1) as [[k' ok] n2].
        destruct IH2 as ((Hn2 & Hb2 & Hr2 & _ & Hk2 & Hx2) & _).
        apply mkA; [apply andb_false_r | | | reflexivity | unfold keep_this; rewrite Hth; destruct (hasChainParent i); reflexivity | intros H; discriminate H].
        * split; [lia |]. split; [pose proof (below_mono n1 n2 t' Hn2 Hb); intros j Hj; cbn in Hj; apply in_app_iff in Hj; destruct Hj; auto |].
          split; [apply Rx_Rv, cong_index; assumption |].
          split; [intros _ _; split; [apply cong_index; assumption | reflexivity] |]. split; intros; discriminate.
        * intros _. exists t', k'. repeat split; auto.
      + pose proof (A_of (mkIn false false) e1 _ c eq_refl (IHe1 Hst (mkIn false false) c ltac:(nostore))) as IH1.
        destruct (visit F (mkIn false false) e1 c) as [[t' ot] n1].
        destruct IH1 as ((Hn & Hb & Hr & _ & Hk & Hx) & _ & _ & Hth & _).
        pose proof (A_of (mkIn false false) e2 _ n1 eq_refl (IHe2 Hsk (mkIn false false) n1 ltac:(nostore))) as IH2.
        destruct (visit F (mkIn false false) e2 n1) as [[k' ok] n2].
        destruct IH2 as ((Hn2 & Hb2 & Hr2 & _ & Hk2 & Hx2) & _).
        assert (Hbi : below n2 (EIndex t' k' OcStart)).
        { pose proof (below_mono n1 n2 t' Hn2 Hb). intros j Hj. cbn in Hj. apply in_app_iff in Hj. destruct Hj; auto. }
        apply finish_frag; [reflexivity | | reflexivity | lia | exact Hbi | exact I | apply cong_index_start; assumption | exact Hth | | ].
        * intro Hsi. exfalso. apply (chain_ok_in i (EIndex e1 e2 OcStart) eq_refl Hoki Hsi).
        * intro HF. exists t', [LIndex k'], false. split; [reflexivity |]. split; [repeat constructor; discriminate |].
          cbn [startfacts]. apply (shape_cap_ok S w C HC e1 t'); [split; assumption | apply Hconst; auto].
        * exists t', k'. split; [reflexivity |]. split; [intro H; discriminate H |]. split; [intros _; exact Hr | exact Hr2].
      + assert (Hm : hasChainParent (mkIn true false) && is_chain_link e1 = true) by (cbn; apply Hcont; reflexivity).
        pose proof (F_of (mkIn true false) e1 _ c Hm (IHe1 Hst (mkIn true false) c ltac:(nostore))) as IH1.
        destruct (visit F (mkIn true false) e1 c) as [[t' ot] n1].
        destruct IH1 as (Hn & Hb & Hfr & Hrx & Hcc & Hth & Hcf & _ & _).
        pose proof (A_of (mkIn false false) e2 _ n1 eq_refl (IHe2 Hsk (mkIn false false) n1 ltac:(nostore))) as IH2.
        destruct (visit F (mkIn false false) e2 n1) as [[k' ok] n2].
        destruct IH2 as ((Hn2 & Hb2 & Hr2 & _ & Hk2 & Hx2) & _).
        rewrite Hcc.
        assert (Hbi : below n2 (EIndex t' k' OcCont)).
        { pose proof (below_mono n1 n2 t' Hn2 Hb). intros j Hj. cbn in Hj. apply in_app_iff in Hj. destruct Hj; auto. }
        apply finish_frag; [reflexivity | | reflexivity | lia | exact Hbi | exact Hfr | apply cong_index_cont; assumption | exact Hth | | ].
        * intro Hsi. exfalso. apply (chain_ok_in i (EIndex e1 e2 OcCont) eq_refl Hoki Hsi).
        * intro HF. destruct (Hcf HF) as (st & ls & swc & Hfl & Hnd & Hsf).
          exists st, (ls ++ [LIndex k']), swc. cbn [flatten]. rewrite Hfl. split; [reflexivity |].
          split; [apply Forall_app; split; [exact Hnd | repeat constructor; discriminate] | exact Hsf].
        * exists t', k'. split; [reflexivity |]. split; [intros _; exact Hrx |]. split; [intro H; congruence | exact Hr2].
    - (* ECall *)
      destruct Hs as (Hsf & Hsa & Hcont & Hnca & Hnb & Hconst). rewrite src2_srcs in Hsa.
      cbn [visit]. fold (vlist F args).
      destruct o; cbn [oc_eqb orb andb].
      + (* plain call *)
        rewrite (Hnca ltac:(discriminate)).
        pose proof (A_of (mkIn false false) e _ c eq_refl (IHe Hsf (mkIn false false) c ltac:(nostore))) as IH.
        destruct (visit F (mkIn false false) e c) as [[f' of] n1].
        destruct IH as ((Hn & Hb & Hr & Hacc & Hk & Hx) & _ & _ & Hth & Hna).
        pose proof (vlist_sound2 args H Hsa n1) as Hl.
        destruct (vlist F args n1) as [args' n2]. destruct Hl as (Hn2 & Hbl & Hrl).
        set (f'' := if negb (ends_with_access e) && ends_with_access f' && true
                    then EBin BComma (ENum 0) f' else f').
        assert (Hf'' : Rb f'' e /\ below n1 f'').
        { unfold f''. destruct (ends_with_access e) eqn:Ea.
          - cbn. assert (Hcl : is_chain_link e = false).
            { destruct e; cbn in Ea; try discriminate Ea; cbn in Hnca; cbn;
                specialize (Hnca ltac:(discriminate)); destruct o; try discriminate Hnca; reflexivity. }
            destruct (Hacc eq_refl Hcl) as [Hrx _]. split; [apply Rx_Rb, Hrx | exact Hb].
          - cbn [negb andb]. destruct (ends_with_access f') eqn:Ea'; cbn [andb].
            + split; [| intros j Hj; cbn in Hj; apply Hb, Hj].
              apply Rv_nonaccess_Rb; [reflexivity | exact Ea | apply cong_comma0, Hr].
            + split; [| exact Hb]. apply Rv_nonaccess_Rb; assumption. }
        destruct Hf'' as [Hrb Hbf]. fold f''.
        apply mkA; [apply andb_false_r | | intros _; exact I | reflexivity
                    | unfold keep_this; rewrite Hth; destruct (hasChainParent i); reflexivity | intros _ _; reflexivity].
        apply mk_inv2; [lia | | apply Rx_Rv, cong_call; assumption | left; reflexivity | intros; discriminate | intros; discriminate].
        pose proof (below_mono n1 n2 f'' Hn2 Hbf) as Hbf2.
        intros j Hj. cbn in Hj. apply in_app_iff in Hj. destruct Hj as [Hj | Hj]; [apply Hbf2, Hj | apply Hbl, Hj].
      + (* f?.(args) *)
        pose proof (A_of (mkIn false true) e _ c eq_refl (IHe Hsf (mkIn false true) c ltac:(intros _; apply Hnca; discriminate))) as IH.
        destruct (visit F (mkIn false true) e c) as [[f' of] n1].
        destruct IH as ((Hn & Hb & Hr & Hacc & Hk & Hx) & Hsub & _ & Hth & Hna).
        pose proof (vlist_sound2 args H Hsa n1) as Hl.
        destruct (vlist F args n1) as [args' n2]. destruct Hl as (Hn2 & Hbl & Hrl).
        assert (Hcl : ends_with_access e = true -> is_chain_link e = false).
        { intro Ha. specialize (Hnca ltac:(discriminate)).
          destruct e; cbn in Ha; try discriminate Ha; cbn in Hnca |- *; destruct o; try discriminate Hnca; reflexivity. }
        assert (Hw' : (if negb (ends_with_access e) && ends_with_access f' && negb (f_optchain F)
                       then EBin BComma (ENum 0) f' else f') = f').
        { destruct (ends_with_access e) eqn:Ea; [reflexivity |]. rewrite (Hna Ea (Hnb eq_refl)). reflexivity. }
        rewrite Hw'.
        assert (Hrb : Rb f' e).
        { destruct (ends_with_access e) eqn:Ea.
          - destruct (Hacc eq_refl (Hcl eq_refl)) as [Hrx _]. apply Rx_Rb, Hrx.
          - apply Rv_nonaccess_Rb; [apply (Hna Ea (Hnb eq_refl)) | exact Ea | exact Hr]. }
        assert (Hbi : below n2 (ECall f' args' OcStart)).
        { pose proof (below_mono n1 n2 f' Hn2 Hb) as Hbf2.
          intros j Hj. cbn in Hj. apply in_app_iff in Hj. destruct Hj as [Hj | Hj]; [apply Hbf2, Hj | apply Hbl, Hj]. }
        apply finish_frag; [reflexivity | intros _; reflexivity | reflexivity | lia | exact Hbi | exact I
                            | apply cong_call_start; assumption | exact Hth | | exact I].
        intro HF. exists f', [LCall args'], true. split; [reflexivity |]. split; [repeat constructor; discriminate |].
        cbn [startfacts]. specialize (Hconst HF eq_refl).
        destruct e;
          try (right; right; split; [apply (Hna eq_refl (Hnb eq_refl)) | eapply shape_cap_ok; [exact HC | split; [exact Hk | exact Hx] | exact Hconst]]).
        * specialize (Hsub (Hcl eq_refl)). cbn [sub_inv] in Hsub. destruct Hsub as (t' & -> & Hrt & Hsh).
          assert (o = OcNone) as -> by (specialize (Hcl eq_refl); cbn in Hcl; destruct o; try discriminate Hcl; reflexivity).
          left. exists t', name. split; [reflexivity |]. apply (shape_cap_ok S w C HC e t' Hsh Hconst).
        * specialize (Hsub (Hcl eq_refl)). cbn [sub_inv] in Hsub. destruct Hsub as (t' & k' & -> & Hrt & Hrk & Hsh1 & Hsh2).
          assert (o = OcNone) as -> by (specialize (Hcl eq_refl); cbn in Hcl; destruct o; try discriminate Hcl; reflexivity).
          right. left. exists t', k'. split; [reflexivity |]. apply (shape_cap_ok S w C HC e1 t' Hsh1 Hconst).
      + (* ...(args) continuing a chain *)
        assert (Hm : hasChainParent (mkIn true false) && is_chain_link e = true) by (cbn; apply Hcont; reflexivity).
        pose proof (F_of (mkIn true false) e _ c Hm (IHe Hsf (mkIn true false) c ltac:(nostore))) as IH.
        destruct (visit F (mkIn true false) e c) as [[f' of] n1].
        destruct IH as (Hn & Hb & Hfr & Hrx & Hcc & Hth & Hcf & _ & Hea).
        pose proof (vlist_sound2 args H Hsa n1) as Hl.
        destruct (vlist F args n1) as [args' n2]. destruct Hl as (Hn2 & Hbl & Hrl).
        assert (Hw' : (if negb (ends_with_access e) && ends_with_access f' && negb (f_optchain F)
                       then EBin BComma (ENum 0) f' else f') = f').
        { rewrite Hea. destruct (ends_with_access e); reflexivity. }
        rewrite Hw'. rewrite Hcc.
        assert (Hbi : below n2 (ECall f' args' OcCont)).
        { pose proof (below_mono n1 n2 f' Hn2 Hb) as Hbf2.
          intros j Hj. cbn in Hj. apply in_app_iff in Hj. destruct Hj as [Hj | Hj]; [apply Hbf2, Hj | apply Hbl, Hj]. }
        apply finish_frag; [reflexivity | intros _; reflexivity | reflexivity | lia | exact Hbi | exact Hfr
                            | apply cong_call_cont; assumption | exact Hth | | exact I].
        intro HF. destruct (Hcf HF) as (st & ls & swc & Hfl & Hnd & Hsf').
        exists st, (ls ++ [LCall args']), swc. cbn [flatten]. rewrite Hfl. split; [reflexivity |].
        split; [apply Forall_app; split; [exact Hnd | repeat constructor; discriminate] | exact Hsf'].
    - (* EDelete *)
      destruct Hs as [Hacc Hsd]. cbn [visit].
      destruct (is_chain_link e) eqn:Hcl.
      + (* delete of a chain *)
        pose proof (F_of (mkIn true false) e _ c ltac:(cbn; exact Hcl) (IHe Hsd (mkIn true false) c ltac:(nostore))) as IH.
        destruct (visit F (mkIn true false) e c) as [[d' od] n1].
        destruct IH as (Hn & Hb & Hfr & Hrx & Hcc & Hth & Hcf & Hfs & Hea).
        rewrite Hcc.
        destruct (lowerOptionalChain F (EDelete d') i od n1) as [[lo o2] n'] eqn:El.
        assert (Hbd : below n1 (EDelete d')) by exact Hb.
        destruct (loc_below F (EDelete d') i od n1 lo o2 n' El Hbd) as (Hn' & Hbl & _ & Hcc2).
        { intros t Ht. rewrite Hth in Ht. discriminate Ht. }
        assert (Hobs : forall m s, observe (ev lo m s) = observe (ev (EDelete d') m s)).
        { pose proof (root_del_obs d' i od n1 Hb Hfr ltac:(rewrite Hea; exact Hacc) Hth Hcf) as H. rewrite El in H. exact H. }
        pose proof (loc_shape (EDelete d') i od n1) as Hsh. rewrite El in Hsh. cbn [fst] in Hsh.
        assert (Hth2 : thisArg o2 = None).
        { pose proof (loc_this_none F (EDelete d') i od n1) as H. rewrite El in H. apply H. apply andb_false_r. }
        assert (Hrd : Rx (EDelete d') (EDelete e)).
        { destruct e; cbn in Hacc; try discriminate Hacc; cbn [fsub] in Hfs.
          - destruct Hfs as (t' & -> & H1 & H2). apply cong_delete_dot_oc; assumption.
          - destruct Hfs as (t' & k' & -> & H1 & H2 & H3). apply cong_delete_index_oc; assumption. }
        apply mkA; [apply andb_false_r | | intros _; exact I | exact Hcc2 | exact Hth2 |].
        * apply mk_inv2; [lia | exact Hbl | | left; reflexivity | |].
          -- eapply obs_then_R; [exact Hobs | apply Rx_Rv, Hrd].
          -- intros k Hk. destruct Hsh as [-> | [-> | [-> | (c0 & a & b & ->)]]]; discriminate Hk.
          -- intros x Hx. destruct Hsh as [-> | [-> | [-> | (c0 & a & b & ->)]]]; discriminate Hx.
        * intros _ _. destruct Hsh as [-> | [-> | [-> | (c0 & a & b & ->)]]]; reflexivity.
      + (* delete of a plain member access *)
        pose proof (A_of (mkIn true false) e _ c ltac:(cbn; exact Hcl) (IHe Hsd (mkIn true false) c ltac:(nostore))) as IH.
        destruct (visit F (mkIn true false) e c) as [[d' od] n1].
        destruct IH as ((Hn & Hb & Hr & _ & Hk & Hx) & Hsub & Hcc & _).
        rewrite Hcc. specialize (Hsub Hcl).
        apply mkA; [apply andb_false_r | | intros _; exact I | reflexivity | reflexivity | intros _ _; reflexivity].
        destruct e; cbn in Hacc; try discriminate Hacc; cbn [src2] in Hsd; cbn [sub_inv] in Hsub; cbn in Hcl.
        * assert (o = OcNone) as -> by (destruct o; try discriminate Hcl; reflexivity).
          destruct Hsub as (t' & -> & Hrt & _).
          apply mk_inv2; [exact Hn | exact Hb | apply Rx_Rv, cong_delete_dot, Hrt | left; reflexivity | intros; discriminate | intros; discriminate].
        * assert (o = OcNone) as -> by (destruct o; try discriminate Hcl; reflexivity).
          destruct Hsub as (t' & k' & -> & Hrt & Hrk & _).
          apply mk_inv2; [exact Hn | exact Hb | apply Rx_Rv, cong_delete_index; assumption | left; reflexivity | intros; discriminate | intros; discriminate].
    - (* EAssign *)
      destruct Hs as (Hsh & Hst & Hsv). cbn [visit].
      pose proof (A_of (mkIn false false) e1 _ c eq_refl (IHe1 Hst (mkIn false false) c ltac:(nostore))) as IH1.
      destruct (visit F (mkIn false false) e1 c) as [[t' ot] n1].
      destruct IH1 as (Hinv1 & Hsub1 & _).
      pose proof (A_of (mkIn false false) e2 _ n1 eq_refl (IHe2 Hsv (mkIn false false) n1 ltac:(nostore))) as IH2.
      destruct (visit F (mkIn false false) e2 n1) as [[v' ov'] n2].
      destruct IH2 as ((Hn2 & Hb2 & Hr2 & _) & _).
      pose proof (tgt_shape_nochain e1 Hsh) as Hnc.
      destruct (tgt_facts S w th C HC e1 t' c n1 Hsh (inv2_inv e1 t' c n1 Hnc Hinv1) (Hsub1 Hnc)) as (_ & _ & Hasg & _).
      destruct Hinv1 as (Hn1 & Hb1 & _).
      apply mkA; [apply andb_false_r | | intros _; exact I | reflexivity | reflexivity | intros _ _; reflexivity].
      apply mk_inv2; [lia | | apply Rx_Rv, Hasg, Hr2 | left; reflexivity | intros; discriminate | intros; discriminate].
      pose proof (below_mono n1 n2 t' Hn2 Hb1). intros j Hj. cbn in Hj. apply in_app_iff in Hj. destruct Hj; auto.
    - (* EBin *)
      destruct Hs as (Hsa & Hsb & Hcst). cbn [visit].
      pose proof (A_of (mkIn false false) e1 _ c eq_refl (IHe1 Hsa (mkIn false false) c ltac:(nostore))) as IH1.
      destruct (visit F (mkIn false false) e1 c) as [[a' oa] n1].
      destruct IH1 as ((Hn1 & Hb1 & Hr1 & _ & Hk1 & Hx1) & _ & _ & _ & Hna1).
      pose proof (A_of (mkIn false false) e2 _ n1 eq_refl (IHe2 Hsb (mkIn false false) n1 ltac:(nostore))) as IH2.
      destruct (visit F (mkIn false false) e2 n1) as [[b' ob] n2].
      destruct IH2 as ((Hn2 & Hb2 & Hr2 & _ & Hk2 & Hx2) & _).
      pose proof (below_mono n1 n2 a' Hn2 Hb1) as Hb1'.
      assert (Hkeep : forall op', Rv (EBin op' a' b') (EBin op' e1 e2)) by (intro; apply Rx_Rv, cong_bin; assumption).
      assert (Hbk : forall op', below n2 (EBin op' a' b')).
      { intros op' j Hj. cbn in Hj. apply in_app_iff in Hj. destruct Hj; auto. }
      assert (Hstd : forall op', op' <> BNullish ->
                concl2 i (EBin op' e1 e2) (EBin op' a' b', out0, n2) c).
      { intros op' Hop. apply stdA; [reflexivity | exact I | intros _ _; reflexivity |].
        apply mk_inv2'; try reflexivity; try (intros; discriminate); [lia | apply Hbk | apply Hkeep]. }
      destruct op; try (apply Hstd; discriminate).
      + (* ?? *)
        assert (Hlow : f_nullish F = true ->
                  concl2 i (EBin BNullish e1 e2)
                    (let '(r, n3) := lowerNullishCoalescing a' b' n2 in (r, out0, n3)) c).
        { intro HN. destruct (lowerNullishCoalescing a' b' n2) as [r n3] eqn:El.
          destruct (lowerNullish_below a' b' n2 r n3 Hb1' Hb2 El) as [Hn3 Hb3].
          pose proof (lowerNullish_shape a' b' n2) as [Hs1 Hs2]. rewrite El in Hs1, Hs2. cbn [fst] in Hs1, Hs2.
          apply stdA; [reflexivity | exact I | intros _ H; discriminate H |].
          apply mk_inv2'; try reflexivity; [lia | exact Hb3 | | exact Hs1 | intros x Hx; exfalso; apply (Hs2 x Hx)].
          eapply obs_then_R; [| apply Hkeep].
          replace r with (fst (lowerNullishCoalescing a' b' n2)) by (rewrite El; reflexivity).
          apply lowerNullish_general;
            [apply (shape_cap_ok S w C HC e1 a'); [split; assumption | apply Hcst; auto] | |];
            [intro Hj; specialize (Hb1' _ Hj); lia | intro Hj; specialize (Hb2 _ Hj); lia]. }
        assert (Hkeepc : concl2 i (EBin BNullish e1 e2) (EBin BNullish a' b', out0, n2) c).
        { apply stdA; [reflexivity | exact I | intros _ H; discriminate H |].
          apply mk_inv2'; try reflexivity; try (intros; discriminate); [lia | apply Hbk | apply Hkeep]. }
        destruct (to_null_or_undef a') as [[[|] [|]] |] eqn:Etnu.
        * apply stdA; [reflexivity | exact I | intros _ H; discriminate H |].
          apply mk_inv2'; try reflexivity; auto; [lia | | ].
          -- eapply fold_null; [exact Hr1 | apply tnu_null_pure, Etnu | exact Hr2].
          -- intros x Hx. cbn. apply in_app_iff. right. apply Hx2, Hx.
        * destruct (f_nullish F) eqn:HN; [apply Hlow; reflexivity | exact Hkeepc].
        * apply stdA; [reflexivity | exact I | intros _ H; discriminate H |].
          apply mk_inv2'; try reflexivity; auto; [lia | | ].
          -- apply fold_nonnull; [exact Hr1 | apply (tnu_nonnull S w th Hbin Hdel a' _ Etnu)].
          -- intros x Hx. cbn. apply in_app_iff. left. apply Hx1, Hx.
        * apply stdA; [reflexivity | exact I | intros _ H; discriminate H |].
          apply mk_inv2'; try reflexivity; auto; [lia | | ].
          -- apply fold_nonnull; [exact Hr1 | apply (tnu_nonnull S w th Hbin Hdel a' _ Etnu)].
          -- intros x Hx. cbn. apply in_app_iff. left. apply Hx1, Hx.
        * destruct (f_nullish F) eqn:HN; [apply Hlow; reflexivity | exact Hkeepc].
      + (* ** *)
        destruct (f_exp F); [| apply Hstd; discriminate].
        apply stdA; [reflexivity | exact I | intros _ _; reflexivity |].
        apply mk_inv2'; try reflexivity; try (intros; discriminate); [lia | | apply Rx_Rv, cong_pow; assumption].
        intros j Hj. cbn in Hj. apply in_app_iff in Hj. destruct Hj; auto.
    - (* EOpAsg *)
      destruct Hs as (Hsh & Hst & Hsv & Hcst). cbn [visit].
      pose proof (A_of (mkIn false false) e1 _ c eq_refl (IHe1 Hst (mkIn false false) c ltac:(nostore))) as IH1.
      destruct (visit F (mkIn false false) e1 c) as [[t' ot] n1].
      destruct IH1 as (Hinv1 & Hsub1 & _).
      pose proof (A_of (mkIn false false) e2 _ n1 eq_refl (IHe2 Hsv (mkIn false false) n1 ltac:(nostore))) as IH2.
      destruct (visit F (mkIn false false) e2 n1) as [[v' ov'] n2].
      destruct IH2 as ((Hn2 & Hb2 & Hr2 & _) & _).
      pose proof (tgt_shape_nochain e1 Hsh) as Hnc. specialize (Hsub1 Hnc).
      destruct (tgt_facts S w th C HC e1 t' c n1 Hsh (inv2_inv e1 t' c n1 Hnc Hinv1) Hsub1) as (Hsh' & Hop & _ & Hvalid).
      destruct Hinv1 as (Hn1 & Hb1 & _).
      pose proof (below_mono n1 n2 t' Hn2 Hb1) as Hb1'.
      assert (Hvt : op_lowered F op = true -> valid_target S w t').
      { intro Hl. apply Hvalid. specialize (Hcst Hl). destruct e1; auto. }
      assert (Hkeep : concl2 i (EOpAsg op e1 e2) (EOpAsg op t' v', out0, n2) c).
      { apply stdA; [reflexivity | exact I | intros _ _; reflexivity |].
        apply mk_inv2'; try reflexivity; try (intros; discriminate); [lia | | apply Rx_Rv, Hop, Hr2].
        intros j Hj. cbn in Hj. apply in_app_iff in Hj. destruct Hj; auto. }
      assert (Hlow : forall r n3, n2 <= n3 -> below n3 r -> not_atom r -> ends_with_access r = false ->
                (forall m s, observe (ev r m s) = observe (ev (EOpAsg op t' v') m s)) ->
                concl2 i (EOpAsg op e1 e2) (r, out0, n3) c).
      { intros r n3 Hn3 Hb3 [Hna1 Hna2] Hnacc Hobs.
        apply stdA; [reflexivity | exact I | intros _ _; exact Hnacc |].
        apply mk_inv2'; try reflexivity; [lia | exact Hb3 | | exact Hna1 | intros x Hx; exfalso; apply (Hna2 x Hx)].
        eapply obs_then_R; [exact Hobs | apply Rx_Rv, Hop, Hr2]. }
      destruct op.
      + (* ??= *)
        destruct (lowerNullishAsg F t' v' n2) as [[r n3] |] eqn:El; [| exact Hkeep].
        assert (HF : f_logasg F = true) by (unfold lowerNullishAsg in El; destruct (f_logasg F); [reflexivity | discriminate]).
        destruct (lowerNullishAsg_below F t' v' n2 (r, n3) Hsh' Hb1' Hb2 El) as [Hn3 Hb3].
        apply Hlow; [exact Hn3 | exact Hb3 | apply (lowerNullishAsg_shape F t' v' n2 (r, n3) Hsh' El)
                     | apply (lowerNullishAsg_na t' v' n2 (r, n3) Hsh' El) |].
        apply (lowerNullishAsg_general S w th F t' v' n2 (r, n3) HF (Hvt HF) Hb1' Hb2); [| exact El].
        intros HN x Ex. specialize (Hcst HF).
        destruct e1; cbn [sub_inv] in Hsub1; try contradiction.
        * rewrite Hsub1 in Ex. injection Ex as <-. apply HC, Hcst; auto.
        * destruct Hsub1 as (? & E & _). rewrite E in Ex. discriminate Ex.
        * destruct Hsub1 as (? & ? & E & _). rewrite E in Ex. discriminate Ex.
      + (* ||= *)
        destruct (lowerLogicalAsg F BOr t' v' n2) as [[r n3] |] eqn:El; [| exact Hkeep].
        assert (HF : f_logasg F = true) by (unfold lowerLogicalAsg in El; destruct (f_logasg F); [reflexivity | discriminate]).
        destruct (lowerLogicalAsg_below F BOr t' v' n2 (r, n3) Hsh' Hb1' Hb2 El) as [Hn3 Hb3].
        apply Hlow; [exact Hn3 | exact Hb3 | apply (lowerLogicalAsg_shape F BOr t' v' n2 (r, n3) Hsh' El)
                     | apply (lowerLogicalAsg_na BOr t' v' n2 (r, n3) Hsh' El) |].
        apply (lowerLogicalAsg_general S w th F BOr AOr t' v' n2 (r, n3) HF (or_introl (conj eq_refl eq_refl)) (Hvt HF) Hb1' Hb2 El).
      + (* &&= *)
        destruct (lowerLogicalAsg F BAnd t' v' n2) as [[r n3] |] eqn:El; [| exact Hkeep].
        assert (HF : f_logasg F = true) by (unfold lowerLogicalAsg in El; destruct (f_logasg F); [reflexivity | discriminate]).
        destruct (lowerLogicalAsg_below F BAnd t' v' n2 (r, n3) Hsh' Hb1' Hb2 El) as [Hn3 Hb3].
        apply Hlow; [exact Hn3 | exact Hb3 | apply (lowerLogicalAsg_shape F BAnd t' v' n2 (r, n3) Hsh' El)
                     | apply (lowerLogicalAsg_na BAnd t' v' n2 (r, n3) Hsh' El) |].
        apply (lowerLogicalAsg_general S w th F BAnd AAnd t' v' n2 (r, n3) HF (or_intror (conj eq_refl eq_refl)) (Hvt HF) Hb1' Hb2 El).
      + (* **= *)
        destruct (f_exp F) eqn:HE; [| exact Hkeep].
        destruct (lowerExpAsg t' v' n2) as [r n3] eqn:El.
        pose proof (lowerExpAsg_below t' v' n2 Hsh' Hb1' Hb2) as Hbe. rewrite El in Hbe. cbn in Hbe.
        pose proof (lowerExpAsg_shape t' v' n2 Hsh') as Hse. rewrite El in Hse. cbn in Hse.
        pose proof (lowerExpAsg_na t' v' n2 Hsh') as Hne. rewrite El in Hne. cbn [fst] in Hne.
        apply Hlow; [apply Hbe | apply Hbe | exact Hse | exact Hne |].
        pose proof (lowerExpAsg_general S w th t' v' n2 (Hvt HE) Hb1' Hb2) as Hg. rewrite El in Hg. exact Hg.
      + exact Hkeep.
  Qed.

  (* the model's entry point, expressions with optional chains *)
  Corollary lower_sound2 e : src2 e ->
    forall m s, observe (ev (lower F e) m s) = observe (ev e m s).
  Proof.
    intros Hs. unfold lower.
    pose proof (A_of (mkIn false false) e _ 0 eq_refl (visit_sound2 e Hs (mkIn false false) 0 ltac:(nostore))) as H.
    destruct (visit F (mkIn false false) e 0) as [[e' o] n']. cbn [fst].
    destruct H as ((_ & _ & Hr & _) & _).
    apply (simM_observe S Lall (fun _ a b => pv a b)); [intros ? ? ? H; exact H | exact Hr].
  Qed.
End Visit2.
