(* Frame property of the evaluator with respect to temporaries: an evaluation
   reads and writes only the temporaries that occur in the expression. *)
From V Require Import Common.Base C05.Syntax C05.Sem.

Section Frame.
  Variable S : Type.
  Variable w : world S.
  Variable th : val.

  Definition agree (L : list Z) (m1 m2 : tstore) : Prop :=
    forall k, In k L -> tget m1 k = tget m2 k.

  Lemma agree_refl L m : agree L m m.
  Proof. intros k _; reflexivity. Qed.

  Lemma agree_sub L L' m1 m2 : incl L L' -> agree L' m1 m2 -> agree L m1 m2.
  Proof. intros Hi Ha k Hk; apply Ha, Hi, Hk. Qed.

  Lemma tget_tset_same m k v : tget (tset m k v) k = v.
  Proof. unfold tset; cbn. rewrite Z.eqb_refl. reflexivity. Qed.

  Lemma tget_tset_other m k k' v : k <> k' -> tget (tset m k v) k' = tget m k'.
  Proof. intro H; unfold tset; cbn. destruct (k =? k') eqn:E; [apply Z.eqb_eq in E; contradiction | reflexivity]. Qed.

  (* a computation is framed by L: deterministic up to agreement on L, and it
     leaves every temporary outside L unchanged *)
  Definition framed {A} (L : list Z) (c : M S A) : Prop :=
    (forall m1 m2 s, agree L m1 m2 ->
       match c m1 s, c m2 s with
       | (t1, m1', s1, r1), (t2, m2', s2, r2) => t1 = t2 /\ s1 = s2 /\ r1 = r2 /\ agree L m1' m2'
       end) /\
    (forall m s k, ~ In k L -> match c m s with (_, m', _, _) => tget m' k = tget m k end).

  Lemma framed_mono {A} L L' (c : M S A) : incl L L' -> framed L c -> framed L' c.
  Proof.
    intros Hi [H1 H2]; split.
    - intros m1 m2 s Ha.
      specialize (H1 m1 m2 s (agree_sub _ _ _ _ Hi Ha)).
      pose proof (H2 m1 s) as F1. pose proof (H2 m2 s) as F2.
      destruct (c m1 s) as [[[t1 m1'] s1] r1], (c m2 s) as [[[t2 m2'] s2] r2].
      destruct H1 as (-> & -> & -> & Ha').
      repeat split; try reflexivity.
      intros k Hk. destruct (in_dec Z.eq_dec k L) as [HL | HL].
      + apply Ha', HL.
      + rewrite (F1 k HL), (F2 k HL). apply Ha, Hk.
    - intros m s k Hk. apply H2. intro; apply Hk, Hi; assumption.
  Qed.

  Lemma framed_ret {A} L (a : A) : framed L (ret a).
  Proof. split; intros; cbn; auto. Qed.

  Lemma framed_lift {A} L (f : S -> list event * S * res A) : framed L (lift f).
  Proof.
    split; intros; unfold lift.
    - destruct (f s) as [[t s'] r]. auto.
    - destruct (f s) as [[t s'] r]. reflexivity.
  Qed.

  Lemma framed_bind {A B} L (c : M S A) (k : A -> M S B) :
    framed L c -> (forall a, framed L (k a)) -> framed L (bind c k).
  Proof.
    intros [H1 H2] Hk; split.
    - intros m1 m2 s Ha. unfold bind.
      specialize (H1 m1 m2 s Ha).
      destruct (c m1 s) as [[[t1 m1'] s1] r1], (c m2 s) as [[[t2 m2'] s2] r2].
      destruct H1 as (-> & -> & -> & Ha').
      destruct r2 as [a | v]; [| auto].
      destruct (Hk a) as [K1 _]. specialize (K1 m1' m2' s2 Ha').
      destruct (k a m1' s2) as [[[u1 n1] q1] x1], (k a m2' s2) as [[[u2 n2] q2] x2].
      destruct K1 as (-> & -> & -> & Hb). auto.
    - intros m s k0 Hk0. unfold bind.
      specialize (H2 m s k0 Hk0).
      destruct (c m s) as [[[t1 m1'] s1] r1].
      destruct r1 as [a | v]; [| assumption].
      destruct (Hk a) as [_ K2]. specialize (K2 m1' s1 k0 Hk0).
      destruct (k a m1' s1) as [[[u1 n1] q1] x1]. congruence.
  Qed.

  Lemma framed_tmp_read n L : In n L -> framed L (fun m s => ([], m, s, Ok (ov (tget m n))) : list event * tstore * S * res out).
  Proof.
    intro Hn; split.
    - intros m1 m2 s Ha. rewrite (Ha n Hn). auto.
    - intros; reflexivity.
  Qed.

  Lemma framed_tmp_write n L (v : val) : In n L ->
    framed L (fun m s => ([], tset m n v, s, Ok (ov v)) : list event * tstore * S * res out).
  Proof.
    intro Hn; split.
    - intros m1 m2 s Ha. repeat split; try reflexivity.
      intros k Hk. destruct (Z.eq_dec n k) as [-> | Hne].
      + rewrite !tget_tset_same; reflexivity.
      + rewrite !tget_tset_other by assumption. apply Ha, Hk.
    - intros m s k Hk. apply tget_tset_other. intro; subst; contradiction.
  Qed.

  Lemma framed_access L o r (k : val -> M S out) :
    (forall b, framed L (k b)) -> framed L (access S o r k).
  Proof.
    intro Hk. unfold access. destruct o.
    - apply Hk.
    - destruct (nullish (valof r)); [apply framed_ret | apply Hk].
    - destruct r; [apply Hk | apply framed_ret].
  Qed.

  Lemma framed_opasg L op lval (ev : M S out) (store : val -> M S unit) :
    framed L ev -> (forall x, framed L (store x)) -> framed L (opasg S w op lval ev store).
  Proof.
    intros He Hs. unfold opasg.
    assert (Ha : framed L (bind ev (fun r => bind (store (valof r)) (fun _ => ret (ov (valof r)))))).
    { apply framed_bind; [assumption | intro]. apply framed_bind; [apply Hs | intro; apply framed_ret]. }
    assert (Hb : forall b, framed L (bind ev (fun r => bind (lift (w_binop w b lval (valof r))) (fun x =>
                  bind (store x) (fun _ => ret (ov x)))))).
    { intro b. apply framed_bind; [assumption | intro]. apply framed_bind; [apply framed_lift | intro].
      apply framed_bind; [apply Hs | intro; apply framed_ret]. }
    destruct op.
    - destruct (nullish lval); [assumption | apply framed_ret].
    - destruct (truthy lval); [apply framed_ret | assumption].
    - destruct (truthy lval); [assumption | apply framed_ret].
    - apply Hb.
    - apply Hb.
  Qed.

  Ltac fr :=
    repeat first
      [ apply framed_ret | apply framed_lift
      | apply framed_bind; [| intro]
      | apply framed_access; intro
      | apply framed_opasg; [| intro] ].

  Ltac sub_incl := intros k0 Hk0; cbn [tmps]; repeat rewrite in_app_iff; auto 6.

  (* the list evaluator, given framing of the elements *)
  Fixpoint eval_list (l : list expr) : M S (list val) :=
    match l with
    | [] => ret []
    | x :: r => bind (eval w th x) (fun o => bind (eval_list r) (fun vs => ret (valof o :: vs)))
    end.

  Lemma framed_eval_list l :
    Forall (fun e => framed (tmps e) (eval w th e)) l -> framed (flat_map tmps l) (eval_list l).
  Proof.
    induction 1 as [| x r Hx Hr IH]; cbn [eval_list flat_map].
    - apply framed_ret.
    - apply framed_bind.
      + eapply framed_mono; [| exact Hx]. intros k Hk; apply in_app_iff; auto.
      + intro. apply framed_bind.
        * eapply framed_mono; [| exact IH]. intros k Hk; apply in_app_iff; auto.
        * intro; apply framed_ret.
  Qed.

  Definition sub_ok (e : expr) : Prop :=
    match e with
    | EDot t _ _ => framed (tmps t) (eval w th t)
    | EIndex t k _ => framed (tmps t) (eval w th t) /\ framed (tmps k) (eval w th k)
    | _ => True
    end.

  Ltac sub H := eapply framed_mono; [| exact H]; sub_incl.
  Ltac sa := match goal with H : framed _ ?c |- framed _ ?c => eapply framed_mono; [| exact H]; sub_incl end.
  Ltac step := first [ apply framed_ret | apply framed_lift | apply framed_bind; [| intro]
                     | apply framed_access; intro | apply framed_opasg; [| intro] ].

  Lemma eval_framed_strong : forall e, framed (tmps e) (eval w th e) /\ sub_ok e.
  Proof.
    induction e using expr_ind'; cbn [eval tmps sub_ok];
      try (fold (eval_list args));
      repeat match goal with H : _ /\ _ |- _ => destruct H end;
      try solve [split; [fr | exact I]].
    - (* ETmp *) split; [apply framed_tmp_read; left; reflexivity | exact I].
    - (* EDot *) split; [fr; assumption | assumption].
    - (* EIndex *)
      split; [| split; assumption].
      step; [sa | ]. step. step; [sa |]. fr.
    - (* ECall *)
      assert (Hl : framed (flat_map tmps args) (eval_list args)).
      { apply framed_eval_list. eapply Forall_impl; [| exact H]. intros a [Ha _]; exact Ha. }
      split; [| exact I].
      step; [sa |]. step. step; [sa |]. fr.
    - (* ECallThis *)
      assert (Hl : framed (flat_map tmps args) (eval_list args)).
      { apply framed_eval_list. eapply Forall_impl; [| exact H]. intros a [Ha _]; exact Ha. }
      split; [| exact I].
      step; [sa |]. step; [apply framed_lift |]. step; [sa |]. step; [sa |]. fr.
    - (* EDelete *)
      split; [| exact I].
      destruct e; cbn [sub_ok tmps] in *;
        try solve [apply framed_bind; [assumption | intro; apply framed_ret]].
      + (* EDot *) step; [sa |]. step; [fr |]. fr.
      + (* EIndex *) match goal with H : _ /\ _ |- _ => destruct H as [Ht Hk] end.
        step; [sa |]. step; [| fr]. step. step; [sa |]. fr.
    - (* EAssign *)
      split; [| exact I].
      destruct e1; cbn [sub_ok tmps] in *; try solve [step; [sa | fr]].
      + (* ETmp *) step; [sa |]. apply framed_tmp_write. left; reflexivity.
      + (* EDot *) step; [sa |]. step; [sa |]. fr.
      + (* EIndex *) match goal with H : _ /\ _ |- _ => destruct H as [Ht Hk] end.
        step; [sa |]. step; [sa |]. step; [sa |]. fr.
    - (* EBin *)
      split; [| exact I].
      destruct op; (step; [sa |]);
        try (match goal with |- framed _ (if ?c then _ else _) => destruct c end);
        repeat first [ step; [sa |] | step ].
    - (* EOpAsg *)
      split; [| exact I].
      destruct e1; cbn [sub_ok tmps] in *; try solve [step; [sa | fr]].
      + (* EId *) step; [apply framed_lift |]. step; [sa | apply framed_lift].
      + (* EDot *) step; [sa |]. step; [apply framed_lift |]. step; [sa | apply framed_lift].
      + (* EIndex *) match goal with H : _ /\ _ |- _ => destruct H as [Ht Hk] end.
        step; [sa |]. step; [sa |]. step; [apply framed_lift |]. step; [sa | apply framed_lift].
    - (* EIf *)
      split; [| exact I].
      step; [sa |].
      match goal with |- framed _ (if ?c then _ else _) => destruct c end;
        (step; [sa | fr]).
    - (* EEqNull *) split; [fr; assumption | exact I].
    - (* EPowCall *)
      split; [| exact I]. step; [sa |]. step; [sa |]. fr.
  Qed.

  Theorem eval_framed : forall e, framed (tmps e) (eval w th e).
  Proof. intro e; apply eval_framed_strong. Qed.
End Frame.
