(* C05 property theorems.  Only statements closed by [exact lemma] and
   Print Assumptions.  S, w, th range over ALL worlds (arbitrary effects of
   identifier reads, property get/set/delete, calls and operators on an
   arbitrary user state) and all values of this. *)
From V Require Import Common.Base C05.Syntax C05.Sem C05.Lower C05.Frame C05.LowerProofs C05.SimLogic C05.Steps C05.Compose C05.Visit C05.Chain C05.Chain2 C05.Above C05.Visit2 C05.Witness C05.Private C05.PrivateProofs.

(* An evaluation reads and writes only the temporaries that occur in the
   expression: fresh temporaries cannot be observed by, or interfere with, any
   other sub-expression (every expression, every world). *)
Theorem temporaries_are_framed :
  forall (S : Type) (w : world S) (th : val) (e : expr), framed S (tmps e) (eval w th e).
Proof. exact eval_framed. Qed.
Print Assumptions temporaries_are_framed.

(* Per-step theorems, ALL operand expressions (already lowered or not), all
   worlds.  An operand is either captured in a temporary by esbuild or is one
   of the expressions it duplicates instead (null, undefined, this, literals,
   identifiers).  [cap_ok t]: t is not such an expression, or it is a literal /
   this, or it is an identifier that is a constant binding [const_var].  The
   refuted shapes F1-F3 are exactly duplicated identifiers that are not
   constant (accessor-backed global; variable reassigned by a getter).
   [below n e]: every temporary in e is smaller than n (what the visitor's
   counter guarantees). *)

(* a ?? b  ==  (_n = a) != null ? _n : b   /   a != null ? a : b *)
Theorem lower_nullish_equiv :
  forall (S : Type) (w : world S) (th : val) (a b : expr) (n : Z),
    cap_ok S w a -> ~ In n (tmps a) -> ~ In n (tmps b) ->
    forall m s, observe (eval w th (fst (lowerNullishCoalescing a b n)) m s)
              = observe (eval w th (EBin BNullish a b) m s).
Proof. exact lowerNullish_general. Qed.
Print Assumptions lower_nullish_equiv.

(* tgt ||= v, tgt &&= v for tgt = x | t.name | t[k]: object and key evaluated
   once and in order, the key value reaches get and set unchanged, v evaluated
   at most once and only when the test fails / succeeds *)
Theorem lower_logical_assign_equiv :
  forall (S : Type) (w : world S) (th : val) F bop aop tgt v n r,
    f_logasg F = true -> (bop = BOr /\ aop = AOr) \/ (bop = BAnd /\ aop = AAnd) ->
    valid_target S w tgt -> below n tgt -> below n v ->
    lowerLogicalAsg F bop tgt v n = Some r ->
    forall m s, observe (eval w th (fst r) m s) = observe (eval w th (EOpAsg aop tgt v) m s).
Proof. exact lowerLogicalAsg_general. Qed.
Print Assumptions lower_logical_assign_equiv.

(* tgt ??= v, whether or not ?? itself must be lowered as well *)
Theorem lower_nullish_assign_equiv :
  forall (S : Type) (w : world S) (th : val) F tgt v n r,
    f_logasg F = true ->
    valid_target S w tgt -> below n tgt -> below n v ->
    (f_nullish F = true -> forall x, tgt = EId x -> const_var S w x) ->
    lowerNullishAsg F tgt v n = Some r ->
    forall m s, observe (eval w th (fst r) m s) = observe (eval w th (EOpAsg ANullish tgt v) m s).
Proof. exact lowerNullishAsg_general. Qed.
Print Assumptions lower_nullish_assign_equiv.

(* tgt **= v  ==  tgt' = __pow(tgt'', v) *)
Theorem lower_exponent_assign_equiv :
  forall (S : Type) (w : world S) (th : val) tgt v n,
    valid_target S w tgt -> below n tgt -> below n v ->
    forall m s, observe (eval w th (fst (lowerExpAsg tgt v n)) m s)
              = observe (eval w th (EOpAsg APow tgt v) m s).
Proof. exact lowerExpAsg_general. Qed.
Print Assumptions lower_exponent_assign_equiv.

(* WHOLE-VISITOR THEOREM (expressions without optional-chain links).
   Lowering every sub-expression bottom-up, exactly as the model of
   visitExprInOut does - nested ??, ||=, &&=, ??=, **=, ** inside member
   accesses, calls, arguments, keys, assignment targets, delete, comma ... with
   the folding of "literal ?? x" and the printer's (0, a.b)() wrapper - yields
   an expression with the same events, final state and value/exception as the
   source, for every world, feature set and start state.
     src F C e   e is built from the parser's constructors, assignment targets
                 are identifiers or member accesses, and every identifier that
                 esbuild would duplicate instead of capturing (the left operand
                 of a lowered ??, the object/key of a lowered compound
                 assignment) belongs to C;
     C           a set of constant bindings (exactly what F1-F3 violate);
     binop_nonnull / del_nonnull   arithmetic and delete never yield
                 null/undefined (used by esbuild's folding of "(a - b) ?? c").
   Optional chains: per-step theorems below; composition over chains is not
   proved yet (lower_sound_chainfree is PARTIAL in that sense). *)
Theorem lower_sound_chainfree :
  forall (S : Type) (w : world S) (th : val),
    binop_nonnull S w -> del_nonnull S w ->
    forall (F : feat) (C : Z -> Prop), (forall x, C x -> const_var S w x) ->
    forall e, src F C e ->
    forall m s, observe (eval w th (lower F e) m s) = observe (eval w th e m s).
Proof. exact lower_sound. Qed.
Print Assumptions lower_sound_chainfree.

(* OPTIONAL CHAINS OF ARBITRARY LENGTH (induction over the list of links).
   e' is a well-formed chain [frag]: an OcStart link at the bottom, OcCont
   links above; [flatten e'] = (start, links from the inside out, starts-with-
   call) is the model's step 1 of lowerOptionalChain.  The sub-expressions of
   the links (keys, arguments) and start may already be lowered; their
   temporaries are below the counter ([links_fresh], ~ In n (tmps start)).
   Each theorem: the lowered expression has the same events, final state and
   value/exception as the native chain, for every world and state. *)

(* start?.a.b(c)[k]...  (the chain does not start with a call) *)
Theorem lower_optional_chain_equiv :
  forall (S : Type) (w : world S) (th : val) F e' i n start ls,
    frag e' -> flatten e' = Some (start, ls, false) -> no_delete ls ->
    f_optchain F = true -> storeThis i = false ->
    start <> ENull -> start <> EUndef -> cap_ok S w start ->
    ~ In n (tmps start) -> links_fresh (L1 n) ls ->
    forall m s, observe (eval w th (fst (fst (lowerOptionalChain F e' i out0 n))) m s)
              = observe (eval w th e' m s).
Proof. exact chain_plain. Qed.
Print Assumptions lower_optional_chain_equiv.

(* tg.name?.(args).x.y(z)...  : the call that starts the chain is made with
   this = tg, tg evaluated once (captured, or a constant binding - F3/F3b are
   the non-constant identifiers); requires Function.prototype.call intact (F5) *)
Theorem lower_optional_call_member_equiv :
  forall (S : Type) (w : world S) (th : val) F e' i n tg name args rest,
    frag e' -> flatten e' = Some (EDot tg name OcNone, LCall args :: rest, true) -> no_delete rest ->
    f_optchain F = true -> storeThis i = false ->
    cap_ok S w tg -> call_intact S w ->
    (forall k, L2 n k -> ~ In k (tmps tg)) -> links_fresh (L2 n) (LCall args :: rest) ->
    forall m s, observe (eval w th (fst (fst (lowerOptionalChain F e' i out0 n))) m s)
              = observe (eval w th e' m s).
Proof. exact chain_call_member. Qed.
Print Assumptions lower_optional_call_member_equiv.

(* tg[key]?.(args)... *)
Theorem lower_optional_call_index_equiv :
  forall (S : Type) (w : world S) (th : val) F e' i n tg key args rest,
    frag e' -> flatten e' = Some (EIndex tg key OcNone, LCall args :: rest, true) -> no_delete rest ->
    f_optchain F = true -> storeThis i = false ->
    cap_ok S w tg -> call_intact S w ->
    (forall k, L2 n k -> ~ In k (tmps tg)) -> (forall k, L2 n k -> ~ In k (tmps key)) ->
    links_fresh (L2 n) (LCall args :: rest) ->
    forall m s, observe (eval w th (fst (fst (lowerOptionalChain F e' i out0 n))) m s)
              = observe (eval w th e' m s).
Proof. exact chain_call_index. Qed.
Print Assumptions lower_optional_call_index_equiv.

(* start?.(args)...  where start is not a member access (this is undefined) *)
Theorem lower_optional_call_plain_equiv :
  forall (S : Type) (w : world S) (th : val) F e' i n start args rest,
    frag e' -> flatten e' = Some (start, LCall args :: rest, true) -> no_delete rest ->
    f_optchain F = true -> storeThis i = false ->
    start <> ENull -> start <> EUndef -> ends_with_access start = false ->
    (forall m s, match eval w th start m s with (_, _, _, Ok o) => baseof o = VUndef | _ => True end) ->
    cap_ok S w start -> ~ In n (tmps start) -> links_fresh (L1 n) (LCall args :: rest) ->
    forall m s, observe (eval w th (fst (fst (lowerOptionalChain F e' i out0 n))) m s)
              = observe (eval w th e' m s).
Proof. exact chain_call_plain. Qed.
Print Assumptions lower_optional_call_plain_equiv.

(* delete start?.a.b[k]...  (short-circuits to true) *)
Theorem lower_optional_delete_equiv :
  forall (S : Type) (w : world S) (th : val) F d i n,
    frag d -> ends_with_access d = true ->
    forall start ls0 l,
    flatten d = Some (start, ls0 ++ [l], false) -> no_delete (ls0 ++ [l]) ->
    f_optchain F = true ->
    start <> ENull -> start <> EUndef -> cap_ok S w start ->
    ~ In n (tmps start) -> links_fresh (L1 n) (ls0 ++ [l]) ->
    forall m s, observe (eval w th (fst (fst (lowerOptionalChain F (EDelete d) i out0 n))) m s)
              = observe (eval w th (EDelete d) m s).
Proof. exact chain_delete_plain. Qed.
Print Assumptions lower_optional_delete_equiv.

(* null?.a.b(c) is dead code: replaced by undefined for every feature set *)
Theorem lower_optional_chain_dead :
  forall (S : Type) (w : world S) (th : val) F e' i childOut n start ls swc,
    frag e' -> flatten e' = Some (start, ls, swc) -> start = ENull \/ start = EUndef ->
    forall m s, observe (eval w th (fst (fst (lowerOptionalChain F e' i childOut n))) m s)
              = observe (eval w th e' m s).
Proof. exact chain_dead. Qed.
Print Assumptions lower_optional_chain_dead.

(* THIS PASSING between an inner chain and the optional call made on it:
   a?.b?.(x).c ...   and   a?.b.c?.(x) ...
   The callee P = start?.l1...lk.lm is lowered first with storeThisArgForParent-
   OptionalChain (producer_*: what lowerOptionalChain returns for it, including
   exprOut.thisArgFunc); the outer chain eo' then has the lowered callee as its
   start and receives that thisArg.  Conclusion: the fully lowered expression
   behaves like the native two-level chain eo: the call is made with this = the
   object the last member of P was read from, everything evaluated once. *)
Theorem lower_optional_call_over_member_equiv :
  forall (S : Type) (w : world S) (th : val) F eo eo' i n start lm args rest first again n3,
    member_link lm ->
    capture start n = (first, again, n3) ->
    forall P, frag P -> flatten P = Some (start, [lm], false) ->
    frag eo -> flatten eo = Some (P, LCall args :: rest, true) ->
    frag eo' ->
    flatten eo' = Some (EIf (EEqNull false first) EUndef (link_expr lm again), LCall args :: rest, true) ->
    no_delete rest -> f_optchain F = true -> storeThis i = false ->
    cap_ok S w start -> call_intact S w ->
    (forall k, L3 n k -> ~ In k (tmps start)) ->
    (forall k, L3 n k -> ~ In k (link_tmps lm)) ->
    links_fresh (L3 n) (LCall args :: rest) ->
    forall m s, observe (eval w th (fst (fst (lowerOptionalChain F eo' i (mkOut (Some again) false) n3))) m s)
              = observe (eval w th eo m s).
Proof. exact chain_call_over_member. Qed.
Print Assumptions lower_optional_call_over_member_equiv.

Theorem lower_optional_call_over_chain_equiv :
  forall (S : Type) (w : world S) (th : val) F eo eo' i n start pre lm args rest first again n3,
    member_link lm -> pre <> [] -> no_delete pre ->
    capture start n = (first, again, n3) ->
    forall P, frag P -> flatten P = Some (start, pre ++ [lm], false) ->
    frag eo -> flatten eo = Some (P, LCall args :: rest, true) ->
    frag eo' ->
    flatten eo' = Some (EIf (EEqNull false first) EUndef (link_expr lm (EAssign (ETmp n3) (fold_links pre again))),
                        LCall args :: rest, true) ->
    no_delete rest -> f_optchain F = true -> storeThis i = false ->
    cap_ok S w start -> call_intact S w ->
    (forall k, L3 n k -> ~ In k (tmps start)) ->
    links_fresh (L3 n) (pre ++ [lm]) ->
    links_fresh (L3 n) (LCall args :: rest) ->
    forall m s, observe (eval w th (fst (fst (lowerOptionalChain F eo' i (mkOut (Some (ETmp n3)) false) (n3 + 1)))) m s)
              = observe (eval w th eo m s).
Proof. exact chain_call_over_chain. Qed.
Print Assumptions lower_optional_call_over_chain_equiv.

(* the two hypotheses about eo' above are exactly what the model computes for the callee *)
Theorem optional_callee_producer :
  forall F P hcp n start pre lm first again n3,
    frag P -> flatten P = Some (start, pre ++ [lm], false) -> member_link lm -> ends_with_access P = true ->
    pre <> [] -> f_optchain F = true -> start <> ENull -> start <> EUndef ->
    capture start n = (first, again, n3) ->
    lowerOptionalChain F P (mkIn hcp true) out0 n
    = (EIf (EEqNull false first) EUndef (link_expr lm (EAssign (ETmp n3) (fold_links pre again))),
       mkOut (Some (ETmp n3)) false, n3 + 1).
Proof. exact producer_general. Qed.
Print Assumptions optional_callee_producer.

Theorem optional_callee_producer_single :
  forall F P hcp n start lm first again n3,
    frag P -> flatten P = Some (start, [lm], false) -> member_link lm -> ends_with_access P = true ->
    f_optchain F = true -> start <> ENull -> start <> EUndef ->
    capture start n = (first, again, n3) ->
    lowerOptionalChain F P (mkIn hcp true) out0 n
    = (EIf (EEqNull false first) EUndef (link_expr lm again), mkOut (Some again) false, n3).
Proof. exact producer_single. Qed.
Print Assumptions optional_callee_producer_single.

(* WHOLE-VISITOR THEOREM WITH OPTIONAL CHAINS.  src2 F C e extends src to
   optional-chain links anywhere in the tree (in starts, keys, arguments,
   assignment right-hand sides, nested chains, under delete, chains that start
   with a call a.b?.(x).c, f()?.(x)[k] ...).  A chain fragment is carried
   through the induction with lowered pieces, its root applies
   lowerOptionalChain, and the result is composed with the surrounding
   lowerings.  Side conditions of src2, each tied to a refutation or to the
   item below:
     - a call whose callee is a chain ending in a member access is excluded:
       (a?.b)(x) is refuted (F4); a?.b?.(x) needs the this value of the inner
       chain - proved per step (lower_optional_call_over_member_equiv,
       optional_chain_root_explicit_this), not yet composed;
     - the callee of an optional call is not a foldable "null ?? a.b" (F6);
     - identifiers that esbuild duplicates are constant bindings (F1-F3b). *)
Theorem lower_sound_chains :
  forall (S : Type) (w : world S) (th : val),
    binop_nonnull S w -> del_nonnull S w -> call_intact S w ->
    forall (F : feat) (C : Z -> Prop), (forall x, C x -> const_var S w x) ->
    forall e, src2 F C e ->
    forall m s, observe (eval w th (lower F e) m s) = observe (eval w th e m s).
Proof. exact lower_sound2. Qed.
Print Assumptions lower_sound_chains.

(* The general account of lowerOptionalChain behind it (Chain2.v), for every
   list of links, every way the start is lowered [StartPost: plain capture,
   captured object of a member callee, or a callee chain that was lowered first
   and left its this in a temporary], with or without the capture for the
   parent's this (TStore: storeThisArgForParentOptionalChain) and under delete
   (TDelete).  This covers a.b?.().c?.() (call-start producer) and
   delete a.b?.().c (call-start chain under delete) at the per-step level. *)
Theorem optional_chain_root_plain_this :
  forall (S : Type) (w : world S) (th : val) (L : tpred) F e0 i childOut n start ls swc first again n3
         (cS : M S out) (isdel : bool),
    flatten e0 = Some (start, (if isdel then ls ++ [LDelete] else ls), swc) ->
    is_delete e0 = isdel -> (isdel = true -> ends_with_access e0 = false) ->
    start <> ENull -> start <> EUndef -> f_optchain F = true ->
    step2 swc (thisArg childOut) start n = (start, None, n) ->
    capture start n = (first, again, n3) ->
    simM S L (fun _ => True) (StartPost S w th ls again None) (eval w th first) cS -> robust S w th L n3 again ->
    ls <> [] -> links_fresh L ls -> no_delete ls -> L n3 ->
    let store := storeThis i && ends_with_access e0 in
    let md := mode_of isdel store in
    (md = TStore -> member_link (last ls LDelete)) ->
    (md = TDelete -> exists pre l, ls = pre ++ [l] /\ member_link l) ->
    simM S L (fun _ => True) (PostR S w th md (thisArg (snd (fst (lowerOptionalChain F e0 i childOut n)))))
         (eval w th (fst (fst (lowerOptionalChain F e0 i childOut n))))
         (bind cS (fun r => if nullish (valof r) then ret (if isdel then ov (VBool true) else OShort)
                            else tail_run S w th md ls r)).
Proof. exact loc_sound_none. Qed.
Print Assumptions optional_chain_root_plain_this.

Theorem optional_chain_root_explicit_this :
  forall (S : Type) (w : world S) (th : val) (L : tpred) F e0 i childOut n start args rest swc start2 t n2
         first again n3 (cS : M S out) (isdel : bool),
    flatten e0 = Some (start, (if isdel then (LCall args :: rest) ++ [LDelete] else LCall args :: rest), swc) ->
    is_delete e0 = isdel -> (isdel = true -> ends_with_access e0 = false) ->
    start <> ENull -> start <> EUndef -> f_optchain F = true ->
    step2 swc (thisArg childOut) start n = (start2, Some t, n2) ->
    capture start2 n2 = (first, again, n3) ->
    simM S L (fun _ => True) (StartPost S w th (LCall args :: rest) again (Some t)) (eval w th first) cS ->
    robust S w th L n3 again -> robust S w th L n3 t -> call_intact S w ->
    links_fresh L (LCall args :: rest) -> no_delete rest -> L n3 ->
    let store := storeThis i && ends_with_access e0 in
    let md := mode_of isdel store in
    (md = TStore -> rest <> [] /\ member_link (last rest LDelete)) ->
    (md = TDelete -> exists pre l, rest = pre ++ [l] /\ member_link l) ->
    simM S L (fun _ => True) (PostR S w th md (thisArg (snd (fst (lowerOptionalChain F e0 i childOut n)))))
         (eval w th (fst (fst (lowerOptionalChain F e0 i childOut n))))
         (bind cS (fun r => if nullish (valof r) then ret (if isdel then ov (VBool true) else OShort)
                            else tail_run S w th md (LCall args :: rest) r)).
Proof. exact loc_sound_some. Qed.
Print Assumptions optional_chain_root_explicit_this.

(* a callee chain that was lowered first hands its this over to the call *)
Theorem optional_chain_start_from_lowered_callee :
  forall (S : Type) (w : world S) (th : val) (L : tpred) ls lowP P' t n2,
    simM S L (fun _ => True) (PostR S w th TStore (Some t)) (eval w th lowP) (eval w th P') ->
    robust S w th L n2 t -> L n2 ->
    simM S L (fun _ => True) (StartPost S w th ls (ETmp n2) (Some t)) (eval w th (EAssign (ETmp n2) lowP)) (eval w th P').
Proof. exact start_producer. Qed.
Print Assumptions optional_chain_start_from_lowered_callee.

(* every temporary visit creates from counter n on is numbered >= n *)
Theorem visit_temporaries_above :
  forall F e lo i n, above lo e -> lo <= n -> vres lo n (visit F i e n).
Proof. exact visit_above. Qed.
Print Assumptions visit_temporaries_above.

(* ---- private names (Private.v, PrivateProofs.v) ----
   [plower] mirrors lowerPrivateGet/Set/BrandCheck/SetBinOp, the private
   branches of the **=, ??=, ||=, &&= lowerings and the private call case of
   visitExprInOut; [peval] runs the emitted helper calls with the helper bodies
   of runtime.go (__privateGet, __privateSet, __privateIn, __privateMethod,
   __privateAdd, __accessCheck) over WeakMap/WeakSet primitives; [neval] is the
   native semantics (PrivateGet, PrivateSet, PrivateFieldAdd,
   PrivateMethodOrAccessorAdd, "#x in o", ToObject of the base).  All worlds
   over a user state U paired with the private storage, all operand
   expressions (already lowered or not), all kinds of private member (field,
   method, getter, setter, pair; static or not - a static member is the same
   with the class constructor as the object).
   Hypotheses: Function.prototype.call is intact ([call_intact], as for
   optional calls); fields live in WeakMaps and the brand of methods/accessors
   in a WeakSet (what the class lowering sets up); a duplicated identifier
   target is a constant binding ([cap_ok], F2c is the counterexample); for a
   call through a private FIELD or GETTER the callee is not null/undefined
   unless there are no arguments (F13 is the counterexample). *)

(* t.#x  =>  __privateGet(t, _x [, x_get])  or  __privateMethod(t, _C_instances, x_fn):
   same result, same TypeError cases (missing brand, null base, setter-only accessor) *)
Theorem private_get_equiv :
  forall (U : Type) (w : world (U * pst)) (th terr : val)
         (names : Z -> pname) (fobj : Z -> Z) (isset : Z -> bool),
    call_intact (U * pst) w ->
    (forall x, isset (pn_store (names x)) = match pn_kind (names x) with KField => false | _ => true end) ->
    forall (F : feat) (t : expr) (x n : Z) (m : tstore) (s : U * pst),
      peval w th terr fobj isset (fst (plower names F (PGet t x) n)) m s
      = neval w th terr names fobj (PGet t x) m s.
Proof. exact private_get_sound. Qed.
Print Assumptions private_get_equiv.

(* t.#x = v  =>  __privateSet(t, _x, v [, x_set]): the value is evaluated before
   the brand check, writing a method or a getter-only accessor throws *)
Theorem private_set_equiv :
  forall (U : Type) (w : world (U * pst)) (th terr : val)
         (names : Z -> pname) (fobj : Z -> Z) (isset : Z -> bool),
    call_intact (U * pst) w ->
    (forall x, isset (pn_store (names x)) = match pn_kind (names x) with KField => false | _ => true end) ->
    forall (F : feat) (t : expr) (x : Z) (v : expr) (n : Z) (m : tstore) (s : U * pst),
      peval w th terr fobj isset (fst (plower names F (PSet t x v) n)) m s
      = neval w th terr names fobj (PSet t x v) m s.
Proof. exact private_set_sound. Qed.
Print Assumptions private_set_equiv.

(* #x in t  =>  __privateIn(_x, t): TypeError on a non-object, no other effect *)
Theorem private_in_equiv :
  forall (U : Type) (w : world (U * pst)) (th terr : val)
         (names : Z -> pname) (fobj : Z -> Z) (isset : Z -> bool)
         (F : feat) (t : expr) (x n : Z) (m : tstore) (s : U * pst),
    peval w th terr fobj isset (fst (plower names F (PIn x t) n)) m s
    = neval w th terr names fobj (PIn x t) m s.
Proof. exact private_in_sound. Qed.
Print Assumptions private_in_equiv.

(* t.#x(args)  =>  __privateGet(_n = t, _x).call(_n, args)  /  __privateMethod(...).call(...) *)
Theorem private_call_equiv :
  forall (U : Type) (w : world (U * pst)) (th terr : val)
         (names : Z -> pname) (fobj : Z -> Z) (isset : Z -> bool),
    call_intact (U * pst) w ->
    (forall x, isset (pn_store (names x)) = match pn_kind (names x) with KField => false | _ => true end) ->
    forall (F : feat) (t : expr) (x : Z) (args : list expr) (n : Z),
      pn_kind (names x) = KMethod \/ args = [] /\ nullish_callee_throws U w terr ->
      ~ In n (tmps t) -> ~ In n (flat_map tmps args) ->
      forall (m : tstore) (s : U * pst),
        observe (peval w th terr fobj isset (fst (plower names F (PCall t x args) n)) m s)
        = observe (neval w th terr names fobj (PCall t x args) m s).
Proof. exact private_call_sound. Qed.
Print Assumptions private_call_equiv.

(* t.#x -= v  =>  __privateSet(_n = t, _x, __privateGet(_n, _x) - v)   (every strict operator)
   t.#x **= v =>  __privateSet(_n = t, _x, __pow(__privateGet(_n, _x), v)) *)
Theorem private_arith_assign_equiv :
  forall (U : Type) (w : world (U * pst)) (th terr : val)
         (names : Z -> pname) (fobj : Z -> Z) (isset : Z -> bool),
    call_intact (U * pst) w ->
    (forall x, isset (pn_store (names x)) = match pn_kind (names x) with KField => false | _ => true end) ->
    forall (F : feat) (op : binop) (t : expr) (x : Z) (v : expr) (n : Z),
      strict_op op -> cap_ok (U * pst) w t -> ~ In n (tmps t) -> ~ In n (tmps v) ->
      forall (m : tstore) (s : U * pst),
        observe (peval w th terr fobj isset (fst (plower names F (PArith op t x v) n)) m s)
        = observe (neval w th terr names fobj (PArith op t x v) m s).
Proof. exact private_arith_assign_sound. Qed.
Print Assumptions private_arith_assign_equiv.

(* t.#x ||= v, &&= v, ??= v  =>  __privateGet(_n = t, _x) || __privateSet(_n, _x, v) ...
   and (_k = __privateGet(_n = t, _x)) != null ? _k : __privateSet(_n, _x, v) *)
Theorem private_logical_assign_equiv :
  forall (U : Type) (w : world (U * pst)) (th terr : val)
         (names : Z -> pname) (fobj : Z -> Z) (isset : Z -> bool),
    call_intact (U * pst) w ->
    (forall x, isset (pn_store (names x)) = match pn_kind (names x) with KField => false | _ => true end) ->
    forall (F : feat) (op : lop) (t : expr) (x : Z) (v : expr) (n : Z),
      cap_ok (U * pst) w t ->
      (forall k, n <= k < n + 2 -> ~ In k (tmps t) /\ ~ In k (tmps v)) ->
      forall (m : tstore) (s : U * pst),
        observe (peval w th terr fobj isset (fst (plower names F (PLog op t x v) n)) m s)
        = observe (neval w th terr names fobj (PLog op t x v) m s).
Proof. exact private_logical_assign_sound. Qed.
Print Assumptions private_logical_assign_equiv.

(* the constructor prologue  __privateAdd(this, _C_instances); __privateAdd(this, _x, init); ...
   is InitializeInstanceElements (brand, then every field right after its initialiser;
   adding twice throws) *)
Theorem private_add_equiv :
  forall (U : Type) (w : world (U * pst)) (th terr : val) (names : Z -> pname) (isset : Z -> bool),
    (forall x, isset (pn_store (names x)) = match pn_kind (names x) with KField => false | _ => true end) ->
    forall l : list pinit, Forall (pinit_ok names isset) l ->
    forall (m : tstore) (s : U * pst),
      hinit U w th terr names isset l m s = ninit U w th terr names l m s.
Proof. exact private_add_sound. Qed.
Print Assumptions private_add_equiv.

(* t.#x as an assignment target ([t.#x = d] = ..., for (t.#x of ...))
   =>  __privateWrapper(t, _x [, x_set])._ : t is evaluated when the reference is,
   whatever runs in between (default value, other elements, the iterator: mid),
   the later store is PrivateSet (the shape the fix 9d95b30 of F15/F16 emits) *)
Theorem private_target_equiv :
  forall (U : Type) (w : world (U * pst)) (th terr : val)
         (names : Z -> pname) (fobj : Z -> Z) (isset : Z -> bool),
    call_intact (U * pst) w ->
    (forall x, isset (pn_store (names x)) = match pn_kind (names x) with KField => false | _ => true end) ->
    forall (F : feat) (t : expr) (x n : Z) (mid : M (U * pst) unit) (v : val) (m : tstore) (s : U * pst),
      bind (ptarget w th terr fobj isset (fst (plower names F (PTarget t x) n)))
           (fun k => bind mid (fun _ => lift (k v))) m s
      = bind (ntarget w th terr names fobj (PTarget t x))
             (fun k => bind mid (fun _ => lift (k v))) m s.
Proof. exact private_target_sound. Qed.
Print Assumptions private_target_equiv.

(* every private-name form at once *)
Theorem private_lowering_sound :
  forall (U : Type) (w : world (U * pst)) (th terr : val)
         (names : Z -> pname) (fobj : Z -> Z) (isset : Z -> bool),
    call_intact (U * pst) w ->
    (forall x, isset (pn_store (names x)) = match pn_kind (names x) with KField => false | _ => true end) ->
    forall (F : feat) (f : pform) (n : Z), pform_ok U w terr names f n ->
    forall (m : tstore) (s : U * pst),
      observe (peval w th terr fobj isset (fst (plower names F f n)) m s)
      = observe (neval w th terr names fobj f m s).
Proof. exact plower_sound. Qed.
Print Assumptions private_lowering_sound.

(* F13  o.#f(g()) with #f undefined: natively g() runs and then the call throws;
   the lowered code throws while reading ".call" and never runs g() *)
Theorem private_call_nullish_callee_refuted :
  pwit_lowered f13_src <> pwit_native f13_src.
Proof. exact refuted_F13. Qed.
Print Assumptions private_call_nullish_callee_refuted.

(* F2c  o.#p ??= 5 where the getter of #p reassigns o: the setter runs on the new object *)
Theorem private_logical_assign_getter_reassigns_refuted :
  pwit_lowered f2c_src <> pwit_native f2c_src.
Proof. exact refuted_F2c. Qed.
Print Assumptions private_logical_assign_getter_reassigns_refuted.

(* NOT PROVED: the composition of the this-passing case (a?.b?.(x), a.b?.().c?.())
   with the visitor theorem (all per-step ingredients above are proved; the
   induction needs the lowered callee's own temporaries to be tracked across
   the arguments); the minify-only dead-chain branch of lowerOptionalChain;
   private names inside optional chains (o?.#x), t.#x++ and the read side of
   __privateWrapper, and the class-level set-up that creates the
   WeakMaps (F14: one "var _x" shared by every evaluation of the class). *)

(* The full statement of the property - for every world, feature set and
   temporary-free source expression the lowered tree behaves like the source -
   is FALSE of the faithful model.  Witnesses (each replayed on the real code
   by the harness, see witnessReplay):
     F1  ga ?? 2            accessor-backed global read twice
     F2  a.b ||= 5          a re-read after the getter of b reassigned it
     F3  c.m?.()            c re-read for this after the getter of m reassigned it
     F4  (a?.b)(g())        a = null: arguments not evaluated before the TypeError
     F6  (null ?? o.f)?.()  folded callee becomes a property access: this = o *)
Theorem lowering_preserves_behaviour_refuted :
  exists (S : Type) (w : world S) (th : val) (F : feat) (e : expr) (s : S),
    tmps e = [] /\ Sem.run w th (lower F e) s <> Sem.run w th e s.
Proof. exact lowering_refuted_all. Qed.
Print Assumptions lowering_preserves_behaviour_refuted.

Theorem lowering_nullish_identifier_refuted :
  Sem.run wit_world VUndef (lower all_features f1_src) 1 <> Sem.run wit_world VUndef f1_src 1.
Proof. exact refuted_F1. Qed.
Print Assumptions lowering_nullish_identifier_refuted.

Theorem lowering_logical_assign_reread_refuted :
  Sem.run wit_world VUndef (lower all_features f2_src) 1 <> Sem.run wit_world VUndef f2_src 1.
Proof. exact refuted_F2. Qed.
Print Assumptions lowering_logical_assign_reread_refuted.

Theorem lowering_optional_call_this_reread_refuted :
  Sem.run wit_world VUndef (lower all_features f3_src) 1 <> Sem.run wit_world VUndef f3_src 1.
Proof. exact refuted_F3. Qed.
Print Assumptions lowering_optional_call_this_reread_refuted.

Theorem lowering_parenthesized_chain_call_refuted :
  Sem.run wit_world VUndef (lower all_features f4_src) 1 <> Sem.run wit_world VUndef f4_src 1.
Proof. exact refuted_F4. Qed.
Print Assumptions lowering_parenthesized_chain_call_refuted.

Theorem lowering_folded_callee_this_refuted :
  Sem.run wit_world VUndef (lower all_features f6_src) 1 <> Sem.run wit_world VUndef f6_src 1.
Proof. exact refuted_F6. Qed.
Print Assumptions lowering_folded_callee_this_refuted.
