(* C05 property theorems.  Only statements closed by [exact lemma] and
   Print Assumptions.  S, w, th range over ALL worlds (arbitrary effects of
   identifier reads, property get/set/delete, calls and operators on an
   arbitrary user state) and all values of this. *)
From V Require Import Common.Base C05.Syntax C05.Sem C05.Lower C05.Frame C05.LowerProofs C05.Witness.

(* An evaluation reads and writes only the temporaries that occur in the
   expression: fresh temporaries cannot be observed by, or interfere with, any
   other sub-expression (every expression, every world). *)
Theorem temporaries_are_framed :
  forall (S : Type) (w : world S) (th : val) (e : expr), framed S (tmps e) (eval w th e).
Proof. exact eval_framed. Qed.
Print Assumptions temporaries_are_framed.

(* lowerNullishCoalescing: "a ?? b" and its lowering "(_n = a) != null ? _n : b"
   (or "a != null ? a : b" when a needs no capture) have the same events, final
   state and value/exception, for all operand expressions (possibly already
   lowered, containing other temporaries), provided the temporary does not
   occur in b and - only if a is a bare identifier, which esbuild never
   captures - reading that identifier is pure.  PARTIAL: the identifier side
   condition cannot be dropped (lowering_nullish_identifier_refuted). *)
Theorem lower_nullish_equiv_partial :
  forall (S : Type) (w : world S) (th : val) (a b : expr) (n : Z),
    ~ In n (tmps b) ->
    (forall x, a = EId x -> pure_var S w x) ->
    forall m s, observe (eval w th (fst (lowerNullishCoalescing a b n)) m s)
              = observe (eval w th (EBin BNullish a b) m s).
Proof. exact lowerNullish_equiv. Qed.
Print Assumptions lower_nullish_equiv_partial.

(* a.b ||= v / a.b &&= v with a captured object expression:
   "(_n = t).name || (_n.name = v)" *)
Theorem lower_logical_assign_dot_equiv_partial :
  forall (S : Type) (w : world S) (th : val) F op t name v n,
    f_logasg F = true -> is_inline_value t = false -> ~ In n (tmps v) ->
    forall r, lowerLogicalAsg F op (EDot t name OcNone) v n = Some r ->
    (op = BOr -> obs_eq S w th (fst r) (EOpAsg AOr (EDot t name OcNone) v)) /\
    (op = BAnd -> obs_eq S w th (fst r) (EOpAsg AAnd (EDot t name OcNone) v)).
Proof. exact lowerLogicalAsg_dot_captured. Qed.
Print Assumptions lower_logical_assign_dot_equiv_partial.

(* t[k] ||= v / t[k] &&= v with object and key captured:
   "(_n = t)[_n1 = k] || (_n[_n1] = v)": t, k, v evaluated once, in this order *)
Theorem lower_logical_assign_index_equiv_partial :
  forall (S : Type) (w : world S) (th : val) F op t k v n,
    f_logasg F = true -> is_inline_value t = false -> is_inline_value k = false ->
    ~ In n (tmps k) -> ~ In n (tmps v) -> ~ In (n + 1) (tmps v) ->
    forall r, lowerLogicalAsg F op (EIndex t k OcNone) v n = Some r ->
    (op = BOr -> obs_eq S w th (fst r) (EOpAsg AOr (EIndex t k OcNone) v)) /\
    (op = BAnd -> obs_eq S w th (fst r) (EOpAsg AAnd (EIndex t k OcNone) v)).
Proof. exact lowerLogicalAsg_index_captured. Qed.
Print Assumptions lower_logical_assign_index_equiv_partial.

(* x ||= v, x &&= v on an identifier: no side condition at all *)
Theorem lower_logical_assign_id_equiv :
  forall (S : Type) (w : world S) (th : val) F x v n r,
    f_logasg F = true ->
    (lowerLogicalAsg F BOr (EId x) v n = Some r -> obs_eq S w th (fst r) (EOpAsg AOr (EId x) v)) /\
    (lowerLogicalAsg F BAnd (EId x) v n = Some r -> obs_eq S w th (fst r) (EOpAsg AAnd (EId x) v)).
Proof. exact lowerLogicalAsg_id_equiv. Qed.
Print Assumptions lower_logical_assign_id_equiv.

(* x **= v  =>  x = __pow(x, v)   (no side condition) *)
Theorem lower_exponent_assign_id_equiv :
  forall (S : Type) (w : world S) (th : val) x v n,
    obs_eq S w th (fst (lowerExpAsg (EId x) v n)) (EOpAsg APow (EId x) v).
Proof. exact lowerExpAsg_id_equiv. Qed.
Print Assumptions lower_exponent_assign_id_equiv.

(* t.name **= v  =>  (_n = t).name = __pow(_n.name, v) *)
Theorem lower_exponent_assign_dot_equiv_partial :
  forall (S : Type) (w : world S) (th : val) t name v n,
    is_inline_value t = false -> ~ In n (tmps v) ->
    obs_eq S w th (fst (lowerExpAsg (EDot t name OcNone) v n)) (EOpAsg APow (EDot t name OcNone) v).
Proof. exact lowerExpAsg_dot_captured. Qed.
Print Assumptions lower_exponent_assign_dot_equiv_partial.

(* t.name ??= v, with and without ?? itself being lowered *)
Theorem lower_nullish_assign_dot_equiv_partial :
  forall (S : Type) (w : world S) (th : val) F t name v n r,
    f_logasg F = true -> is_inline_value t = false ->
    ~ In n (tmps v) -> ~ In (n + 1) (tmps v) ->
    lowerNullishAsg F (EDot t name OcNone) v n = Some r ->
    obs_eq S w th (fst r) (EOpAsg ANullish (EDot t name OcNone) v).
Proof. exact lowerNullishAsg_dot_captured. Qed.
Print Assumptions lower_nullish_assign_dot_equiv_partial.

(* t?.name  =>  (_n = t) == null ? void 0 : _n.name *)
Theorem lower_optional_chain_dot_equiv_partial :
  forall (S : Type) (w : world S) (th : val) F t name n,
    f_optchain F = true -> is_inline_value t = false ->
    obs_eq S w th (fst (fst (lowerOptionalChain F (EDot t name OcStart) (mkIn false false) out0 n)))
                  (EDot t name OcStart).
Proof. exact lowerOptionalChain_dot_captured. Qed.
Print Assumptions lower_optional_chain_dot_equiv_partial.

(* delete t?.name  =>  (_n = t) == null ? true : delete _n.name *)
Theorem lower_optional_chain_delete_equiv_partial :
  forall (S : Type) (w : world S) (th : val) F t name n,
    f_optchain F = true -> is_inline_value t = false ->
    obs_eq S w th (fst (fst (lowerOptionalChain F (EDelete (EDot t name OcStart)) (mkIn true false) out0 n)))
                  (EDelete (EDot t name OcStart)).
Proof. exact lowerOptionalChain_delete_captured. Qed.
Print Assumptions lower_optional_chain_delete_equiv_partial.

(* t.name?.(args)  =>  (_n1 = (_n = t).name) == null ? void 0 : _n1.call(_n, args):
   this is the captured object, arguments are evaluated once, after the test *)
Theorem lower_optional_call_this_equiv_partial :
  forall (S : Type) (w : world S) (th : val) F t name args n,
    f_optchain F = true -> is_inline_value t = false -> call_intact S w ->
    (forall k, In k [n; n + 1] -> ~ In k (flat_map tmps args)) ->
    obs_eq S w th (fst (fst (lowerOptionalChain F (ECall (EDot t name OcNone) args OcStart) (mkIn false false) out0 n)))
                  (ECall (EDot t name OcNone) args OcStart).
Proof. exact lowerOptionalChain_call_captured. Qed.
Print Assumptions lower_optional_call_this_equiv_partial.

(* The full statement of the property - for every world, feature set and
   temporary-free source expression the lowered tree behaves like the source -
   is FALSE of the faithful model.  Witnesses (each replayed on the real code
   by the harness, see witnessReplay):
     F1  ga ?? 2            accessor-backed global read twice
     F2  a.b ||= 5          a re-read after the getter of b reassigned it
     F3  c.m?.()            c re-read for this after the getter of m reassigned it
     F4  (a?.b)(g())        a = null: arguments not evaluated before the TypeError
     F6  (null ?? o.f)?.()  folded callee becomes a property access: this = o *)
Theorem lowering_preserves_behaviour_refuted :
  exists (S : Type) (w : world S) (th : val) (F : feat) (e : expr) (s : S),
    tmps e = [] /\ run w th (lower F e) s <> run w th e s.
Proof. exact lowering_refuted_all. Qed.
Print Assumptions lowering_preserves_behaviour_refuted.

Theorem lowering_nullish_identifier_refuted :
  run wit_world VUndef (lower all_features f1_src) 1 <> run wit_world VUndef f1_src 1.
Proof. exact refuted_F1. Qed.
Print Assumptions lowering_nullish_identifier_refuted.

Theorem lowering_logical_assign_reread_refuted :
  run wit_world VUndef (lower all_features f2_src) 1 <> run wit_world VUndef f2_src 1.
Proof. exact refuted_F2. Qed.
Print Assumptions lowering_logical_assign_reread_refuted.

Theorem lowering_optional_call_this_reread_refuted :
  run wit_world VUndef (lower all_features f3_src) 1 <> run wit_world VUndef f3_src 1.
Proof. exact refuted_F3. Qed.
Print Assumptions lowering_optional_call_this_reread_refuted.

Theorem lowering_parenthesized_chain_call_refuted :
  run wit_world VUndef (lower all_features f4_src) 1 <> run wit_world VUndef f4_src 1.
Proof. exact refuted_F4. Qed.
Print Assumptions lowering_parenthesized_chain_call_refuted.

Theorem lowering_folded_callee_this_refuted :
  run wit_world VUndef (lower all_features f6_src) 1 <> run wit_world VUndef f6_src 1.
Proof. exact refuted_F6. Qed.
Print Assumptions lowering_folded_callee_this_refuted.
