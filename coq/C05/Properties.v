(* C05 property theorems.  Only statements closed by [exact lemma] and
   Print Assumptions.  S, w, th range over ALL worlds (arbitrary effects of
   identifier reads, property get/set/delete, calls and operators on an
   arbitrary user state) and all values of this. *)
From V Require Import Common.Base C05.Syntax C05.Sem C05.Lower C05.Frame C05.LowerProofs C05.SimLogic C05.Steps C05.Compose C05.Visit C05.Witness.

(* An evaluation reads and writes only the temporaries that occur in the
   expression: fresh temporaries cannot be observed by, or interfere with, any
   other sub-expression (every expression, every world). *)
Theorem temporaries_are_framed :
  forall (S : Type) (w : world S) (th : val) (e : expr), framed S (tmps e) (eval w th e).
Proof. exact eval_framed. Qed.
Print Assumptions temporaries_are_framed.

(* Per-step theorems, ALL operand expressions (already lowered or not), all
   worlds.  An operand is either captured in a temporary by esbuild or is one
   of the expressions it duplicates instead (null, undefined, this, literals,
   identifiers).  [cap_ok t]: t is not such an expression, or it is a literal /
   this, or it is an identifier that is a constant binding [const_var].  The
   refuted shapes F1-F3 are exactly duplicated identifiers that are not
   constant (accessor-backed global; variable reassigned by a getter).
   [below n e]: every temporary in e is smaller than n (what the visitor's
   counter guarantees). *)

(* a ?? b  ==  (_n = a) != null ? _n : b   /   a != null ? a : b *)
Theorem lower_nullish_equiv :
  forall (S : Type) (w : world S) (th : val) (a b : expr) (n : Z),
    cap_ok S w a -> ~ In n (tmps a) -> ~ In n (tmps b) ->
    forall m s, observe (eval w th (fst (lowerNullishCoalescing a b n)) m s)
              = observe (eval w th (EBin BNullish a b) m s).
Proof. exact lowerNullish_general. Qed.
Print Assumptions lower_nullish_equiv.

(* tgt ||= v, tgt &&= v for tgt = x | t.name | t[k]: object and key evaluated
   once and in order, the key value reaches get and set unchanged, v evaluated
   at most once and only when the test fails / succeeds *)
Theorem lower_logical_assign_equiv :
  forall (S : Type) (w : world S) (th : val) F bop aop tgt v n r,
    f_logasg F = true -> (bop = BOr /\ aop = AOr) \/ (bop = BAnd /\ aop = AAnd) ->
    valid_target S w tgt -> below n tgt -> below n v ->
    lowerLogicalAsg F bop tgt v n = Some r ->
    forall m s, observe (eval w th (fst r) m s) = observe (eval w th (EOpAsg aop tgt v) m s).
Proof. exact lowerLogicalAsg_general. Qed.
Print Assumptions lower_logical_assign_equiv.

(* tgt ??= v, whether or not ?? itself must be lowered as well *)
Theorem lower_nullish_assign_equiv :
  forall (S : Type) (w : world S) (th : val) F tgt v n r,
    f_logasg F = true ->
    valid_target S w tgt -> below n tgt -> below n v ->
    (f_nullish F = true -> forall x, tgt = EId x -> const_var S w x) ->
    lowerNullishAsg F tgt v n = Some r ->
    forall m s, observe (eval w th (fst r) m s) = observe (eval w th (EOpAsg ANullish tgt v) m s).
Proof. exact lowerNullishAsg_general. Qed.
Print Assumptions lower_nullish_assign_equiv.

(* tgt **= v  ==  tgt' = __pow(tgt'', v) *)
Theorem lower_exponent_assign_equiv :
  forall (S : Type) (w : world S) (th : val) tgt v n,
    valid_target S w tgt -> below n tgt -> below n v ->
    forall m s, observe (eval w th (fst (lowerExpAsg tgt v n)) m s)
              = observe (eval w th (EOpAsg APow tgt v) m s).
Proof. exact lowerExpAsg_general. Qed.
Print Assumptions lower_exponent_assign_equiv.

(* WHOLE-VISITOR THEOREM (expressions without optional-chain links).
   Lowering every sub-expression bottom-up, exactly as the model of
   visitExprInOut does - nested ??, ||=, &&=, ??=, **=, ** inside member
   accesses, calls, arguments, keys, assignment targets, delete, comma ... with
   the folding of "literal ?? x" and the printer's (0, a.b)() wrapper - yields
   an expression with the same events, final state and value/exception as the
   source, for every world, feature set and start state.
     src F C e   e is built from the parser's constructors, assignment targets
                 are identifiers or member accesses, and every identifier that
                 esbuild would duplicate instead of capturing (the left operand
                 of a lowered ??, the object/key of a lowered compound
                 assignment) belongs to C;
     C           a set of constant bindings (exactly what F1-F3 violate);
     binop_nonnull / del_nonnull   arithmetic and delete never yield
                 null/undefined (used by esbuild's folding of "(a - b) ?? c").
   Optional chains: per-step theorems below; composition over chains is not
   proved yet (lower_sound_chainfree is PARTIAL in that sense). *)
Theorem lower_sound_chainfree :
  forall (S : Type) (w : world S) (th : val),
    binop_nonnull S w -> del_nonnull S w ->
    forall (F : feat) (C : Z -> Prop), (forall x, C x -> const_var S w x) ->
    forall e, src F C e ->
    forall m s, observe (eval w th (lower F e) m s) = observe (eval w th e m s).
Proof. exact lower_sound. Qed.
Print Assumptions lower_sound_chainfree.

(* t?.name  =>  (_n = t) == null ? void 0 : _n.name *)
Theorem lower_optional_chain_dot_equiv_partial :
  forall (S : Type) (w : world S) (th : val) F t name n,
    f_optchain F = true -> is_inline_value t = false ->
    obs_eq S w th (fst (fst (lowerOptionalChain F (EDot t name OcStart) (mkIn false false) out0 n)))
                  (EDot t name OcStart).
Proof. exact lowerOptionalChain_dot_captured. Qed.
Print Assumptions lower_optional_chain_dot_equiv_partial.

(* delete t?.name  =>  (_n = t) == null ? true : delete _n.name *)
Theorem lower_optional_chain_delete_equiv_partial :
  forall (S : Type) (w : world S) (th : val) F t name n,
    f_optchain F = true -> is_inline_value t = false ->
    obs_eq S w th (fst (fst (lowerOptionalChain F (EDelete (EDot t name OcStart)) (mkIn true false) out0 n)))
                  (EDelete (EDot t name OcStart)).
Proof. exact lowerOptionalChain_delete_captured. Qed.
Print Assumptions lower_optional_chain_delete_equiv_partial.

(* t.name?.(args)  =>  (_n1 = (_n = t).name) == null ? void 0 : _n1.call(_n, args):
   this is the captured object, arguments are evaluated once, after the test *)
Theorem lower_optional_call_this_equiv_partial :
  forall (S : Type) (w : world S) (th : val) F t name args n,
    f_optchain F = true -> is_inline_value t = false -> call_intact S w ->
    (forall k, In k [n; n + 1] -> ~ In k (flat_map tmps args)) ->
    obs_eq S w th (fst (fst (lowerOptionalChain F (ECall (EDot t name OcNone) args OcStart) (mkIn false false) out0 n)))
                  (ECall (EDot t name OcNone) args OcStart).
Proof. exact lowerOptionalChain_call_captured. Qed.
Print Assumptions lower_optional_call_this_equiv_partial.

(* The full statement of the property - for every world, feature set and
   temporary-free source expression the lowered tree behaves like the source -
   is FALSE of the faithful model.  Witnesses (each replayed on the real code
   by the harness, see witnessReplay):
     F1  ga ?? 2            accessor-backed global read twice
     F2  a.b ||= 5          a re-read after the getter of b reassigned it
     F3  c.m?.()            c re-read for this after the getter of m reassigned it
     F4  (a?.b)(g())        a = null: arguments not evaluated before the TypeError
     F6  (null ?? o.f)?.()  folded callee becomes a property access: this = o *)
Theorem lowering_preserves_behaviour_refuted :
  exists (S : Type) (w : world S) (th : val) (F : feat) (e : expr) (s : S),
    tmps e = [] /\ run w th (lower F e) s <> run w th e s.
Proof. exact lowering_refuted_all. Qed.
Print Assumptions lowering_preserves_behaviour_refuted.

Theorem lowering_nullish_identifier_refuted :
  run wit_world VUndef (lower all_features f1_src) 1 <> run wit_world VUndef f1_src 1.
Proof. exact refuted_F1. Qed.
Print Assumptions lowering_nullish_identifier_refuted.

Theorem lowering_logical_assign_reread_refuted :
  run wit_world VUndef (lower all_features f2_src) 1 <> run wit_world VUndef f2_src 1.
Proof. exact refuted_F2. Qed.
Print Assumptions lowering_logical_assign_reread_refuted.

Theorem lowering_optional_call_this_reread_refuted :
  run wit_world VUndef (lower all_features f3_src) 1 <> run wit_world VUndef f3_src 1.
Proof. exact refuted_F3. Qed.
Print Assumptions lowering_optional_call_this_reread_refuted.

Theorem lowering_parenthesized_chain_call_refuted :
  run wit_world VUndef (lower all_features f4_src) 1 <> run wit_world VUndef f4_src 1.
Proof. exact refuted_F4. Qed.
Print Assumptions lowering_parenthesized_chain_call_refuted.

Theorem lowering_folded_callee_this_refuted :
  run wit_world VUndef (lower all_features f6_src) 1 <> run wit_world VUndef f6_src 1.
Proof. exact refuted_F6. Qed.
Print Assumptions lowering_folded_callee_this_refuted.
