(* The whole-visitor theorem: lowering every sub-expression bottom-up, the
   way visitExprInOut does, preserves the trace semantics of the modelled
   expression fragment.  Induction over the expression tree; each node uses
   the per-step theorem of its lowering (Steps.v) and the congruences
   (Compose.v); the counter discipline gives the freshness side conditions. *)
From V Require Import Common.Base C05.Syntax C05.Sem C05.Lower C05.Frame C05.SimLogic C05.Steps C05.Compose.

Section Visit.
  Variable S : Type.
  Variable w : world S.
  Variable th : val.
  Notation ev := (eval w th).
  Notation evl := (eval_list S w th).
  Notation Rv := (Rv S w th).
  Notation Rb := (Rb S w th).
  Notation Rx := (Rx S w th).

  (* JavaScript facts about the world that esbuild's folding of "x ?? y" relies
     on: arithmetic and delete never produce null/undefined *)
  Definition binop_nonnull : Prop :=
    forall op a b s, match w_binop w op a b s with (_, _, Ok v) => nullish v = false | _ => True end.
  Definition del_nonnull : Prop :=
    forall a b s, match w_del w a b s with (_, _, Ok v) => nullish v = false | _ => True end.
  Hypothesis Hbin : binop_nonnull.
  Hypothesis Hdel : del_nonnull.

  (* ---- results without a base ---- *)
  Definition okres (P : out -> Prop) (c : M S out) : Prop :=
    forall m s, match c m s with (_, _, _, Ok o) => P o | _ => True end.

  Lemma okres_ret (P : out -> Prop) o : P o -> okres P (ret o).
  Proof. intros H m s. exact H. Qed.
  Lemma okres_bind {A} (P : out -> Prop) (c : M S A) k : (forall a, okres P (k a)) -> okres P (bind c k).
  Proof.
    intros H m s. unfold bind. destruct (c m s) as [[[t1 m1] s1] [a | v]]; [| exact I].
    specialize (H a m1 s1). destruct (k a m1 s1) as [[[t2 m2] s2] r]. exact H.
  Qed.
  Lemma okres_bind2 (Q P : out -> Prop) (c : M S out) k :
    okres Q c -> (forall a, Q a -> okres P (k a)) -> okres P (bind c k).
  Proof.
    intros Hc H m s. unfold bind. specialize (Hc m s).
    destruct (c m s) as [[[t1 m1] s1] [a | v]]; [| exact I].
    specialize (H a Hc m1 s1). destruct (k a m1 s1) as [[[t2 m2] s2] r]. exact H.
  Qed.
  Lemma okres_access (P : out -> Prop) o r k : P OShort -> (forall b, okres P (k b)) -> okres P (access S o r k).
  Proof.
    intros Hs H. unfold access. destruct o; [apply H | | destruct r; [apply H | apply okres_ret, Hs]].
    destruct (nullish (valof r)); [apply okres_ret, Hs | apply H].
  Qed.
  Lemma okres_if (P : out -> Prop) (b : bool) c1 c2 : okres P c1 -> okres P c2 -> okres P (if b then c1 else c2).
  Proof. destruct b; auto. Qed.

  Definition nob (o : out) : Prop := baseof o = VUndef.

  Ltac ok_tac :=
    repeat match goal with
      | |- okres _ (ret _) => apply okres_ret; cbv; reflexivity
      | |- okres _ (bind _ _) => apply okres_bind; intro
      | |- okres _ (access _ _ _ _) => apply okres_access; [cbv; reflexivity | intro]
      | |- okres _ (if _ then _ else _) => apply okres_if
      | |- okres _ (match ?x with _ => _ end) => destruct x
      end.

  Lemma opasg_nob op lval e0 st : okres nob (opasg S w op lval e0 st).
  Proof. unfold opasg. destruct op; ok_tac. Qed.

  Lemma nonaccess_base e : ends_with_access e = false -> okres nob (ev e).
  Proof.
    destruct e; cbn [ends_with_access]; intro H; try discriminate H; cbn [eval];
      try solve [ok_tac].
    - (* ETmp *) intros m s. reflexivity.
    - (* EDelete *)
      destruct e; try solve [ok_tac];
        (apply okres_bind; intro r;
         apply okres_bind2 with (Q := nob); [ok_tac | intros a Ha; apply okres_ret; destruct a; [exact Ha | reflexivity]]).
    - (* EAssign *) destruct e1; ok_tac. intros m s. reflexivity.
    - (* EOpAsg *) destruct e1; ok_tac; apply opasg_nob.
  Qed.

  Lemma Rv_nonaccess_Rb a b : ends_with_access a = false -> ends_with_access b = false -> Rv a b -> Rb a b.
  Proof.
    intros Ha Hb H m m0 s Hs Hp. specialize (H m m0 s Hs Hp).
    pose proof (nonaccess_base a Ha m s) as Na. pose proof (nonaccess_base b Hb m0 s) as Nb.
    destruct (ev a m s) as [[[t1 m1] s1] r1], (ev b m0 s) as [[[t2 m2] s2] r2].
    destruct H as (-> & -> & Hs' & Hr). repeat split; auto.
    destruct r1, r2; try contradiction; auto. split; [exact Hr | unfold nob in *; congruence].
  Qed.

  (* ---- ToNullOrUndefined is sound ---- *)
  Definition nn (o : out) : Prop := nullish (valof o) = false.

  Lemma okres_binop (P : out -> Prop) op a b k :
    (forall v, nullish v = false -> okres P (k v)) -> okres P (bind (lift (w_binop w op a b)) k).
  Proof.
    intros H m s. unfold bind, lift. pose proof (Hbin op a b s) as Hb.
    destruct (w_binop w op a b s) as [[t1 s1] [v | x]]; [| exact I].
    specialize (H v Hb m s1). destruct (k v m s1) as [[[t2 m2] s2] r]. exact H.
  Qed.

  Lemma okres_del (P : out -> Prop) a b k :
    (forall v, nullish v = false -> okres P (k v)) -> okres P (bind (lift (w_del w a b)) k).
  Proof.
    intros H m s. unfold bind, lift. pose proof (Hdel a b s) as Hb.
    destruct (w_del w a b s) as [[t1 s1] [v | x]]; [| exact I].
    specialize (H v Hb m s1). destruct (k v m s1) as [[[t2 m2] s2] r]. exact H.
  Qed.

  Lemma opasg_arith_nn op lval e0 st : op = APow \/ op = ASub -> okres nn (opasg S w op lval e0 st).
  Proof.
    intros [-> | ->]; unfold opasg; apply okres_bind; intro r; apply okres_binop; intros v Hv;
      apply okres_bind; intro; apply okres_ret; exact Hv.
  Qed.

  Lemma tnu_nonnull a : forall se, to_null_or_undef a = Some (false, se) -> okres nn (ev a).
  Proof.
    induction a using expr_ind'; intros se Hs; cbn in Hs; try discriminate Hs; cbn [eval].
    - ok_tac.
    - ok_tac.
    - ok_tac.
    - (* EDelete *)
      destruct a; try solve [ok_tac].
      + apply okres_bind; intro r.
        apply okres_bind2 with (Q := fun o => o = OShort \/ nn o).
        * apply okres_access; [left; reflexivity | intro b].
          apply okres_del. intros v Hv. apply okres_ret. right. exact Hv.
        * intros q [-> | Hq]; apply okres_ret; [reflexivity | destruct q; [exact Hq | reflexivity]].
      + apply okres_bind; intro r.
        apply okres_bind2 with (Q := fun o => o = OShort \/ nn o).
        * apply okres_access; [left; reflexivity | intro b].
          apply okres_bind; intro kr.
          apply okres_del. intros v Hv. apply okres_ret. right. exact Hv.
        * intros q [-> | Hq]; apply okres_ret; [reflexivity | destruct q; [exact Hq | reflexivity]].
    - (* EBin *)
      destruct op; try discriminate Hs.
      + apply okres_bind; intro r. apply okres_bind; intro r2.
        apply okres_binop. intros v Hv. apply okres_ret. exact Hv.
      + apply okres_bind; intro r. apply okres_bind; intro r2.
        apply okres_binop. intros v Hv. apply okres_ret. exact Hv.
      + destruct (to_null_or_undef a2) as [[isn se2] |] eqn:E2; [| discriminate Hs].
        injection Hs as -> _.
        apply okres_bind; intro r.
        apply okres_bind2 with (Q := nn); [apply (IHa2 se2 eq_refl) |].
        intros o Ho. apply okres_ret. exact Ho.
    - (* EOpAsg *)
      assert (Hop : op = APow \/ op = ASub) by (destruct op; try discriminate Hs; auto).
      destruct a1; try solve [apply okres_bind; intro; apply okres_ret; reflexivity].
      + apply okres_bind; intro l. apply opasg_arith_nn, Hop.
      + apply okres_bind; intro r. apply okres_bind; intro l. apply opasg_arith_nn, Hop.
      + apply okres_bind; intro r. apply okres_bind; intro kr. apply okres_bind; intro l.
        apply opasg_arith_nn, Hop.
    - (* EEqNull *) apply okres_bind; intro r. apply okres_ret. reflexivity.
  Qed.

  Lemma tnu_null_pure a : to_null_or_undef a = Some (true, true) -> a = ENull \/ a = EUndef.
  Proof.
    destruct a; cbn; intro H; try discriminate H; auto.
    - destruct op; try discriminate H. destruct (to_null_or_undef a2) as [[? ?] |]; discriminate H.
    - destruct op; discriminate H.
  Qed.

  (* ---- counter discipline ---- *)
  Notation below := (below).

  Lemma below_mono n n' e : n <= n' -> below n e -> below n' e.
  Proof. intros Hn H j Hj. specialize (H j Hj). lia. Qed.

  Ltac bel :=
    let j := fresh "j" in let Hj := fresh "Hj" in
    intros j Hj; cbn [tmps flat_map] in Hj; rewrite ?in_app_iff in Hj;
    repeat match goal with H : _ \/ _ |- _ => destruct H end;
    try contradiction;
    match goal with
    | H : In j (tmps ?e), B : below _ ?e |- _ => specialize (B j H); lia
    | H : In j [?k] |- _ => destruct H as [<- | []]; lia
    end.

  Lemma lowerNullish_below a b n r n1 :
    below n a -> below n b -> lowerNullishCoalescing a b n = (r, n1) -> n <= n1 /\ below n1 r.
  Proof.
    intros Ha Hb. unfold lowerNullishCoalescing.
    destruct (capture a n) as [[f ag] k] eqn:Hc. intro E; injection E as <- <-.
    destruct (capture_tmps a n f ag k Hc Ha) as (Hf & Hag & Hk).
    split; [lia |]. bel.
  Qed.

  Definition tgt_shape (t : expr) : Prop :=
    match t with EId _ => True | EDot _ _ OcNone => True | EIndex _ _ OcNone => True | _ => False end.

  Lemma lowerLogicalAsg_below F bop tgt v n r :
    tgt_shape tgt -> below n tgt -> below n v -> lowerLogicalAsg F bop tgt v n = Some r ->
    n <= snd r /\ below (snd r) (fst r).
  Proof.
    intros Hsh Ht Hv. unfold lowerLogicalAsg. destruct (f_logasg F); [| discriminate].
    intro E; injection E as <-.
    destruct tgt; try contradiction; cbn [lowerAssignmentOperator].
    - cbn. split; [lia |]. bel.
    - destruct o; try contradiction. cbn in Ht.
      destruct (capture tgt n) as [[f a] k] eqn:Hc.
      destruct (capture_tmps tgt n f a k Hc Ht) as (Hf & Ha & Hk). cbn [fst snd].
      split; [lia |]. bel.
    - destruct o; try contradiction.
      assert (H1 : below n tgt1) by (intros j Hj; apply Ht; cbn; apply in_app_iff; auto).
      assert (H2 : below n tgt2) by (intros j Hj; apply Ht; cbn; apply in_app_iff; auto).
      destruct (capture tgt1 n) as [[f a] k] eqn:Hc.
      destruct (capture_tmps tgt1 n f a k Hc H1) as (Hf & Ha & Hk).
      pose proof (below_mono n k tgt2 ltac:(lia) H2) as H2'.
      destruct (capture tgt2 k) as [[kf ka] k2] eqn:Hck.
      destruct (capture_tmps tgt2 k kf ka k2 Hck H2') as (Hkf & Hka & Hk2). cbn [fst snd].
      split; [lia |]. bel.
  Qed.

  Lemma lowerExpAsg_below tgt v n :
    tgt_shape tgt -> below n tgt -> below n v ->
    n <= snd (lowerExpAsg tgt v n) /\ below (snd (lowerExpAsg tgt v n)) (fst (lowerExpAsg tgt v n)).
  Proof.
    intros Hsh Ht Hv. unfold lowerExpAsg.
    destruct tgt; try contradiction; cbn [lowerAssignmentOperator].
    - cbn. split; [lia |]. bel.
    - destruct o; try contradiction. cbn in Ht.
      destruct (capture tgt n) as [[f a] k] eqn:Hc.
      destruct (capture_tmps tgt n f a k Hc Ht) as (Hf & Ha & Hk). cbn [fst snd].
      split; [lia |]. bel.
    - destruct o; try contradiction.
      assert (H1 : below n tgt1) by (intros j Hj; apply Ht; cbn; apply in_app_iff; auto).
      assert (H2 : below n tgt2) by (intros j Hj; apply Ht; cbn; apply in_app_iff; auto).
      destruct (capture tgt1 n) as [[f a] k] eqn:Hc.
      destruct (capture_tmps tgt1 n f a k Hc H1) as (Hf & Ha & Hk).
      pose proof (below_mono n k tgt2 ltac:(lia) H2) as H2'.
      destruct (capture tgt2 k) as [[kf ka] k2] eqn:Hck.
      destruct (capture_tmps tgt2 k kf ka k2 Hck H2') as (Hkf & Hka & Hk2). cbn [fst snd].
      split; [lia |]. bel.
  Qed.

  Lemma lowerNullishAsg_below F tgt v n r :
    tgt_shape tgt -> below n tgt -> below n v -> lowerNullishAsg F tgt v n = Some r ->
    n <= snd r /\ below (snd r) (fst r).
  Proof.
    intros Hsh Ht Hv. unfold lowerNullishAsg. destruct (f_logasg F); [| discriminate].
    intro E; injection E as <-.
    destruct tgt; try contradiction; cbn [lowerAssignmentOperator].
    - destruct (f_nullish F).
      + destruct (lowerNullishCoalescing (EId x) (EAssign (EId x) v) n) as [r n1] eqn:El.
        apply (lowerNullish_below _ _ _ _ _ Ht) in El; [exact El | bel].
      + cbn. split; [lia |]. bel.
    - destruct o; try contradiction. cbn in Ht.
      destruct (capture tgt n) as [[f a] k] eqn:Hc.
      destruct (capture_tmps tgt n f a k Hc Ht) as (Hf & Ha & Hk).
      pose proof (below_mono n k v ltac:(lia) Hv) as Hv'.
      destruct (f_nullish F).
      + destruct (lowerNullishCoalescing (EDot f name OcNone) (EAssign (EDot a name OcNone) v) k) as [r n1] eqn:El.
        apply lowerNullish_below in El; [cbn [fst snd]; split; [lia | apply El] | bel | bel].
      + cbn [fst snd]. split; [lia |]. bel.
    - destruct o; try contradiction.
      assert (H1 : below n tgt1) by (intros j Hj; apply Ht; cbn; apply in_app_iff; auto).
      assert (H2 : below n tgt2) by (intros j Hj; apply Ht; cbn; apply in_app_iff; auto).
      destruct (capture tgt1 n) as [[f a] k] eqn:Hc.
      destruct (capture_tmps tgt1 n f a k Hc H1) as (Hf & Ha & Hk).
      pose proof (below_mono n k tgt2 ltac:(lia) H2) as H2'.
      destruct (capture tgt2 k) as [[kf ka] k2] eqn:Hck.
      destruct (capture_tmps tgt2 k kf ka k2 Hck H2') as (Hkf & Hka & Hk2).
      pose proof (below_mono n k2 v ltac:(lia) Hv) as Hv'.
      pose proof (below_mono k k2 f ltac:(lia) Hf) as Hf'.
      pose proof (below_mono k k2 a ltac:(lia) Ha) as Ha'.
      destruct (f_nullish F).
      + destruct (lowerNullishCoalescing (EIndex f kf OcNone) (EAssign (EIndex a ka OcNone) v) k2) as [r n1] eqn:El.
        apply lowerNullish_below in El; [cbn [fst snd]; split; [lia | apply El] | bel | bel].
      + cbn [fst snd]. split; [lia |]. bel.
  Qed.

  (* ---- the source fragment (no optional-chain links: see VisitChain for those) ---- *)
  Variable F : feat.
  (* the identifiers known to be constant bindings *)
  Variable C : Z -> Prop.
  Hypothesis HC : forall x, C x -> const_var S w x.

  (* identifiers that can end up as an operand esbuild duplicates *)
  Fixpoint head_ids (e : expr) : list Z :=
    match e with
    | EId x => [x]
    | EBin BNullish a b => head_ids a ++ head_ids b
    | _ => []
    end.

  Definition op_lowered (op : asgop) : bool :=
    match op with AOr | AAnd | ANullish => f_logasg F | APow => f_exp F | ASub => false end.

  Definition all_const (l : list Z) : Prop := forall x, In x l -> C x.

  Fixpoint src (e : expr) : Prop :=
    let fix all (l : list expr) : Prop :=
      match l with [] => True | x :: r => src x /\ all r end in
    match e with
    | ENull | EUndef | EThis | EBool _ | ENum _ | EStr _ | EId _ => True
    | EDot t _ o => o = OcNone /\ src t
    | EIndex t k o => o = OcNone /\ src t /\ src k
    | ECall f args o => o = OcNone /\ src f /\ all args
    | EDelete d => ends_with_access d = true /\ src d
    | EAssign tgt v => tgt_shape tgt /\ src tgt /\ src v
    | EBin op a b => src a /\ src b /\
        (op = BNullish -> f_nullish F = true -> all_const (head_ids a))
    | EOpAsg op tgt v => tgt_shape tgt /\ src tgt /\ src v /\
        (op_lowered op = true ->
         match tgt with
         | EDot t _ _ => all_const (head_ids t)
         | EIndex t k _ => all_const (head_ids t) /\ all_const (head_ids k)
         | EId x => op = ANullish -> f_nullish F = true -> C x
         | _ => True
         end)
    | _ => False
    end.

  Fixpoint srcs (l : list expr) : Prop := match l with [] => True | x :: r => src x /\ srcs r end.

  Fixpoint vlist (l : list expr) (n : Z) : list expr * Z :=
    match l with
    | [] => ([], n)
    | x :: r => let '(x', _, n1) := visit F (mkIn false false) x n in
                let '(r', n2) := vlist r n1 in (x' :: r', n2)
    end.

  Definition inv (e e' : expr) (n n' : Z) : Prop :=
    n <= n' /\ below n' e' /\ Rv e' e /\
    (ends_with_access e = true -> Rx e' e /\ ends_with_access e' = true) /\
    (forall k, e' <> ETmp k) /\ (forall x, e' = EId x -> In x (head_ids e)).

  Lemma inv_cap_ok e e' n n' : inv e e' n n' -> all_const (head_ids e) -> cap_ok S w e'.
  Proof.
    intros (_ & _ & _ & _ & Ht & Hid) Hc. unfold cap_ok.
    destruct (is_inline_value e') eqn:Hi; [right | left; reflexivity].
    destruct e'; cbn in Hi; try discriminate Hi; cbn; try exact I.
    - apply HC, Hc, Hid. reflexivity.
    - apply (Ht n0). reflexivity.
  Qed.

  Definition shape_ok (e e' : expr) : Prop :=
    (forall k, e' <> ETmp k) /\ (forall x, e' = EId x -> In x (head_ids e)).

  Definition sub_inv (e e' : expr) : Prop :=
    match e with
    | EId x => e' = EId x
    | EDot t name o => exists t', e' = EDot t' name o /\ Rv t' t /\ shape_ok t t'
    | EIndex t k o => exists t' k', e' = EIndex t' k' o /\ Rv t' t /\ Rv k' k /\ shape_ok t t' /\ shape_ok k k'
    | _ => True
    end.

  Lemma shape_cap_ok e e' : shape_ok e e' -> all_const (head_ids e) -> cap_ok S w e'.
  Proof.
    intros [Ht Hid] Hc. unfold cap_ok.
    destruct (is_inline_value e') eqn:Hi; [right | left; reflexivity].
    destruct e'; cbn in Hi; try discriminate Hi; cbn; try exact I.
    - apply HC, Hc, Hid. reflexivity.
    - apply (Ht n). reflexivity.
  Qed.

  Lemma src_not_chain e : src e -> is_chain_access e = false.
  Proof. destruct e; cbn; auto; intros [-> _]; reflexivity. Qed.

  (* folding of "a ?? b" when a is known never / always to be null or undefined *)
  Lemma fold_nonnull a' a b : Rv a' a -> okres nn (ev a') -> Rv a' (EBin BNullish a b).
  Proof.
    intros H Hn m m0 s Hs Hp. specialize (H m m0 s Hs Hp). specialize (Hn m s).
    cbn [eval]. unfold bind.
    destruct (ev a' m s) as [[[t1 m1] s1] r1], (ev a m0 s) as [[[t2 m2] s2] r2].
    destruct H as (-> & -> & Hs' & Hr).
    destruct r1 as [x | v], r2 as [y | v0]; try contradiction; [| auto].
    unfold pv in Hr. unfold nn in Hn. rewrite <- Hr, Hn. cbn. rewrite app_nil_r.
    repeat split; auto.
  Qed.

  Lemma fold_null a' a b' b : Rv a' a -> a' = ENull \/ a' = EUndef -> Rv b' b -> Rv b' (EBin BNullish a b).
  Proof.
    intros H Ha Hb m m0 s Hs Hp. specialize (H m m0 s Hs Hp).
    cbn [eval]. unfold bind.
    assert (Ea : exists v, nullish v = true /\ ev a' m s = ([], m, s, Ok (ov v))).
    { destruct Ha as [-> | ->]; eexists; split; try reflexivity; reflexivity. }
    destruct Ea as (v & Hv & Ea). rewrite Ea in H.
    destruct (ev a m0 s) as [[[t2 m2] s2] r2].
    destruct H as (<- & <- & Hs' & Hr).
    destruct r2 as [y | v0]; [| contradiction].
    unfold pv in Hr. cbn in Hr. rewrite <- Hr, Hv.
    specialize (Hb m m2 s Hs' I).
    destruct (ev b' m s) as [[[t3 m3] s3] r3], (ev b m2 s) as [[[t4 m4] s4] r4].
    destruct Hb as (-> & -> & Hs3 & Hr3). cbn.
    destruct r3, r4; try contradiction; rewrite ?app_nil_r; repeat split; auto.
  Qed.

  Lemma vlist_sound args :
    Forall (fun e => src e -> forall i n, match visit F i e n with (e', o, n') =>
                       inv e e' n n' /\ sub_inv e e' /\ childChain o = false end) args ->
    srcs args -> forall n,
      match vlist args n with
      | (args', n2) => n <= n2 /\ (forall j, In j (flat_map tmps args') -> j < n2) /\ Forall2 Rv args' args
      end.
  Proof.
    induction 1 as [| x l Hx Hl IH]; intros Hs n; cbn [vlist].
    - split; [lia |]. split; [intros j [] | constructor].
    - destruct Hs as [Hsx Hsl]. specialize (Hx Hsx (mkIn false false) n).
      destruct (visit F (mkIn false false) x n) as [[x' ox] n1].
      destruct Hx as ((Hn & Hb & Hr & _) & _ & _).
      specialize (IH Hsl n1). destruct (vlist l n1) as [l' n2].
      destruct IH as (Hn2 & Hbl & Hrl).
      split; [lia |]. split; [| constructor; assumption].
      intros j Hj. cbn in Hj. apply in_app_iff in Hj. destruct Hj as [Hj | Hj];
        [specialize (Hb j Hj); lia | apply Hbl, Hj].
  Qed.

  Lemma src_srcs args :
    (fix all (l : list expr) : Prop := match l with [] => True | x :: r => src x /\ all r end) args = srcs args.
  Proof. induction args; cbn; congruence. Qed.

  Lemma inv_leaf e n : tmps e = [] -> ends_with_access e = false ->
    (forall k, e <> ETmp k) -> (forall x, e = EId x -> In x (head_ids e)) -> inv e e n n.
  Proof.
    intros Ht Ha Hk Hx. split; [lia |]. split; [intros j Hj; rewrite Ht in Hj; contradiction |].
    split; [apply Rx_Rv, R_refl, Ht |]. split; [intro H; congruence |]. split; assumption.
  Qed.


  Definition not_atom (r : expr) : Prop := (forall k, r <> ETmp k) /\ (forall x, r <> EId x).

  Lemma lowerNullish_shape a b n : not_atom (fst (lowerNullishCoalescing a b n)).
  Proof.
    unfold lowerNullishCoalescing. destruct (capture a n) as [[? ?] ?]. cbn. split; intros; discriminate.
  Qed.

  Lemma lowerExpAsg_shape t v n : tgt_shape t -> not_atom (fst (lowerExpAsg t v n)).
  Proof.
    intro Hsh. unfold lowerExpAsg. destruct t; try contradiction; cbn [lowerAssignmentOperator].
    - cbn. split; intros; discriminate.
    - destruct o; try contradiction. destruct (capture t n) as [[? ?] ?]. cbn. split; intros; discriminate.
    - destruct o; try contradiction. destruct (capture t1 n) as [[? ?] ?]. destruct (capture t2 z) as [[? ?] ?].
      cbn. split; intros; discriminate.
  Qed.

  Lemma lowerLogicalAsg_shape bop t v n r : tgt_shape t -> lowerLogicalAsg F bop t v n = Some r -> not_atom (fst r).
  Proof.
    intro Hsh. unfold lowerLogicalAsg. destruct (f_logasg F); [| discriminate]. intro E; injection E as <-.
    destruct t; try contradiction; cbn [lowerAssignmentOperator].
    - cbn. split; intros; discriminate.
    - destruct o; try contradiction. destruct (capture t n) as [[? ?] ?]. cbn. split; intros; discriminate.
    - destruct o; try contradiction. destruct (capture t1 n) as [[? ?] ?]. destruct (capture t2 z) as [[? ?] ?].
      cbn. split; intros; discriminate.
  Qed.

  Lemma lowerNullishAsg_shape t v n r : tgt_shape t -> lowerNullishAsg F t v n = Some r -> not_atom (fst r).
  Proof.
    intro Hsh. unfold lowerNullishAsg. destruct (f_logasg F); [| discriminate]. intro E; injection E as <-.
    destruct t; try contradiction; cbn [lowerAssignmentOperator].
    - destruct (f_nullish F); [apply lowerNullish_shape | cbn; split; intros; discriminate].
    - destruct o; try contradiction. destruct (capture t n) as [[? ?] ?].
      destruct (f_nullish F); [apply lowerNullish_shape | cbn; split; intros; discriminate].
    - destruct o; try contradiction. destruct (capture t1 n) as [[? ?] ?]. destruct (capture t2 z) as [[? ?] ?].
      destruct (f_nullish F); [apply lowerNullish_shape | cbn; split; intros; discriminate].
  Qed.

  Definition concl (e : expr) (r : expr * xout * Z) (n : Z) : Prop :=
    match r with (e', o, n') => inv e e' n n' /\ sub_inv e e' /\ childChain o = false end.

  (* relation of a visited assignment target to its source *)
  Lemma tgt_facts tgt tgt' n n1 :
    tgt_shape tgt -> inv tgt tgt' n n1 -> sub_inv tgt tgt' ->
    tgt_shape tgt' /\
    (forall op v' v, Rv v' v -> Rx (EOpAsg op tgt' v') (EOpAsg op tgt v)) /\
    (forall v' v, Rv v' v -> Rx (EAssign tgt' v') (EAssign tgt v)) /\
    ((match tgt with
      | EDot t _ _ => all_const (head_ids t)
      | EIndex t k _ => all_const (head_ids t) /\ all_const (head_ids k)
      | _ => True
      end) -> valid_target S w tgt').
  Proof.
    intros Hsh Hinv Hsub. destruct tgt; try contradiction; cbn [sub_inv] in Hsub.
    - subst tgt'. split; [exact I |]. split; [| split]; [| | intros _; exact I].
      + intros. apply cong_opasg_id; assumption.
      + intros. apply cong_assign_id; assumption.
    - destruct o; try contradiction. destruct Hsub as (t' & -> & Hr & Hshape).
      split; [exact I |]. split; [| split].
      + intros. apply cong_opasg_dot; assumption.
      + intros. apply cong_assign_dot; assumption.
      + intro Hc. cbn. apply (shape_cap_ok tgt t' Hshape Hc).
    - destruct o; try contradiction. destruct Hsub as (t' & k' & -> & Hr & Hrk & Hsh1 & Hsh2).
      split; [exact I |]. split; [| split].
      + intros. apply cong_opasg_index; assumption.
      + intros. apply cong_assign_index; assumption.
      + intros [Hc1 Hc2]. cbn. split; [apply (shape_cap_ok tgt1 t' Hsh1 Hc1) | apply (shape_cap_ok tgt2 k' Hsh2 Hc2)].
  Qed.

  Lemma mk_inv e e' n n' :
    n <= n' -> below n' e' -> Rv e' e -> ends_with_access e = false ->
    (forall k, e' <> ETmp k) -> (forall x, e' = EId x -> In x (head_ids e)) -> inv e e' n n'.
  Proof.
    intros H1 H2 H3 H4 H5 H6. split; [exact H1 |]. split; [exact H2 |]. split; [exact H3 |].
    split; [intro; congruence |]. split; assumption.
  Qed.

  Theorem visit_sound : forall e, src e -> forall i c, concl e (visit F i e c) c.
  Proof.
    induction e using expr_ind'; intros Hs i c; cbn [src] in Hs; try contradiction; unfold concl.
    - (* ENull *) cbn. split; [apply inv_leaf; try reflexivity; intros; discriminate | auto].
    - cbn. split; [apply inv_leaf; try reflexivity; intros; discriminate | auto].
    - cbn. split; [apply inv_leaf; try reflexivity; intros; discriminate | auto].
    - cbn. split; [apply inv_leaf; try reflexivity; intros; discriminate | auto].
    - cbn. split; [apply inv_leaf; try reflexivity; intros; discriminate | auto].
    - cbn. split; [apply inv_leaf; try reflexivity; intros; discriminate | auto].
    - (* EId *) cbn. split; [apply inv_leaf; try reflexivity; [intros; discriminate | intros y Hy; injection Hy as ->; left; reflexivity] | auto].
    - (* EDot *)
      destruct Hs as [-> Hst]. cbn [visit oc_eqb].
      specialize (IHe Hst (mkIn false false) c).
      destruct (visit F (mkIn false false) e c) as [[t' ot] n1].
      destruct IHe as ((Hn & Hb & Hr & _ & Hk & Hx) & _ & _). cbn.
      split; [| split; [exists t'; repeat split; auto | reflexivity]].
      split; [exact Hn |]. split; [exact Hb |]. split; [apply Rx_Rv, cong_dot, Hr |].
      split; [intros _; split; [apply cong_dot, Hr | reflexivity] |].
      split; intros; discriminate.
    - (* EIndex *)
      destruct Hs as (-> & Hst & Hsk). cbn [visit oc_eqb].
      specialize (IHe1 Hst (mkIn false false) c).
      destruct (visit F (mkIn false false) e1 c) as [[t' ot] n1].
      destruct IHe1 as ((Hn & Hb & Hr & _ & Hk & Hx) & _ & _).
      specialize (IHe2 Hsk (mkIn false false) n1).
      destruct (visit F (mkIn false false) e2 n1) as [[k' ok] n2].
      destruct IHe2 as ((Hn2 & Hb2 & Hr2 & _ & Hk2 & Hx2) & _ & _). cbn.
      split; [| split; [exists t', k'; repeat split; auto | reflexivity]].
      split; [lia |]. split; [pose proof (below_mono n1 n2 t' Hn2 Hb); bel |].
      split; [apply Rx_Rv, cong_index; assumption |].
      split; [intros _; split; [apply cong_index; assumption | reflexivity] |].
      split; intros; discriminate.
    - (* ECall *)
      destruct Hs as (-> & Hsf & Hsa). rewrite src_srcs in Hsa.
      cbn [visit oc_eqb andb]. fold (vlist args).
      rewrite (src_not_chain e Hsf). cbn [orb].
      specialize (IHe Hsf (mkIn false false) c).
      destruct (visit F (mkIn false false) e c) as [[f' of] n1].
      destruct IHe as ((Hn & Hb & Hr & Hacc & Hk & Hx) & _ & Hcc).
      pose proof (vlist_sound args H Hsa n1) as Hl.
      destruct (vlist args n1) as [args' n2]. destruct Hl as (Hn2 & Hbl & Hrl).
      set (f'' := if negb (ends_with_access e) && ends_with_access f' && true
                  then EBin BComma (ENum 0) f' else f').
      assert (Hf'' : Rb f'' e /\ below n1 f'').
      { unfold f''. destruct (ends_with_access e) eqn:Ea.
        - cbn. destruct (Hacc eq_refl) as [Hrx _]. split; [apply Rx_Rb, Hrx | exact Hb].
        - cbn [negb andb orb]. destruct (ends_with_access f') eqn:Ea'; cbn [andb].
          + split; [| bel]. apply Rv_nonaccess_Rb; [reflexivity | exact Ea | apply cong_comma0, Hr].
          + split; [| exact Hb]. apply Rv_nonaccess_Rb; assumption. }
      destruct Hf'' as [Hrb Hbf]. fold f''. cbn [andb].
      split; [| split; [exact I | reflexivity]].
      apply mk_inv; try reflexivity; try (intros; discriminate); [lia | | apply Rx_Rv, cong_call; assumption].
      pose proof (below_mono n1 n2 f'' Hn2 Hbf) as Hbf2.
      intros j Hj. cbn in Hj. apply in_app_iff in Hj. destruct Hj as [Hj | Hj]; [apply Hbf2, Hj | apply Hbl, Hj].
    - (* EDelete *)
      destruct Hs as [Hacc Hsd]. cbn [visit].
      specialize (IHe Hsd (mkIn true false) c).
      destruct (visit F (mkIn true false) e c) as [[d' od] n1].
      destruct IHe as ((Hn & Hb & Hr & _ & Hk & Hx) & Hsub & Hcc). rewrite Hcc. cbn.
      split; [| auto].
      destruct e; try discriminate Hacc; cbn [src] in Hsd; cbn [sub_inv] in Hsub.
      + destruct Hsd as [-> _]. destruct Hsub as (t' & -> & Hrt & _).
        apply mk_inv; try reflexivity; try (intros; discriminate); auto.
        apply Rx_Rv, cong_delete_dot, Hrt.
      + destruct Hsd as (-> & _ & _). destruct Hsub as (t' & k' & -> & Hrt & Hrk & _).
        apply mk_inv; try reflexivity; try (intros; discriminate); auto.
        apply Rx_Rv, cong_delete_index; assumption.
    - (* EAssign *)
      destruct Hs as (Hsh & Hst & Hsv). cbn [visit].
      specialize (IHe1 Hst (mkIn false false) c).
      destruct (visit F (mkIn false false) e1 c) as [[t' ot] n1].
      destruct IHe1 as (Hinv1 & Hsub1 & _).
      specialize (IHe2 Hsv (mkIn false false) n1).
      destruct (visit F (mkIn false false) e2 n1) as [[v' ov'] n2].
      destruct IHe2 as ((Hn2 & Hb2 & Hr2 & _) & _ & _).
      destruct (tgt_facts e1 t' c n1 Hsh Hinv1 Hsub1) as (_ & _ & Hasg & _).
      destruct Hinv1 as (Hn1 & Hb1 & _).
      split; [| split; [exact I | reflexivity]].
      apply mk_inv; try reflexivity; try (intros; discriminate); [lia | | apply Rx_Rv, Hasg, Hr2].
      pose proof (below_mono n1 n2 t' Hn2 Hb1). bel.
    - (* EBin *)
      destruct Hs as (Hsa & Hsb & Hcst). cbn [visit].
      specialize (IHe1 Hsa (mkIn false false) c).
      destruct (visit F (mkIn false false) e1 c) as [[a' oa] n1].
      destruct IHe1 as ((Hn1 & Hb1 & Hr1 & _ & Hk1 & Hx1) & _ & _).
      specialize (IHe2 Hsb (mkIn false false) n1).
      destruct (visit F (mkIn false false) e2 n1) as [[b' ob] n2].
      destruct IHe2 as ((Hn2 & Hb2 & Hr2 & _ & Hk2 & Hx2) & _ & _).
      pose proof (below_mono n1 n2 a' Hn2 Hb1) as Hb1'.
      assert (Hkeep : forall op', Rv (EBin op' a' b') (EBin op' e1 e2)) by (intro; apply Rx_Rv, cong_bin; assumption).
      assert (Hbk : forall op', below n2 (EBin op' a' b')) by (intro; bel).
      destruct op.
      + (* ?? *)
        destruct (to_null_or_undef a') as [[[|] [|]] |] eqn:Etnu.
        * (* always nullish, pure: b' *)
          split; [| split; [exact I | reflexivity]].
          apply mk_inv; try reflexivity; auto; [lia | | ].
          -- eapply fold_null; [exact Hr1 | apply tnu_null_pure, Etnu | exact Hr2].
          -- intros x Hx. cbn. apply in_app_iff. right. apply Hx2, Hx.
        * (* always nullish but with side effects: treated like the unknown case *)
          destruct (f_nullish F) eqn:HN.
          -- destruct (lowerNullishCoalescing a' b' n2) as [r n3] eqn:El.
             destruct (lowerNullish_below a' b' n2 r n3 Hb1' Hb2 El) as [Hn3 Hb3].
             split; [| split; [exact I | reflexivity]].
             apply mk_inv; try reflexivity; [lia | exact Hb3 | | |].
             ++ eapply obs_then_R; [| apply Hkeep].
                replace r with (fst (lowerNullishCoalescing a' b' n2)) by (rewrite El; reflexivity).
                apply lowerNullish_general;
                  [apply (shape_cap_ok e1 a'); [split; assumption | apply Hcst; auto] | |];
                  [intro Hj; specialize (Hb1' _ Hj); lia | intro Hj; specialize (Hb2 _ Hj); lia].
             ++ unfold lowerNullishCoalescing in El. destruct (capture a' n2) as [[? ?] ?].
                injection El as <- _. intros; discriminate.
             ++ unfold lowerNullishCoalescing in El. destruct (capture a' n2) as [[? ?] ?].
                injection El as <- _. intros; discriminate.
          -- split; [| split; [exact I | reflexivity]].
             apply mk_inv; try reflexivity; try (intros; discriminate); [lia | apply Hbk | apply Hkeep].
        * (* never nullish: a' *)
          split; [| split; [exact I | reflexivity]].
          apply mk_inv; try reflexivity; auto; [lia | | ].
          -- apply fold_nonnull; [exact Hr1 | apply (tnu_nonnull a' _ Etnu)].
          -- intros x Hx. cbn. apply in_app_iff. left. apply Hx1, Hx.
        * split; [| split; [exact I | reflexivity]].
          apply mk_inv; try reflexivity; auto; [lia | | ].
          -- apply fold_nonnull; [exact Hr1 | apply (tnu_nonnull a' _ Etnu)].
          -- intros x Hx. cbn. apply in_app_iff. left. apply Hx1, Hx.
        * (* unknown *)
          destruct (f_nullish F) eqn:HN.
          -- destruct (lowerNullishCoalescing a' b' n2) as [r n3] eqn:El.
             destruct (lowerNullish_below a' b' n2 r n3 Hb1' Hb2 El) as [Hn3 Hb3].
             split; [| split; [exact I | reflexivity]].
             apply mk_inv; try reflexivity; [lia | exact Hb3 | | |].
             ++ eapply obs_then_R; [| apply Hkeep].
                replace r with (fst (lowerNullishCoalescing a' b' n2)) by (rewrite El; reflexivity).
                apply lowerNullish_general;
                  [apply (shape_cap_ok e1 a'); [split; assumption | apply Hcst; auto] | |];
                  [intro Hj; specialize (Hb1' _ Hj); lia | intro Hj; specialize (Hb2 _ Hj); lia].
             ++ unfold lowerNullishCoalescing in El. destruct (capture a' n2) as [[? ?] ?].
                injection El as <- _. intros; discriminate.
             ++ unfold lowerNullishCoalescing in El. destruct (capture a' n2) as [[? ?] ?].
                injection El as <- _. intros; discriminate.
          -- split; [| split; [exact I | reflexivity]].
             apply mk_inv; try reflexivity; try (intros; discriminate); [lia | apply Hbk | apply Hkeep].
      + split; [| split; [exact I | reflexivity]].
        apply mk_inv; try reflexivity; try (intros; discriminate); [lia | apply Hbk | apply Hkeep].
      + split; [| split; [exact I | reflexivity]].
        apply mk_inv; try reflexivity; try (intros; discriminate); [lia | apply Hbk | apply Hkeep].
      + (* ** *)
        destruct (f_exp F).
        * split; [| split; [exact I | reflexivity]].
          apply mk_inv; try reflexivity; try (intros; discriminate); [lia | bel | apply Rx_Rv, cong_pow; assumption].
        * split; [| split; [exact I | reflexivity]].
          apply mk_inv; try reflexivity; try (intros; discriminate); [lia | apply Hbk | apply Hkeep].
      + split; [| split; [exact I | reflexivity]].
        apply mk_inv; try reflexivity; try (intros; discriminate); [lia | apply Hbk | apply Hkeep].
      + split; [| split; [exact I | reflexivity]].
        apply mk_inv; try reflexivity; try (intros; discriminate); [lia | apply Hbk | apply Hkeep].
    - (* EOpAsg *)
      destruct Hs as (Hsh & Hst & Hsv & Hcst). cbn [visit].
      specialize (IHe1 Hst (mkIn false false) c).
      destruct (visit F (mkIn false false) e1 c) as [[t' ot] n1].
      destruct IHe1 as (Hinv1 & Hsub1 & _).
      specialize (IHe2 Hsv (mkIn false false) n1).
      destruct (visit F (mkIn false false) e2 n1) as [[v' ov'] n2].
      destruct IHe2 as ((Hn2 & Hb2 & Hr2 & _) & _ & _).
      destruct (tgt_facts e1 t' c n1 Hsh Hinv1 Hsub1) as (Hsh' & Hop & _ & Hvalid).
      destruct Hinv1 as (Hn1 & Hb1 & _).
      pose proof (below_mono n1 n2 t' Hn2 Hb1) as Hb1'.
      assert (Hvt : op_lowered op = true -> valid_target S w t').
      { intro Hl. apply Hvalid. specialize (Hcst Hl). destruct e1; auto. }
      assert (Hkeep : concl (EOpAsg op e1 e2) (EOpAsg op t' v', out0, n2) c).
      { split; [| split; [exact I | reflexivity]].
        apply mk_inv; try reflexivity; try (intros; discriminate); [lia | bel | apply Rx_Rv, Hop, Hr2]. }
      assert (Hlow : forall r n3, n2 <= n3 -> below n3 r -> not_atom r ->
                (forall m s, observe (ev r m s) = observe (ev (EOpAsg op t' v') m s)) ->
                concl (EOpAsg op e1 e2) (r, out0, n3) c).
      { intros r n3 Hn3 Hb3 [Hna1 Hna2] Hobs. split; [| split; [exact I | reflexivity]].
        apply mk_inv; try reflexivity; [lia | exact Hb3 | | exact Hna1 | intros x Hx; exfalso; apply (Hna2 x Hx)].
        eapply obs_then_R; [exact Hobs | apply Rx_Rv, Hop, Hr2]. }
      destruct op.
      + (* ??= *)
        destruct (lowerNullishAsg F t' v' n2) as [[r n3] |] eqn:El; [| exact Hkeep].
        assert (HF : f_logasg F = true) by (unfold lowerNullishAsg in El; destruct (f_logasg F); [reflexivity | discriminate]).
        destruct (lowerNullishAsg_below F t' v' n2 (r, n3) Hsh' Hb1' Hb2 El) as [Hn3 Hb3].
        apply Hlow; [exact Hn3 | exact Hb3 | apply (lowerNullishAsg_shape t' v' n2 (r, n3) Hsh' El) |].
        apply (lowerNullishAsg_general S w th F t' v' n2 (r, n3) HF (Hvt HF) Hb1' Hb2); [| exact El].
        intros HN x Ex. specialize (Hcst HF).
        destruct e1; cbn [sub_inv] in Hsub1; try contradiction.
        * rewrite Hsub1 in Ex. injection Ex as <-. apply HC, Hcst; auto.
        * destruct Hsub1 as (? & E & _). rewrite E in Ex. discriminate Ex.
        * destruct Hsub1 as (? & ? & E & _). rewrite E in Ex. discriminate Ex.
      + (* ||= *)
        destruct (lowerLogicalAsg F BOr t' v' n2) as [[r n3] |] eqn:El; [| exact Hkeep].
        assert (HF : f_logasg F = true) by (unfold lowerLogicalAsg in El; destruct (f_logasg F); [reflexivity | discriminate]).
        destruct (lowerLogicalAsg_below F BOr t' v' n2 (r, n3) Hsh' Hb1' Hb2 El) as [Hn3 Hb3].
        apply Hlow; [exact Hn3 | exact Hb3 | apply (lowerLogicalAsg_shape BOr t' v' n2 (r, n3) Hsh' El) |].
        apply (lowerLogicalAsg_general S w th F BOr AOr t' v' n2 (r, n3) HF (or_introl (conj eq_refl eq_refl)) (Hvt HF) Hb1' Hb2 El).
      + (* &&= *)
        destruct (lowerLogicalAsg F BAnd t' v' n2) as [[r n3] |] eqn:El; [| exact Hkeep].
        assert (HF : f_logasg F = true) by (unfold lowerLogicalAsg in El; destruct (f_logasg F); [reflexivity | discriminate]).
        destruct (lowerLogicalAsg_below F BAnd t' v' n2 (r, n3) Hsh' Hb1' Hb2 El) as [Hn3 Hb3].
        apply Hlow; [exact Hn3 | exact Hb3 | apply (lowerLogicalAsg_shape BAnd t' v' n2 (r, n3) Hsh' El) |].
        apply (lowerLogicalAsg_general S w th F BAnd AAnd t' v' n2 (r, n3) HF (or_intror (conj eq_refl eq_refl)) (Hvt HF) Hb1' Hb2 El).
      + (* **= *)
        destruct (f_exp F) eqn:HE; [| exact Hkeep].
        destruct (lowerExpAsg t' v' n2) as [r n3] eqn:El.
        pose proof (lowerExpAsg_below t' v' n2 Hsh' Hb1' Hb2) as Hbe. rewrite El in Hbe. cbn in Hbe.
        pose proof (lowerExpAsg_shape t' v' n2 Hsh') as Hse. rewrite El in Hse. cbn in Hse.
        apply Hlow; [apply Hbe | apply Hbe | exact Hse |].
        pose proof (lowerExpAsg_general S w th t' v' n2 (Hvt HE) Hb1' Hb2) as Hg. rewrite El in Hg. exact Hg.
      + exact Hkeep.
  Qed.

  (* the model's top-level entry point *)
  Corollary lower_sound e : src e ->
    forall m s, observe (ev (lower F e) m s) = observe (ev e m s).
  Proof.
    intros Hs. unfold lower. pose proof (visit_sound e Hs (mkIn false false) 0) as H.
    destruct (visit F (mkIn false false) e 0) as [[e' o] n']. cbn [fst].
    destruct H as ((_ & _ & Hr & _) & _).
    apply (simM_observe S Lall (fun _ a b => pv a b)); [intros ? ? ? H; exact H | exact Hr].
  Qed.
End Visit.
