(* Private names: the helper calls esbuild emits behave like the native
   private-name operations (ECMA-262), for every operand expression. *)
From V Require Import Common.Base C05.Syntax C05.Sem C05.Lower C05.Frame C05.SimLogic C05.Steps C05.Witness C05.LowerProofs C05.Private.

Section PrivProofs.
  Variable U : Type.
  Notation S := (U * pst)%type.
  Variable w : world S.
  Variable th terr : val.
  Variable names : Z -> pname.
  Variable fobj : Z -> Z.
  Variable isset : Z -> bool.
  Notation ev := (eval w th).
  Notation evl := (eval_list S w th).
  Notation simM := (simM S).
  Notation pev := (peval w th terr fobj isset).
  Notation nev := (neval w th terr names fobj).
  Notation hget := (h_get U w terr fobj isset).
  Notation hset := (h_set U w terr fobj isset).
  Notation hmethod := (h_method U terr fobj).
  Notation hin := (h_in U terr).
  Notation hadd := (h_add U terr isset).
  Notation nget := (n_get U w terr names fobj).
  Notation nset := (n_set U w terr names fobj).
  Notation nin := (n_in U terr names).
  Notation nadd := (n_add U terr).

  (* Function.prototype.call is intact *)
  Hypothesis Hcall : call_intact S w.
  (* a field is stored in a WeakMap, the brand of methods/accessors is a WeakSet *)
  Hypothesis Hstore : forall x, isset (pn_store (names x)) =
    match pn_kind (names x) with KField => false | _ => true end.

  (* ---- the helpers against the native operations, on evaluated operands ---- *)
  Definition hgetK (x : Z) (o : val) : W U val :=
    let p := names x in
    match pn_kind p with
    | KMethod => hmethod (pn_store p) o (pn_meth p)
    | KGet | KGetSet => hget (pn_store p) o (Some (pn_getter p))
    | KField | KSet => hget (pn_store p) o None
    end.
  Definition hsetK (x : Z) (o v : val) : W U val :=
    let p := names x in
    match pn_kind p with
    | KSet | KGetSet => hset (pn_store p) o v (Some (pn_setter p))
    | KField | KMethod | KGet => hset (pn_store p) o v None
    end.

  Lemma wbind_ok {A B} (x : W U A) (k : A -> W U B) s a :
    x s = ([], s, Ok a) -> wbind U x k s = k a s.
  Proof. intro E. unfold wbind. rewrite E. destruct (k a s) as [[t2 s2] r]. reflexivity. Qed.
  Lemma wbind_throw {A B} (x : W U A) (k : A -> W U B) s t s1 v :
    x s = (t, s1, Throw v) -> wbind U x k s = (t, s1, Throw v).
  Proof. intro E. unfold wbind. rewrite E. reflexivity. Qed.

  Lemma wbind_cong_l {A B} (x y : W U A) (k : A -> W U B) s :
    x s = y s -> wbind U x k s = wbind U y k s.
  Proof. intro E. unfold wbind. rewrite E. reflexivity. Qed.

  Lemma callcall_call i o args s : callcall U w (fval fobj i) o args s = w_call w (fval fobj i) o args s.
  Proof.
    unfold callcall. destruct (Hcall (fval fobj i) s eq_refl) as [c E].
    rewrite (wbind_ok _ _ _ _ E). reflexivity.
  Qed.

  Lemma h_check_found st l s v :
    pfind (snd s) st l = Some v -> h_check U terr st (VObj l) s = ([], s, Ok tt).
  Proof. intro E. unfold h_check, wbind, p_has. rewrite E. reflexivity. Qed.
  Lemma h_check_missing st l s :
    pfind (snd s) st l = None -> h_check U terr st (VObj l) s = ([], s, Throw terr).
  Proof. intro E. unfold h_check, wbind, p_has. rewrite E. reflexivity. Qed.
  Lemma h_check_prim st o s :
    (forall l, o <> VObj l) -> h_check U terr st o s = ([], s, Throw terr).
  Proof. intro H. destruct o; try reflexivity. exfalso. exact (H l eq_refl). Qed.
  Lemma p_has_found st l s v :
    pfind (snd s) st l = Some v -> p_has U st (VObj l) s = ([], s, Ok true).
  Proof. intro E. unfold p_has. rewrite E. reflexivity. Qed.
  Lemma p_has_missing st l s :
    pfind (snd s) st l = None -> p_has U st (VObj l) s = ([], s, Ok false).
  Proof. intro E. unfold p_has. rewrite E. reflexivity. Qed.
  Lemma p_has_prim st o s :
    (forall l, o <> VObj l) -> p_has U st o s = ([], s, Ok false).
  Proof. intro H. destruct o; try reflexivity. exfalso. exact (H l eq_refl). Qed.

  Lemma hgetK_native x o s : hgetK x o s = nget x o s.
  Proof.
    unfold hgetK, n_get, h_get, h_method. pose proof (Hstore x) as Hs.
    destruct o as [| | b | z | z | l].
    1-2: destruct (pn_kind (names x)); reflexivity.
    1-3: cbn [nullish]; erewrite wbind_ok by (apply p_has_prim; intros ? ?; discriminate);
         destruct (pn_kind (names x)); reflexivity.
    cbn [nullish]. destruct (pfind (snd s) (pn_store (names x)) l) as [v |] eqn:E.
    - rewrite (wbind_ok _ _ _ _ (p_has_found _ _ _ _ E)).
      destruct (pn_kind (names x)); rewrite (wbind_ok _ _ _ _ (h_check_found _ _ _ _ E)), ?Hs;
        try reflexivity; apply callcall_call.
    - rewrite (wbind_ok _ _ _ _ (p_has_missing _ _ _ E)).
      destruct (pn_kind (names x)); apply (wbind_throw _ _ _ _ _ _ (h_check_missing _ _ _ E)).
  Qed.

  Lemma hsetK_native x o v s : hsetK x o v s = wbind U (nset x o v) (fun _ => wret U v) s.
  Proof.
    unfold hsetK, n_set, h_set. pose proof (Hstore x) as Hs.
    destruct o as [| | b | z | z | l].
    1-2: destruct (pn_kind (names x)); reflexivity.
    1-3: destruct (pn_kind (names x)); reflexivity.
    cbn [nullish]. destruct (pfind (snd s) (pn_store (names x)) l) as [v0 |] eqn:E.
    - symmetry. erewrite wbind_cong_l by (apply wbind_ok; apply (p_has_found _ _ _ _ E)). symmetry.
      destruct (pn_kind (names x)); rewrite (wbind_ok _ _ _ _ (h_check_found _ _ _ _ E)), ?Hs;
        try reflexivity.
      all: apply wbind_cong_l, wbind_cong_l, callcall_call.
    - symmetry. erewrite wbind_cong_l by (apply wbind_ok; apply (p_has_missing _ _ _ E)). symmetry.
      destruct (pn_kind (names x)); apply (wbind_throw _ _ _ _ _ _ (h_check_missing _ _ _ E)).
  Qed.

  Lemma hin_native x o s : hin (pn_store (names x)) o s = nin x o s.
  Proof. reflexivity. Qed.

  (* __privateAdd(obj, _x, v) = PrivateFieldAdd; __privateAdd(obj, _C_instances) =
     PrivateMethodOrAccessorAdd for the whole class *)
  Lemma hadd_native_field x o v s :
    pn_kind (names x) = KField -> hadd (pn_store (names x)) o v s = nadd (pn_store (names x)) o v s.
  Proof. intro Hk. unfold h_add, n_add. rewrite (Hstore x), Hk. reflexivity. Qed.
  Lemma hadd_native_brand st o v s :
    isset st = true -> hadd st o v s = nadd st o (VBool true) s.
  Proof. intro Hk. unfold h_add, n_add. rewrite Hk. reflexivity. Qed.

  (* ---- the emitted expressions ---- *)
  Lemma bind_cong {A B} (c : M S A) (k k' : A -> M S B) m s :
    (forall a m s, k a m s = k' a m s) -> bind c k m s = bind c k' m s.
  Proof. intro H. unfold bind. destruct (c m s) as [[[t1 m1] s1] [a | v]]; [rewrite H |]; reflexivity. Qed.
  Lemma bind_cong_l {A B} (c c' : M S A) (k : A -> M S B) m s :
    (forall m s, c m s = c' m s) -> bind c k m s = bind c' k m s.
  Proof. intro H. unfold bind. rewrite H. reflexivity. Qed.
  Lemma lift_cong {A} (f g : W U A) m s : (forall s, f s = g s) -> lift f m s = lift g m s.
  Proof. intro H. unfold lift. rewrite H. reflexivity. Qed.

  Lemma peval_get t x m s :
    pev (lowerPrivateGet names t x) m s
    = bind (pev t) (fun r => bind (lift (nget x (valof r))) (fun v => ret (ov v))) m s.
  Proof.
    transitivity (bind (pev t) (fun r => bind (lift (hgetK x (valof r))) (fun v => ret (ov v))) m s).
    - unfold lowerPrivateGet, hgetK. destruct (pn_kind (names x)); reflexivity.
    - apply bind_cong. intros a m1 s1. apply bind_cong_l. intros m2 s2.
      apply lift_cong, hgetK_native.
  Qed.

  Lemma lift_wbind_ret {A} (f : W U A) (v : val) m s :
    bind (lift (wbind U f (fun _ => wret U v))) (fun z => ret (ov z)) m s
    = bind (lift f) (fun _ => ret (ov v)) m s.
  Proof.
    unfold bind, lift, wbind, wret, ret. destruct (f s) as [[t1 s1] [a | e]]; cbn; rewrite ?app_nil_r; reflexivity.
  Qed.

  Lemma peval_set t x v m s :
    pev (lowerPrivateSet names t x v) m s
    = bind (pev t) (fun r => bind (pev v) (fun rv =>
        bind (lift (nset x (valof r) (valof rv))) (fun _ => ret (ov (valof rv))))) m s.
  Proof.
    transitivity (bind (pev t) (fun r => bind (pev v) (fun rv =>
        bind (lift (hsetK x (valof r) (valof rv))) (fun z => ret (ov z)))) m s).
    - unfold lowerPrivateSet, hsetK. destruct (pn_kind (names x)); reflexivity.
    - apply bind_cong. intros a m1 s1. apply bind_cong. intros b m2 s2.
      rewrite <- lift_wbind_ret. apply bind_cong_l. intros m3 s3. apply lift_cong, hsetK_native.
  Qed.

  (* t.#x   =>  __privateGet(t, _x [, x_get])  /  __privateMethod(t, _C_instances, x_fn) *)
  Theorem private_get_sound F t x n m s :
    pev (fst (plower names F (PGet t x) n)) m s = nev (PGet t x) m s.
  Proof. cbn [plower fst neval]. rewrite peval_get. reflexivity. Qed.

  (* t.#x = v   =>  __privateSet(t, _x, v [, x_set]) *)
  Theorem private_set_sound F t x v n m s :
    pev (fst (plower names F (PSet t x v) n)) m s = nev (PSet t x v) m s.
  Proof. cbn [plower fst neval]. rewrite peval_set. reflexivity. Qed.

  (* #x in t   =>  __privateIn(_x, t) *)
  Theorem private_in_sound F t x n m s :
    pev (fst (plower names F (PIn x t) n)) m s = nev (PIn x t) m s.
  Proof. reflexivity. Qed.

  (* ---- forms that use their target twice ---- *)
  Lemma simM_left_skip {A B C} (L : tpred) (Pre : tstore -> Prop) (Post : tstore -> A -> B -> Prop)
        (c : M S C) k cn :
    (forall m s, Pre m -> exists a, c m s = ([], m, s, Ok a)) ->
    (forall a, simM L Pre Post (k a) cn) -> simM L Pre Post (bind c k) cn.
  Proof.
    intros Hc H m m0 s Hs Hp. unfold bind. destruct (Hc m s Hp) as [a Ea]. rewrite Ea.
    specialize (H a m m0 s Hs Hp).
    destruct (k a m s) as [[[t1 m1] s1] r1], (cn m0 s) as [[[t2 m2] s2] r2]. exact H.
  Qed.

  Lemma simM_post_right {A B} (L : tpred) (Pre : tstore -> Prop) (Post : tstore -> A -> B -> Prop)
        (Q : B -> Prop) cl cn :
    simM L Pre Post cl cn ->
    (forall m s, match cn m s with (_, _, _, Ok b) => Q b | _ => True end) ->
    simM L Pre (fun m a b => Q b /\ Post m a b) cl cn.
  Proof.
    intros H HQ m m0 s Hs Hp. specialize (H m m0 s Hs Hp). specialize (HQ m0 s).
    destruct (cl m s) as [[[t1 m1] s1] r1], (cn m0 s) as [[[t2 m2] s2] r2].
    destruct H as (-> & -> & Hs' & Hr). repeat split; auto. destruct r1, r2; auto.
  Qed.

  Lemma simM_both_throw {A B} (L : tpred) (Pre : tstore -> Prop) (Post : tstore -> A -> B -> Prop)
        (cl : M S A) (cn : M S B) v :
    (forall m s, cl m s = ([], m, s, Throw v)) -> (forall m s, cn m s = ([], m, s, Throw v)) ->
    simM L Pre Post cl cn.
  Proof. intros H1 H2 m m0 s Hs Hp. rewrite H1, H2. auto. Qed.

  Definition rempm (t : expr) (n : Z) (v : val) (m : tstore) : Prop :=
    if is_const_value t then (forall m' s', ev t m' s' = ([], m', s', Ok (ov v))) else tget m n = v.

  Lemma rempm_stable (L : tpred) t n v : L n -> stable L (rempm t n v).
  Proof.
    intros Hn. unfold rempm. destruct (is_const_value t).
    - apply stable_const.
    - apply stable_tget, Hn.
  Qed.

  Lemma piece_first_mut (L : tpred) (Pre : tstore -> Prop) t n f a n1 :
    capture_mut t n = (f, a, n1) -> L n ->
    (forall k, L k -> ~ In k (tmps t)) -> stable L Pre ->
    (forall m v, Pre m -> Pre (tset m n v)) ->
    simM L Pre (fun m x y => valof x = valof y /\ rempm t n (valof y) m /\ Pre m) (ev f) (ev t).
  Proof.
    unfold capture_mut, rempm. intros Hc Hn Hd Hst Hset.
    destruct (is_const_value t) eqn:Hi.
    - injection Hc as <- <- <-.
      assert (exists v, forall m s, ev t m s = ([], m, s, Ok (ov v))) as [v Hv].
      { destruct t; try discriminate Hi; eexists; intros; reflexivity. }
      intros m m0 s Hs Hp. rewrite !Hv. repeat split; auto.
    - injection Hc as <- <- <-.
      intros m m0 s Hs Hp. cbn [eval]. unfold bind.
      pose proof (simM_fresh S w th L Pre t Hd Hst m m0 s Hs Hp) as Q.
      destruct (ev t m s) as [[[t1 m1] s1] r1], (ev t m0 s) as [[[t2 m2] s2] r2].
      destruct Q as (-> & -> & Hs1 & Hr).
      destruct r1 as [x | v], r2 as [y | v0]; try contradiction.
      + destruct Hr as [-> Hp1]. rewrite app_nil_r.
        repeat split; auto.
        * apply simL_tset; assumption.
        * cbn. apply tget_tset_same.
      + auto.
  Qed.

  Lemma piece_again_mut t n f a n1 v m s :
    capture_mut t n = (f, a, n1) -> rempm t n v m -> ev a m s = ([], m, s, Ok (ov v)).
  Proof.
    unfold capture_mut, rempm. destruct (is_const_value t); intros Hc H; injection Hc as <- <- <-.
    - apply H.
    - cbn. rewrite H. reflexivity.
  Qed.

  Lemma nget_method_nonnull x o s :
    pn_kind (names x) = KMethod ->
    match nget x o s with (_, _, Ok b) => nullish b = false | _ => True end.
  Proof.
    intro Hk. unfold n_get. rewrite Hk. destruct (nullish o); [exact I |].
    unfold wbind, p_has. destruct o; cbn; try exact I.
    destruct (pfind (snd s) (pn_store (names x)) l); cbn; exact I || reflexivity.
  Qed.

  (* reading "call" from, or calling, null/undefined is a TypeError *)
  Definition nullish_callee_throws : Prop :=
    forall f k t args s, nullish f = true ->
      w_get w f k s = ([], s, Throw terr) /\ w_call w f t args s = ([], s, Throw terr).

  Ltac lrew H := eapply simM_ext;
    [intros ? ?; apply bind_cong_l; intros ? ?; apply H | intros ? ?; reflexivity |].

  (* t.#x(args)   =>  __privateGet(_n = t, _x).call(_n, args) *)
  Theorem private_call_sound F t x args n :
    (pn_kind (names x) = KMethod \/ (args = [] /\ nullish_callee_throws)) ->
    ~ In n (tmps t) -> ~ In n (flat_map tmps args) ->
    forall m s, observe (pev (fst (plower names F (PCall t x args) n)) m s)
              = observe (nev (PCall t x args) m s).
  Proof.
    intros Hk Hnt Hna. cbn [plower]. destruct (capture_mut t n) as [[f a] n1] eqn:Hc. cbn [fst].
    set (L := fun k : Z => k = n).
    apply (simM_observe S L veq); [intros ? ? ? H; exact H |].
    assert (Hdt : forall k, L k -> ~ In k (tmps t)) by (intros k ->; exact Hnt).
    assert (Hda : forall k, L k -> ~ In k (flat_map tmps args)) by (intros k ->; exact Hna).
    assert (Hst : forall y, stable L (fun m0 : tstore => rempm t n y m0 /\ True)).
    { intro y. apply stable_and; [apply rempm_stable; reflexivity | apply stable_true]. }
    cbn [peval neval]. lrew peval_get. cbn [peval].
    apply simM_assoc_l. eapply simM_bind.
    { apply (piece_first_mut L (fun _ => True) t n f a n1 Hc eq_refl Hdt (stable_true L)). auto. }
    intros x0 y0. apply simM_pure. intro E. rewrite E.
    apply simM_assoc_l. eapply simM_bind.
    { apply simM_post_right with (Q := fun b => pn_kind (names x) = KMethod -> nullish b = false).
      - apply simM_lift.
      - intros m0 s0. unfold lift. pose proof (nget_method_nonnull x (valof y0) s0) as Q.
        destruct (nget x (valof y0) s0) as [[t1 s1] [b | e]]; [| exact I]. intro Hm. exact (Q Hm). }
    intros fv fv0. apply simM_pure. intro Hq. apply simM_pure. intros ->.
    apply simM_ret_l. cbn [valof ov].
    destruct (nullish fv0) eqn:Hnf.
    - destruct Hk as [Hm | [-> Hw]]; [discriminate (Hq Hm) |].
      apply simM_both_throw with (v := terr); intros m0 s0; unfold bind, lift; cbn [eval_list ret].
      + rewrite (proj1 (Hw fv0 (VStr name_call) VUndef [] s0 Hnf)). reflexivity.
      + rewrite (proj2 (Hw fv0 (VStr name_call) (valof y0) [] s0 Hnf)). reflexivity.
    - apply simM_left_skip.
      { intros m0 s0 _. unfold lift. destruct (Hcall fv0 s0 Hnf) as [c ->]. eexists; reflexivity. }
      intros _.
      eapply simM_left_pure.
      { intros m0 s0 [Hr _]. apply (piece_again_mut t n f a n1 _ m0 s0 Hc Hr). }
      cbn [valof ov].
      eapply simM_bind; [apply simM_fresh_list; [exact Hda | apply Hst] |].
      intros vs vs0. apply simM_pure. intros ->.
      eapply simM_bind; [apply simM_lift |].
      intros u u0. apply simM_ret. intros m0 [-> _]. reflexivity.
  Qed.

  Definition strict_op (op : binop) : Prop := op = BSub \/ op = BPow.

  Lemma peval_arith F op cur v m s :
    strict_op op ->
    pev (match op with
         | BPow => if f_exp F then HPow cur (PE v) else HBin BPow cur (PE v)
         | _ => HBin op cur (PE v)
         end) m s
    = bind (pev cur) (fun r => bind (ev v) (fun r2 =>
        bind (lift (w_binop w op (valof r) (valof r2))) (fun z => ret (ov z)))) m s.
  Proof. intros [-> | ->]; [reflexivity |]. destruct (f_exp F); reflexivity. Qed.

  (* t.#x -= v   =>  __privateSet(_n = t, _x, __privateGet(_n, _x) - v)
     t.#x **= v  =>  __privateSet(_n = t, _x, __pow(__privateGet(_n, _x), v)) *)
  Theorem private_arith_assign_sound F op t x v n :
    strict_op op -> cap_ok S w t ->
    ~ In n (tmps t) -> ~ In n (tmps v) ->
    forall m s, observe (pev (fst (plower names F (PArith op t x v) n)) m s)
              = observe (nev (PArith op t x v) m s).
  Proof.
    intros Hop Hok Hnt Hnv. cbn [plower]. destruct (capture t n) as [[f a] n1] eqn:Hc. cbn [fst].
    set (L := fun k : Z => k = n).
    apply (simM_observe S L veq); [intros ? ? ? H; exact H |].
    assert (Hdt : forall k, L k -> ~ In k (tmps t)) by (intros k ->; exact Hnt).
    assert (Hdv : forall k, L k -> ~ In k (tmps v)) by (intros k ->; exact Hnv).
    assert (Hst : forall y, stable L (fun m0 : tstore => remp S w th t n y m0 /\ True)).
    { intro y. apply stable_and; [apply remp_stable; reflexivity | apply stable_true]. }
    eapply simM_ext; [intros ? ?; apply peval_set | intros ? ?; reflexivity |].
    cbn [peval neval].
    eapply simM_bind.
    { apply (piece_first S w th L (fun _ => True) t n f a n1 Hc Hok eq_refl Hdt (stable_true L)). auto. }
    intros x0 y0. apply simM_pure. intro E. rewrite E.
    lrew (peval_arith F op (lowerPrivateGet names (PE a) x) v). exact Hop.
    apply simM_assoc_l. lrew peval_get. cbn [peval].
    apply simM_assoc_l.
    eapply simM_left_pure.
    { intros m0 s0 [Hr _]. apply (piece_again S w th t n f a n1 _ m0 s0 Hc Hr). }
    cbn [valof ov].
    apply simM_assoc_l. eapply simM_bind; [apply simM_lift |].
    intros lv lv0. apply simM_pure. intros ->.
    apply simM_ret_l. cbn [valof ov].
    apply simM_assoc_l. eapply simM_bind; [apply simM_fresh; [exact Hdv | apply Hst] |].
    intros r r0. apply simM_pure. intros ->.
    apply simM_assoc_l. eapply simM_bind; [apply simM_lift |].
    intros z z0. apply simM_pure. intros ->.
    apply simM_ret_l. cbn [valof ov].
    eapply simM_bind; [apply simM_lift |].
    intros u u0. apply simM_ret. intros; reflexivity.
  Qed.

  (* t.#x ||= v  =>  __privateGet(_n = t, _x) || __privateSet(_n, _x, v)     (&&=, ??= alike)
     t.#x ??= v  =>  (_k = __privateGet(_n = t, _x)) != null ? _k : __privateSet(_n, _x, v)
                     when ?? itself has to be lowered *)
  Theorem private_logical_assign_sound F op t x v n :
    cap_ok S w t ->
    (forall k, n <= k < n + 2 -> ~ In k (tmps t) /\ ~ In k (tmps v)) ->
    forall m s, observe (pev (fst (plower names F (PLog op t x v) n)) m s)
              = observe (nev (PLog op t x v) m s).
  Proof.
    intros Hok Hfr. cbn [plower]. destruct (capture t n) as [[f a] n1] eqn:Hc.
    set (L := fun k : Z => n <= k < n + 2).
    assert (Hdt : forall k, L k -> ~ In k (tmps t)) by (intros k Hk; apply (Hfr k Hk)).
    assert (Hdv : forall k, L k -> ~ In k (tmps v)) by (intros k Hk; apply (Hfr k Hk)).
    pose proof (capture_next t n f a n1 Hc) as Hn1.
    assert (Ln : L n) by (unfold L; lia).
    assert (Ln1 : L n1) by (unfold L; destruct (is_inline_value t); lia).
    assert (Hst : forall y, stable L (fun m0 : tstore => remp S w th t n y m0 /\ True)).
    { intro y. apply stable_and; [apply remp_stable; exact Ln | apply stable_true]. }
    assert (Hst2 : forall y z, stable L (fun m0 : tstore => tget m0 n1 = z /\ remp S w th t n y m0 /\ True)).
    { intros y z. apply stable_and; [apply stable_tget; exact Ln1 | apply Hst]. }
    (* the store half, shared by every shape *)
    assert (Hright : forall (Pre : tstore -> Prop) y0, stable L Pre ->
      (forall m0, Pre m0 -> remp S w th t n (valof y0) m0) ->
      simM L Pre veq
        (bind (pev (lowerPrivateSet names (PE a) x (PE v))) (fun r2 => ret (ov (valof r2))))
        (bind (ev v) (fun rv => bind (lift (nset x (valof y0) (valof rv))) (fun _ => ret (ov (valof rv)))))).
    { intros Pre y0 HstP Hrem.
      lrew peval_set. cbn [peval].
      apply simM_assoc_l. eapply simM_left_pure.
      { intros m0 s0 Hp. apply (piece_again S w th t n f a n1 _ m0 s0 Hc (Hrem m0 Hp)). }
      cbn [valof ov].
      apply simM_assoc_l. eapply simM_bind; [apply simM_fresh; [exact Hdv | exact HstP] |].
      intros r r0. apply simM_pure. intros ->.
      apply simM_assoc_l. eapply simM_bind; [apply simM_lift |].
      intros u u0. apply simM_ret_l. apply simM_ret. intros; reflexivity. }
    assert (Hshape : forall bop, bop = lop_bin op ->
      forall m s, observe (pev (HBin bop (lowerPrivateGet names (PE f) x)
                                     (lowerPrivateSet names (PE a) x (PE v))) m s)
                = observe (nev (PLog op t x v) m s)).
    { intros bop ->.
      apply (simM_observe S L veq); [intros ? ? ? H; exact H |].
      destruct op; cbn [lop_bin peval binsem neval lop_short];
        (lrew peval_get; cbn [peval]; apply simM_assoc_l; eapply simM_bind;
         [ apply (piece_first S w th L (fun _ => True) t n f a n1 Hc Hok Ln Hdt (stable_true L)); auto |]);
        intros x0 y0; apply simM_pure; intro E; rewrite E;
        (apply simM_assoc_l; eapply simM_bind; [apply simM_lift |]);
        intros lv lv0; apply simM_pure; intros ->; apply simM_ret_l; cbn [valof ov].
      - destruct (nullish lv0); cbn [negb]; [| apply simM_ret; intros; reflexivity].
        apply Hright; [apply Hst | intros m0 [H _]; exact H].
      - destruct (truthy lv0); [apply simM_ret; intros; reflexivity |].
        apply Hright; [apply Hst | intros m0 [H _]; exact H].
      - destruct (truthy lv0); cbn [negb]; [| apply simM_ret; intros; reflexivity].
        apply Hright; [apply Hst | intros m0 [H _]; exact H]. }
    destruct op; try (cbn [fst]; apply Hshape; reflexivity).
    destruct (f_nullish F); [| cbn [fst]; apply Hshape; reflexivity].
    cbn [fst].
    apply (simM_observe S L veq); [intros ? ? ? H; exact H |].
    cbn [peval neval lop_short].
    apply simM_assoc_l. apply simM_assoc_l. lrew peval_get. cbn [peval].
    apply simM_assoc_l. eapply simM_bind.
    { apply (piece_first S w th L (fun _ => True) t n f a n1 Hc Hok Ln Hdt (stable_true L)). auto. }
    intros x0 y0. apply simM_pure. intro E. rewrite E.
    apply simM_assoc_l. eapply simM_bind; [apply simM_lift |].
    intros lv lv0. apply simM_pure. intros ->. apply simM_ret_l. cbn [valof ov].
    eapply simM_left_write with (Pre' := fun m0 => tget m0 n1 = lv0 /\ remp S w th t n (valof y0) m0 /\ True).
    { exact Ln1. }
    { intros m0 [Hr _]. split; [apply tget_tset_same |]. split; [| exact I].
      apply remp_tset'; [| exact Hr]. intro Hi. rewrite Hi in Hn1. lia. }
    apply simM_ret_l. cbn [valof ov truthy].
    destruct (nullish lv0); cbn [negb].
    - apply Hright; [apply Hst2 | intros m0 [_ [H _]]; exact H].
    - eapply simM_left_pure.
      { intros m0 s0 [Ht _]. cbn [eval]. rewrite Ht. reflexivity. }
      apply simM_ret. intros; reflexivity.
  Qed.

  (* ---- every form ---- *)
  Definition pform_ok (f : pform) (n : Z) : Prop :=
    match f with
    | PGet _ _ | PSet _ _ _ | PIn _ _ | PTarget _ _ => True
    | PCall t x args =>
        (pn_kind (names x) = KMethod \/ (args = [] /\ nullish_callee_throws)) /\
        ~ In n (tmps t) /\ ~ In n (flat_map tmps args)
    | PArith op t x v => strict_op op /\ cap_ok S w t /\ ~ In n (tmps t) /\ ~ In n (tmps v)
    | PLog _ t x v => cap_ok S w t /\ (forall k, n <= k < n + 2 -> ~ In k (tmps t) /\ ~ In k (tmps v))
    end.

  Theorem plower_sound F f n :
    pform_ok f n ->
    forall m s, observe (pev (fst (plower names F f n)) m s) = observe (nev f m s).
  Proof.
    destruct f as [t x | t x v | x t | t x args | op t x v | op t x v | t x]; cbn [pform_ok].
    - intros _ m s. rewrite private_get_sound. reflexivity.
    - intros _ m s. rewrite private_set_sound. reflexivity.
    - intros _ m s. rewrite private_in_sound. reflexivity.
    - intros (H1 & H2 & H3). apply private_call_sound; assumption.
    - intros (H1 & H2 & H3 & H4). apply private_arith_assign_sound; assumption.
    - intros (H1 & H2). apply private_logical_assign_sound; assumption.
    - intros _ m s. cbn [plower]. destruct (pn_kind (names x)); reflexivity.
  Qed.

  (* ---- instance initialisation: the constructor prologue esbuild emits
         __privateAdd(this, _C_instances); __privateAdd(this, _x, init); ...
     against InitializeInstanceElements (brand first, then the fields in order,
     each initialiser evaluated right before its PrivateFieldAdd) ---- *)
  Inductive pinit := IBrand (st : Z) | IField (x : Z) (init : expr).

  Definition pinit_ok (i : pinit) : Prop :=
    match i with
    | IBrand st => isset st = true
    | IField x _ => pn_kind (names x) = KField
    end.

  Fixpoint ninit (l : list pinit) : M S unit :=
    match l with
    | [] => ret tt
    | IBrand st :: r => bind (lift (nadd st th (VBool true))) (fun _ => ninit r)
    | IField x e :: r => bind (ev e) (fun v =>
        bind (lift (nadd (pn_store (names x)) th (valof v))) (fun _ => ninit r))
    end.

  Fixpoint hinit (l : list pinit) : M S unit :=
    match l with
    | [] => ret tt
    | IBrand st :: r => bind (ev EThis) (fun o => bind (lift (hadd st (valof o) VUndef)) (fun _ => hinit r))
    | IField x e :: r => bind (ev EThis) (fun o => bind (ev e) (fun v =>
        bind (lift (hadd (pn_store (names x)) (valof o) (valof v))) (fun _ => hinit r)))
    end.

  Theorem private_add_sound l :
    Forall pinit_ok l -> forall m s, hinit l m s = ninit l m s.
  Proof.
    induction 1 as [| i r Hi Hr IH]; intros m s; [reflexivity |].
    destruct i as [st | x e]; cbn [hinit ninit pinit_ok] in *.
    - cbn [eval]. rewrite bind_ret_l. cbn [valof ov].
      etransitivity; [apply bind_cong; intros; apply IH |].
      apply bind_cong_l. intros m1 s1. apply lift_cong. intro s2. apply hadd_native_brand, Hi.
    - cbn [eval]. rewrite bind_ret_l. cbn [valof ov].
      apply bind_cong. intros v m1 s1.
      etransitivity; [apply bind_cong; intros; apply IH |].
      apply bind_cong_l. intros m2 s2. apply lift_cong. intro s3. apply hadd_native_field, Hi.
  Qed.

  (* ---- t.#x as an assignment target: [t.#x = d] = ..., for (t.#x of ...) ----
     =>  __privateWrapper(t, _x [, x_set])._ : the reference is evaluated (t runs),
     anything may happen in between (default value, other elements, the iterator),
     then the store is PrivateSet *)
  Notation ptg := (ptarget w th terr fobj isset).
  Notation ntg := (ntarget w th terr names fobj).

  Lemma hset_put x o v s :
    wbind U (hsetK x o v) (fun _ => wret U tt) s = nset x o v s.
  Proof.
    rewrite (wbind_cong_l _ _ _ _ (hsetK_native x o v s)).
    unfold wbind, wret. destruct (nset x o v s) as [[t1 s1] [[] | e]]; cbn; rewrite ?app_nil_r; reflexivity.
  Qed.

  Lemma ptarget_lower F t x n m s :
    ptg (fst (plower names F (PTarget t x) n)) m s
    = bind (ev t) (fun r => ret (fun v => wbind U (hsetK x (valof r) v) (fun _ => wret U tt))) m s.
  Proof. cbn [plower fst]. unfold hsetK. destruct (pn_kind (names x)); reflexivity. Qed.

  Theorem private_target_sound F t x n (mid : M S unit) v m s :
    bind (ptg (fst (plower names F (PTarget t x) n))) (fun k => bind mid (fun _ => lift (k v))) m s
    = bind (ntg (PTarget t x)) (fun k => bind mid (fun _ => lift (k v))) m s.
  Proof.
    rewrite (bind_cong_l _ _ _ m s (ptarget_lower F t x n)). cbn [ntarget].
    rewrite !bind_assoc. apply bind_cong. intros r m1 s1. rewrite !bind_ret_l.
    apply bind_cong. intros [] m2 s2. apply lift_cong. intro s3. apply hset_put.
  Qed.
End PrivProofs.

(* ---- a concrete world: refutation witnesses and non-vacuity ----
   user state = the object variable 0 points to; TypeError = VStr 99
     variable 0      the object (VObj state);  variable 3: a function;
     variable 7      constant binding of object 1
     name 1          field #f, storage 10            (object 1 has #f = undefined)
     name 2          accessor pair #p, brand 11, getter function 200, setter 201
     name 4          method #m, brand 11, function 202
     calling 200     makes variable 0 point to object 2 and returns null (event 8)
     calling 201     event 9 with this and the value
     other calls     event 4;  "call" of a non-nullish value: pure;
     get or call on null/undefined: TypeError *)
Definition pterr : val := VStr 99.
Definition pwit_world : world (Z * pst) := mkWorld
  (fun x s => if x =? 0 then ([], s, Ok (VObj (fst s)))
              else if x =? 7 then ([], s, Ok (VObj 1))
              else ([], s, Ok (VObj 100)))
  (fun x v s => ([(5, [VNum x; v])], s, Ok tt))
  (fun b k s => if nullish b then ([], s, Throw pterr)
                else match k with
                     | VStr 0 => ([], s, Ok (VObj 77))
                     | _ => ([(2, [b; k])], s, Ok (VObj 50))
                     end)
  (fun b k v s => ([(3, [b; k; v])], s, Ok tt))
  (fun b k s => ([(6, [b; k])], s, Ok (VBool true)))
  (fun f t args s =>
     if nullish f then ([], s, Throw pterr)
     else match f with
          | VObj 200 => ([(8, [t])], (2, snd s), Ok VNull)
          | VObj 201 => ([(9, t :: args)], s, Ok VUndef)
          | _ => ([(4, f :: t :: args)], s, Ok (VNum 7))
          end)
  (fun op a b s => ([(7, [a; b])], s, Ok (VNum 8))).

Definition pwit_names (x : Z) : pname :=
  if x =? 2 then mkPname KGetSet 11 0 20 21
  else if x =? 4 then mkPname KMethod 11 22 0 0
  else mkPname KField 10 0 0 0.
Definition pwit_fobj (i : Z) : Z := 180 + i.
Definition pwit_isset (st : Z) : bool := st =? 11.
Definition pwit_state : Z * pst := (1, [(10, 1, VUndef); (11, 1, VBool true); (11, 2, VBool true)]).

Definition pwit_lowered (f : pform) :=
  observe (peval pwit_world VUndef pterr pwit_fobj pwit_isset (fst (plower pwit_names all_features f 0)) [] pwit_state).
Definition pwit_native (f : pform) :=
  observe (neval pwit_world VUndef pterr pwit_names pwit_fobj f [] pwit_state).

(* F13  o.#f(g())  with #f undefined *)
Definition f13_src := PCall (EId 0) 1 [ECall (EId 3) [] OcNone].
(* F2c  o.#p ??= 5  where the getter of #p reassigns o *)
Definition f2c_src := PLog LNullish (EId 0) 2 (ENum 5).

Lemma refuted_F13 : pwit_lowered f13_src <> pwit_native f13_src.
Proof. vm_compute. intro H. discriminate H. Qed.
Lemma refuted_F2c : pwit_lowered f2c_src <> pwit_native f2c_src.
Proof. vm_compute. intro H. discriminate H. Qed.

Lemma pwit_call_intact : call_intact (Z * pst) pwit_world.
Proof.
  intros fv s Hn. cbn. rewrite Hn. exists (VObj 77). reflexivity.
Qed.
Lemma pwit_store : forall x, pwit_isset (pn_store (pwit_names x)) =
  match pn_kind (pwit_names x) with KField => false | _ => true end.
Proof.
  intro x. unfold pwit_names. destruct (x =? 2); [reflexivity |]. destruct (x =? 4); reflexivity.
Qed.
Lemma pwit_nullish_throws : nullish_callee_throws Z pwit_world pterr.
Proof. intros f k t args s Hn. cbn. rewrite Hn. split; reflexivity. Qed.
