(* A concrete world used for the refutation witnesses and the non-vacuity
   examples.  State = the object that variable 0 currently points to.
     variable 9   accessor-backed global: every read emits event 1 (F1)
     variable 0   holds object (VObj state)
     variable 2   null
     property 1 of object 1: a getter that returns 0 and makes variable 0 point
                  to object 2 (F2, F3)
     property "call" (name 0) of any non-nullish value: pure
     get on a nullish base, call of a nullish callee: throw
     calls log callee, this and arguments (event 4); sets log (event 3) *)
From V Require Import Common.Base C05.Syntax C05.Sem C05.Lower.

Definition wit_world : world Z := mkWorld
  (fun x s => if x =? 9 then ([(1, [])], s, Ok (VNum 1))
              else if x =? 0 then ([], s, Ok (VObj s))
              else if x =? 2 then ([], s, Ok VNull)
              else ([], s, Ok (VObj 100)))
  (fun x v s => ([(5, [VNum x; v])], s, Ok tt))
  (fun b k s => if nullish b then ([], s, Throw (VStr 99))
                else match k with
                     | VStr 0 => ([], s, Ok (VObj 77))
                     | _ => match b with
                            | VObj 1 => ([(2, [b; k])], 2, Ok (VNum 0))
                            | _ => ([(2, [b; k])], s, Ok (VObj 50))
                            end
                     end)
  (fun b k v s => ([(3, [b; k; v])], s, Ok tt))
  (fun b k s => ([(6, [b; k])], s, Ok (VBool true)))
  (fun f t args s => if nullish f then ([], s, Throw (VStr 98)) else ([(4, f :: t :: args)], s, Ok (VNum 7)))
  (fun op a b s => ([(7, [a; b])], s, Ok (VNum 8))).

Definition all_features := mkFeat true true true true.
Definition wit_run (e : expr) := run wit_world VUndef e 1.

(* F1  ga ?? 2 *)
Definition f1_src := EBin BNullish (EId 9) (ENum 2).
(* F2  a.b ||= 5 *)
Definition f2_src := EOpAsg AOr (EDot (EId 0) 1 OcNone) (ENum 5).
(* F3  c.m?.() *)
Definition f3_src := ECall (EDot (EId 0) 1 OcNone) [] OcStart.
(* F4  (a?.b)(g())  with a = null *)
Definition f4_src := ECall (EDot (EId 2) 1 OcStart) [ECall (EId 3) [] OcNone] OcNone.
(* F6  (null ?? o.f)?.() *)
Definition f6_src := ECall (EBin BNullish ENull (EDot (EId 3) 4 OcNone)) [] OcStart.
