(* Go's UTF-8 decoding (unicode/utf8.DecodeRune, which `for i, c := range s`
   uses): returns (rune, width); invalid or truncated input yields
   (RuneError = 0xFFFD, 1). Written from the Go documentation / the table in
   utf8.go (first[], acceptRanges). Bytes are Z in [0,256). *)
From V Require Import Common.Base.

Definition RuneError : Z := 65533.

Definition in_range (lo hi x : Z) : bool := (lo <=? x) && (x <=? hi).
Definition is_cont (b : Z) : bool := in_range 128 191 b.

Definition decode_rune (l : bytes) : Z * nat :=
  match l with
  | [] => (RuneError, 0%nat)
  | b0 :: r =>
    if b0 <? 128 then (b0, 1%nat)
    else if in_range 194 223 b0 then
      match r with
      | b1 :: _ => if is_cont b1 then ((b0 mod 32) * 64 + b1 mod 64, 2%nat) else (RuneError, 1%nat)
      | _ => (RuneError, 1%nat)
      end
    else if in_range 224 239 b0 then
      match r with
      | b1 :: b2 :: _ =>
        let lo := if b0 =? 224 then 160 else 128 in
        let hi := if b0 =? 237 then 159 else 191 in
        if in_range lo hi b1 && is_cont b2
        then ((b0 mod 16) * 4096 + (b1 mod 64) * 64 + b2 mod 64, 3%nat)
        else (RuneError, 1%nat)
      | _ => (RuneError, 1%nat)
      end
    else if in_range 240 244 b0 then
      match r with
      | b1 :: b2 :: b3 :: _ =>
        let lo := if b0 =? 240 then 144 else 128 in
        let hi := if b0 =? 244 then 143 else 191 in
        if in_range lo hi b1 && is_cont b2 && is_cont b3
        then ((b0 mod 8) * 262144 + (b1 mod 64) * 4096 + (b2 mod 64) * 64 + b3 mod 64, 4%nat)
        else (RuneError, 1%nat)
      | _ => (RuneError, 1%nat)
      end
    else (RuneError, 1%nat)
  end.

(* all runes of a byte string with their byte offsets, as `range` yields them *)
Fixpoint runes_from (fuel : nat) (l : bytes) (off : Z) : list (Z * Z * nat) :=
  match fuel with
  | O => []
  | S f =>
    match l with
    | [] => []
    | _ =>
      let '(c, w) := decode_rune l in
      (off, c, w) :: runes_from f (skipn w l) (off + Z.of_nat w)
    end
  end.
Definition runes (l : bytes) : list (Z * Z * nat) := runes_from (length l) l 0.

Definition is_newline (c : Z) : bool := (c =? 13) || (c =? 10) || (c =? 8232) || (c =? 8233).
(* UTF-16 width of a rune *)
Definition u16w (c : Z) : Z := if c <=? 65535 then 1 else 2.
