(* Common imports and small list utilities shared by all models. Stdlib only. *)
From Coq Require Export List ZArith Bool Lia Arith.
From Coq Require Export ZifyBool ZifyNat ZifyN.
Export ListNotations.
Ltac Zify.zify_post_hook ::= Z.div_mod_to_equations.
Global Open Scope Z_scope.

Definition byte := Z.
Definition bytes := list Z.

Fixpoint list_eqb {A} (eqb : A -> A -> bool) (a b : list A) : bool :=
  match a, b with
  | [], [] => true
  | x :: a', y :: b' => eqb x y && list_eqb eqb a' b'
  | _, _ => false
  end.

Lemma list_eqb_eq {A} (eqb : A -> A -> bool) :
  (forall x y, eqb x y = true <-> x = y) ->
  forall a b, list_eqb eqb a b = true <-> a = b.
Proof.
  intros H a; induction a as [|x a IH]; intros [|y b]; simpl; split; intro E;
    try reflexivity; try discriminate.
  - apply andb_true_iff in E as [E1 E2]. apply H in E1. apply IH in E2. congruence.
  - inversion E; subst. apply andb_true_iff; split; [apply H; reflexivity | apply IH; reflexivity].
Qed.

Definition zlist_eqb := list_eqb Z.eqb.
Lemma zlist_eqb_eq a b : zlist_eqb a b = true <-> a = b.
Proof. apply list_eqb_eq. intros; apply Z.eqb_eq. Qed.

Definition option_eqb {A} (eqb : A -> A -> bool) (a b : option A) : bool :=
  match a, b with
  | None, None => true
  | Some x, Some y => eqb x y
  | _, _ => false
  end.

(* repeat a byte n times, n : nat *)
Definition rep (c : Z) (n : nat) : bytes := repeat c n.

(* index of first element not equal to c *)
Fixpoint span_eq (c : Z) (l : bytes) : nat * bytes :=
  match l with
  | x :: r => if x =? c then let '(n, r') := span_eq c r in (S n, r') else (O, l)
  | [] => (O, [])
  end.
