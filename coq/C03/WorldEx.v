(* Non-vacuity of [world_ok]: a concrete world with effectful calls, getters
   and object conversions that satisfies every guarantee assumed of worlds. *)
From V Require Import Common.Base C03.Num C03.SpecOps C03.Tree C03.MiniJS C03.Worlds.

Definition zero_val : value := VNum (Fin false 0 0).

Definition good_un (op : unop) (v : value) (n : nat) : trace * outcome :=
  if negb (is_prim v) then ([77], Val zero_val)                    (* valueOf of an object runs: logged *)
  else if is_sym v then ([], Throw (VStr s_TypeError))
  else if is_big v then (match op with UPos => ([], Throw (VStr s_TypeError)) | _ => ([], Val v) end)
  else ([], Val zero_val).

Definition good_bin (op : binop) (a b : value) (n : nat) : trace * outcome :=
  let t := if is_prim a && is_prim b then [] else [88] in           (* conversions of objects are logged *)
  if is_arith op then (t, Val zero_val)
  else if is_rel op then
    match a, b with
    | VStr x, VStr y =>
        ([], Val (VBool (match op with
                         | BLt => spec_string_lt x y | BGt => spec_string_lt y x
                         | BLe => negb (spec_string_lt y x) | _ => negb (spec_string_lt x y) end)))
    | _, _ => (t, Val (VBool false))
    end
  else match op with
       | BLooseEq => match a, b with
                     | VStr x, VStr y => ([], Val (VBool (zlist_eqb x y)))
                     | VNum x, VNum y => ([], Val (VBool (num_eq x y)))
                     | _, VNull => ([], Val (VBool (nullish a)))
                     | VNull, _ => ([], Val (VBool (nullish b)))
                     | _, _ => (t, Val (VBool false))
                     end
       | BAdd => match a, b with
                 | VStr x, VStr y => ([], Val (VStr (x ++ y)))
                 | _, _ =>
                 if is_str a || is_str b then (t, Val (VStr []))
                 else if is_big a && is_big b then (t, Val (VBig 0))
                 else (t, Val zero_val)
                 end
       | _ => (t, Val (VBool false))
       end.

Definition Wgood : world := {|
  w_unbound := fun r => 1000 <=? r;
  w_lenv := fun r => if r =? 1 then VObj 1 else VNum (Fin false 1 0);
  w_this := VUndef;
  w_genv := fun r => if r =? 1000 then Some (VObj 1000) else None;
  w_un := good_un;
  w_bin := good_bin;
  w_call := fun f _ n => ([99], if Nat.even n then Val VUndef else Throw (VStr [101]));   (* calls log, and may throw *)
  w_new := fun _ _ _ => ([98], Val (VObj 2));
  w_get := fun _ _ _ => ([7], Val (VObj 5));                                             (* every read is a logged getter *)
  w_tokey := fun v _ => if is_prim v then ([], Val v) else ([66], Val (VStr []));
  w_tostr := fun v _ => if negb (is_prim v) then ([55], Val (VStr [])) else
                        if is_sym v then ([], Throw (VStr s_TypeError)) else ([], Val (VStr []));
  w_spread := fun v _ => match v with VArr => ([], Val VUndef) | _ => ([44], Val VUndef) end
|}.

Ltac fin := repeat match goal with
                   | H : (_, _) = (_, _) |- _ => inversion H; subst; clear H
                   | H : context [if ?c then _ else _] |- _ => destruct c eqn:?; try discriminate
                   | H : context [match ?c with _ => _ end] |- _ => is_var c; destruct c; try discriminate
                   end; try reflexivity; try congruence.

Lemma Wgood_ok : world_ok Wgood.
Proof.
  constructor; cbn [Wgood w_un w_bin w_tokey w_tostr w_spread]; unfold good_un, good_bin.
  - intros op v n t r H. destruct v; cbn in H; fin; destruct op; fin.
  - intros v n t r H. destruct v; cbn in H; fin.
  - intros op v n t r H Hb. destruct v; try discriminate; cbn in H; destruct op; fin.
  - intros op v n t r H Hp Hb. rewrite Hp, Hb in H. cbn in H. fin.
  - intros op a b n t r Ha H. rewrite Ha in H. inversion H. reflexivity.
  - intros a b n t r H. cbn in H. inversion H. unfold zero_val. eauto.
  - intros op a b n t r Hb H.
    destruct (is_arith op) eqn:Ha; [destruct op; discriminate|].
    destruct (is_rel op) eqn:Hr.
    + destruct a, b; inversion H; reflexivity.
    + destruct op; try discriminate; destruct a, b; inversion H; reflexivity.
  - (* ok_add_prim *) intros a b n t r H. destruct a, b; cbn in H; inversion H; reflexivity.
  - (* ok_add_str *) intros a b n t r H Hs. destruct a, b; cbn in H, Hs; try discriminate; inversion H; reflexivity.
  - (* ok_add_big *) intros a b n t r H Ha Hb. destruct a, b; cbn in H, Ha, Hb; try discriminate; inversion H; reflexivity.
  - (* ok_add_plain *) intros a b n t r H Ha Hb. destruct a, b; cbn in H, Ha, Hb; try discriminate; inversion H; reflexivity.
  - intros op a b n Hr Ha Hb Hsa Hsb. rewrite Ha, Hb.
    destruct (is_arith op) eqn:E; [destruct op; discriminate|]. rewrite Hr.
    destruct a, b; eauto.
  - intros a b n Ha Hb. rewrite Ha, Hb. cbn. destruct a, b; eauto.
  - reflexivity.
  - (* ok_add_str_str *) reflexivity.
  - (* ok_add_indep_r *) intros a s1 s2 n. destruct a; cbn; auto.
  - (* ok_add_indep_l *) intros b s1 s2 n. destruct b; cbn; auto.
  - (* ok_looseeq_null_r *) intros a n. destruct a; reflexivity.
  - (* ok_looseeq_null_l *) intros a n. destruct a; reflexivity.
  - reflexivity.
  - reflexivity.
  - reflexivity.
  - reflexivity.
  - reflexivity.
  - intros z n. cbn. eauto.
  - intros v n Hp. rewrite Hp. eauto.
  - intros v n Hp Hs. rewrite Hp, Hs. cbn. eauto.
  - intros v n t r H. fin.
  - intros n. eauto.
Qed.
