(* Soundness of the tree helpers (Tree.v) against the MiniJS semantics *)
From V Require Import Common.Base C03.Num C03.Tree C03.MiniJS C03.Worlds.

Ltac inv H := inversion H; subst; clear H.

Lemma dec_value_ge : forall l acc z, 0 <= acc -> dec_value l acc = Some z -> acc <= z.
Proof.
  induction l as [|c l IH]; intros acc z Ha H; cbn [dec_value] in H.
  - inv H. lia.
  - destruct ((48 <=? c) && (c <=? 57)) eqn:Hc; [|discriminate].
    apply IH in H; lia.
Qed.

Lemma dec_value_cons_nz : forall c l z, dec_value (c :: l) 0 = Some z -> c <> 48 -> z <> 0.
Proof.
  intros c l z H Hc. change (dec_value (c :: l) 0) with
    (if (48 <=? c) && (c <=? 57) then dec_value l (0 * 10 + (c - 48)) else None) in H.
  destruct ((48 <=? c) && (c <=? 57)) eqn:Hd; [|discriminate].
  apply dec_value_ge in H; lia.
Qed.

Lemma bigint_zero_test : forall s z eq,
  big_value s = Some z -> check_equality_bigint s [48] = (eq, true) -> negb eq = negb (z =? 0).
Proof.
  intros s z eq Hv Hc. unfold check_equality_bigint in Hc.
  destruct (zlist_eqb s [48]) eqn:Hs.
  - apply zlist_eqb_eq in Hs. subst s. inv Hc. cbn in Hv. inv Hv. reflexivity.
  - destruct (no_radix s && no_radix [48]) eqn:Hn; inv Hc.
    apply andb_true_iff in Hn as [Hn _].
    assert (Hz : z <> 0).
    { destruct s as [|c [|c2 s]]; cbn [big_value] in Hv; try discriminate.
      - apply dec_value_cons_nz in Hv; [assumption|]. intro; subst c. cbn in Hs. discriminate.
      - cbn [no_radix] in Hn. destruct (c =? 48) eqn:Hc48; [discriminate|].
        apply dec_value_cons_nz in Hv; [assumption|lia]. }
    destruct (z =? 0) eqn:E; [lia|reflexivity].
Qed.

Section Proofs.
  Variable W : world.

  Notation ev := (eval W).

  Lemma bind_inv : forall r k tr' out,
    bind r k = Some (tr', out) ->
    (exists tr1 v, r = Some (tr1, Val v) /\ k tr1 v = Some (tr', out)) \/
    (exists x, r = Some (tr', Throw x) /\ out = Throw x).
  Proof.
    intros r k tr' out H. unfold bind in H.
    destruct r as [[tr1 [v|x]]|]; try discriminate.
    - left. eauto.
    - right. inv H. eauto.
  Qed.

  Lemma lbind_inv : forall r k tr' out,
    lbind r k = Some (tr', out) ->
    (exists tr1 vs, r = Some (tr1, LVals vs) /\ k tr1 vs = Some (tr', out)) \/
    (exists x, r = Some (tr', LThrow x) /\ out = Throw x).
  Proof.
    intros r k tr' out H. unfold lbind in H.
    destruct r as [[tr1 [vs|x]]|]; try discriminate.
    - left. eauto.
    - right. inv H. eauto.
  Qed.

  Lemma eff_inv : forall tr f tr' out, eff tr f = Some (tr', out) -> exists t2, f (length tr) = (t2, out) /\ tr' = tr ++ t2.
  Proof.
    intros tr f tr' out H. unfold eff in H. destruct (f (length tr)) as [t2 o].
    destruct o as [v|x]; [inv H; eauto|]. destruct x; inv H; eauto.
  Qed.

  Lemma props_value : forall (evf : trace -> expr -> option (trace * outcome)) l tr tr' v,
    eval_props_with W evf tr l = Some (tr', Val v) -> v = VObjLit.
  Proof.
    induction l as [|[[[kind computed] key] value] r IH]; intros tr tr' v H; cbn [eval_props_with] in H.
    - inv H. reflexivity.
    - destruct (kind =? 1); [|destruct computed];
        repeat (apply bind_inv in H as [(? & ? & ? & H)|(? & ? & ?)]; [|discriminate]); eauto.
  Qed.

  Lemma typeof_nonempty : forall v, truthy (VStr (typeof_value v)) = true.
  Proof. destruct v; reflexivity. Qed.

  (* ToBooleanWithSideEffects: when it answers (ok), every normal completion of
     the expression has that truthiness; when it says NoSideEffects, the
     expression completes normally and leaves the trace unchanged *)
  Theorem to_boolean_sound_all : forall e tr tr' out b se,
    flags_ok W e ->
    ev tr e = Some (tr', out) -> to_boolean e = (b, se, true) ->
    (forall v, out = Val v -> truthy v = b) /\ (se = true -> tr' = tr /\ exists v, out = Val v).
  Proof.
    induction e; intros tr tr' out b0 se Hwf Hev Hb; cbn [to_boolean] in Hb; try discriminate.
    - (* ENull *) inv Hb. cbn in Hev. inv Hev. split; [intros v0 E0; inv E0; reflexivity | eauto].
    - inv Hb. cbn in Hev. inv Hev. split; [intros v0 E0; inv E0; reflexivity | eauto].
    - inv Hb. cbn in Hev. inv Hev. split; [intros v0 E0; inv E0; reflexivity | eauto].
    - inv Hb. cbn in Hev. inv Hev. split; [intros v0 E0; inv E0; reflexivity | eauto].
    - (* EBig *)
      destruct (check_equality_bigint s [48]) as [eq ok] eqn:Hc. inv Hb.
      cbn [eval] in Hev. destruct (big_value s) as [z|] eqn:Hz; [|discriminate]. inv Hev.
      split; [|eauto]. intros v0 E0. inv E0. cbn [truthy]. symmetry. eapply bigint_zero_test; eauto.
    - (* EStr *) inv Hb. cbn in Hev. inv Hev. split; [intros v0 E0; inv E0; reflexivity | eauto].
    - inv Hb. cbn in Hev. inv Hev. split; [intros v0 E0; inv E0; reflexivity | eauto].
    - inv Hb. cbn in Hev. inv Hev. split; [intros v0 E0; inv E0; reflexivity | eauto].
    - inv Hb. cbn in Hev. inv Hev. split; [intros v0 E0; inv E0; reflexivity | eauto].
    - (* EUn *)
      destruct Hwf as [Hty Hwf].
      destruct op; try discriminate.
      + (* UNot *)
        destruct (to_boolean e) as [[b' se'] ok'] eqn:Hte. destruct ok'; [|discriminate]. inv Hb.
        cbn [eval] in Hev. apply bind_inv in Hev as [(tr1 & x & Hx & Hk)|(x & Hx & Ho)].
        * inv Hk. destruct (IHe _ _ _ _ _ Hwf Hx eq_refl) as [H1 H2].
          split.
          -- intros v0 E0. inv E0. cbn [truthy]. rewrite (H1 x eq_refl). reflexivity.
          -- intros Hs. destruct (H2 Hs) as [-> _]. eauto.
        * subst out. destruct (IHe _ _ _ _ _ Hwf Hx eq_refl) as [H1 H2].
          split; [intros v0 E0; discriminate|].
          intros Hs. destruct (H2 Hs) as [_ [v1 Hv1]]. discriminate.
      + (* UVoid *)
        inv Hb. cbn [eval] in Hev. apply bind_inv in Hev as [(tr1 & x & Hx & Hk)|(x & Hx & Ho)].
        * inv Hk. split; [intros v0 E0; inv E0; reflexivity | discriminate].
        * subst out. split; [intros v0 E0; discriminate | discriminate].
      + (* UTypeof *)
        inv Hb. cbn [eval] in Hev.
        destruct se.
        * destruct (Hty eq_refl eq_refl) as (r & c & m & ->).
          destruct (w_unbound W r); [destruct (w_genv W r)|]; inv Hev;
            (split; [intros v0 E0; inv E0; try apply typeof_nonempty; reflexivity | eauto]).
        * split; [|discriminate].
          intros v0 E0. subst out.
          destruct e; try (apply bind_inv in Hev as [(tr1 & x & Hx & Hk)|(x & Hx & Ho)]; [inv Hk; apply typeof_nonempty | discriminate]).
    - (* EBin *)
      destruct Hwf as [Hwl Hwr].
      destruct op; try discriminate.
      + (* BLogOr *)
        destruct (to_boolean e2) as [[b' se'] ok'] eqn:Hte.
        destruct (ok' && b') eqn:Hok; [|discriminate]. inv Hb.
        apply andb_true_iff in Hok as [-> ->].
        split; [|discriminate].
        intros v0 E0. subst out. cbn [eval] in Hev.
        apply bind_inv in Hev as [(tr1 & x & Hx & Hk)|(x & Hx & Ho)]; [|discriminate].
        destruct (truthy x) eqn:Htx.
        * inv Hk. assumption.
        * destruct (IHe2 _ _ _ _ _ Hwr Hk eq_refl) as [H1 _]. apply H1. reflexivity.
      + (* BLogAnd *)
        destruct (to_boolean e2) as [[b' se'] ok'] eqn:Hte.
        destruct (ok' && negb b') eqn:Hok; [|discriminate]. inv Hb.
        apply andb_true_iff in Hok as [-> Hnb]. destruct b'; [discriminate|].
        split; [|discriminate].
        intros v0 E0. subst out. cbn [eval] in Hev.
        apply bind_inv in Hev as [(tr1 & x & Hx & Hk)|(x & Hx & Ho)]; [|discriminate].
        destruct (truthy x) eqn:Htx.
        * destruct (IHe2 _ _ _ _ _ Hwr Hk eq_refl) as [H1 _]. apply H1. reflexivity.
        * inv Hk. assumption.
      + (* BComma *)
        destruct (to_boolean e2) as [[b' se'] ok'] eqn:Hte.
        destruct ok'; [|discriminate]. inv Hb.
        split; [|discriminate].
        intros v0 E0. subst out. cbn [eval] in Hev.
        apply bind_inv in Hev as [(tr1 & x & Hx & Hk)|(x & Hx & Ho)]; [|discriminate].
        destruct (IHe2 _ _ _ _ _ Hwr Hk eq_refl) as [H1 _]. apply H1. reflexivity.
    - (* EArray *)
      inv Hb. split; [|discriminate]. intros v0 E0. subst out.
      rewrite eval_array_eq in Hev.
      apply lbind_inv in Hev as [(tr1 & vs & _ & Hk)|(x & _ & Ho)]; [inv Hk; reflexivity | discriminate].
    - (* EObject *)
      inv Hb. split; [|discriminate]. intros v0 E0. subst out.
      rewrite eval_object_eq in Hev. apply props_value in Hev. subst v0. reflexivity.
    - (* EAnnot *)
      destruct (to_boolean e) as [[b' se'] ok'] eqn:Hte. inv Hb.
      cbn [eval] in Hev. cbn [flags_ok] in Hwf. destruct Hwf as [Hpure Hwf].
      destruct (IHe _ _ _ _ _ Hwf Hev eq_refl) as [H1 H2]. split; [exact H1|].
      intros Hs. destruct removable; [|exact (H2 Hs)].
      destruct (Hpure eq_refl tr) as [v Hv]. rewrite Hv in Hev. inv Hev. eauto.
    - (* EInlinedEnum *)
      cbn [eval] in Hev. cbn [flags_ok] in Hwf. exact (IHe _ _ _ _ _ Hwf Hev Hb).
  Qed.
End Proofs.

(* ---- equality tables ---------------------------------------------------------- *)
Lemma lit_value_strip : forall e, lit_value (strip_enum e) = lit_value e.
Proof. induction e; cbn [strip_enum lit_value]; auto. Qed.

Lemma lit_is_primitive : forall e v, lit_value e = Some v -> is_primitive_literal (strip_enum e) = true.
Proof.
  induction e; intros v H; cbn [lit_value] in H; try discriminate; cbn [strip_enum is_primitive_literal]; eauto.
Qed.

Lemma num_eq_sym : forall a b, num_eq a b = num_eq b a.
Proof.
  intros [|s1|s1 m1 e1] [|s2|s2 m2 e2]; unfold num_eq; cbn [num_cmp]; try reflexivity.
  - destruct s1, s2; reflexivity.
  - destruct s1, s2; reflexivity.
  - destruct s1, s2; reflexivity.
  - unfold fin_cmp. rewrite (Z.min_comm e2 e1). rewrite (Z.compare_antisym (signed s1 _) (signed s2 _)).
    destruct (Z.compare _ _); reflexivity.
Qed.

Lemma strip_not_enum : forall e v, strip_enum e <> EInlinedEnum v.
Proof. induction e; cbn [strip_enum]; intros v0 H; try discriminate. eapply IHe; eauto. Qed.

Definition both_bigint (l r : expr) : bool :=
  match strip_enum l, strip_enum r with EBig _, EBig _ => true | _, _ => false end.

(* CheckEqualityIfNoSideEffects on two literals answers what IsStrictlyEqual /
   IsLooselyEqual compute on their values (pairs of two bigint literals are
   compared textually by the code and are not covered here) *)
Theorem check_equality_sound_all : forall l r strict eq x y,
  lit_value l = Some x -> lit_value r = Some y -> both_bigint l r = false ->
  check_equality l r strict = (eq, true) ->
  (if strict then strict_eq x y else spec_loose_eq x y) = Some eq.
Proof.
  intros l r strict eq x y Hl Hr Hbb Hc.
  unfold check_equality in Hc. unfold both_bigint in Hbb.
  rewrite <- lit_value_strip in Hl. rewrite <- lit_value_strip in Hr.
  pose proof (lit_is_primitive _ _ Hr) as Hpr. rewrite lit_value_strip in Hr. rewrite <- lit_value_strip in Hr.
  assert (Hidem : strip_enum (strip_enum r) = strip_enum r).
  { clear. induction r; cbn [strip_enum]; auto. }
  rewrite Hidem in Hpr.
  destruct (strip_enum l) as [] eqn:El; cbn [lit_value] in Hl; try discriminate;
  try (exfalso; eapply strip_not_enum; eassumption);
  destruct (strip_enum r) as [] eqn:Er; cbn [lit_value] in Hr; try discriminate;
  try (exfalso; eapply strip_not_enum; eassumption);
  try discriminate Hbb;
  repeat match goal with
         | H : match big_value ?s with _ => _ end = Some _ |- _ => destruct (big_value s) eqn:?; [|discriminate H]
         end;
  injection Hl as <-; injection Hr as <-;
  cbn [check_equality_base is_primitive_literal] in Hc;
  destruct strict; cbn [negb andb] in Hc;
  repeat match goal with
         | H : context [if ?b then _ else _] |- _ => is_var b; destruct b
         end;
  cbn in Hc; try discriminate Hc; injection Hc as <-; try reflexivity;
  unfold spec_loose_eq, bool_to_number; f_equal; apply num_eq_sym.
Qed.
