(* ExprCanBeRemovedIfUnused is sound: a removable expression evaluates without
   any trace event and completes normally, in every world *)
From V Require Import Common.Base C03.Num C03.SpecOps C03.Tree C03.MiniJS C03.Worlds C03.TreeProofs C03.TreeProofs3.

(* ---- sizes of list members ---------------------------------------------------- *)
Fixpoint sum_sizes (l : list expr) : nat := match l with [] => O | x :: r => (esize x + sum_sizes r)%nat end.

Lemma in_sum_sizes : forall l x, In x l -> (esize x <= sum_sizes l)%nat.
Proof.
  induction l as [|y l IH]; intros x H; [destruct H|].
  destruct H as [->|H]; cbn [sum_sizes]; [lia | apply IH in H; lia].
Qed.

Lemma esize_array : forall items, esize (EArray items) = S (sum_sizes items).
Proof. intros. reflexivity. Qed.
Lemma esize_call : forall t args oc p, esize (ECall t args oc p) = S (esize t + sum_sizes args).
Proof. intros. reflexivity. Qed.
Lemma esize_new : forall t args p, esize (ENew t args p) = S (esize t + sum_sizes args).
Proof. intros. reflexivity. Qed.

Fixpoint sum_parts (l : list (expr * list Z)) : nat := match l with [] => O | (v, _) :: r => (esize v + sum_parts r)%nat end.
Lemma esize_template : forall h parts, esize (ETemplate h parts) = S (sum_parts parts).
Proof. intros. reflexivity. Qed.

Fixpoint sum_props (l : list (Z * bool * expr * expr)) : nat :=
  match l with [] => O | (_, _, k, v) :: r => (esize k + esize v + sum_props r)%nat end.
Lemma esize_object : forall props, esize (EObject props) = S (sum_props props).
Proof. intros. reflexivity. Qed.

Section CBR.
  Variable W : world.
  Hypothesis Wok : world_ok W.
  Notation ev := (eval W).
  Notation ub := (w_unbound W).

  Definition pure_eval (e : expr) : Prop :=
    forall tr tr' out, ev tr e = Some (tr', out) -> tr' = tr /\ exists v, out = Val v.

  Lemma array_value : forall items tr tr' v, ev tr (EArray items) = Some (tr', Val v) -> v = VArr.
  Proof.
    intros items tr tr' v H. rewrite eval_array_eq in H.
    apply lbind_inv in H as [(t1 & vs & _ & Hk)|(x & _ & Ho)]; [inv Hk; reflexivity | discriminate].
  Qed.

  Lemma lstep_inv : forall r acc k tr' res,
    lstep r acc k = Some (tr', res) ->
    (exists t1 v, r = Some (t1, Val v) /\ k t1 (acc ++ [v]) = Some (tr', res)) \/
    (exists x, r = Some (tr', Throw x) /\ res = LThrow x).
  Proof.
    intros r acc k tr' res H. unfold lstep in H. destruct r as [[t1 [v|x]]|]; try discriminate.
    - left; eauto.
    - right; inv H; eauto.
  Qed.

  (* a list of items each of which is a hole, a purely evaluating expression or
     a spread of a purely evaluating array literal *)
  Definition item_ok (x : expr) : Prop :=
    match x with
    | EMissing => True
    | ESpread (EArray inner) => pure_eval (EArray inner)
    | ESpread _ => False
    | _ => pure_eval x
    end.

  Lemma items_pure : forall l tr acc tr' res,
    (forall x, In x l -> item_ok x) ->
    eval_items_with W ev tr l acc = Some (tr', res) -> tr' = tr /\ exists vs, res = LVals vs.
  Proof.
    induction l as [|x r IH]; intros tr acc tr' res Hall H; cbn [eval_items_with] in H.
    - inv H. eauto.
    - assert (Hx : item_ok x) by (apply Hall; left; reflexivity).
      assert (Hr : forall y, In y r -> item_ok y) by (intros; apply Hall; right; assumption).
      destruct x; cbn [item_ok] in Hx;
        try (apply lstep_inv in H as [(t1 & v & Hv & Hk)|(z & Hz & _)];
             [ destruct (Hx _ _ _ Hv) as [-> _]; eapply IH; eauto
             | destruct (Hx _ _ _ Hz) as [_ [v Hv]]; discriminate ]).
      + (* EMissing *) eapply IH; eauto.
      + (* ESpread *)
        destruct x; try contradiction.
        apply lstep_inv in H as [(t1 & v & Hv & Hk)|(z & Hz & _)].
        * apply bind_inv in Hv as [(t2 & xv & Hxv & He)|(z & Hz & Ho)]; [|discriminate].
          destruct (Hx _ _ _ Hxv) as [-> _]. apply array_value in Hxv. subst xv.
          apply eff_inv in He as (t3 & E & ->).
          destruct (ok_spread_arr W Wok (length tr)) as [rr Hrr]. rewrite Hrr in E. inv E.
          rewrite app_nil_r in Hk. eapply IH; eauto.
        * apply bind_inv in Hz as [(t2 & xv & Hxv & He)|(z0 & Hz0 & Ho)].
          -- destruct (Hx _ _ _ Hxv) as [-> _]. apply array_value in Hxv. subst xv.
             apply eff_inv in He as (t3 & E & _).
             destruct (ok_spread_arr W Wok (length tr)) as [rr Hrr]. rewrite Hrr in E. discriminate.
          -- destruct (Hx _ _ _ Hz0) as [_ [v Hv]]. discriminate.
  Qed.

  (* a primitive literal evaluates purely to a primitive *)
  Lemma prim_lit_eval : forall e tr tr' out,
    is_primitive_literal e = true -> ev tr e = Some (tr', out) -> tr' = tr /\ exists v, out = Val v /\ is_prim v = true.
  Proof.
    induction e; intros tr tr' out Hp H; cbn [is_primitive_literal] in Hp; try discriminate; cbn [eval] in H;
      try (inv H; split; [reflexivity|]; eexists; split; reflexivity).
    - destruct (big_value s); inv H. split; [reflexivity|]. eexists; split; reflexivity.
    - eauto.
    - eauto.
  Qed.

  (* ---- guarded references to undeclared globals --------------------------------- *)
  Lemma typeof_lt_u : forall v, spec_string_lt (typeof_value v) str_u = negb (zlist_eqb (typeof_value v) s_undefined).
  Proof. destruct v; vm_compute; reflexivity. Qed.
  Lemma typeof_gt_u : forall v, spec_string_lt str_u (typeof_value v) = zlist_eqb (typeof_value v) s_undefined.
  Proof. destruct v; vm_compute; reflexivity. Qed.
  Lemma undefined_lt_u : spec_string_lt s_undefined str_u = false /\ spec_string_lt str_u s_undefined = true.
  Proof. split; vm_compute; reflexivity. Qed.

  (* the string typeof yields for an unbound identifier *)
  Definition typeof_ref (ref : Z) : list Z :=
    match w_genv W ref with Some x => typeof_value x | None => s_undefined end.

  Lemma typeof_ref_exists : forall ref, zlist_eqb (typeof_ref ref) s_undefined = false -> w_genv W ref <> None.
  Proof. intros ref H E. unfold typeof_ref in H. rewrite E in H. vm_compute in H. discriminate. Qed.

  Lemma zlist_eqb_sym : forall a b, zlist_eqb a b = zlist_eqb b a.
  Proof.
    intros a b. destruct (zlist_eqb a b) eqn:E.
    - apply zlist_eqb_eq in E. subst. symmetry. apply zlist_eqb_eq. reflexivity.
    - destruct (zlist_eqb b a) eqn:E2; [|reflexivity]. apply zlist_eqb_eq in E2. subst.
      assert (zlist_eqb a a = true) by (apply zlist_eqb_eq; reflexivity). congruence.
  Qed.

  Lemma as_str_some : forall e s, as_str e = Some s -> e = EStr s.
  Proof. destruct e; cbn; intros; congruence. Qed.
  Lemma as_id_some : forall e r, as_id e = Some r -> exists c m, e = EId r c m.
  Proof. destruct e; cbn; intros r0 H; try discriminate. inv H. eauto. Qed.
  Lemma as_typeof_some : forall e tv, as_typeof_marked e = Some tv -> e = EUn UTypeof tv true.
  Proof.
    destruct e; cbn; intros tv H; try discriminate.
    destruct op; try discriminate. destruct wasTypeofId; inv H. reflexivity.
  Qed.

  (* typeof of an undeclared identifier that does not exist *)
  Lemma typeof_missing : forall ref c m t, ub ref = true -> w_genv W ref = None ->
    ev t (EUn UTypeof (EId ref c m) true) = Some (t, Val (VStr s_undefined)).
  Proof. intros. cbn [eval]. rewrite H, H0. reflexivity. Qed.

  Lemma sefree_sound : forall value guard isYes tr tr1 x,
    is_sefree_unbound_ref ub value guard isYes = true ->
    ev tr guard = Some (tr1, Val x) -> truthy x = isYes ->
    forall tr2, exists v, ev tr2 value = Some (tr2, Val v).
  Proof.
    intros value guard isYes tr tr1 x Hs Hg Ht tr2.
    unfold is_sefree_unbound_ref in Hs.
    destruct (as_id value) as [ref|] eqn:Hid; [|discriminate].
    apply as_id_some in Hid as (c & m & ->).
    destruct (ub ref) eqn:Hub; [|discriminate].
    cbn [eval]. rewrite Hub.
    destruct (w_genv W ref) eqn:Hgv; [eauto|exfalso].
    destruct guard; try discriminate.
    (* the guard is  gl op gr; find the typeof side and the string side *)
    destruct op; try discriminate.
    all: cbn [eval is_sem_binop] in Hg.
    all: destruct (as_str guard1) as [s1|] eqn:Hs1;
         [ apply as_str_some in Hs1; subst guard1;
           destruct (as_typeof_marked guard2) as [tv|] eqn:Hty; [|discriminate Hs];
           apply as_typeof_some in Hty; subst guard2; cbn [as_str] in Hs
         | destruct (as_typeof_marked guard1) as [tv|] eqn:Hty; [|discriminate Hs];
           apply as_typeof_some in Hty; subst guard1;
           destruct (as_str guard2) as [s2|] eqn:Hs2; [|discriminate Hs];
           apply as_str_some in Hs2; subst guard2 ].
    all: match type of Hs with context [if ?c then _ else _] => destruct c eqn:Hc; [|discriminate Hs] end.
    all: destruct (as_id tv) as [r2|] eqn:Hid2; [|discriminate Hs];
         apply as_id_some in Hid2 as (c2 & m2 & ->); apply Z.eqb_eq in Hs; subst r2.
    all: cbn [eval bind] in Hg; rewrite ?Hub, ?Hgv in Hg; cbn [bind] in Hg;
         unfold neg_outcome, apply_bin, eff in Hg;
         rewrite ?(ok_looseeq_str W Wok), ?(ok_lt_str W Wok), ?(ok_gt_str W Wok), ?(ok_le_str W Wok), ?(ok_ge_str W Wok) in Hg;
         cbn [strict_eq bind] in Hg; inv Hg; cbn [truthy is_ne_op is_lt_le_op] in Hc.
    (* equality guards: text compared with "undefined" *)
    all: try (rewrite ?(zlist_eqb_sym s_undefined) in Hc; change s_undefined with str_undefined in Hc;
              match type of Hc with context [zlist_eqb ?t str_undefined] => destruct (zlist_eqb t str_undefined) end;
              discriminate Hc).
    (* relational guards: text is "u" *)
    all: apply andb_true_iff in Hc as [Hu Hc]; apply zlist_eqb_eq in Hu; subst;
         vm_compute in Hc; discriminate Hc.
  Qed.


  (* two operands that evaluate purely, then a final step *)
  Lemma two_operands : forall e1 e2 tr tr' out (k : trace -> value -> value -> option (trace * outcome)),
    pure_eval e1 -> pure_eval e2 ->
    bind (ev tr e1) (fun tr1 x => bind (ev tr1 e2) (fun tr2 y => k tr2 x y)) = Some (tr', out) ->
    exists x y, ev tr e1 = Some (tr, Val x) /\ ev tr e2 = Some (tr, Val y) /\ k tr x y = Some (tr', out).
  Proof.
    intros e1 e2 tr tr' out k H1 H2 H.
    apply bind_inv in H as [(t1 & x & Hx & Hk)|(x & Hx & Ho)]; [|destruct (H1 _ _ _ Hx) as [_ [v Hv]]; discriminate].
    destruct (H1 _ _ _ Hx) as [-> _].
    apply bind_inv in Hk as [(t2 & y & Hy & Hk2)|(y & Hy & Ho)]; [|destruct (H2 _ _ _ Hy) as [_ [v Hv]]; discriminate].
    destruct (H2 _ _ _ Hy) as [-> _]. eauto 6.
  Qed.

  Lemma parts_pure : forall l tr acc tr' out,
    (forall v t, In (v, t) l -> pure_eval v /\ ptype_eqb (known_type v) PUnknown = false) ->
    eval_parts_with W ev tr l acc = Some (tr', out) -> tr' = tr /\ exists v, out = Val v.
  Proof.
    induction l as [|[p tail] r IH]; intros tr acc tr' out Hall H; cbn [eval_parts_with] in H.
    - inv H. eauto.
    - destruct (Hall p tail (or_introl eq_refl)) as [Hp Hk].
      apply bind_inv in H as [(t1 & x & Hx & H)|(x & Hx & Ho)]; [|destruct (Hp _ _ _ Hx) as [_ [v Hv]]; discriminate].
      destruct (Hp _ _ _ Hx) as [-> _].
      destruct (known_prim W Wok _ _ _ _ Hx Hk) as [Hpr Hns].
      destruct (ok_tostr_prim W Wok x (length tr) Hpr Hns) as [sv Hsv].
      unfold eff in H. rewrite Hsv in H. cbn [bind] in H. rewrite app_nil_r in H.
      eapply IH; [|exact H]. intros v0 t0 Hin; apply (Hall v0 t0); right; assumption.
  Qed.

  Lemma props_pure : forall l tr tr' out,
    (forall kind computed key value, In (kind, computed, key, value) l ->
       (kind =? 1) = false /\ pure_eval value /\
       (computed = true -> forall t t' o, ev t key = Some (t', o) -> t' = t /\ exists kv, o = Val kv /\ is_prim kv = true)) ->
    eval_props_with W ev tr l = Some (tr', out) -> tr' = tr /\ exists v, out = Val v.
  Proof.
    induction l as [|[[[kind computed] key] value] r IH]; intros tr tr' out Hall H; cbn [eval_props_with] in H.
    - inv H. eauto.
    - destruct (Hall kind computed key value (or_introl eq_refl)) as [Hk [Hv Hkey]].
      assert (Hr : forall kind computed key value, In (kind, computed, key, value) r ->
                (kind =? 1) = false /\ pure_eval value /\
                (computed = true -> forall t t' o, ev t key = Some (t', o) -> t' = t /\ exists kv, o = Val kv /\ is_prim kv = true))
        by (intros k1 c1 key1 v1 Hin1; apply (Hall k1 c1 key1 v1); right; assumption).
      rewrite Hk in H. destruct computed.
      + apply bind_inv in H as [(t0 & kv & Hkv & H)|(x & Hx & Ho)];
          [|destruct (Hkey eq_refl _ _ _ Hx) as [_ [kv [Hkv _]]]; discriminate].
        destruct (Hkey eq_refl _ _ _ Hkv) as [-> [kv' [E Hpr]]]. inv E.
        destruct (ok_tokey_prim W Wok kv' (length tr) Hpr) as [k2 Hk2].
        unfold eff in H. rewrite Hk2 in H. cbn [bind] in H. rewrite app_nil_r in H.
        apply bind_inv in H as [(t1 & x & Hx & H)|(x & Hx & Ho)]; [|destruct (Hv _ _ _ Hx) as [_ [v Hvv]]; discriminate].
        destruct (Hv _ _ _ Hx) as [-> _]. eapply IH; eauto.
      + apply bind_inv in H as [(t1 & x & Hx & H)|(x & Hx & Ho)]; [|destruct (Hv _ _ _ Hx) as [_ [v Hvv]]; discriminate].
        destruct (Hv _ _ _ Hx) as [-> _]. eapply IH; eauto.
  Qed.

  Lemma in_sum_parts : forall l v t, In (v, t) l -> (esize v <= sum_parts l)%nat.
  Proof.
    induction l as [|[p q] l IH]; intros v t H; [destruct H|].
    destruct H as [E|H]; cbn [sum_parts]; [inv E; lia | apply IH in H; lia].
  Qed.

  Lemma in_sum_props : forall l a b k v, In (a, b, k, v) l -> (esize k + esize v <= sum_props l)%nat.
  Proof.
    induction l as [|[[[a0 b0] k0] v0] l IH]; intros a b k v H; [destruct H|].
    destruct H as [E|H]; cbn [sum_props]; [inv E; lia | apply IH in H; lia].
  Qed.

  Lemma plain_implies_array : forall inner,
    (forall x, In x inner -> can_be_removed ub x = true) -> can_be_removed ub (EArray inner) = true.
  Proof.
    induction inner as [|x r IH]; intros H; [reflexivity|].
    assert (Hx : can_be_removed ub x = true) by (apply H; left; reflexivity).
    assert (Hr : can_be_removed ub (EArray r) = true) by (apply IH; intros; apply H; right; assumption).
    cbn [can_be_removed] in Hr |- *. rewrite Hr. rewrite andb_true_r.
    destruct x; try exact Hx. discriminate Hx.
  Qed.

  (* can_be_removed is monotone under the plain test used for inner arrays *)
  Lemma inner_plain_array : forall inner,
    (fix go2 (l2 : list expr) : bool :=
       match l2 with [] => true | x2 :: r2 => can_be_removed ub x2 && go2 r2 end) inner = true ->
    forall x, In x inner -> can_be_removed ub x = true.
  Proof.
    induction inner as [|y r IH]; intros H x Hin; [destruct Hin|].
    apply andb_true_iff in H as [H1 H2]. destruct Hin as [->|Hin]; [assumption | eauto].
  Qed.

  Lemma all_args : forall l,
    (fix all (l : list expr) : bool := match l with [] => true | x :: r => can_be_removed ub x && all r end) l = true ->
    forall x, In x l -> can_be_removed ub x = true.
  Proof.
    induction l as [|y r IH]; intros H x Hin; [destruct Hin|].
    apply andb_true_iff in H as [H1 H2]. destruct Hin as [->|Hin]; [assumption | eauto].
  Qed.

  Lemma flags_all : forall l,
    (fix all (l : list expr) : Prop := match l with [] => True | x :: r => flags_ok W x /\ all r end) l ->
    forall x, In x l -> flags_ok W x.
  Proof.
    induction l as [|y r IH]; intros H x Hin; [destruct Hin|].
    destruct H as [H1 H2]. destruct Hin as [->|Hin]; [assumption | eauto].
  Qed.

  Lemma removable_not_spread : forall v, can_be_removed ub (ESpread v) = false.
  Proof. reflexivity. Qed.

  Theorem can_be_removed_sound_size : forall n e, (esize e <= n)%nat ->
    flags_ok W e -> can_be_removed ub e = true -> pure_eval e.
  Proof.
    induction n as [|n IH]; intros e Hsz Hfl Hc; [destruct e; cbn [esize] in Hsz; lia|].
    assert (IHc : forall c, (esize c <= n)%nat -> flags_ok W c -> can_be_removed ub c = true -> pure_eval c) by exact IH.
    intros tr tr' out Hev.
    destruct e; cbn [can_be_removed] in Hc; try discriminate.
    - (* ENull *) cbn in Hev. inv Hev. eauto.
    - cbn in Hev. inv Hev. eauto.
    - (* EThis *) cbn in Hev. inv Hev. eauto.
    - cbn in Hev. inv Hev. eauto.
    - cbn in Hev. inv Hev. eauto.
    - (* EBig *) cbn [eval] in Hev. destruct (big_value s); inv Hev. eauto.
    - cbn in Hev. inv Hev. eauto.
    - cbn in Hev. inv Hev. eauto.
    - cbn in Hev. inv Hev. eauto.
    - cbn in Hev. inv Hev. eauto.
    - (* EId *)
      cbn [flags_ok] in Hfl. cbn [eval] in Hev.
      destruct mustkeep; [discriminate|].
      destruct (ub ref) eqn:Hub.
      + destruct removable; [|discriminate].
        destruct (w_genv W ref) eqn:Hg; [inv Hev; eauto | exfalso; apply (Hfl eq_refl eq_refl); reflexivity].
      + inv Hev. eauto.
    - (* EDot *)
      subst removable. cbn [flags_ok] in Hfl. destruct Hfl as [Hp _].
      destruct (Hp eq_refl tr) as [v Hv]. rewrite Hv in Hev. inv Hev. eauto.
    - (* ECall *)
      destruct pure; [|discriminate].
      rewrite esize_call in Hsz. cbn [flags_ok] in Hfl. destruct Hfl as [Hpc [Hft Hfa]].
      rewrite eval_call_eq in Hev.
      destruct (Hpc eq_refl tr) as [fv [Hfv Hcall]]. rewrite Hfv in Hev.
      unfold call_step in Hev. cbn [bind] in Hev. unfold short_if in Hev.
      destruct ((oc =? 1) && nullish fv); [cbn [catch_short] in Hev; inv Hev; eauto|].
      assert (Hitems : forall x, In x args -> item_ok x).
      { intros x Hin. pose proof (all_args _ Hc x Hin) as Hcx. pose proof (flags_all _ Hfa x Hin) as Hfx.
        pose proof (in_sum_sizes _ _ Hin) as Hs.
        assert (Hp : pure_eval x) by (apply IHc; [lia|assumption|assumption]).
        destruct x; cbn [item_ok]; try exact Hp; try exact I. discriminate Hcx. }
      destruct (eval_items_with W ev tr args []) as [[t1 [vs|x]]|] eqn:Hl; cbn [lbind catch_short] in Hev; try discriminate.
      + apply items_pure in Hl as [-> _]; [|assumption].
        unfold eff in Hev. destruct (Hcall vs (length tr)) as [r Hr]. rewrite Hr in Hev. cbn [catch_short] in Hev. inv Hev.
        rewrite app_nil_r. eauto.
      + apply items_pure in Hl as [_ [vs Hvs]]; [discriminate|assumption].
    - (* ENew *)
      destruct pure; [|discriminate].
      rewrite esize_new in Hsz. cbn [flags_ok] in Hfl. destruct Hfl as [Hpc [Hft Hfa]].
      rewrite eval_new_eq in Hev.
      destruct (Hpc eq_refl tr) as [fv [Hfv Hcall]]. change (eval_target W 0 tr e) with (ev tr e) in Hfv. rewrite Hfv in Hev. cbn [bind] in Hev.
      apply lbind_inv in Hev as [(t1 & vs & Hl & Hk)|(x & Hl & Ho)].
      + apply items_pure in Hl as [-> _].
        * apply eff_inv in Hk as (t2 & E & ->). destruct (Hcall vs (length tr)) as [r Hr]. rewrite Hr in E. inv E.
          rewrite app_nil_r. eauto.
        * intros x Hin. pose proof (all_args _ Hc x Hin) as Hcx. pose proof (flags_all _ Hfa x Hin) as Hfx.
          pose proof (in_sum_sizes _ _ Hin) as Hs.
          assert (Hp : pure_eval x) by (apply IHc; [lia|assumption|assumption]).
          destruct x; cbn [item_ok]; try exact Hp; try exact I. discriminate Hcx.
      + apply items_pure in Hl as [_ [vs Hvs]]; [discriminate|].
        intros y Hin. pose proof (all_args _ Hc y Hin) as Hcx. pose proof (flags_all _ Hfa y Hin) as Hfx.
        pose proof (in_sum_sizes _ _ Hin) as Hs.
        assert (Hp : pure_eval y) by (apply IHc; [lia|assumption|assumption]).
        destruct y; cbn [item_ok]; try exact Hp; try exact I. discriminate Hcx.
    - (* EUn *)
      cbn [esize] in Hsz. cbn [flags_ok] in Hfl. destruct Hfl as [Hty Hfv].
      destruct op; try discriminate; cbn [eval] in Hev.
      + (* UNeg bigint *)
        destruct e; try discriminate. cbn [eval] in Hev. destruct (big_value s); [|discriminate]. cbn [bind] in Hev.
        apply eff_inv in Hev as (t2 & E & ->). destruct (ok_neg_big W Wok z (length tr)) as [r Hr]. rewrite Hr in E. inv E.
        rewrite app_nil_r. eauto.
      + (* UNot *)
        apply bind_inv in Hev as [(t1 & x & Hx & Hk)|(x & Hx & Ho)].
        * destruct (IHc e ltac:(lia) Hfv Hc _ _ _ Hx) as [-> _]. inv Hk. eauto.
        * destruct (IHc e ltac:(lia) Hfv Hc _ _ _ Hx) as [_ [v Hv]]. discriminate.
      + (* UVoid *)
        apply bind_inv in Hev as [(t1 & x & Hx & Hk)|(x & Hx & Ho)].
        * destruct (IHc e ltac:(lia) Hfv Hc _ _ _ Hx) as [-> _]. inv Hk. eauto.
        * destruct (IHc e ltac:(lia) Hfv Hc _ _ _ Hx) as [_ [v Hv]]. discriminate.
      + (* UTypeof *)
        destruct e; cbn [can_be_removed] in Hc;
          try (apply bind_inv in Hev as [(t1 & x & Hx & Hk)|(x & Hx & Ho)];
               [ match type of Hx with ev _ ?c = _ =>
                   destruct (IHc c ltac:(cbn [esize] in *; lia) Hfv Hc _ _ _ Hx) as [-> _] end; inv Hk; eauto
               | match type of Hx with ev _ ?c = _ =>
                   destruct (IHc c ltac:(cbn [esize] in *; lia) Hfv Hc _ _ _ Hx) as [_ [v Hv]] end; discriminate ]).
        destruct wasTypeofId.
        * match type of Hev with context [w_unbound W ?r] => destruct (w_unbound W r); [destruct (w_genv W r)|] end; inv Hev; eauto.
        * apply bind_inv in Hev as [(t1 & x & Hx & Hk)|(x & Hx & Ho)];
            [ match type of Hx with ev _ ?c = _ =>
                destruct (IHc c ltac:(cbn [esize] in *; lia) Hfv Hc _ _ _ Hx) as [-> _] end; inv Hk; eauto
            | match type of Hx with ev _ ?c = _ =>
                destruct (IHc c ltac:(cbn [esize] in *; lia) Hfv Hc _ _ _ Hx) as [_ [v Hv]] end; discriminate ].
    - (* EBin *)
      cbn [esize] in Hsz. cbn [flags_ok] in Hfl. destruct Hfl as [Hf1 Hf2].
      assert (Hsz1 : (esize e1 <= n)%nat) by lia. assert (Hsz2 : (esize e2 <= n)%nat) by lia.
      destruct op; try discriminate; cbn [eval is_sem_binop] in Hev.
      + (* BLt *)
        destruct (known_type e1) eqn:K1; try discriminate;
          (apply andb_true_iff in Hc as [Hc Hc2]; apply andb_true_iff in Hc as [K2 Hc1];
           apply internal_ptype_dec_bl in K2;
           apply two_operands in Hev as (x & y & Hx & Hy & Hk); [|apply IHc; assumption|apply IHc; assumption];
           assert (Hpx : is_prim x = true /\ is_sym x = false) by (eapply (known_prim W Wok); [exact Hx | rewrite K1; reflexivity]);
           assert (Hpy : is_prim y = true /\ is_sym y = false) by (eapply (known_prim W Wok); [exact Hy | rewrite K2; reflexivity]);
           destruct Hpx as [Hpx Hsx]; destruct Hpy as [Hpy Hsy];
           match type of Hk with apply_bin _ ?op _ _ _ = _ =>
             destruct (ok_rel_prim W Wok op x y (length tr) eq_refl Hpx Hpy Hsx Hsy) as [r Hr] end;
           unfold apply_bin, eff in Hk; rewrite Hr in Hk; inv Hk; rewrite app_nil_r; eauto).
      + (* BLe *)
        destruct (known_type e1) eqn:K1; try discriminate;
          (apply andb_true_iff in Hc as [Hc Hc2]; apply andb_true_iff in Hc as [K2 Hc1];
           apply internal_ptype_dec_bl in K2;
           apply two_operands in Hev as (x & y & Hx & Hy & Hk); [|apply IHc; assumption|apply IHc; assumption];
           assert (Hpx : is_prim x = true /\ is_sym x = false) by (eapply (known_prim W Wok); [exact Hx | rewrite K1; reflexivity]);
           assert (Hpy : is_prim y = true /\ is_sym y = false) by (eapply (known_prim W Wok); [exact Hy | rewrite K2; reflexivity]);
           destruct Hpx as [Hpx Hsx]; destruct Hpy as [Hpy Hsy];
           match type of Hk with apply_bin _ ?op _ _ _ = _ =>
             destruct (ok_rel_prim W Wok op x y (length tr) eq_refl Hpx Hpy Hsx Hsy) as [r Hr] end;
           unfold apply_bin, eff in Hk; rewrite Hr in Hk; inv Hk; rewrite app_nil_r; eauto).
      + (* BGt *)
        destruct (known_type e1) eqn:K1; try discriminate;
          (apply andb_true_iff in Hc as [Hc Hc2]; apply andb_true_iff in Hc as [K2 Hc1];
           apply internal_ptype_dec_bl in K2;
           apply two_operands in Hev as (x & y & Hx & Hy & Hk); [|apply IHc; assumption|apply IHc; assumption];
           assert (Hpx : is_prim x = true /\ is_sym x = false) by (eapply (known_prim W Wok); [exact Hx | rewrite K1; reflexivity]);
           assert (Hpy : is_prim y = true /\ is_sym y = false) by (eapply (known_prim W Wok); [exact Hy | rewrite K2; reflexivity]);
           destruct Hpx as [Hpx Hsx]; destruct Hpy as [Hpy Hsy];
           match type of Hk with apply_bin _ ?op _ _ _ = _ =>
             destruct (ok_rel_prim W Wok op x y (length tr) eq_refl Hpx Hpy Hsx Hsy) as [r Hr] end;
           unfold apply_bin, eff in Hk; rewrite Hr in Hk; inv Hk; rewrite app_nil_r; eauto).
      + (* BGe *)
        destruct (known_type e1) eqn:K1; try discriminate;
          (apply andb_true_iff in Hc as [Hc Hc2]; apply andb_true_iff in Hc as [K2 Hc1];
           apply internal_ptype_dec_bl in K2;
           apply two_operands in Hev as (x & y & Hx & Hy & Hk); [|apply IHc; assumption|apply IHc; assumption];
           assert (Hpx : is_prim x = true /\ is_sym x = false) by (eapply (known_prim W Wok); [exact Hx | rewrite K1; reflexivity]);
           assert (Hpy : is_prim y = true /\ is_sym y = false) by (eapply (known_prim W Wok); [exact Hy | rewrite K2; reflexivity]);
           destruct Hpx as [Hpx Hsx]; destruct Hpy as [Hpy Hsy];
           match type of Hk with apply_bin _ ?op _ _ _ = _ =>
             destruct (ok_rel_prim W Wok op x y (length tr) eq_refl Hpx Hpy Hsx Hsy) as [r Hr] end;
           unfold apply_bin, eff in Hk; rewrite Hr in Hk; inv Hk; rewrite app_nil_r; eauto).
      + (* BLooseEq *)
        apply andb_true_iff in Hc as [Hc Hc2]. apply andb_true_iff in Hc as [Hcs Hc1].
        unfold can_change_strict_to_loose in Hcs.
        apply andb_true_iff in Hcs as [Hcs Hnm]. apply andb_true_iff in Hcs as [Hsame Hnu].
        apply internal_ptype_dec_bl in Hsame. apply negb_true_iff in Hnu.
        apply two_operands in Hev as (x & y & Hx & Hy & Hk); [|apply IHc; assumption|apply IHc; assumption].
        destruct (known_prim W Wok _ _ _ _ Hx Hnu) as [Hpx _].
        assert (Hnu2 : ptype_eqb (known_type e2) PUnknown = false) by (rewrite <- Hsame; exact Hnu).
        destruct (known_prim W Wok _ _ _ _ Hy Hnu2) as [Hpy _].
        destruct (ok_looseeq_prim W Wok x y (length tr) Hpx Hpy) as [r Hr].
        unfold apply_bin, eff in Hk. rewrite Hr in Hk. inv Hk. rewrite app_nil_r. eauto.
      + (* BLooseNe *)
        apply andb_true_iff in Hc as [Hc Hc2]. apply andb_true_iff in Hc as [Hcs Hc1].
        unfold can_change_strict_to_loose in Hcs.
        apply andb_true_iff in Hcs as [Hcs Hnm]. apply andb_true_iff in Hcs as [Hsame Hnu].
        apply internal_ptype_dec_bl in Hsame. apply negb_true_iff in Hnu.
        unfold neg_outcome in Hev.
        destruct (bind (ev tr e1) _) as [[t0 [w|w]]|] eqn:Hb; try discriminate.
        * apply two_operands in Hb as (x & y & Hx & Hy & Hk); [|apply IHc; assumption|apply IHc; assumption].
          destruct (known_prim W Wok _ _ _ _ Hx Hnu) as [Hpx _].
          assert (Hnu2 : ptype_eqb (known_type e2) PUnknown = false) by (rewrite <- Hsame; exact Hnu).
          destruct (known_prim W Wok _ _ _ _ Hy Hnu2) as [Hpy _].
          destruct (ok_looseeq_prim W Wok x y (length tr) Hpx Hpy) as [r Hr].
          unfold apply_bin, eff in Hk. rewrite Hr in Hk. inv Hk. rewrite app_nil_r in Hev. inv Hev. eauto.
        * apply two_operands in Hb as (x & y & Hx & Hy & Hk); [|apply IHc; assumption|apply IHc; assumption].
          destruct (known_prim W Wok _ _ _ _ Hx Hnu) as [Hpx _].
          assert (Hnu2 : ptype_eqb (known_type e2) PUnknown = false) by (rewrite <- Hsame; exact Hnu).
          destruct (known_prim W Wok _ _ _ _ Hy Hnu2) as [Hpy _].
          destruct (ok_looseeq_prim W Wok x y (length tr) Hpx Hpy) as [r Hr].
          unfold apply_bin, eff in Hk. rewrite Hr in Hk. discriminate.
      + (* BStrictEq *)
        apply andb_true_iff in Hc as [Hc1 Hc2].
        apply bind_inv in Hev as [(t1 & x & Hx & Hk)|(x & Hx & Ho)];
          [|destruct (IHc e1 Hsz1 Hf1 Hc1 _ _ _ Hx) as [_ [v Hv]]; discriminate].
        destruct (IHc e1 Hsz1 Hf1 Hc1 _ _ _ Hx) as [-> _].
        apply bind_inv in Hk as [(t2 & y & Hy & Hk2)|(y & Hy & Ho)];
          [|destruct (IHc e2 Hsz2 Hf2 Hc2 _ _ _ Hy) as [_ [v Hv]]; discriminate].
        destruct (IHc e2 Hsz2 Hf2 Hc2 _ _ _ Hy) as [-> _].
        destruct (strict_eq x y); inv Hk2. eauto.
      + (* BStrictNe *)
        apply andb_true_iff in Hc as [Hc1 Hc2].
        apply bind_inv in Hev as [(t1 & x & Hx & Hk)|(x & Hx & Ho)];
          [|destruct (IHc e1 Hsz1 Hf1 Hc1 _ _ _ Hx) as [_ [v Hv]]; discriminate].
        destruct (IHc e1 Hsz1 Hf1 Hc1 _ _ _ Hx) as [-> _].
        apply bind_inv in Hk as [(t2 & y & Hy & Hk2)|(y & Hy & Ho)];
          [|destruct (IHc e2 Hsz2 Hf2 Hc2 _ _ _ Hy) as [_ [v Hv]]; discriminate].
        destruct (IHc e2 Hsz2 Hf2 Hc2 _ _ _ Hy) as [-> _].
        destruct (strict_eq x y); inv Hk2. eauto.
      + (* BNullish *)
        apply andb_true_iff in Hc as [Hc1 Hc2].
        apply bind_inv in Hev as [(t1 & x & Hx & Hk)|(x & Hx & Ho)];
          [|destruct (IHc e1 Hsz1 Hf1 Hc1 _ _ _ Hx) as [_ [v Hv]]; discriminate].
        destruct (IHc e1 Hsz1 Hf1 Hc1 _ _ _ Hx) as [-> _].
        destruct (nullish x); [exact (IHc e2 Hsz2 Hf2 Hc2 _ _ _ Hk) | inv Hk; eauto].
      + (* BLogOr *)
        apply andb_true_iff in Hc as [Hc1 Hc2].
        apply bind_inv in Hev as [(t1 & x & Hx & Hk)|(x & Hx & Ho)];
          [|destruct (IHc e1 Hsz1 Hf1 Hc1 _ _ _ Hx) as [_ [v Hv]]; discriminate].
        destruct (IHc e1 Hsz1 Hf1 Hc1 _ _ _ Hx) as [-> _].
        destruct (truthy x) eqn:Htx; [inv Hk; eauto|].
        apply orb_true_iff in Hc2 as [Hs|Hc2]; [|exact (IHc e2 Hsz2 Hf2 Hc2 _ _ _ Hk)].
        destruct (sefree_sound _ _ _ _ _ _ Hs Hx Htx tr) as [v Hv]. rewrite Hv in Hk. inv Hk. eauto.
      + (* BLogAnd *)
        apply andb_true_iff in Hc as [Hc1 Hc2].
        apply bind_inv in Hev as [(t1 & x & Hx & Hk)|(x & Hx & Ho)];
          [|destruct (IHc e1 Hsz1 Hf1 Hc1 _ _ _ Hx) as [_ [v Hv]]; discriminate].
        destruct (IHc e1 Hsz1 Hf1 Hc1 _ _ _ Hx) as [-> _].
        destruct (truthy x) eqn:Htx; [|inv Hk; eauto].
        apply orb_true_iff in Hc2 as [Hs|Hc2]; [|exact (IHc e2 Hsz2 Hf2 Hc2 _ _ _ Hk)].
        destruct (sefree_sound _ _ _ _ _ _ Hs Hx Htx tr) as [v Hv]. rewrite Hv in Hk. inv Hk. eauto.
      + (* BComma *)
        apply andb_true_iff in Hc as [Hc1 Hc2].
        apply bind_inv in Hev as [(t1 & x & Hx & Hk)|(x & Hx & Ho)];
          [|destruct (IHc e1 Hsz1 Hf1 Hc1 _ _ _ Hx) as [_ [v Hv]]; discriminate].
        destruct (IHc e1 Hsz1 Hf1 Hc1 _ _ _ Hx) as [-> _].
        exact (IHc e2 Hsz2 Hf2 Hc2 _ _ _ Hk).
    - (* EIf *)
      cbn [esize] in Hsz. cbn [flags_ok] in Hfl. destruct Hfl as [Hf1 [Hf2 Hf3]].
      apply andb_true_iff in Hc as [Hc1 Hc]. apply andb_true_iff in Hc as [Hc2 Hc3].
      cbn [eval] in Hev.
      apply bind_inv in Hev as [(t1 & x & Hx & Hk)|(x & Hx & Ho)];
        [|destruct (IHc e1 ltac:(lia) Hf1 Hc1 _ _ _ Hx) as [_ [v Hv]]; discriminate].
      destruct (IHc e1 ltac:(lia) Hf1 Hc1 _ _ _ Hx) as [-> _].
      destruct (truthy x) eqn:Htx.
      + apply orb_true_iff in Hc2 as [Hs|Hc2]; [|exact (IHc e2 ltac:(lia) Hf2 Hc2 _ _ _ Hk)].
        destruct (sefree_sound _ _ _ _ _ _ Hs Hx Htx tr) as [v Hv]. rewrite Hv in Hk. inv Hk. eauto.
      + apply orb_true_iff in Hc3 as [Hs|Hc3]; [|exact (IHc e3 ltac:(lia) Hf3 Hc3 _ _ _ Hk)].
        destruct (sefree_sound _ _ _ _ _ _ Hs Hx Htx tr) as [v Hv]. rewrite Hv in Hk. inv Hk. eauto.
    - (* ETemplate *)
      rewrite esize_template in Hsz. rewrite eval_template_eq in Hev.
      eapply parts_pure; [|exact Hev].
      clear Hev. cbn [flags_ok] in Hfl.
      induction parts as [|[p q] r IHr]; intros v t Hin; [destruct Hin|].
      cbn [sum_parts] in Hsz. destruct Hfl as [Hfp Hfr].
      destruct (negb (can_be_removed ub p) || ptype_eqb (known_type p) PUnknown) eqn:Hp; [discriminate|].
      apply orb_false_iff in Hp as [Hp1 Hp2]. apply negb_false_iff in Hp1.
      destruct Hin as [E|Hin].
      + inv E. split; [apply IHc; [lia|assumption|assumption] | assumption].
      + eapply IHr; [lia|assumption|assumption|eassumption].
    - (* EArray *)
      rewrite esize_array in Hsz. rewrite eval_array_eq in Hev. cbn [flags_ok] in Hfl.
      assert (Hitems : forall x, In x items -> item_ok x).
      { clear Hev. induction items as [|y r IHr]; intros x Hin; [destruct Hin|].
        cbn [sum_sizes] in Hsz. destruct Hfl as [Hfy Hfr].
        apply andb_true_iff in Hc as [Hcy Hcr].
        destruct Hin as [<-|Hin]; [|eapply IHr; [lia|assumption|assumption|eassumption]].
        destruct y; cbn [item_ok]; try exact I; try (apply IHc; [cbn [esize] in *; lia|assumption|assumption]).
        (* ESpread *)
        destruct y; try discriminate Hcy.
        apply IHc; [cbn [esize] in *; lia | exact Hfy |].
        apply plain_implies_array. apply inner_plain_array. exact Hcy. }
      apply lbind_inv in Hev as [(t1 & vs & Hl & Hk)|(x & Hl & Ho)].
      + apply items_pure in Hl as [-> _]; [|assumption]. inv Hk. eauto.
      + apply items_pure in Hl as [_ [vs Hvs]]; [discriminate|assumption].
    - (* EObject *)
      rewrite esize_object in Hsz. rewrite eval_object_eq in Hev. cbn [flags_ok] in Hfl.
      eapply props_pure; [|exact Hev]. clear Hev.
      induction props as [|[[[kind computed] key] value] r IHr]; intros k0 c0 key0 v0 Hin; [destruct Hin|].
      cbn [sum_props] in Hsz. destruct Hfl as [Hfk [Hfv Hfr]].
      destruct (kind =? 1) eqn:Hk1; [discriminate|].
      destruct (computed && negb (is_primitive_literal key) && negb (is_symbol_instance key)) eqn:Hkey; [discriminate|].
      destruct (negb (can_be_removed ub value)) eqn:Hcv; [discriminate|]. apply negb_false_iff in Hcv.
      destruct Hin as [E|Hin]; [|eapply IHr; [lia|assumption|assumption|eassumption]].
      inv E. split; [assumption|]. split; [apply IHc; [lia|assumption|assumption]|].
      intros -> t t' o Hk. cbn [andb] in Hkey.
      destruct (is_primitive_literal key0) eqn:Hpl.
      + destruct (prim_lit_eval _ _ _ _ Hpl Hk) as [-> [kv [-> Hp]]]. eauto.
      + cbn [negb andb] in Hkey. apply negb_false_iff in Hkey.
        destruct key0; try discriminate Hkey. cbn [is_symbol_instance] in Hkey. subst symInst.
        cbn [flags_ok] in Hfk. destruct Hfk as [_ [Hsym _]].
        destruct (Hsym eq_refl t) as [id Hid]. rewrite Hid in Hk. inv Hk. split; [reflexivity|]. eexists; split; reflexivity.
    - (* EAnnot *)
      subst removable. cbn [flags_ok] in Hfl. destruct Hfl as [Hp _]. cbn [eval] in Hev.
      destruct (Hp eq_refl tr) as [v Hv]. rewrite Hv in Hev. inv Hev. eauto.
    - (* EInlinedEnum *)
      cbn [esize] in Hsz. cbn [flags_ok] in Hfl. cbn [eval] in Hev.
      exact (IHc e ltac:(lia) Hfl Hc _ _ _ Hev).
  Qed.

  Theorem can_be_removed_sound_all : forall e tr tr' out,
    flags_ok W e -> can_be_removed ub e = true ->
    ev tr e = Some (tr', out) -> tr' = tr /\ exists v, out = Val v.
  Proof.
    intros e tr tr' out Hf Hc Hev.
    exact (can_be_removed_sound_size (esize e) e (le_n _) Hf Hc tr tr' out Hev).
  Qed.
End CBR.

