(* C03 model, part 3: FoldBinaryOperator on two numeric literals (integer,
   shift, comparison and exponent cases) and the special cases of Go's
   math.Pow (GOROOT/src/math/pow.go, func pow), which FoldBinaryOperator calls
   for BinOpPow.  IEEE + - * / and the finite generic results of math.Pow are
   Go's (trusted, DESIGN section 4); they are exercised by the Node oracle. *)
From V Require Import Common.Base C03.Num C03.Tree.

Inductive fres := FNum (n : num) | FBool (b : bool) | FNone.

(* int32 << k, int32 >> k (arithmetic), uint32 >> k as Go computes them *)
Definition go_shl32 (a k : Z) : Z := wrap32 (a * 2 ^ k).
Definition go_shr32 (a k : Z) : Z := a / 2 ^ k.            (* floor: arithmetic shift *)
Definition go_ushr32 (a k : Z) : Z := a / 2 ^ k.           (* a is a uint32 *)

(* int32 bitwise operations on two's complement = Z.land/lor/lxor on Z *)
Definition fold_num_num (cvt : num -> Z) (op : binop) (l r : num) : fres :=
  let i32 := go_ToInt32 cvt in
  let u32 := go_ToUint32 cvt in
  match op with
  | BShl => FNum (num_of_Z (go_shl32 (i32 l) (Z.land (u32 r) 31)))
  | BShr => FNum (num_of_Z (go_shr32 (i32 l) (Z.land (u32 r) 31)))
  | BUShr => FNum (num_of_Z (go_ushr32 (u32 l) (Z.land (u32 r) 31)))
  | BBitAnd => FNum (num_of_Z (Z.land (i32 l) (i32 r)))
  | BBitOr => FNum (num_of_Z (Z.lor (i32 l) (i32 r)))
  | BBitXor => FNum (num_of_Z (Z.lxor (i32 l) (i32 r)))
  | BLt => FBool (num_lt l r)
  | BGt => FBool (num_gt l r)
  | BLe => FBool (num_le l r)
  | BGe => FBool (num_ge l r)
  | BLooseEq | BStrictEq => FBool (num_eq l r)
  | BLooseNe | BStrictNe => FBool (negb (num_eq l r))
  | _ => FNone
  end.

Definition fold_str_str (op : binop) (l r : list Z) : fres :=
  let d := go_compare_ucs2 l r in
  match op with
  | BLt => FBool (d <? 0)
  | BGt => FBool (0 <? d)
  | BLe => FBool (d <=? 0)
  | BGe => FBool (0 <=? d)
  | BLooseEq | BStrictEq => FBool (d =? 0)
  | BLooseNe | BStrictNe => FBool (negb (d =? 0))
  | _ => FNone
  end.

(* ---- math.Pow special cases (in the order of func pow) ---------------------- *)
Definition one : num := Fin false 1 0.
Definition pzero : num := Fin false 0 0.
Definition num_abs (x : num) : num := match x with Fin _ m e => Fin false m e | Inf _ => Inf false | NaN => NaN end.
Definition num_neg (x : num) : num := match x with Fin s m e => Fin (negb s) m e | Inf s => Inf (negb s) | NaN => NaN end.

(* isOddInt: |x| < 2^53, integral and odd *)
Definition is_odd_int (x : num) : bool :=
  match x with
  | Fin _ m e => num_lt (Fin false m e) (Fin false two53 0) && is_int m e && Z.odd (trunc_abs m e)
  | _ => false
  end.

(* Some r: the result is decided by a special case of math.Pow; None: the generic path *)
Definition go_pow_special (x y : num) : option num :=
  if is_zero y || num_eq x one then Some one
  else if num_eq y one then Some x
  else if is_nan x || is_nan y then Some NaN
  else if is_zero x then
    (if num_lt y pzero then (if signbit x && is_odd_int y then Some (Inf true) else Some (Inf false))
     else if num_gt y pzero then (if signbit x && is_odd_int y then Some x else Some pzero)
     else None)
  else match y with
  | Inf ys =>
      if num_eq x (num_neg one) then Some one
      else if Bool.eqb (num_lt (num_abs x) one) (negb ys) then Some pzero
      else Some (Inf false)
  | _ =>
    match x with
    | Inf true =>
        (* Pow(1/x, -y) = Pow(-0, -y) *)
        let y' := num_neg y in
        if num_lt y' pzero then (if is_odd_int y' then Some (Inf true) else Some (Inf false))
        else if num_gt y' pzero then (if is_odd_int y' then Some (Fin true 0 0) else Some pzero)
        else None
    | Inf false => if num_lt y pzero then Some pzero else if num_gt y pzero then Some (Inf false) else None
    | _ =>
        (* finite x < 0 and non-integer y: NaN *)
        match y with
        | Fin _ m e => if negb (is_int m e) && num_lt x pzero then Some NaN else None
        | _ => None
        end
    end
  end.

(* FoldBinaryOperator, case BinOpPow (after fix 9e1822e): JavaScript's NaN cases
   first, then math.Pow *)
Definition fold_pow (x y : num) : option num :=
  if is_nan y || ((num_eq x one || num_eq x (num_neg one)) && match y with Inf _ => true | _ => false end)
  then Some NaN
  else go_pow_special x y.
