(* The normal form of a statement list has the semantics of the list; statement
   lists with the same normal form have the same executions. *)
From V Require Import Common.Base C03.Num C03.Tree C03.MiniJS C03.Stmt.

Section StmtProofs.
  Variable W : world.
  Variable wloop : Z -> nat -> trace * outcome.
  Notation ev := (eval W).
  Notation xt := (exec_tree W wloop).
  Notation ex := (exec W wloop).
  Notation ub := (w_unbound W).
  Notation split_eff := (split_eff ub).
  Notation split_test := (split_test ub).
  Notation split_ret := (split_ret ub).
  Notation split_throw := (split_throw ub).
  Notation graft := (graft ub).
  Notation norm := (norm ub).
  Notation norm_list := (norm_list ub).
  Notation norm_fn := (norm_fn ub).

  Lemma ebind_bind : forall r f k, ebind (bind r f) k = ebind r (fun tr1 v => ebind (f tr1 v) k).
  Proof. intros [[t [v|x]]|] f k; reflexivity. Qed.
  Lemma ebind_ext : forall r k1 k2, (forall t v, k1 t v = k2 t v) -> ebind r k1 = ebind r k2.
  Proof. intros [[t [v|x]]|] k1 k2 H; cbn [ebind]; auto. Qed.
  Lemma cseq_ebind : forall r k f, cseq (ebind r k) f = ebind r (fun t v => cseq (k t v) f).
  Proof. intros [[t [v|x]]|] k f; reflexivity. Qed.
  Lemma cseq_cseq : forall r f g, cseq (cseq r f) g = cseq r (fun t => cseq (f t) g).
  Proof. intros [[t [| | | |]]|] f g; reflexivity. Qed.
  Lemma cseq_ext : forall r f g, (forall t, f t = g t) -> cseq r f = cseq r g.
  Proof. intros [[t [| | | |]]|] f g H; cbn [cseq]; auto. Qed.

  Lemma mk_eff_sound : forall e k tr, xt tr (mk_eff ub e k) = ebind (ev tr e) (fun tr1 _ => xt tr1 k).
  Proof.
    intros e k tr. destruct e; try reflexivity. cbn [mk_eff].
    destruct (w_unbound W ref) eqn:U; [reflexivity|]. cbn [eval]. rewrite U. reflexivity.
  Qed.

  Lemma oz_eqb_eq : forall a b, oz_eqb a b = true -> a = b.
  Proof. intros [x|] [y|] H; try discriminate H; [apply Z.eqb_eq in H; subst|]; reflexivity. Qed.

  Lemma leaf_eqb_eq : forall a b, leaf_eqb a b = true -> a = b.
  Proof.
    intros a b H. destruct a as [|[ea|]| |la|la| | | |]; destruct b as [|[eb|]| |lb|lb| | | |];
      try discriminate H; try reflexivity; apply oz_eqb_eq in H; subst; reflexivity.
  Qed.

  Lemma mk_if_sound : forall e k1 k2 tr,
    xt tr (mk_if ub e k1 k2) = ebind (ev tr e) (fun tr1 v => if truthy v then xt tr1 k1 else xt tr1 k2).
  Proof.
    intros e k1 k2 tr. unfold mk_if. destruct (leaf_eqb k1 k2) eqn:L; [|reflexivity].
    apply leaf_eqb_eq in L. subst k2. rewrite mk_eff_sound. apply ebind_ext. intros t v. destruct (truthy v); reflexivity.
  Qed.

  Definition P_eff (e : expr) : Prop :=
    forall k tr, xt tr (split_eff e k) = ebind (ev tr e) (fun tr1 _ => xt tr1 k).
  Definition P_test (e : expr) : Prop :=
    forall k1 k2 tr, xt tr (split_test e k1 k2) = ebind (ev tr e) (fun tr1 v => if truthy v then xt tr1 k1 else xt tr1 k2).

  Lemma split_sound : forall e, P_eff e /\ P_test e.
  Proof.
    induction e; split; unfold P_eff, P_test in *; intros; try apply mk_eff_sound; try apply mk_if_sound.
    - (* EUn, effect *)
      destruct IHe as [He Ht]. destruct op; try apply mk_eff_sound; cbn [Stmt.split_eff]; rewrite He; cbn [eval];
        rewrite ebind_bind; apply ebind_ext; reflexivity.
    - (* EUn, test *)
      destruct IHe as [He Ht]. destruct op; try apply mk_if_sound. cbn [Stmt.split_test]. rewrite Ht. cbn [eval].
      rewrite ebind_bind. apply ebind_ext. intros t v. cbn [ebind truthy]. destruct (truthy v); reflexivity.
    - (* EBin, effect *)
      destruct IHe1 as [He1 Ht1]. destruct IHe2 as [He2 Ht2].
      destruct op; try apply mk_eff_sound; cbn [Stmt.split_eff]; cbn [eval]; rewrite ebind_bind.
      + rewrite Ht1. apply ebind_ext. intros t v. destruct (truthy v); [reflexivity | rewrite He2; reflexivity].
      + rewrite Ht1. apply ebind_ext. intros t v. destruct (truthy v); [rewrite He2; reflexivity | reflexivity].
      + rewrite He1. apply ebind_ext. intros t v. rewrite He2. reflexivity.
    - (* EBin, test *)
      destruct IHe1 as [He1 Ht1]. destruct IHe2 as [He2 Ht2].
      destruct op; try apply mk_if_sound; cbn [Stmt.split_test]; cbn [eval]; rewrite ebind_bind.
      + rewrite Ht1. apply ebind_ext. intros t v. destruct (truthy v) eqn:Tv; [cbn [ebind]; rewrite Tv; reflexivity | rewrite Ht2; reflexivity].
      + rewrite Ht1. apply ebind_ext. intros t v. destruct (truthy v) eqn:Tv; [rewrite Ht2; reflexivity | cbn [ebind]; rewrite Tv; reflexivity].
      + rewrite He1. apply ebind_ext. intros t v. rewrite Ht2. reflexivity.
    - (* EIf, effect *)
      destruct IHe1 as [He1 Ht1]. destruct IHe2 as [He2 Ht2]. destruct IHe3 as [He3 Ht3].
      cbn [Stmt.split_eff]. rewrite Ht1. cbn [eval]. rewrite ebind_bind. apply ebind_ext. intros t v.
      destruct (truthy v); [rewrite He2 | rewrite He3]; reflexivity.
    - (* EIf, test *)
      destruct IHe1 as [He1 Ht1]. destruct IHe2 as [He2 Ht2]. destruct IHe3 as [He3 Ht3].
      cbn [Stmt.split_test]. rewrite Ht1. cbn [eval]. rewrite ebind_bind. apply ebind_ext. intros t v.
      destruct (truthy v); [rewrite Ht2 | rewrite Ht3]; reflexivity.
  Qed.

  Lemma split_eff_sound : forall e k tr, xt tr (split_eff e k) = ebind (ev tr e) (fun tr1 _ => xt tr1 k).
  Proof. intros e. exact (proj1 (split_sound e)). Qed.
  Lemma split_test_sound : forall e k1 k2 tr,
    xt tr (split_test e k1 k2) = ebind (ev tr e) (fun tr1 v => if truthy v then xt tr1 k1 else xt tr1 k2).
  Proof. intros e. exact (proj2 (split_sound e)). Qed.

  Lemma split_ret_sound : forall e tr, xt tr (split_ret e) = ebind (ev tr e) (fun tr1 v => Some (tr1, CReturn v)).
  Proof.
    induction e; intros tr; try reflexivity.
    - destruct op; try reflexivity. cbn [Stmt.split_ret]. rewrite split_eff_sound. cbn [eval]. rewrite ebind_bind.
      apply ebind_ext. reflexivity.
    - destruct op; try reflexivity. cbn [Stmt.split_ret]. rewrite split_eff_sound. cbn [eval]. rewrite ebind_bind.
      apply ebind_ext. intros t v. apply IHe2.
    - cbn [Stmt.split_ret]. rewrite split_test_sound. cbn [eval]. rewrite ebind_bind. apply ebind_ext. intros t v.
      destruct (truthy v); [apply IHe2 | apply IHe3].
  Qed.

  Lemma split_throw_sound : forall e tr, xt tr (split_throw e) = ebind (ev tr e) (fun tr1 v => Some (tr1, CThrow v)).
  Proof.
    induction e; intros tr; try reflexivity.
    - destruct op; try reflexivity. cbn [Stmt.split_throw]. rewrite split_eff_sound. cbn [eval]. rewrite ebind_bind.
      apply ebind_ext. intros t v. apply IHe2.
    - cbn [Stmt.split_throw]. rewrite split_test_sound. cbn [eval]. rewrite ebind_bind. apply ebind_ext. intros t v.
      destruct (truthy v); [apply IHe2 | apply IHe3].
  Qed.

  Lemma cseq_id : forall r, cseq r (fun t => Some (t, CNormal)) = r.
  Proof. intros [[t [| | | |]]|]; reflexivity. Qed.

  (* what follows a labelled statement *)
  Definition after (l : Z) (r : option (trace * completion)) (k : tree) : option (trace * completion) :=
    match r with
    | Some (tr1, CNormal) => xt tr1 k
    | Some (tr1, CBreak (Some l')) => if l' =? l then xt tr1 k else r
    | _ => r
    end.

  Lemma after_ebind : forall l r f k, after l (ebind r f) k = ebind r (fun t v => after l (f t v) k).
  Proof. intros l [[t [v|x]]|] f k; reflexivity. Qed.

  Lemma graft_sound : forall l t k tr, xt tr (graft l t k) = after l (xt tr t) k.
  Proof.
    intros l t k. induction t; intros tr; cbn [Stmt.graft]; try reflexivity.
    - destruct v; [|reflexivity]. cbn [exec_tree]. rewrite after_ebind. apply ebind_ext. reflexivity.
    - cbn [exec_tree]. rewrite after_ebind. apply ebind_ext. reflexivity.
    - destruct l0 as [l'|]; [|reflexivity]. cbn [exec_tree after]. destruct (l' =? l); reflexivity.
    - cbn [exec_tree]. rewrite after_ebind. apply ebind_ext. intros t0 v. apply IHt.
    - rewrite mk_if_sound. cbn [exec_tree]. rewrite after_ebind. apply ebind_ext. intros t0 v.
      destruct (truthy v); [apply IHt1 | apply IHt2].
    - cbn [exec_tree]. rewrite after_ebind. apply ebind_ext. intros t0 v. apply IHt.
    - cbn [exec_tree]. unfold run_loop. destruct (eff tr (wloop id)) as [[t0 [v|x]]|]; cbn [ebind cseq after]; try reflexivity. apply IHt.
  Qed.

  (* size of a statement, for the induction through blocks *)
  Fixpoint ssize (s : stmt) : nat :=
    S (match s with
       | SIf _ y n => ssize y + ssize n
       | SBlock b => (fix go (l : list stmt) : nat := match l with [] => O | x :: r => (ssize x + go r)%nat end) b
       | SLabel _ b => ssize b
       | _ => O
       end)%nat.

  Theorem norm_sound_size : forall n s, (ssize s <= n)%nat -> forall k tr,
    xt tr (norm s k) = cseq (ex tr s) (fun tr1 => xt tr1 k).
  Proof.
    induction n as [|n IH]; intros s Hsz k tr; [destruct s; cbn [ssize] in Hsz; lia|].
    destruct s; cbn [Stmt.norm exec].
    - (* SExpr *) rewrite split_eff_sound, cseq_ebind. apply ebind_ext. reflexivity.
    - (* SIf *) cbn [ssize] in Hsz. rewrite split_test_sound, cseq_ebind. apply ebind_ext. intros t0 v.
      destruct (truthy v); apply IH; lia.
    - (* SReturn *) destruct v as [e|]; [|reflexivity]. rewrite split_ret_sound, cseq_ebind. apply ebind_ext. reflexivity.
    - (* SThrow *) rewrite split_throw_sound, cseq_ebind. apply ebind_ext. reflexivity.
    - reflexivity.
    - reflexivity.
    - (* SBlock *) cbn [ssize] in Hsz. revert tr.
      induction body as [|x r IHb]; intros tr; [reflexivity|].
      cbn [ssize] in Hsz. rewrite IH by lia. rewrite cseq_cseq. apply cseq_ext. intros t0. apply IHb. lia.
    - (* SLocal *) clear Hsz. revert tr. induction decls as [|[ref [e|]] r IHd]; intros tr; [reflexivity | | apply IHd].
      cbn [exec_tree]. rewrite cseq_ebind. apply ebind_ext. intros t0 v. apply IHd.
    - (* SLoop *) destruct init as [e|]; [|reflexivity].
      rewrite split_eff_sound, cseq_ebind. apply ebind_ext. reflexivity.
    - (* SLabel *) cbn [ssize] in Hsz. rewrite graft_sound, IH by lia. rewrite cseq_id.
      destruct (ex tr s) as [[t0 [| | |[l'|]|]]|]; cbn [after end_label cseq]; try reflexivity.
      destruct (l' =? l); reflexivity.
    - reflexivity.
  Qed.

  Theorem norm_sound : forall s k tr, xt tr (norm s k) = cseq (ex tr s) (fun tr1 => xt tr1 k).
  Proof. intros s. exact (norm_sound_size (ssize s) s (le_n _)). Qed.

  Theorem norm_list_sound : forall l k tr,
    xt tr (norm_list l k) = cseq (exec_list W wloop tr l) (fun tr1 => xt tr1 k).
  Proof.
    induction l as [|x r IH]; intros k tr; [reflexivity|].
    cbn [Stmt.norm_list exec_list]. rewrite norm_sound, cseq_cseq. apply cseq_ext. intros t0. apply IH.
  Qed.

  Theorem norm_fn_sound : forall l tr, xt tr (norm_fn l) = exec_fn W wloop tr l.
  Proof. intros l tr. unfold Stmt.norm_fn, exec_fn. rewrite norm_list_sound. reflexivity. Qed.

  (* translation validation: the same normal form, the same executions of the function body *)
  Theorem same_normal_form_equiv : forall a b, norm_fn a = norm_fn b ->
    forall tr, exec_fn W wloop tr a = exec_fn W wloop tr b.
  Proof. intros a b H tr. rewrite <- !norm_fn_sound, H. reflexivity. Qed.

  (* ... and of a block (statement lists that complete normally, break or continue) *)
  Theorem same_normal_form_equiv_block : forall a b, norm_list a TEnd = norm_list b TEnd ->
    forall tr, exec_list W wloop tr a = exec_list W wloop tr b.
  Proof.
    intros a b H tr.
    assert (E : forall l, xt tr (norm_list l TEnd) = exec_list W wloop tr l).
    { intros l. rewrite norm_list_sound. destruct (exec_list W wloop tr l) as [[t [| | | |]]|]; reflexivity. }
    rewrite <- !E, H. reflexivity.
  Qed.
End StmtProofs.
