(* MangleIfExpr: every rewrite of the conditional (optional-chain insertion
   switched off) evaluates like the conditional it replaces -- same trace, same
   completion, same value -- in every world_ok world; and the fuel of the model
   is sufficient, so the model is total. *)
From V Require Import Common.Base C03.Num C03.Tree C03.MiniJS C03.Worlds C03.TreeProofs C03.TreeProofs2
  C03.TreeProofs3 C03.TreeProofs4 C03.TreeProofs5 C03.TreeProofs10 C03.TreeProofs13.

(* call arguments are never holes (the parser produces holes in array literals only) *)
Fixpoint no_hole_args (e : expr) {struct e} : Prop :=
  let all := fix all (l : list expr) : Prop :=
               match l with [] => True | x :: r => (x <> EMissing /\ no_hole_args x) /\ all r end in
  match e with
  | ECall _ args _ _ => all args
  | ESpread v => no_hole_args v
  | _ => True
  end.

Section MI.
  Variable W : world.
  Hypothesis Wok : world_ok W.
  Notation ev := (eval W).
  Notation ub := (w_unbound W).

  (* whenever a evaluates, b evaluates to the same trace and completion *)
  Definition EQ (a b : expr) : Prop := forall tr res, ev tr a = Some res -> ev tr b = Some res.

  Definition okt (e : expr) : Prop := flags_ok W e /\ vls_ok e.
  Definition okb (e : expr) : Prop := flags_ok W e /\ vls_ok e /\ no_hole_args e.

  Lemma EQ_refl : forall a, EQ a a.
  Proof. intros a tr res H. exact H. Qed.

  Lemma if_eval : forall t y n tr,
    ev tr (EIf t y n) = bind (ev tr t) (fun tr1 x => if truthy x then ev tr1 y else ev tr1 n).
  Proof. reflexivity. Qed.

  Lemma bin_eval_and : forall l r tr,
    ev tr (EBin BLogAnd l r) = bind (ev tr l) (fun tr1 x => if truthy x then ev tr1 r else Some (tr1, Val x)).
  Proof. reflexivity. Qed.
  Lemma bin_eval_or : forall l r tr,
    ev tr (EBin BLogOr l r) = bind (ev tr l) (fun tr1 x => if truthy x then Some (tr1, Val x) else ev tr1 r).
  Proof. reflexivity. Qed.
  Lemma bin_eval_nullish : forall l r tr,
    ev tr (EBin BNullish l r) = bind (ev tr l) (fun tr1 x => if nullish x then ev tr1 r else Some (tr1, Val x)).
  Proof. reflexivity. Qed.
  Lemma bin_eval_comma : forall l r tr,
    ev tr (EBin BComma l r) = bind (ev tr l) (fun tr1 _ => ev tr1 r).
  Proof. reflexivity. Qed.

  Lemma jl_and : forall a b tr, ev tr (join_left BLogAnd a b) = ev tr (EBin BLogAnd a b).
  Proof. intros. apply join_left_assoc_equiv_all. left. reflexivity. Qed.
  Lemma jl_or : forall a b tr, ev tr (join_left BLogOr a b) = ev tr (EBin BLogOr a b).
  Proof. intros. apply join_left_assoc_equiv_all. right. left. reflexivity. Qed.
  Lemma jl_nullish : forall a b tr, ev tr (join_left BNullish a b) = ev tr (EBin BNullish a b).
  Proof. intros. apply join_left_assoc_equiv_all. right. right. reflexivity. Qed.

  (* one step of a control-flow case analysis *)
  Ltac step :=
    match goal with
    | H : truthy ?x = _ |- context [truthy ?x] => rewrite H
    | |- context [bind (Some _) _] => cbn [bind]
    | |- context [bind (ev ?tr ?e) _] => destruct (ev tr e) as [[? [?|?]]|]; cbn [bind]
    | |- context [if truthy ?x then _ else _] => destruct (truthy x) eqn:?
    end.

  (* ---- "(a, b) ? c : d" => "a, b ? c : d" ---- *)
  Lemma if_comma : forall cl cr y n x, EQ (EIf cr y n) x -> EQ (EIf (EBin BComma cl cr) y n) (EBin BComma cl x).
  Proof.
    intros cl cr y n x H tr res. rewrite if_eval, !bin_eval_comma.
    destruct (ev tr cl) as [[tr1 [v|z]]|]; cbn [bind]; try (intros E; exact E).
    intros E. apply H. rewrite if_eval. exact E.
  Qed.

  (* ---- "!a ? b : c" => "a ? c : b" ---- *)
  Lemma if_not : forall v w y n tr, ev tr (EIf (EUn UNot v w) y n) = ev tr (EIf v n y).
  Proof.
    intros v w y n tr. rewrite !if_eval. cbn [eval].
    destruct (ev tr v) as [[tr1 [x|z]]|]; cbn [bind]; try reflexivity.
    destruct (truthy x); reflexivity.
  Qed.

  (* ---- "a ? b : b" => "a, b" or "b" ---- *)
  Lemma same_branches : forall t y n, (forall tr, ev tr y = ev tr n) -> EQ (EIf t y n) (EBin BComma t y).
  Proof.
    intros t y n H tr res. rewrite if_eval, bin_eval_comma.
    destruct (ev tr t) as [[tr1 [x|z]]|]; cbn [bind]; auto.
    destruct (truthy x); [auto | rewrite H; auto].
  Qed.

  Lemma pure_test : forall t tr r, flags_ok W t -> can_be_removed ub t = true ->
    ev tr t = Some r -> exists v, r = (tr, Val v).
  Proof.
    intros t tr [tr1 o] Hf Hc E.
    destruct (can_be_removed_sound_all W Wok t tr tr1 o Hf Hc E) as [-> [v ->]]. eauto.
  Qed.

  Lemma same_branches_pure : forall t y n, flags_ok W t -> can_be_removed ub t = true ->
    (forall tr, ev tr y = ev tr n) -> EQ (EIf t y n) y.
  Proof.
    intros t y n Hf Hc H tr res. rewrite if_eval.
    destruct (ev tr t) as [r|] eqn:E; [|discriminate].
    destruct (pure_test t tr r Hf Hc E) as [v ->]. cbn [bind].
    destruct (truthy v); [auto | rewrite H; auto].
  Qed.

  (* ---- "a ? true : false" => "!!a",  "a ? false : true" => "!a" ---- *)
  Lemma not_eval : forall t tr tr1 x, ev tr t = Some (tr1, Val x) ->
    ev tr (not_ t) = Some (tr1, Val (VBool (negb (truthy x)))).
  Proof. intros t tr tr1 x E. apply (not_correct W Wok). cbn [eval]. rewrite E. reflexivity. Qed.
  Lemma not_eval_throw : forall t tr tr1 z, ev tr t = Some (tr1, Throw z) -> ev tr (not_ t) = Some (tr1, Throw z).
  Proof. intros t tr tr1 z E. apply (not_correct W Wok). cbn [eval]. rewrite E. reflexivity. Qed.

  Lemma bools_ft : forall t, EQ (EIf t (EBool false) (EBool true)) (not_ t).
  Proof.
    intros t tr res. rewrite if_eval.
    destruct (ev tr t) as [[tr1 [x|z]]|] eqn:E; cbn [bind]; [| |discriminate].
    - rewrite (not_eval _ _ _ _ E). destruct (truthy x); cbn [eval negb]; auto.
    - rewrite (not_eval_throw _ _ _ _ E). auto.
  Qed.

  Lemma bools_tf : forall t, EQ (EIf t (EBool true) (EBool false)) (not_ (not_ t)).
  Proof.
    intros t tr res. rewrite if_eval.
    destruct (ev tr t) as [[tr1 [x|z]]|] eqn:E; cbn [bind]; [| |discriminate].
    - rewrite (not_eval _ _ _ _ (not_eval _ _ _ _ E)). cbn [truthy]. destruct (truthy x); cbn [eval negb]; auto.
    - rewrite (not_eval_throw _ _ _ _ (not_eval_throw _ _ _ _ E)). auto.
  Qed.

  Lemma bools_sound : forall t y n x, mi_bools t y n = Some x -> EQ (EIf t y n) x.
  Proof.
    intros t y n x H. unfold mi_bools in H.
    destruct y; cbn [as_bool] in H; try discriminate H. destruct n; cbn [as_bool] in H; try (destruct b; discriminate H).
    destruct b, b0; try discriminate H; inv H; [apply bools_tf | apply bools_ft].
  Qed.

  (* ---- "a ? a : b" => "a || b",  "a ? b : a" => "a && b" ---- *)
  Lemma id_or : forall r c m c' m' n, EQ (EIf (EId r c m) (EId r c' m') n) (EBin BLogOr (EId r c m) n).
  Proof.
    intros r c m c' m' n tr res. rewrite if_eval, bin_eval_or. cbn [eval].
    destruct (w_unbound W r); [destruct (w_genv W r)|]; cbn [bind]; try (destruct (truthy _)); auto.
  Qed.
  Lemma id_and : forall r c m c' m' y, EQ (EIf (EId r c m) y (EId r c' m')) (EBin BLogAnd (EId r c m) y).
  Proof.
    intros r c m c' m' y tr res. rewrite if_eval, bin_eval_and. cbn [eval].
    destruct (w_unbound W r); [destruct (w_genv W r)|]; cbn [bind]; try (destruct (truthy _)); auto.
  Qed.

  Lemma idcase_sound : forall t y n x, mi_idcase t y n = Some x -> EQ (EIf t y n) x.
  Proof.
    intros t y n x H. unfold mi_idcase in H.
    destruct t; cbn [as_id] in H; try discriminate H.
    destruct (match as_id y with Some r2 => ref =? r2 | None => false end) eqn:Ey.
    - inv H. destruct y; cbn [as_id] in Ey; try discriminate Ey. apply Z.eqb_eq in Ey. subst ref0.
      intros tr res E. rewrite jl_or. revert E. apply id_or.
    - destruct (match as_id n with Some r3 => ref =? r3 | None => false end) eqn:En; [|discriminate H].
      inv H. destruct n; cbn [as_id] in En; try discriminate En. apply Z.eqb_eq in En. subst ref0.
      intros tr res E. rewrite jl_and. revert E. apply id_and.
  Qed.

  (* ---- the six rewrites that merge an arm into the test ---- *)
  Lemma yesif_eq : forall t yt yy yn n, (forall tr, ev tr yn = ev tr n) ->
    EQ (EIf t (EIf yt yy yn) n) (EIf (join_left BLogAnd t yt) yy n).
  Proof.
    intros t yt yy yn n H tr res. rewrite !if_eval, jl_and, bin_eval_and.
    repeat (step; try rewrite ?if_eval; try rewrite ?H); auto; try discriminate.
  Qed.

  Lemma noif_eq : forall t y nt ny nn, (forall tr, ev tr y = ev tr ny) ->
    EQ (EIf t y (EIf nt ny nn)) (EIf (join_left BLogOr t nt) y nn).
  Proof.
    intros t y nt ny nn H tr res. rewrite !if_eval, jl_or, bin_eval_or.
    repeat (step; try rewrite ?if_eval; try rewrite <- ?H); auto; try discriminate.
  Qed.

  Lemma nocomma_eq : forall t y cl cr, (forall tr, ev tr y = ev tr cr) ->
    EQ (EIf t y (EBin BComma cl cr)) (EBin BComma (join_left BLogOr t cl) cr).
  Proof.
    intros t y cl cr H tr res. rewrite !if_eval, !bin_eval_comma, jl_or, bin_eval_or.
    repeat (step; try rewrite ?bin_eval_comma; try rewrite <- ?H); auto; try discriminate.
  Qed.

  Lemma yescomma_eq : forall t cl cr n, (forall tr, ev tr cr = ev tr n) ->
    EQ (EIf t (EBin BComma cl cr) n) (EBin BComma (join_left BLogAnd t cl) cr).
  Proof.
    intros t cl cr n H tr res. rewrite !if_eval, !bin_eval_comma, jl_and, bin_eval_and.
    repeat (step; try rewrite ?bin_eval_comma; try rewrite ?H); auto; try discriminate.
  Qed.

  Lemma yesor_eq : forall t bl br n, (forall tr, ev tr br = ev tr n) ->
    EQ (EIf t (EBin BLogOr bl br) n) (EBin BLogOr (join_left BLogAnd t bl) br).
  Proof.
    intros t bl br n H tr res. rewrite !if_eval, !bin_eval_or, jl_and, bin_eval_and.
    repeat (step; try rewrite ?bin_eval_or; try rewrite ?H); auto; try discriminate.
  Qed.

  Lemma noand_eq : forall t y bl br, (forall tr, ev tr y = ev tr br) ->
    EQ (EIf t y (EBin BLogAnd bl br)) (EBin BLogAnd (join_left BLogOr t bl) br).
  Proof.
    intros t y bl br H tr res. rewrite !if_eval, !bin_eval_and, jl_or, bin_eval_or.
    repeat (step; try rewrite ?bin_eval_and; try rewrite <- ?H); auto; try discriminate.
  Qed.

  Notation vls_eq := (values_look_the_same_sound_all W).

  Lemma yesif_sound : forall t y n x, vls_ok y -> vls_ok n -> mi_yesif t y n = Some x -> EQ (EIf t y n) x.
  Proof.
    intros t y n x Hy Hn H. unfold mi_yesif in H. destruct y; try discriminate H.
    destruct (values_look_the_same y3 n) eqn:V; [|discriminate H]. inv H.
    cbn [vls_ok] in Hy. destruct Hy as [_ [_ Hy3]]. apply yesif_eq. apply vls_eq; assumption.
  Qed.
  Lemma noif_sound : forall t y n x, vls_ok y -> vls_ok n -> mi_noif t y n = Some x -> EQ (EIf t y n) x.
  Proof.
    intros t y n x Hy Hn H. unfold mi_noif in H. destruct n; try discriminate H.
    destruct (values_look_the_same y n2) eqn:V; [|discriminate H]. inv H.
    cbn [vls_ok] in Hn. destruct Hn as [_ [Hn2 _]]. apply noif_eq. apply vls_eq; assumption.
  Qed.
  Lemma nocomma_sound : forall t y n x, vls_ok y -> vls_ok n -> mi_nocomma t y n = Some x -> EQ (EIf t y n) x.
  Proof.
    intros t y n x Hy Hn H. unfold mi_nocomma in H. destruct n; try discriminate H. destruct op; try discriminate H.
    destruct (values_look_the_same y n2) eqn:V; [|discriminate H]. inv H.
    cbn [vls_ok] in Hn. destruct Hn as [_ Hn2]. apply nocomma_eq. apply vls_eq; assumption.
  Qed.
  Lemma yescomma_sound : forall t y n x, vls_ok y -> vls_ok n -> mi_yescomma t y n = Some x -> EQ (EIf t y n) x.
  Proof.
    intros t y n x Hy Hn H. unfold mi_yescomma in H. destruct y; try discriminate H. destruct op; try discriminate H.
    destruct (values_look_the_same y2 n) eqn:V; [|discriminate H]. inv H.
    cbn [vls_ok] in Hy. destruct Hy as [_ Hy2]. apply yescomma_eq. apply vls_eq; assumption.
  Qed.
  Lemma yesor_sound : forall t y n x, vls_ok y -> vls_ok n -> mi_yesor t y n = Some x -> EQ (EIf t y n) x.
  Proof.
    intros t y n x Hy Hn H. unfold mi_yesor in H. destruct y; try discriminate H. destruct op; try discriminate H.
    destruct (values_look_the_same y2 n) eqn:V; [|discriminate H]. inv H.
    cbn [vls_ok] in Hy. destruct Hy as [_ Hy2]. apply yesor_eq. apply vls_eq; assumption.
  Qed.
  Lemma noand_sound : forall t y n x, vls_ok y -> vls_ok n -> mi_noand t y n = Some x -> EQ (EIf t y n) x.
  Proof.
    intros t y n x Hy Hn H. unfold mi_noand in H. destruct n; try discriminate H. destruct op; try discriminate H.
    destruct (values_look_the_same y n2) eqn:V; [|discriminate H]. inv H.
    cbn [vls_ok] in Hn. destruct Hn as [_ Hn2]. apply noand_eq. apply vls_eq; assumption.
  Qed.

  Lemma simple_sound : forall t y n x, vls_ok y -> vls_ok n -> mi_simple t y n = Some x -> EQ (EIf t y n) x.
  Proof.
    intros t y n x Hy Hn H. unfold mi_simple, orelse in H.
    destruct (mi_bools t y n) eqn:E1; [inv H; eapply bools_sound; eauto|].
    destruct (mi_idcase t y n) eqn:E2; [inv H; eapply idcase_sound; eauto|].
    destruct (mi_yesif t y n) eqn:E3; [inv H; eapply yesif_sound; eauto|].
    destruct (mi_noif t y n) eqn:E4; [inv H; eapply noif_sound; eauto|].
    destruct (mi_nocomma t y n) eqn:E5; [inv H; eapply nocomma_sound; eauto|].
    destruct (mi_yescomma t y n) eqn:E6; [inv H; eapply yescomma_sound; eauto|].
    destruct (mi_yesor t y n) eqn:E7; [inv H; eapply yesor_sound; eauto|].
    eapply noand_sound; eauto.
  Qed.

  (* ---- "a ? b(c, d) : b(e, d)" => "b(a ? c : e, d)" ---- *)
  Lemma catch_short_trace : forall tr1 o, exists o', catch_short (Some (tr1, o)) = Some (tr1, o').
  Proof. intros tr1 [v|x]; [eexists; reflexivity|]. destruct x; eexists; reflexivity. Qed.

  Lemma eval_catch_raw_dot : forall t name oc c s tr,
    ev tr (EDot t name oc c s) = catch_short (eval_raw W tr (EDot t name oc c s)).
  Proof. reflexivity. Qed.
  Lemma eval_catch_raw_call : forall t args oc p tr,
    ev tr (ECall t args oc p) = catch_short (eval_raw W tr (ECall t args oc p)).
  Proof. intros. rewrite eval_call_eq, eval_raw_call_eq. reflexivity. Qed.

  (* reading a removable call target has no effects, also as a chain continuation *)
  Lemma target_pure : forall oc t tr tr1 o, flags_ok W t -> can_be_removed ub t = true ->
    eval_target W oc tr t = Some (tr1, o) -> tr1 = tr.
  Proof.
    intros oc t tr tr1 o Hf Hc H. unfold eval_target in H. destruct (is_cont oc).
    - assert (E : exists o', ev tr t = Some (tr1, o')).
      { destruct t; try (cbn [eval_raw] in H; discriminate H); try (cbn [can_be_removed] in Hc; discriminate Hc).
        - rewrite eval_catch_raw_dot, H. apply catch_short_trace.
        - rewrite eval_catch_raw_call, H. apply catch_short_trace. }
      destruct E as [o' E]. exact (proj1 (can_be_removed_sound_all W Wok t tr tr1 o' Hf Hc E)).
    - exact (proj1 (can_be_removed_sound_all W Wok t tr tr1 o Hf Hc H)).
  Qed.

  Lemma evaluates_plain : forall x tr r, ev tr x = Some r -> plain_item x = true.
  Proof. intros x tr r H. destruct x; try reflexivity; cbn [eval] in H; discriminate H. Qed.

  Lemma items_head : forall x l tr acc, plain_item x = true ->
    eval_items_with W ev tr (x :: l) acc = lstep (ev tr x) acc (fun tr2 acc2 => eval_items_with W ev tr2 l acc2).
  Proof. intros x l tr acc P. destruct x; try discriminate P; reflexivity. Qed.

  Lemma items_subst : forall y0 x l tr acc, plain_item y0 = true ->
    (forall r, ev tr y0 = Some r -> ev tr x = Some r) ->
    forall R, eval_items_with W ev tr (y0 :: l) acc = Some R -> eval_items_with W ev tr (x :: l) acc = Some R.
  Proof.
    intros y0 x l tr acc P H R E. rewrite items_head in E by exact P.
    destruct (ev tr y0) as [r|] eqn:Ey; [|discriminate E].
    pose proof (H r eq_refl) as Ex. rewrite items_head by (eapply evaluates_plain; eauto). rewrite Ex. exact E.
  Qed.

  Lemma items_subst_spread : forall ys x l tr acc,
    (forall r, ev tr ys = Some r -> ev tr x = Some r) ->
    forall R, eval_items_with W ev tr (ESpread ys :: l) acc = Some R -> eval_items_with W ev tr (ESpread x :: l) acc = Some R.
  Proof.
    intros ys x l tr acc H R E. cbn [eval_items_with] in E |- *.
    destruct (ev tr ys) as [r|] eqn:Ey; [|discriminate E].
    rewrite (H r eq_refl). exact E.
  Qed.

  (* replacing the first argument of a call whose target has no effects *)
  Lemma call_subst : forall yt a0 a0' l oc p tr res,
    (forall tr1 o, eval_target W oc tr yt = Some (tr1, o) -> tr1 = tr) ->
    (forall acc R, eval_items_with W ev tr (a0 :: l) acc = Some R -> eval_items_with W ev tr (a0' :: l) acc = Some R) ->
    ev tr (ECall yt (a0 :: l) oc p) = Some res -> ev tr (ECall yt (a0' :: l) oc p) = Some res.
  Proof.
    intros yt a0 a0' l oc p tr res Hp Hs H. rewrite eval_call_eq in H |- *.
    destruct (eval_target W oc tr yt) as [[tr1 [fv|z]]|] eqn:Eg; [| exact H | exact H].
    pose proof (Hp _ _ eq_refl). subst tr1. unfold call_step in H |- *. cbn [bind] in H |- *.
    unfold short_if in H |- *. destruct ((oc =? 1) && nullish fv); [exact H|].
    destruct (eval_items_with W ev tr (a0 :: l) []) as [R|] eqn:Ei; [|discriminate H].
    rewrite (Hs _ _ Ei). exact H.
  Qed.

  Lemma as_call_inv : forall e t a0 tl oc p, as_call e = Some (t, a0, tl, oc, p) -> e = ECall t (a0 :: tl) oc p.
  Proof. intros e t a0 tl oc p H. destruct e; try discriminate H. destruct args; try discriminate H. inv H. reflexivity. Qed.

  Lemma as_spread_inv : forall e v, as_spread e = Some v -> e = ESpread v.
  Proof. intros e v H. destruct e; try discriminate H. inv H. reflexivity. Qed.

  Lemma as_spread_none : forall e, as_spread e = None -> e <> EMissing -> plain_item e = true.
  Proof. intros e H N. destruct e; try reflexivity; [contradiction | discriminate H]. Qed.

  Lemma tail_items_same : forall ytl ntl, all_look_same ytl ntl = true -> length ytl = length ntl ->
    (forall x, In x ytl -> vls_ok x) -> (forall x, In x ntl -> vls_ok x) ->
    forall tr acc, eval_items_with W ev tr ytl acc = eval_items_with W ev tr ntl acc.
  Proof.
    intros ytl ntl Ha Hl Hy Hn tr acc. apply items_same; [exact Ha | exact Hl |].
    intros x y Ix Iy V. destruct (vls_plain x y V) as [Px Py]. apply plain_strip in Py.
    split; [exact Px|]. split; [exact Py|]. intros t. apply vls_eq; auto.
  Qed.

  Section Rec.
    Variable rec : expr -> expr -> expr -> option expr.
    Hypothesis Hrec : forall t y n x, rec t y n = Some x -> okt t -> okb y -> okb n -> EQ (EIf t y n) x.

    Lemma calls_sound : forall test yes no x, okt test -> okb yes -> okb no ->
      mi_calls rec ub test yes no = Some (Some x) -> EQ (EIf test yes no) x.
    Proof.
      intros test yes no x Ht Hy Hn H. unfold mi_calls in H.
      destruct (as_call yes) as [[[[[yt y0] ytl] yoc] yp]|] eqn:Ay; [|discriminate H].
      destruct (as_call no) as [[[[[nt n0] ntl] noc] np]|] eqn:An; [|discriminate H].
      apply as_call_inv in Ay, An. subst yes no.
      match type of H with (if ?c then _ else _) = _ => destruct c eqn:C; [|discriminate H] end.
      apply andb_true_iff in C. destruct C as [C C7]. apply andb_true_iff in C. destruct C as [C C6].
      apply andb_true_iff in C. destruct C as [C C5]. apply andb_true_iff in C. destruct C as [C C4].
      apply andb_true_iff in C. destruct C as [C C3]. apply andb_true_iff in C. destruct C as [C1 C2].
      apply Nat.eqb_eq in C1. apply Z.eqb_eq in C2. subst noc. apply Bool.eqb_prop in C3. subst np.
      destruct Ht as [Htf Htv].
      destruct Hy as [Hyf [Hyv Hyh]]. destruct Hn as [Hnf [Hnv Hnh]].
      cbn [flags_ok] in Hyf, Hnf. destruct Hyf as [_ [Hytf [Hy0f Hytlf]]]. destruct Hnf as [_ [Hntf [Hn0f Hntlf]]].
      cbn [vls_ok] in Hyv, Hnv. destruct Hyv as [Hytv [Hy0v Hytlv]]. destruct Hnv as [Hntv [Hn0v Hntlv]].
      cbn [no_hole_args] in Hyh, Hnh. destruct Hyh as [[Hy0m Hy0h] _]. destruct Hnh as [[Hn0m Hn0h] _].
      assert (St : same_eval W yt nt) by (exact (vls_sound_size W (esize yt) yt (le_n _) nt Hytv Hntv C4)).
      assert (Htl : forall tr acc, eval_items_with W ev tr ytl acc = eval_items_with W ev tr ntl acc).
      { apply tail_items_same; try assumption; apply vls_all; assumption. }
      assert (Hp : forall tr tr1 o, eval_target W yoc tr yt = Some (tr1, o) -> tr1 = tr)
        by (intros tr0 tr1 o Hev; exact (target_pure yoc yt tr0 tr1 o Hytf C6 Hev)).
      (* the "no" call with the target and the tail of the "yes" call *)
      assert (Hno : forall a tr, ev tr (ECall nt (a :: ntl) yoc yp) = ev tr (ECall yt (a :: ytl) yoc yp)).
      { intros a tr. symmetry. apply (call_cong W yt nt (a :: ytl) (a :: ntl) yoc yp yp St).
        intros t acc. cbn [eval_items_with]. unfold lstep.
        destruct a; try (destruct (ev t _) as [[? [?|?]]|]; try reflexivity; apply Htl); try apply Htl.
        destruct (bind _ _) as [[? [?|?]]|]; try reflexivity; apply Htl. }
      destruct (as_spread y0) as [ys|] eqn:Sy; destruct (as_spread n0) as [ns|] eqn:Sn; try discriminate H.
      - (* both spreads *)
        apply as_spread_inv in Sy, Sn. subst y0 n0.
        destruct (rec test ys ns) as [x0|] eqn:R; [|discriminate H]. inv H.
        assert (HX : EQ (EIf test ys ns) x0).
        { apply (Hrec _ _ _ _ R); [split; assumption | |]; (split; [assumption | split; assumption]). }
        intros tr res E. rewrite if_eval in E.
        destruct (ev tr test) as [r|] eqn:Et; [|discriminate E].
        destruct (pure_test test tr r Htf C5 Et) as [v ->]. cbn [bind] in E.
        destruct (truthy v) eqn:Tv.
        + revert E. apply call_subst; [apply Hp|]. intros acc R0. apply items_subst_spread.
          intros r Er. apply HX. rewrite if_eval, Et. cbn [bind]. rewrite Tv. exact Er.
        + rewrite Hno in E. revert E. apply call_subst; [apply Hp|]. intros acc R0. apply items_subst_spread.
          intros r Er. apply HX. rewrite if_eval, Et. cbn [bind]. rewrite Tv. exact Er.
      - (* neither is a spread *)
        destruct (rec test y0 n0) as [x0|] eqn:R; [|discriminate H]. inv H.
        assert (HX : EQ (EIf test y0 n0) x0).
        { apply (Hrec _ _ _ _ R); [split; assumption | |]; (split; [assumption | split; assumption]). }
        intros tr res E. rewrite if_eval in E.
        destruct (ev tr test) as [r|] eqn:Et; [|discriminate E].
        destruct (pure_test test tr r Htf C5 Et) as [v ->]. cbn [bind] in E.
        destruct (truthy v) eqn:Tv.
        + revert E. apply call_subst; [apply Hp|]. intros acc R0. apply items_subst; [apply as_spread_none; assumption|].
          intros r Er. apply HX. rewrite if_eval, Et. cbn [bind]. rewrite Tv. exact Er.
        + rewrite Hno in E. revert E. apply call_subst; [apply Hp|]. intros acc R0. apply items_subst; [apply as_spread_none; assumption|].
          intros r Er. apply HX. rewrite if_eval, Et. cbn [bind]. rewrite Tv. exact Er.
    Qed.
  End Rec.

  (* ---- "a != null ? a : b" => "a ?? b" ---- *)
  Lemma loose_null_r : forall a tr v, ev tr a = Some (tr, Val v) ->
    ev tr (EBin BLooseEq a ENull) = Some (tr, Val (VBool (nullish v))).
  Proof.
    intros a tr v E. cbn [eval]. rewrite E. cbn [bind]. unfold apply_bin, eff.
    rewrite (ok_looseeq_null_r W Wok). rewrite app_nil_r. reflexivity.
  Qed.
  Lemma loose_null_l : forall a tr v, ev tr a = Some (tr, Val v) ->
    ev tr (EBin BLooseEq ENull a) = Some (tr, Val (VBool (nullish v))).
  Proof.
    intros a tr v E. cbn [eval]. cbn [bind]. rewrite E. cbn [bind]. unfold apply_bin, eff.
    rewrite (ok_looseeq_null_l W Wok). rewrite app_nil_r. reflexivity.
  Qed.
  Lemma loose_ne : forall a b tr tr1 c, ev tr (EBin BLooseEq a b) = Some (tr1, Val (VBool c)) ->
    ev tr (EBin BLooseNe a b) = Some (tr1, Val (VBool (negb c))).
  Proof. intros a b tr tr1 c E. cbn [eval] in E |- *. rewrite E. reflexivity. Qed.

  (* the test is "check == null" (isNull = true) or "check != null" in some orientation *)
  Lemma nullish_core : forall check t whenNull whenNonNull (neg : bool),
    flags_ok W check -> can_be_removed ub check = true ->
    (forall tr v, ev tr check = Some (tr, Val v) -> ev tr t = Some (tr, Val (VBool (if neg then negb (nullish v) else nullish v)))) ->
    (forall tr r, ev tr t = Some r -> exists r', ev tr check = Some r') ->
    (forall tr, ev tr check = ev tr whenNonNull) ->
    EQ (if neg then EIf t whenNonNull whenNull else EIf t whenNull whenNonNull) (EBin BNullish check whenNull).
  Proof.
    intros check t whenNull whenNonNull neg Hf Hc Ht Hdef Hsame tr res E.
    rewrite bin_eval_nullish.
    assert (Et : exists r, ev tr t = Some r).
    { destruct neg; rewrite if_eval in E; destruct (ev tr t) as [r|]; try discriminate E; eauto. }
    destruct Et as [r Et]. destruct (Hdef _ _ Et) as [r' Ec].
    destruct (pure_test check tr r' Hf Hc Ec) as [v ->]. rewrite Ec. cbn [bind].
    pose proof (Ht _ _ Ec) as Et2.
    destruct neg; rewrite if_eval, Et2 in E; cbn [bind truthy] in E; destruct (nullish v); cbn [negb] in E;
      try exact E; rewrite <- Hsame, Ec in E; exact E.
  Qed.

  Lemma bin_defined_l : forall op a b tr r, ev tr (EBin op a b) = Some r -> op = BLooseEq \/ op = BLooseNe ->
    (exists r', ev tr a = Some r') /\ (forall tr1 v, ev tr a = Some (tr1, Val v) -> exists r', ev tr1 b = Some r').
  Proof.
    intros op a b tr r E [-> | ->]; cbn [eval] in E; unfold neg_outcome in E;
      (destruct (ev tr a) as [[tr1 [v|z]]|] eqn:Ea; cbn [bind] in E;
       [ split; [eauto|]; intros tr2 v2 Hv; inv Hv; destruct (ev tr2 b) as [r2|]; [eauto | discriminate E]
       | split; [eauto|]; intros ? ? Hv; discriminate Hv
       | discriminate E ]).
  Qed.

  (* "a != null ? a.b : undefined" => "a?.b" *)
  Lemma chain_core : forall check t whenNonNull x (neg : bool),
    flags_ok W check -> can_be_removed ub check = true -> vls_ok check ->
    vls_ok whenNonNull ->
    (forall tr v, ev tr check = Some (tr, Val v) -> ev tr t = Some (tr, Val (VBool (if neg then negb (nullish v) else nullish v)))) ->
    (forall tr r, ev tr t = Some r -> exists r', ev tr check = Some r') ->
    try_insert_optional_chain check whenNonNull = Some x ->
    EQ (if neg then EIf t whenNonNull EUndefined else EIf t EUndefined whenNonNull) x.
  Proof.
    intros check t whenNonNull x neg Hf Hc Hcv Hwv Ht Hdef Hx tr res E.
    destruct (tioc_sound W check whenNonNull x Hcv Hwv Hx) as [_ [_ Hsem]].
    assert (Et : exists r, ev tr t = Some r).
    { destruct neg; rewrite if_eval in E; destruct (ev tr t) as [r|]; try discriminate E; eauto. }
    destruct Et as [r Et]. destruct (Hdef _ _ Et) as [r' Ec].
    destruct (pure_test check tr r' Hf Hc Ec) as [v ->].
    destruct (proj2 (Hsem tr) v Ec) as [Hnull Hnon].
    pose proof (Ht _ _ Ec) as Et2.
    destruct neg; rewrite if_eval, Et2 in E; cbn [bind truthy] in E; destruct (nullish v) eqn:Nv; cbn [negb] in E.
    - rewrite (Hnull eq_refl). exact E.
    - exact (Hnon eq_refl _ E).
    - rewrite (Hnull eq_refl). exact E.
    - exact (Hnon eq_refl _ E).
  Qed.

  Lemma nullish_sound : forall noN noC test yes no x, okt test ->
    vls_ok yes -> vls_ok no ->
    mi_nullish ub noN noC test yes no = Some x -> EQ (EIf test yes no) x.
  Proof.
    intros noN noC test yes no x [Htf Htv] Hyv Hnv H. unfold mi_nullish in H.
    destruct test as [| | | | | | | | | | | | | | | | | | bop bl br | | | | | | |]; try discriminate H.
    cbn [flags_ok] in Htf. destruct Htf as [Hlf Hrf]. cbn [vls_ok] in Htv. destruct Htv as [Hlv Hrv].
    assert (Hfin : forall check whenNull whenNonNull (neg : bool),
      flags_ok W check -> vls_ok check -> vls_ok whenNonNull ->
      (forall tr v, ev tr check = Some (tr, Val v) ->
         ev tr (EBin bop bl br) = Some (tr, Val (VBool (if neg then negb (nullish v) else nullish v)))) ->
      (forall tr r, ev tr (EBin bop bl br) = Some r -> exists r', ev tr check = Some r') ->
      (if can_be_removed ub check then
         if negb noN && values_look_the_same check whenNonNull then Some (join_left BNullish check whenNull)
         else if negb noC then
           (if (match whenNull with EUndefined => true | _ => false end)
            then try_insert_optional_chain check whenNonNull else None)
         else None
       else None) = Some x ->
      EQ (if neg then EIf (EBin bop bl br) whenNonNull whenNull else EIf (EBin bop bl br) whenNull whenNonNull) x).
    { intros check whenNull whenNonNull neg Hcf Hcv Hwv Hte Hdef Hx.
      destruct (can_be_removed ub check) eqn:Cc; [|discriminate Hx].
      destruct (negb noN && values_look_the_same check whenNonNull) eqn:Cn.
      - inv Hx. apply andb_true_iff in Cn. destruct Cn as [_ V].
        intros tr res E. rewrite jl_nullish. revert E.
        apply (nullish_core check (EBin bop bl br) whenNull whenNonNull neg Hcf Cc Hte Hdef).
        apply vls_eq; assumption.
      - destruct (negb noC); [|discriminate Hx].
        destruct whenNull; try discriminate Hx.
        exact (chain_core check (EBin bop bl br) whenNonNull x neg Hcf Cc Hcv Hwv Hte Hdef Hx). }
    destruct bop; try discriminate H.
    - (* == *)
      destruct (is_null br) eqn:Nr.
      + destruct br; try discriminate Nr. apply (Hfin bl yes no false); try assumption.
        * intros tr v E. apply loose_null_r. exact E.
        * intros tr r E. apply (bin_defined_l _ _ _ _ _ E). left; reflexivity.
      + destruct (is_null bl) eqn:Nl; [|discriminate H].
        destruct bl; try discriminate Nl. apply (Hfin br yes no false); try assumption.
        * intros tr v E. apply loose_null_l. exact E.
        * intros tr r E. destruct (bin_defined_l _ _ _ _ _ E (or_introl eq_refl)) as [_ Hb]. apply (Hb tr VNull). reflexivity.
    - (* != *)
      destruct (is_null br) eqn:Nr.
      + destruct br; try discriminate Nr. apply (Hfin bl no yes true); try assumption.
        * intros tr v E. apply loose_ne. apply loose_null_r. exact E.
        * intros tr r E. apply (bin_defined_l _ _ _ _ _ E). right; reflexivity.
      + destruct (is_null bl) eqn:Nl; [|discriminate H].
        destruct bl; try discriminate Nl. apply (Hfin br no yes true); try assumption.
        * intros tr v E. apply loose_ne. apply loose_null_l. exact E.
        * intros tr r E. destruct (bin_defined_l _ _ _ _ _ E (or_intror eq_refl)) as [_ Hb]. apply (Hb tr VNull). reflexivity.
  Qed.

  (* ---- the whole function ---- *)
  Lemma tail_sound : forall rec noN noC test yes no x,
    (forall t y n x, rec t y n = Some x -> okt t -> okb y -> okb n -> EQ (EIf t y n) x) ->
    okt test -> okb yes -> okb no ->
    mangle_tail rec ub noN noC test yes no = Some x -> EQ (EIf test yes no) x.
  Proof.
    intros rec noN noC test yes no x Hrec Ht Hy Hn H. unfold mangle_tail in H.
    pose proof Ht as [Htf Htv]. pose proof Hy as [Hyf [Hyv _]]. pose proof Hn as [Hnf [Hnv _]].
    destruct (values_look_the_same yes no) eqn:V.
    - destruct (can_be_removed ub test) eqn:C; inv H.
      + apply same_branches_pure; try assumption. apply vls_eq; assumption.
      + apply same_branches. apply vls_eq; assumption.
    - destruct (mi_simple test yes no) as [x1|] eqn:S1; [inv H; eapply simple_sound; eauto|].
      destruct (mi_calls rec ub test yes no) as [[x2|]|] eqn:S2; [inv H; eapply calls_sound; eauto | | discriminate H].
      destruct (mi_nullish ub noN noC test yes no) as [x3|] eqn:S3; inv H; [eapply nullish_sound; eauto | apply EQ_refl].
  Qed.

  Theorem mangle_if_fuel_sound : forall f noN noC test yes no x,
    okt test -> okb yes -> okb no ->
    mangle_if_fuel f ub noN noC test yes no = Some x -> EQ (EIf test yes no) x.
  Proof.
    induction f as [|f IH]; intros noN noC test yes no x Ht Hy Hn H; [discriminate H|].
    assert (Hgen : forall t y n, okt t -> okb y -> okb n ->
              mangle_tail (mangle_if_fuel f ub noN noC) ub noN noC t y n = Some x -> EQ (EIf t y n) x).
    { intros t y n Ht' Hy' Hn'. apply tail_sound; try assumption. intros; eapply IH; eauto. }
    destruct test; cbn [mangle_if_fuel] in H; try (apply Hgen; assumption).
    - (* EUn *) destruct op; try (apply Hgen; assumption).
      intros tr res E. rewrite if_not in E. revert E. apply Hgen; try assumption.
      destruct Ht as [Htf Htv]. cbn [flags_ok] in Htf. cbn [vls_ok] in Htv. split; [apply Htf | exact Htv].
    - (* EBin *) destruct op; try (apply Hgen; assumption).
      destruct (mangle_if_fuel f ub noN noC test2 yes no) as [x0|] eqn:R; [|discriminate H]. inv H.
      apply if_comma. eapply IH; eauto.
      destruct Ht as [Htf Htv]. cbn [flags_ok] in Htf. cbn [vls_ok] in Htv. split; [apply Htf | apply Htv].
  Qed.
End MI.

(* ---- fuel sufficiency: the model never runs out of fuel ---- *)
Section Fuel.
  Variable unbound : Z -> bool.
  Variables noN noC : bool.

  Lemma tail_total : forall rec (k : nat) test yes no,
    (forall t y n, (esize t + esize y + esize n < k)%nat -> rec t y n <> None) ->
    (esize test + esize yes + esize no <= k)%nat ->
    mangle_tail rec unbound noN noC test yes no <> None.
  Proof.
    intros rec k test yes no Hrec Hsz. unfold mangle_tail.
    destruct (values_look_the_same yes no); [destruct (can_be_removed unbound test); discriminate|].
    destruct (mi_simple test yes no); [discriminate|].
    assert (Hc : mi_calls rec unbound test yes no <> None).
    { unfold mi_calls.
      destruct (as_call yes) as [[[[[yt y0] ytl] yoc] yp]|] eqn:Ay; [|discriminate].
      destruct (as_call no) as [[[[[nt n0] ntl] noc] np]|] eqn:An; [|discriminate].
      assert (Ey : yes = ECall yt (y0 :: ytl) yoc yp)
        by (destruct yes; try discriminate Ay; destruct args; try discriminate Ay; inv Ay; reflexivity).
      assert (En : no = ECall nt (n0 :: ntl) noc np)
        by (destruct no; try discriminate An; destruct args; try discriminate An; inv An; reflexivity).
      subst yes no. cbn [esize] in Hsz.
      match goal with |- (if ?c then _ else _) <> None => destruct c; [|discriminate] end.
      destruct (as_spread y0) as [ys|] eqn:Sy; destruct (as_spread n0) as [ns|] eqn:Sn; try discriminate.
      - assert (y0 = ESpread ys) by (destruct y0; try discriminate Sy; inv Sy; reflexivity).
        assert (n0 = ESpread ns) by (destruct n0; try discriminate Sn; inv Sn; reflexivity). subst y0 n0.
        cbn [esize] in Hsz.
        destruct (rec test ys ns) eqn:R; [discriminate|]. exfalso. revert R. apply Hrec. lia.
      - destruct (rec test y0 n0) eqn:R; [discriminate|]. exfalso. revert R. apply Hrec. lia. }
    destruct (mi_calls rec unbound test yes no) as [[x|]|]; [discriminate| |contradiction].
    destruct (mi_nullish unbound noN noC test yes no); discriminate.
  Qed.

  Theorem mangle_if_fuel_enough : forall f test yes no,
    (esize test + esize yes + esize no < f)%nat ->
    mangle_if_fuel f unbound noN noC test yes no <> None.
  Proof.
    induction f as [|f IH]; intros test yes no Hsz; [lia|].
    assert (Hgen : forall t y n, (esize t + esize y + esize n <= f)%nat ->
              mangle_tail (mangle_if_fuel f unbound noN noC) unbound noN noC t y n <> None).
    { intros t y n Hs. apply tail_total with (k := f); [|exact Hs]. intros; apply IH; assumption. }
    destruct test; cbn [mangle_if_fuel]; try (apply Hgen; cbn [esize] in Hsz |- *; lia).
    - destruct op; try (apply Hgen; cbn [esize] in Hsz |- *; lia).
    - destruct op; try (apply Hgen; cbn [esize] in Hsz |- *; lia).
      cbn [esize] in Hsz.
      destruct (mangle_if_fuel f unbound noN noC test2 yes no) eqn:R; [discriminate|].
      exfalso. revert R. apply IH. lia.
  Qed.

  Theorem mangle_if_total_all : forall test yes no, exists e', mangle_if unbound noN noC test yes no = Some e'.
  Proof.
    intros test yes no. unfold mangle_if.
    destruct (mangle_if_fuel _ unbound noN noC test yes no) eqn:E; [eauto|].
    exfalso. revert E. apply mangle_if_fuel_enough. lia.
  Qed.
End Fuel.

Theorem mangle_if_equiv_all : forall (W : world), world_ok W ->
  forall noNullish noOptChain test yes no,
    flags_ok W test -> flags_ok W yes -> flags_ok W no ->
    vls_ok test -> vls_ok yes -> vls_ok no ->
    no_hole_args yes -> no_hole_args no ->
    exists e', mangle_if (w_unbound W) noNullish noOptChain test yes no = Some e' /\
      forall tr res, eval W tr (EIf test yes no) = Some res -> eval W tr e' = Some res.
Proof.
  intros W Wok noN noC test yes no Ft Fy Fn Vt Vy Vn Hy Hn.
  destruct (mangle_if_total_all (w_unbound W) noN noC test yes no) as [e' E].
  exists e'. split; [exact E|].
  unfold mangle_if in E.
  exact (mangle_if_fuel_sound W Wok _ noN noC test yes no e' (conj Ft Vt)
           (conj Fy (conj Vy Hy)) (conj Fn (conj Vn Hn)) E).
Qed.
