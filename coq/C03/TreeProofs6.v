(* SimplifyBooleanExpr preserves the trace, the completion and the truthiness
   of the value, in every world *)
From V Require Import Common.Base C03.Num C03.Tree C03.MiniJS C03.Worlds
  C03.TreeProofs C03.TreeProofs2 C03.TreeProofs3 C03.TreeProofs4 C03.TreeProofs5.

Section SB.
  Variable W : world.
  Hypothesis Wok : world_ok W.
  Notation ev := (eval W).
  Notation ub := (w_unbound W).

  (* e' agrees with e in a boolean context whenever e evaluates *)
  Definition ST (e e' : expr) : Prop :=
    forall tr res, ev tr e = Some res -> same_truthiness (Some res) (ev tr e').

  Lemma bind_inv2 : forall r k res,
    bind r k = Some res ->
    (exists tr1 v, r = Some (tr1, Val v) /\ k tr1 v = Some res) \/
    (exists t x, r = Some (t, Throw x) /\ res = (t, Throw x)).
  Proof.
    intros r k res H. unfold bind in H. destruct r as [[tr1 [v|x]]|]; try discriminate.
    - left. eauto.
    - right. inv H. eauto.
  Qed.

  Lemma ST_refl_eq : forall a b, (forall tr, ev tr a = ev tr b) -> ST a b.
  Proof.
    intros a b H tr res Hev. rewrite <- H, Hev. destruct res as [t [v|v]]; cbn; auto.
  Qed.
  Lemma ST_refl : forall a, ST a a.
  Proof. intros a. apply ST_refl_eq. reflexivity. Qed.

  Lemma st_inv : forall res r, same_truthiness (Some res) r ->
    (exists t x y, res = (t, Val x) /\ r = Some (t, Val y) /\ truthy x = truthy y) \/
    (exists t x, res = (t, Throw x) /\ r = Some (t, Throw x)).
  Proof.
    intros [t [x|x]] [[t2 [y|y]]|] H; cbn in H; try contradiction.
    - destruct H as [-> H]. left. eauto 8.
    - destruct H as [-> ->]. right. eauto.
  Qed.

  Lemma ST_trans : forall a b c, ST a b -> ST b c -> ST a c.
  Proof.
    intros a b c H1 H2 tr res Hev.
    destruct (st_inv _ _ (H1 _ _ Hev)) as [(t & x & y & -> & Hb & Ht)|(t & x & -> & Hb)].
    - destruct (st_inv _ _ (H2 _ _ Hb)) as [(t' & x' & y' & E & Hc & Ht')|(t' & x' & E & Hc)]; inv E.
      rewrite Hc. cbn. split; [reflexivity | congruence].
    - destruct (st_inv _ _ (H2 _ _ Hb)) as [(t' & x' & y' & E & Hc & Ht')|(t' & x' & E & Hc)]; inv E.
      rewrite Hc. cbn. auto.
  Qed.

  Lemma ST_not : forall a a' w w', ST a a' -> ST (EUn UNot a w) (EUn UNot a' w').
  Proof.
    intros a a' w w' H tr res Hev. cbn [eval] in Hev |- *.
    apply bind_inv2 in Hev as [(t1 & x & Hx & Hk)|(tt & x & Hx & ->)].
    - destruct (st_inv _ _ (H _ _ Hx)) as [(t & x0 & y & E & Hb & Ht)|(t & x0 & E & Hb)]; inv E.
      rewrite Hb. inv Hk. cbn. split; [reflexivity | rewrite Ht; reflexivity].
    - destruct (st_inv _ _ (H _ _ Hx)) as [(t0 & x0 & y & E & Hb & Ht)|(t0 & x0 & E & Hb)]; inv E.
      rewrite Hb. cbn. auto.
  Qed.

  Lemma ST_and : forall l l' r r', ST l l' -> ST r r' -> ST (EBin BLogAnd l r) (EBin BLogAnd l' r').
  Proof.
    intros l l' r r' Hl Hr tr res Hev. cbn [eval] in Hev |- *.
    apply bind_inv2 in Hev as [(t1 & x & Hx & Hk)|(tt & x & Hx & ->)].
    - destruct (st_inv _ _ (Hl _ _ Hx)) as [(t & x0 & y & E & Hb & Ht)|(t & x0 & E & Hb)]; inv E.
      rewrite Hb. cbn [bind]. rewrite <- Ht. destruct (truthy x0) eqn:Hx0.
      + exact (Hr _ _ Hk).
      + inv Hk. cbn. split; [reflexivity | congruence].
    - destruct (st_inv _ _ (Hl _ _ Hx)) as [(t0 & x0 & y & E & Hb & Ht)|(t0 & x0 & E & Hb)]; inv E.
      rewrite Hb. cbn. auto.
  Qed.

  Lemma ST_or : forall l l' r r', ST l l' -> ST r r' -> ST (EBin BLogOr l r) (EBin BLogOr l' r').
  Proof.
    intros l l' r r' Hl Hr tr res Hev. cbn [eval] in Hev |- *.
    apply bind_inv2 in Hev as [(t1 & x & Hx & Hk)|(tt & x & Hx & ->)].
    - destruct (st_inv _ _ (Hl _ _ Hx)) as [(t & x0 & y & E & Hb & Ht)|(t & x0 & E & Hb)]; inv E.
      rewrite Hb. cbn [bind]. rewrite <- Ht. destruct (truthy x0) eqn:Hx0.
      + inv Hk. cbn. split; [reflexivity | congruence].
      + exact (Hr _ _ Hk).
    - destruct (st_inv _ _ (Hl _ _ Hx)) as [(t0 & x0 & y & E & Hb & Ht)|(t0 & x0 & E & Hb)]; inv E.
      rewrite Hb. cbn. auto.
  Qed.

  Lemma ST_if : forall t y y' n n', ST y y' -> ST n n' -> ST (EIf t y n) (EIf t y' n').
  Proof.
    intros t y y' n n' Hy Hn tr res Hev. cbn [eval] in Hev |- *.
    destruct (ev tr t) as [[t1 [x|x]]|]; cbn [bind] in Hev |- *; try discriminate.
    - destruct (truthy x); [exact (Hy _ _ Hev) | exact (Hn _ _ Hev)].
    - inv Hev. cbn. auto.
  Qed.

  (* ---- the integer test ------------------------------------------------------ *)
  Lemma int32_value : forall l tr t x, is_int32_or_uint32 l = true -> ev tr l = Some (t, Val x) ->
    exists m e, x = VNum (Fin false m e).
  Proof.
    induction l; intros tr t x Hi Hev; cbn [is_int32_or_uint32] in Hi; try discriminate.
    - destruct op; try discriminate; cbn [eval is_sem_binop] in Hev.
      + (* >>> *)
        apply bind_inv in Hev as [(t1 & a & Ha & Hk)|(a & Ha & Ho)]; [|discriminate].
        apply bind_inv in Hk as [(t2 & b & Hb & Hk2)|(b & Hb & Ho)]; [|discriminate].
        apply eff_inv in Hk2 as (t3 & E & _). eapply ok_ushr; eauto.
      + apply andb_true_iff in Hi as [H1 H2].
        apply bind_inv in Hev as [(t1 & a & Ha & Hk)|(a & Ha & Ho)]; [|discriminate].
        destruct (truthy a); [inv Hk; eauto | eauto].
      + apply andb_true_iff in Hi as [H1 H2].
        apply bind_inv in Hev as [(t1 & a & Ha & Hk)|(a & Ha & Ho)]; [|discriminate].
        destruct (truthy a); [eauto | inv Hk; eauto].
    - apply andb_true_iff in Hi as [H1 H2]. cbn [eval] in Hev.
      apply bind_inv in Hev as [(t1 & a & Ha & Hk)|(a & Ha & Ho)]; [|discriminate].
      destruct (truthy a); eauto.
  Qed.

  Lemma extract_eval : forall r n t, extract_numeric_value r = Some n -> ev t r = Some (t, Val (VNum n)).
  Proof.
    induction r; intros n0 t H; cbn [extract_numeric_value] in H; try discriminate; cbn [eval]; eauto.
    inv H. reflexivity.
  Qed.

  Lemma num_eq_zero : forall m e n, is_zero n = true -> num_eq (Fin false m e) n = (m =? 0).
  Proof.
    intros m e [| |s m2 e2] Hz; cbn in Hz; try discriminate. apply Z.eqb_eq in Hz. subst m2.
    unfold num_eq. cbn [num_cmp]. unfold fin_cmp.
    assert (Hs : signed s (0 * 2 ^ (e2 - Z.min e e2)) = 0) by (destruct s; cbn; lia).
    rewrite Hs. cbn [signed].
    assert (Hp : 0 < 2 ^ (e - Z.min e e2)) by (apply Z.pow_pos_nonneg; lia).
    destruct (m =? 0) eqn:Hm.
    - apply Z.eqb_eq in Hm. subst m. rewrite Z.mul_0_l. reflexivity.
    - apply Z.eqb_neq in Hm. destruct (Z.compare_spec (m * 2 ^ (e - Z.min e e2)) 0) as [E|E|E]; try reflexivity.
      exfalso. apply Hm. nia.
  Qed.

  (* "l !== 0" (strict or loose) is l in a boolean context when l is an integer *)
  Lemma ST_ne_zero : forall op l r n,
    (op = BStrictNe \/ op = BLooseNe) -> extract_numeric_value r = Some n -> is_zero n = true ->
    is_int32_or_uint32 l = true -> ST (EBin op l r) l.
  Proof.
    intros op l r n Hop Hr Hz Hi tr res Hev.
    destruct Hop as [-> | ->]; cbn [eval] in Hev.
    - apply bind_inv2 in Hev as [(t1 & x & Hx & Hk)|(tt & x & Hx & ->)].
      + rewrite (extract_eval _ _ t1 Hr) in Hk. cbn [bind] in Hk.
        destruct (int32_value _ _ _ _ Hi Hx) as (m & e & ->). cbn [strict_eq] in Hk. inv Hk.
        rewrite Hx. cbn. split; [reflexivity|]. rewrite (num_eq_zero _ _ _ Hz). rewrite andb_true_r. reflexivity.
      + rewrite Hx. cbn. auto.
    - unfold neg_outcome in Hev.
      destruct (ev tr l) as [[t1 [x|x]]|] eqn:Hx; cbn [bind] in Hev; try discriminate.
      + rewrite (extract_eval _ _ t1 Hr) in Hev. cbn [bind] in Hev.
        destruct (int32_value _ _ _ _ Hi Hx) as (m & e & ->).
        unfold apply_bin, eff in Hev. rewrite (ok_looseeq_num W Wok) in Hev. inv Hev. rewrite app_nil_r.
        cbn. split; [reflexivity|]. rewrite (num_eq_zero _ _ _ Hz). rewrite andb_true_r. reflexivity.
      + inv Hev. cbn. auto.
  Qed.

  (* "l === 0" is "!l" *)
  Lemma ST_eq_zero : forall op l r n,
    (op = BStrictEq \/ op = BLooseEq) -> extract_numeric_value r = Some n -> is_zero n = true ->
    is_int32_or_uint32 l = true -> ST (EBin op l r) (EUn UNot l false).
  Proof.
    intros op l r n Hop Hr Hz Hi tr res Hev. cbn [eval] in Hev |- *.
    destruct Hop as [-> | ->].
    - apply bind_inv2 in Hev as [(t1 & x & Hx & Hk)|(tt & x & Hx & ->)].
      + rewrite (extract_eval _ _ t1 Hr) in Hk. cbn [bind] in Hk.
        destruct (int32_value _ _ _ _ Hi Hx) as (m & e & ->). cbn [strict_eq] in Hk. inv Hk.
        rewrite Hx. cbn. split; [reflexivity|]. rewrite (num_eq_zero _ _ _ Hz). rewrite andb_true_r. rewrite negb_involutive. reflexivity.
      + rewrite Hx. cbn. auto.
    - destruct (ev tr l) as [[t1 [x|x]]|] eqn:Hx; cbn [bind] in Hev |- *; try discriminate.
      + rewrite (extract_eval _ _ t1 Hr) in Hev. cbn [bind] in Hev.
        destruct (int32_value _ _ _ _ Hi Hx) as (m & e & ->).
        unfold apply_bin, eff in Hev. rewrite (ok_looseeq_num W Wok) in Hev. inv Hev. rewrite app_nil_r.
        cbn. split; [reflexivity|]. rewrite (num_eq_zero _ _ _ Hz). rewrite andb_true_r. rewrite negb_involutive. reflexivity.
      + inv Hev. cbn. auto.
  Qed.

  Lemma ST_not_ : forall l, ST (EUn UNot l false) (not_ l).
  Proof.
    intros l tr res Hev. rewrite (not_correct W Wok _ _ _ Hev). destruct res as [t [v|v]]; cbn; auto.
  Qed.

  (* ---- flags are preserved by the rewrites ---------------------------------------- *)
  Lemma msn_flags : forall e e', flags_ok W e -> maybe_simplify_not e = Some e' -> flags_ok W e'.
  Proof.
    induction e; intros e' Hf Hm; cbn [maybe_simplify_not] in Hm; try discriminate;
      try (inv Hm; exact I).
    - (* EBig *) destruct (check_equality_bigint s [48]) as [eq ok]. destruct ok; inv Hm. exact I.
    - (* EUn *) destruct op; try discriminate. destruct (ptype_eqb (known_type e) PBoolean); inv Hm.
      cbn [flags_ok] in Hf. tauto.
    - (* EBin *)
      cbn [flags_ok] in Hf. destruct Hf as [H1 H2].
      destruct op; try discriminate; inv Hm; cbn [flags_ok]; try tauto.
      split; [assumption|].
      destruct (maybe_simplify_not e2) eqn:Hn; [eauto|]. cbn [flags_ok]. split; [intros; discriminate | assumption].
    - cbn [flags_ok] in Hf. destruct Hf as [_ Hf]. eauto.
    - cbn [flags_ok] in Hf. eauto.
  Qed.

  Lemma not_flags : forall e, flags_ok W e -> flags_ok W (not_ e).
  Proof.
    intros e Hf. unfold not_. destruct (maybe_simplify_not e) eqn:Hm; [eapply msn_flags; eauto|].
    cbn [flags_ok]. split; [intros; discriminate | assumption].
  Qed.

  Lemma join_flags : forall op b a, flags_ok W a -> flags_ok W b -> flags_ok W (join_left_assoc op b a).
  Proof.
    intros op.
    induction b as [| | | | | | | | | | | | | | | | | | op' bl IHl br IHr | | | | | | |];
      intros a Ha Hb;
      try (induction a as [| | | | | | | | | | | | | | | | | | opa al IHal ar IHar | | | | | | |];
           cbn [join_left_assoc]; try (cbn [flags_ok]; split; assumption);
           destruct opa; try (cbn [flags_ok]; split; assumption);
           cbn [flags_ok] in Ha |- *; destruct Ha as [Ha1 Ha2]; split; [assumption | apply IHar; assumption]).
    cbn [flags_ok] in Hb. destruct Hb as [Hbl Hbr].
    induction a as [| | | | | | | | | | | | | | | | | | opa al IHal ar IHar | | | | | | |];
      cbn [join_left_assoc];
      try (destruct (binop_eqb op' op); [apply IHr; [apply IHl; assumption | assumption] | cbn [flags_ok]; auto]).
    destruct opa;
      try (destruct (binop_eqb op' op); [apply IHr; [apply IHl; assumption | assumption] | cbn [flags_ok]; auto]).
    cbn [flags_ok] in Ha |- *. destruct Ha as [Ha1 Ha2]. split; [assumption | apply IHar; assumption].
  Qed.

  (* ---- pieces of the main proof ------------------------------------------------------ *)
  Lemma ST_dneg : forall v w w', ST (EUn UNot (EUn UNot v w') w) v.
  Proof.
    intros v w w' tr res Hev. cbn [eval] in Hev.
    destruct (ev tr v) as [[t [x|x]]|]; cbn [bind] in Hev; try discriminate; inv Hev; cbn; auto.
    split; [reflexivity|]. rewrite negb_involutive. reflexivity.
  Qed.

  Lemma default_case : forall e, flags_ok W e ->
    let r := (let '(b, se, ok) := to_boolean e in if ok && (se || can_be_removed ub e) then EBool b else e) in
    flags_ok W r /\ ST e r.
  Proof.
    intros e Hf. cbv zeta. destruct (to_boolean e) as [[b se] ok] eqn:Htb.
    destruct (ok && (se || can_be_removed ub e)) eqn:C; [|split; [assumption | apply ST_refl]].
    split; [exact I|].
    apply andb_true_iff in C as [-> C]. intros tr [tr' out] Hev.
    destruct (to_boolean_sound_all W e tr tr' out b se Hf Hev Htb) as [H1 H2].
    assert (Hp : tr' = tr /\ exists v, out = Val v).
    { apply orb_true_iff in C as [->|Hc]; [auto|].
      exact (can_be_removed_sound_all W Wok e tr tr' out Hf Hc Hev). }
    destruct Hp as [-> [v ->]]. cbn. split; [reflexivity|]. rewrite (H1 v eq_refl). destruct b; reflexivity.
  Qed.

  Lemma and_drop : forall l r, flags_ok W r -> to_boolean r = (true, true, true) -> ST (EBin BLogAnd l r) l.
  Proof.
    intros l r Hf Htb tr res Hev. cbn [eval] in Hev.
    apply bind_inv2 in Hev as [(t1 & x & Hx & Hk)|(tt & x & Hx & ->)]; [|rewrite Hx; cbn; auto].
    rewrite Hx. destruct (truthy x) eqn:Htx; [|inv Hk; cbn; auto].
    destruct res as [t' out].
    destruct (to_boolean_sound_all W r t1 t' out true true Hf Hk Htb) as [H1 H2].
    destruct (H2 eq_refl) as [-> [v ->]]. cbn. split; [reflexivity|]. rewrite (H1 v eq_refl). congruence.
  Qed.

  Lemma or_drop : forall l r, flags_ok W r -> to_boolean r = (false, true, true) -> ST (EBin BLogOr l r) l.
  Proof.
    intros l r Hf Htb tr res Hev. cbn [eval] in Hev.
    apply bind_inv2 in Hev as [(t1 & x & Hx & Hk)|(tt & x & Hx & ->)]; [|rewrite Hx; cbn; auto].
    rewrite Hx. destruct (truthy x) eqn:Htx; [inv Hk; cbn; auto|].
    destruct res as [t' out].
    destruct (to_boolean_sound_all W r t1 t' out false true Hf Hk Htb) as [H1 H2].
    destruct (H2 eq_refl) as [-> [v ->]]. cbn. split; [reflexivity|]. rewrite (H1 v eq_refl). congruence.
  Qed.

  (* the value of "!t" through Not *)
  Lemma not_eval : forall t tr t1 x, ev tr t = Some (t1, Val x) -> ev tr (not_ t) = Some (t1, Val (VBool (negb (truthy x)))).
  Proof. intros t tr t1 x H. apply (not_correct W Wok). cbn [eval]. rewrite H. reflexivity. Qed.
  Lemma not_eval_throw : forall t tr t1 x, ev tr t = Some (t1, Throw x) -> ev tr (not_ t) = Some (t1, Throw x).
  Proof. intros t tr t1 x H. apply (not_correct W Wok). cbn [eval]. rewrite H. reflexivity. Qed.

  Lemma if_yes_const : forall t y n b, flags_ok W y -> to_boolean y = (b, true, true) ->
    ST (EIf t y n) (if b then EBin BLogOr t n else EBin BLogAnd (not_ t) n).
  Proof.
    intros t y n b Hf Htb tr res Hev. cbn [eval] in Hev.
    apply bind_inv2 in Hev as [(t1 & x & Hx & Hk)|(tt & x & Hx & ->)].
    - destruct b; cbn [eval]; [rewrite Hx | rewrite (not_eval _ _ _ _ Hx)]; cbn [bind truthy];
        destruct (truthy x) eqn:Htx; cbn [negb];
        try (rewrite Hk; destruct res as [t' [v|v]]; cbn; auto; fail);
        destruct res as [t' out];
        destruct (to_boolean_sound_all W y t1 t' out _ true Hf Hk Htb) as [H1 H2];
        destruct (H2 eq_refl) as [-> [v ->]]; cbn; (split; [reflexivity|]); rewrite (H1 v eq_refl); congruence.
    - destruct b; cbn [eval]; [rewrite Hx | rewrite (not_eval_throw _ _ _ _ Hx)]; cbn; auto.
  Qed.

  Lemma if_no_const : forall t y n b, flags_ok W n -> to_boolean n = (b, true, true) ->
    ST (EIf t y n) (if b then EBin BLogOr (not_ t) y else EBin BLogAnd t y).
  Proof.
    intros t y n b Hf Htb tr res Hev. cbn [eval] in Hev.
    apply bind_inv2 in Hev as [(t1 & x & Hx & Hk)|(tt & x & Hx & ->)].
    - destruct b; cbn [eval]; [rewrite (not_eval _ _ _ _ Hx) | rewrite Hx]; cbn [bind truthy];
        destruct (truthy x) eqn:Htx; cbn [negb];
        try (rewrite Hk; destruct res as [t' [v|v]]; cbn; auto; fail);
        destruct res as [t' out];
        destruct (to_boolean_sound_all W n t1 t' out _ true Hf Hk Htb) as [H1 H2];
        destruct (H2 eq_refl) as [-> [v ->]]; cbn; (split; [reflexivity|]); rewrite (H1 v eq_refl); congruence.
    - destruct b; cbn [eval]; [rewrite (not_eval_throw _ _ _ _ Hx) | rewrite Hx]; cbn; auto.
  Qed.

  Lemma ST_join : forall op a b, short_circuit op -> ST (EBin op a b) (join_left op a b).
  Proof. intros op a b Hop. apply ST_refl_eq. intros tr. symmetry. apply join_left_assoc_equiv_all. exact Hop. Qed.

  Lemma sc_and : short_circuit BLogAnd. Proof. left; reflexivity. Qed.
  Lemma sc_or : short_circuit BLogOr. Proof. right; left; reflexivity. Qed.

  Theorem simplify_boolean_sound_size : forall n e, (esize e <= n)%nat -> flags_ok W e ->
    flags_ok W (simplify_boolean ub e) /\ ST e (simplify_boolean ub e).
  Proof.
    induction n as [|n IH]; intros e Hsz Hf; [destruct e; cbn [esize] in Hsz; lia|].
    destruct e; try (exact (default_case _ Hf)).
    - (* EUn *)
      cbn [simplify_boolean]. cbn [esize] in Hsz. cbn [flags_ok] in Hf. destruct Hf as [Hty Hfv].
      destruct (unop_eqb op UNot) eqn:Hop; [|split; [cbn [flags_ok]; auto | apply ST_refl]].
      apply internal_unop_dec_bl in Hop. subst op.
      assert (Hgen : flags_ok W (EUn UNot (simplify_boolean ub e) false) /\
                     ST (EUn UNot e wasTypeofId) (EUn UNot (simplify_boolean ub e) false)).
      { destruct (IH e ltac:(lia) Hfv) as [F S]. split; [cbn [flags_ok]; split; [intros; discriminate|exact F] | apply ST_not; exact S]. }
      destruct e; try exact Hgen.
      destruct (unop_eqb op UNot) eqn:Hop2; [|exact Hgen].
      apply internal_unop_dec_bl in Hop2. subst op.
      cbn [esize] in Hsz. cbn [flags_ok] in Hfv. destruct Hfv as [_ Hfv2].
      destruct (IH e ltac:(lia) Hfv2) as [F S]. split; [exact F|].
      eapply ST_trans; [apply ST_dneg | exact S].
    - (* EBin *)
      cbn [esize] in Hsz. pose proof Hf as Hf0. cbn [flags_ok] in Hf. destruct Hf as [Hf1 Hf2].
      destruct (IH e1 ltac:(lia) Hf1) as [F1 S1]. destruct (IH e2 ltac:(lia) Hf2) as [F2 S2].
      destruct op; cbn [simplify_boolean]; try (split; [exact Hf0 | apply ST_refl]).
      + (* == 0 *)
        destruct (extract_numeric_value e2) as [nn|] eqn:Hx; [|split; [exact Hf0 | apply ST_refl]].
        destruct (is_zero nn && is_int32_or_uint32 e1) eqn:C; [|split; [exact Hf0 | apply ST_refl]].
        apply andb_true_iff in C as [Hz Hi].
        split; [apply not_flags; exact Hf1|].
        eapply ST_trans; [eapply ST_eq_zero; eauto | apply ST_not_; exact Wok].
      + (* != 0 *)
        destruct (extract_numeric_value e2) as [nn|] eqn:Hx; [|split; [exact Hf0 | apply ST_refl]].
        destruct (is_zero nn && is_int32_or_uint32 e1) eqn:C; [|split; [exact Hf0 | apply ST_refl]].
        apply andb_true_iff in C as [Hz Hi].
        split; [exact Hf1 | eapply ST_ne_zero; eauto].
      + (* === 0 *)
        destruct (extract_numeric_value e2) as [nn|] eqn:Hx; [|split; [exact Hf0 | apply ST_refl]].
        destruct (is_zero nn && is_int32_or_uint32 e1) eqn:C; [|split; [exact Hf0 | apply ST_refl]].
        apply andb_true_iff in C as [Hz Hi].
        split; [apply not_flags; exact Hf1|].
        eapply ST_trans; [eapply ST_eq_zero; eauto | apply ST_not_; exact Wok].
      + (* !== 0 *)
        destruct (extract_numeric_value e2) as [nn|] eqn:Hx; [|split; [exact Hf0 | apply ST_refl]].
        destruct (is_zero nn && is_int32_or_uint32 e1) eqn:C; [|split; [exact Hf0 | apply ST_refl]].
        apply andb_true_iff in C as [Hz Hi].
        split; [exact Hf1 | eapply ST_ne_zero; eauto].
      + (* || *)
        destruct (to_boolean (simplify_boolean ub e2)) as [[b se] ok] eqn:Htb.
        destruct (ok && negb b && se) eqn:C.
        * apply andb_true_iff in C as [C ->]. apply andb_true_iff in C as [-> C]. destruct b; [discriminate|].
          split; [exact F1|]. eapply ST_trans; [apply ST_or; eassumption | apply or_drop; assumption].
        * split; [cbn [flags_ok]; auto | apply ST_or; assumption].
      + (* && *)
        destruct (to_boolean (simplify_boolean ub e2)) as [[b se] ok] eqn:Htb.
        destruct (ok && b && se) eqn:C.
        * apply andb_true_iff in C as [C ->]. apply andb_true_iff in C as [-> ->].
          split; [exact F1|]. eapply ST_trans; [apply ST_and; eassumption | apply and_drop; assumption].
        * split; [cbn [flags_ok]; auto | apply ST_and; assumption].
    - (* EIf *)
      cbn [esize] in Hsz. cbn [flags_ok] in Hf. destruct Hf as [Hf1 [Hf2 Hf3]].
      destruct (IH e2 ltac:(lia) Hf2) as [F2 S2]. destruct (IH e3 ltac:(lia) Hf3) as [F3 S3].
      cbn [simplify_boolean].
      assert (Hcong : ST (EIf e1 e2 e3) (EIf e1 (simplify_boolean ub e2) (simplify_boolean ub e3))) by (apply ST_if; assumption).
      destruct (to_boolean (simplify_boolean ub e2)) as [[yb yse] yok] eqn:Hty.
      destruct (yok && yse) eqn:Cy.
      { apply andb_true_iff in Cy as [-> ->].
        pose proof (if_yes_const e1 _ (simplify_boolean ub e3) yb F2 Hty) as Hc.
        destruct yb.
        - split; [apply join_flags; assumption|].
          eapply ST_trans; [exact Hcong|]. eapply ST_trans; [exact Hc | apply ST_join; apply sc_or].
        - split; [apply join_flags; [apply not_flags; assumption | assumption]|].
          eapply ST_trans; [exact Hcong|]. eapply ST_trans; [exact Hc | apply ST_join; apply sc_and]. }
      destruct (to_boolean (simplify_boolean ub e3)) as [[nb nse] nok] eqn:Htn.
      destruct (nok && nse) eqn:Cn.
      { apply andb_true_iff in Cn as [-> ->].
        pose proof (if_no_const e1 (simplify_boolean ub e2) _ nb F3 Htn) as Hc.
        destruct nb.
        - split; [apply join_flags; [apply not_flags; assumption | assumption]|].
          eapply ST_trans; [exact Hcong|]. eapply ST_trans; [exact Hc | apply ST_join; apply sc_or].
        - split; [apply join_flags; assumption|].
          eapply ST_trans; [exact Hcong|]. eapply ST_trans; [exact Hc | apply ST_join; apply sc_and]. }
      split; [cbn [flags_ok]; auto | exact Hcong].
  Qed.

  Theorem simplify_boolean_sound_all : forall e tr res,
    flags_ok W e -> ev tr e = Some res -> same_truthiness (Some res) (ev tr (simplify_boolean ub e)).
  Proof.
    intros e tr res Hf Hev.
    destruct (simplify_boolean_sound_size (esize e) e (le_n _) Hf) as [_ S]. exact (S tr res Hev).
  Qed.

  Theorem simplify_boolean_flags : forall e, flags_ok W e -> flags_ok W (simplify_boolean ub e).
  Proof. intros e Hf. exact (proj1 (simplify_boolean_sound_size (esize e) e (le_n _) Hf)). Qed.
End SB.
