(* More soundness lemmas over MiniJS: ToNullOrUndefinedWithSideEffects and
   JoinWithLeftAssociativeOp *)
From V Require Import Common.Base C03.Num C03.Tree C03.MiniJS C03.Worlds C03.TreeProofs.

Section Proofs2.
  Variable W : world.

  Notation ev := (eval W).

  (* ---- JoinWithLeftAssociativeOp: a op b, re-associated, evaluates the same ---- *)
  Definition short_circuit (op : binop) : Prop := op = BLogAnd \/ op = BLogOr \/ op = BNullish.

  (* (a op b) op c  =  a op (b op c)  for the three short-circuit operators *)
  Lemma sc_assoc : forall op a b c tr, short_circuit op ->
    ev tr (EBin op (EBin op a b) c) = ev tr (EBin op a (EBin op b c)).
  Proof.
    intros op a b c tr [ -> | [ -> | -> ] ]; cbn [eval];
      destruct (ev tr a) as [[t1 [x|x]]|]; cbn [bind]; try reflexivity.
    - destruct (truthy x) eqn:Hx; cbn [bind]; [reflexivity | rewrite Hx; reflexivity].
    - destruct (truthy x) eqn:Hx; cbn [bind]; [rewrite Hx; reflexivity | reflexivity].
    - destruct (nullish x) eqn:Hx; cbn [bind]; [reflexivity | rewrite Hx; reflexivity].
  Qed.

  (* (a1, a2) op b  =  a1, (a2 op b) *)
  Lemma sc_comma : forall op a1 a2 b tr, short_circuit op ->
    ev tr (EBin op (EBin BComma a1 a2) b) = ev tr (EBin BComma a1 (EBin op a2 b)).
  Proof.
    intros op a1 a2 b tr [ -> | [ -> | -> ] ]; cbn [eval];
      destruct (ev tr a1) as [[t1 [x|x]]|]; cbn [bind]; reflexivity.
  Qed.

  (* evaluation only depends on the evaluation of the operands *)
  Lemma sc_congr_l : forall op a a' b, short_circuit op ->
    (forall tr, ev tr a = ev tr a') -> forall tr, ev tr (EBin op a b) = ev tr (EBin op a' b).
  Proof. intros op a a' b [ -> | [ -> | -> ] ] H tr; cbn [eval]; rewrite H; reflexivity. Qed.

  Lemma comma_congr_r : forall a b b',
    (forall tr, ev tr b = ev tr b') -> forall tr, ev tr (EBin BComma a b) = ev tr (EBin BComma a b').
  Proof.
    intros a b b' H tr. cbn [eval]. apply bind_ext. intros; apply H.
  Qed.

  Theorem join_left_assoc_equiv_all : forall op, short_circuit op ->
    forall b a tr, ev tr (join_left op a b) = ev tr (EBin op a b).
  Proof.
    intros op Hop. unfold join_left.
    assert (Hne : binop_eqb BComma op = false) by (destruct Hop as [ -> | [ -> | -> ] ]; reflexivity).
    induction b as [| | | | | | | | | | | | | | | | | | op' bl IHl br IHr | | | | | | |];
      intros a;
      try (induction a as [| | | | | | | | | | | | | | | | | | opa al IHal ar IHar | | | | | | |]; intros tr;
           cbn [join_left_assoc]; try reflexivity;
           destruct opa; try reflexivity;
           rewrite sc_comma by assumption; apply comma_congr_r; exact IHar).
    (* b = EBin op' bl br *)
    induction a as [| | | | | | | | | | | | | | | | | | opa al IHal ar IHar | | | | | | |]; intros tr;
      cbn [join_left_assoc];
      try (destruct (binop_eqb op' op) eqn:Hop';
           [ apply internal_binop_dec_bl in Hop'; subst op';
             rewrite IHr; rewrite <- sc_assoc by assumption; apply sc_congr_l; [assumption|]; intros; apply IHl
           | reflexivity ]).
    destruct opa;
      try (destruct (binop_eqb op' op) eqn:Hop';
           [ apply internal_binop_dec_bl in Hop'; subst op';
             rewrite IHr; rewrite <- sc_assoc by assumption; apply sc_congr_l; [assumption|]; intros; apply IHl
           | reflexivity ]).
    rewrite sc_comma by assumption. apply comma_congr_r. exact IHar.
  Qed.

  (* ---- ToNullOrUndefinedWithSideEffects ------------------------------------------
     needs what the standard guarantees about the operators left abstract:
     + - ~ and the arithmetic / relational / equality operators never produce
     null or undefined *)
  Hypothesis Wok : world_ok W.

  Lemma numeric_nn : forall w, is_numeric w = true -> nullish w = false.
  Proof. destruct w; cbn; congruence. Qed.

  Lemma un_not_nullish : forall op v t tr' w, w_un W op v t = (tr', Val w) -> nullish w = false.
  Proof. intros. apply numeric_nn. eapply ok_un_numeric; eauto. Qed.

  Lemma bin_not_nullish : forall op a b t tr' w, (is_sem_binop op = true \/ op = BLooseEq) ->
    w_bin W op a b t = (tr', Val w) -> nullish w = false.
  Proof.
    intros op a b t tr' w Hop H.
    destruct (is_arith op) eqn:Ha.
    - apply numeric_nn. eapply ok_arith; eauto.
    - destruct (is_boolop op) eqn:Hb.
      + pose proof (ok_boolop W Wok _ _ _ _ _ _ Hb H). destruct w; cbn in *; congruence.
      + assert (op = BAdd) by (destruct Hop as [Hop|Hop]; [destruct op; cbn in *; congruence | subst; discriminate]).
        subst op. pose proof (ok_add_prim W Wok _ _ _ _ _ H). destruct w; cbn in *; congruence.
  Qed.

  Lemma apply_bin_nn : forall op tr a b tr' w, (is_sem_binop op = true \/ op = BLooseEq) ->
    apply_bin W op tr a b = Some (tr', Val w) -> nullish w = false.
  Proof.
    intros op tr a b tr' w Hop H. unfold apply_bin in H.
    apply eff_inv in H as (t2 & E & _). eapply bin_not_nullish; eauto.
  Qed.

  Lemma binop_operands : forall op tr l r tr' w, (is_sem_binop op = true \/ op = BLooseEq) ->
    bind (ev tr l) (fun tr1 x => bind (ev tr1 r) (fun tr2 y => apply_bin W op tr2 x y)) = Some (tr', Val w) ->
    nullish w = false.
  Proof.
    intros op tr l r tr' w Hop H.
    apply bind_inv in H as [(tr1 & x & Hx & Hk)|(x & Hx & Ho)]; [|discriminate].
    apply bind_inv in Hk as [(tr2 & y & Hy & Hk2)|(y & Hy & Ho)]; [|discriminate].
    eapply apply_bin_nn; eauto.
  Qed.

  Theorem to_nullish_sound_all : forall e tr tr' out b se,
    flags_ok W e ->
    ev tr e = Some (tr', out) -> to_nullish e = (b, se, true) ->
    (forall v, out = Val v -> nullish v = b) /\ (se = true -> tr' = tr /\ exists v, out = Val v).
  Proof.
    induction e; intros tr tr' out b0 se Hwf Hev Hb; cbn [to_nullish] in Hb; try discriminate.
    - inv Hb. cbn in Hev. inv Hev. split; [intros v0 E0; inv E0; reflexivity | eauto].
    - inv Hb. cbn in Hev. inv Hev. split; [intros v0 E0; inv E0; reflexivity | eauto].
    - inv Hb. cbn in Hev. inv Hev. split; [intros v0 E0; inv E0; reflexivity | eauto].
    - inv Hb. cbn in Hev. inv Hev. split; [intros v0 E0; inv E0; reflexivity | eauto].
    - (* EBig *) inv Hb. cbn [eval] in Hev. destruct (big_value s); [|discriminate]. inv Hev.
      split; [intros v0 E0; inv E0; reflexivity | eauto].
    - inv Hb. cbn in Hev. inv Hev. split; [intros v0 E0; inv E0; reflexivity | eauto].
    - inv Hb. cbn in Hev. inv Hev. split; [intros v0 E0; inv E0; reflexivity | eauto].
    - inv Hb. cbn in Hev. inv Hev. split; [intros v0 E0; inv E0; reflexivity | eauto].
    - inv Hb. cbn in Hev. inv Hev. split; [intros v0 E0; inv E0; reflexivity | eauto].
    - (* EUn *)
      destruct Hwf as [Hty Hwf].
      destruct op; inv Hb; cbn [eval] in Hev; try discriminate.
      + (* UPos *) split; [|discriminate]. intros v0 E0. subst out.
        apply bind_inv in Hev as [(tr1 & x & Hx & Hk)|(x & Hx & Ho)]; [|discriminate].
        apply eff_inv in Hk as (t2 & E & _). eapply un_not_nullish; eauto.
      + split; [|discriminate]. intros v0 E0. subst out.
        apply bind_inv in Hev as [(tr1 & x & Hx & Hk)|(x & Hx & Ho)]; [|discriminate].
        apply eff_inv in Hk as (t2 & E & _). eapply un_not_nullish; eauto.
      + split; [|discriminate]. intros v0 E0. subst out.
        apply bind_inv in Hev as [(tr1 & x & Hx & Hk)|(x & Hx & Ho)]; [|discriminate].
        apply eff_inv in Hk as (t2 & E & _). eapply un_not_nullish; eauto.
      + (* UNot *) split; [|discriminate]. intros v0 E0. subst out.
        apply bind_inv in Hev as [(tr1 & x & Hx & Hk)|(x & Hx & Ho)]; [|discriminate]. inv Hk. reflexivity.
      + (* UVoid *) split; [|discriminate]. intros v0 E0. subst out.
        apply bind_inv in Hev as [(tr1 & x & Hx & Hk)|(x & Hx & Ho)]; [|discriminate]. inv Hk. reflexivity.
      + (* UTypeof *)
        destruct se.
        * destruct (Hty eq_refl eq_refl) as (r & c & m & ->).
          destruct (w_unbound W r); [destruct (w_genv W r)|]; inv Hev;
            (split; [intros v0 E0; inv E0; reflexivity | eauto]).
        * split; [|discriminate].
          intros v0 E0. subst out.
          destruct e; try (apply bind_inv in Hev as [(tr1 & x & Hx & Hk)|(x & Hx & Ho)]; [inv Hk; reflexivity | discriminate]).
    - (* EBin *)
      destruct Hwf as [Hwl Hwr].
      destruct op; cbn [eval is_sem_binop] in Hev; try discriminate;
        try (inv Hb; split; [|discriminate]; intros v0 E0; subst out; eapply binop_operands; [|exact Hev]; auto).
      + (* BAdd: the symbol special case throws, otherwise abstract *)
        inv Hb. split; [|discriminate]. intros v0 E0. subst out.
        apply bind_inv in Hev as [(tr1 & x & Hx & Hk)|(x & Hx & Ho)]; [|discriminate].
        apply bind_inv in Hk as [(tr2 & y & Hy & Hk2)|(y & Hy & Ho)]; [|discriminate].
        unfold add_values in Hk2.
        destruct (is_object x || is_object y); [eapply apply_bin_nn; [|exact Hk2]; auto|].
        destruct x, y; try discriminate; (eapply apply_bin_nn; [|exact Hk2]; auto).
      + (* BLooseNe *)
        inv Hb. split; [|discriminate]. intros v0 E0. subst out.
        unfold neg_outcome in Hev.
        destruct (bind _ _) as [[t [w|w]]|]; try discriminate.
        destruct w; try discriminate. inv Hev. reflexivity.
      + (* BStrictEq *)
        inv Hb. split; [|discriminate]. intros v0 E0. subst out.
        apply bind_inv in Hev as [(tr1 & x & Hx & Hk)|(x & Hx & Ho)]; [|discriminate].
        apply bind_inv in Hk as [(tr2 & y & Hy & Hk2)|(y & Hy & Ho)]; [|discriminate].
        destruct (strict_eq x y); inv Hk2. reflexivity.
      + (* BStrictNe *)
        inv Hb. split; [|discriminate]. intros v0 E0. subst out.
        apply bind_inv in Hev as [(tr1 & x & Hx & Hk)|(x & Hx & Ho)]; [|discriminate].
        apply bind_inv in Hk as [(tr2 & y & Hy & Hk2)|(y & Hy & Ho)]; [|discriminate].
        destruct (strict_eq x y); inv Hk2. reflexivity.
      + (* BComma *)
        destruct (to_nullish e2) as [[b' se'] ok'] eqn:Hte.
        destruct ok'; [|discriminate]. inv Hb.
        split; [|discriminate].
        intros v0 E0. subst out.
        apply bind_inv in Hev as [(tr1 & x & Hx & Hk)|(x & Hx & Ho)]; [|discriminate].
        destruct (IHe2 _ _ _ _ _ Hwr Hk eq_refl) as [H1 _]. apply H1. reflexivity.
    - (* EArray *)
      inv Hb. split; [|discriminate]. intros v0 E0. subst out.
      rewrite eval_array_eq in Hev.
      apply lbind_inv in Hev as [(tr1 & vs & _ & Hk)|(x & _ & Ho)]; [inv Hk; reflexivity | discriminate].
    - (* EObject *)
      inv Hb. split; [|discriminate]. intros v0 E0. subst out.
      rewrite eval_object_eq in Hev. apply props_value in Hev. subst v0. reflexivity.
    - (* EAnnot *)
      destruct (to_nullish e) as [[b' se'] ok'] eqn:Hte. inv Hb.
      cbn [eval] in Hev. cbn [flags_ok] in Hwf. destruct Hwf as [Hpure Hwf].
      destruct (IHe _ _ _ _ _ Hwf Hev eq_refl) as [H1 H2]. split; [exact H1|].
      intros Hs. destruct removable; [|exact (H2 Hs)].
      destruct (Hpure eq_refl tr) as [v Hv]. rewrite Hv in Hev. inv Hev. eauto.
    - (* EInlinedEnum *)
      cbn [eval] in Hev. cbn [flags_ok] in Hwf. exact (IHe _ _ _ _ _ Hwf Hev Hb).
  Qed.
End Proofs2.
