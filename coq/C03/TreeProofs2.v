(* More soundness lemmas over MiniJS: ToNullOrUndefinedWithSideEffects and
   JoinWithLeftAssociativeOp *)
From V Require Import Common.Base C03.Num C03.Tree C03.MiniJS C03.TreeProofs.

Section Proofs2.
  Variable unbound : Z -> bool.
  Variable lenv : Z -> value.
  Variable genv : Z -> option value.
  Variable oracle : Z -> nat -> outcome.
  Variable un_sem : unop -> value -> nat -> trace * outcome.
  Variable bin_sem : binop -> value -> value -> nat -> trace * outcome.

  Notation ev := (eval unbound lenv genv oracle un_sem bin_sem).

  (* ---- JoinWithLeftAssociativeOp: a op b, re-associated, evaluates the same ---- *)
  Definition short_circuit (op : binop) : Prop := op = BLogAnd \/ op = BLogOr \/ op = BNullish.

  Lemma bind_assoc_eq : forall r k1 k2,
    (forall t v, k1 t v = k2 t v) -> bind r k1 = bind r k2.
  Proof. intros [[t [v|x]]|] k1 k2 H; cbn; auto. Qed.

  (* (a op b) op c  =  a op (b op c)  for the three short-circuit operators *)
  Lemma sc_assoc : forall op a b c tr, short_circuit op ->
    ev tr (EBin op (EBin op a b) c) = ev tr (EBin op a (EBin op b c)).
  Proof.
    intros op a b c tr [ -> | [ -> | -> ] ]; cbn [eval];
      destruct (ev tr a) as [[t1 [x|x]]|]; cbn [bind]; try reflexivity.
    - destruct (truthy x) eqn:Hx; cbn [bind]; [reflexivity | rewrite Hx; reflexivity].
    - destruct (truthy x) eqn:Hx; cbn [bind]; [rewrite Hx; reflexivity | reflexivity].
    - destruct (nullish x) eqn:Hx; cbn [bind]; [reflexivity | rewrite Hx; reflexivity].
  Qed.

  (* (a1, a2) op b  =  a1, (a2 op b) *)
  Lemma sc_comma : forall op a1 a2 b tr, short_circuit op ->
    ev tr (EBin op (EBin BComma a1 a2) b) = ev tr (EBin BComma a1 (EBin op a2 b)).
  Proof.
    intros op a1 a2 b tr [ -> | [ -> | -> ] ]; cbn [eval];
      destruct (ev tr a1) as [[t1 [x|x]]|]; cbn [bind]; reflexivity.
  Qed.

  (* evaluation only depends on the evaluation of the operands *)
  Lemma sc_congr_l : forall op a a' b, short_circuit op ->
    (forall tr, ev tr a = ev tr a') -> forall tr, ev tr (EBin op a b) = ev tr (EBin op a' b).
  Proof. intros op a a' b [ -> | [ -> | -> ] ] H tr; cbn [eval]; rewrite H; reflexivity. Qed.

  Lemma comma_congr_r : forall a b b',
    (forall tr, ev tr b = ev tr b') -> forall tr, ev tr (EBin BComma a b) = ev tr (EBin BComma a b').
  Proof.
    intros a b b' H tr. cbn [eval]. apply bind_assoc_eq. intros; apply H.
  Qed.

  Theorem join_left_assoc_equiv_all : forall op, short_circuit op ->
    forall b a tr, ev tr (join_left op a b) = ev tr (EBin op a b).
  Proof.
    intros op Hop. unfold join_left.
    assert (Hne : binop_eqb BComma op = false) by (destruct Hop as [ -> | [ -> | -> ] ]; reflexivity).
    induction b as [| | | | | | | | | | | | | | | | | | op' bl IHl br IHr | | | | | | |];
      intros a;
      try (induction a as [| | | | | | | | | | | | | | | | | | opa al IHal ar IHar | | | | | | |]; intros tr;
           cbn [join_left_assoc]; try reflexivity;
           destruct opa; try reflexivity;
           rewrite sc_comma by assumption; apply comma_congr_r; exact IHar).
    (* b = EBin op' bl br *)
    induction a as [| | | | | | | | | | | | | | | | | | opa al IHal ar IHar | | | | | | |]; intros tr;
      cbn [join_left_assoc];
      try (destruct (binop_eqb op' op) eqn:Hop';
           [ apply internal_binop_dec_bl in Hop'; subst op';
             rewrite IHr; rewrite <- sc_assoc by assumption; apply sc_congr_l; [assumption|]; intros; apply IHl
           | reflexivity ]).
    destruct opa;
      try (destruct (binop_eqb op' op) eqn:Hop';
           [ apply internal_binop_dec_bl in Hop'; subst op';
             rewrite IHr; rewrite <- sc_assoc by assumption; apply sc_congr_l; [assumption|]; intros; apply IHl
           | reflexivity ]).
    rewrite sc_comma by assumption. apply comma_congr_r. exact IHar.
  Qed.

  (* ---- ToNullOrUndefinedWithSideEffects ------------------------------------------
     needs what the standard guarantees about the operators left abstract:
     + - ~ and the arithmetic / relational / equality operators never produce
     null or undefined *)
  Hypothesis un_not_nullish : forall op v t tr' w, un_sem op v t = (tr', Val w) -> nullish w = false.
  Hypothesis bin_not_nullish : forall op a b t tr' w, bin_sem op a b t = (tr', Val w) -> nullish w = false.

  Lemma apply_bin_nn : forall op tr a b tr' w,
    apply_bin bin_sem op tr a b = Some (tr', Val w) -> nullish w = false.
  Proof.
    intros op tr a b tr' w H. unfold apply_bin in H.
    destruct (bin_sem op a b (length tr)) as [t2 o] eqn:E. inv H. eapply bin_not_nullish; eauto.
  Qed.

  Lemma binop_operands : forall op tr l r tr' w,
    bind (ev tr l) (fun tr1 x => bind (ev tr1 r) (fun tr2 y => apply_bin bin_sem op tr2 x y)) = Some (tr', Val w) ->
    nullish w = false.
  Proof.
    intros op tr l r tr' w H.
    apply bind_inv in H as [(tr1 & x & Hx & Hk)|(x & Hx & Ho)]; [|discriminate].
    apply bind_inv in Hk as [(tr2 & y & Hy & Hk2)|(y & Hy & Ho)]; [|discriminate].
    eapply apply_bin_nn; eauto.
  Qed.

  Theorem to_nullish_sound_all : forall e tr tr' out b se,
    wf_flags e ->
    ev tr e = Some (tr', out) -> to_nullish e = (b, se, true) ->
    (forall v, out = Val v -> nullish v = b) /\ (se = true -> tr' = tr /\ exists v, out = Val v).
  Proof.
    induction e; intros tr tr' out b0 se Hwf Hev Hb; cbn [to_nullish] in Hb; try discriminate.
    - inv Hb. cbn in Hev. inv Hev. split; [intros v0 E0; inv E0; reflexivity | eauto].
    - inv Hb. cbn in Hev. inv Hev. split; [intros v0 E0; inv E0; reflexivity | eauto].
    - inv Hb. cbn in Hev. inv Hev. split; [intros v0 E0; inv E0; reflexivity | eauto].
    - inv Hb. cbn in Hev. inv Hev. split; [intros v0 E0; inv E0; reflexivity | eauto].
    - (* EBig *) inv Hb. cbn [eval] in Hev. destruct (big_value s); [|discriminate]. inv Hev.
      split; [intros v0 E0; inv E0; reflexivity | eauto].
    - inv Hb. cbn in Hev. inv Hev. split; [intros v0 E0; inv E0; reflexivity | eauto].
    - inv Hb. cbn in Hev. inv Hev. split; [intros v0 E0; inv E0; reflexivity | eauto].
    - inv Hb. cbn in Hev. inv Hev. split; [intros v0 E0; inv E0; reflexivity | eauto].
    - inv Hb. cbn in Hev. inv Hev. split; [intros v0 E0; inv E0; reflexivity | eauto].
    - (* EUn *)
      destruct Hwf as [Hty Hwf].
      destruct op; inv Hb; cbn [eval] in Hev; try discriminate.
      + (* UPos *) split; [|discriminate]. intros v0 E0. subst out.
        apply bind_inv in Hev as [(tr1 & x & Hx & Hk)|(x & Hx & Ho)]; [|discriminate].
        destruct (un_sem UPos x (length tr1)) as [t2 o] eqn:E. inv Hk. eapply un_not_nullish; eauto.
      + split; [|discriminate]. intros v0 E0. subst out.
        apply bind_inv in Hev as [(tr1 & x & Hx & Hk)|(x & Hx & Ho)]; [|discriminate].
        destruct (un_sem UNeg x (length tr1)) as [t2 o] eqn:E. inv Hk. eapply un_not_nullish; eauto.
      + split; [|discriminate]. intros v0 E0. subst out.
        apply bind_inv in Hev as [(tr1 & x & Hx & Hk)|(x & Hx & Ho)]; [|discriminate].
        destruct (un_sem UCpl x (length tr1)) as [t2 o] eqn:E. inv Hk. eapply un_not_nullish; eauto.
      + (* UNot *) split; [|discriminate]. intros v0 E0. subst out.
        apply bind_inv in Hev as [(tr1 & x & Hx & Hk)|(x & Hx & Ho)]; [|discriminate]. inv Hk. reflexivity.
      + (* UVoid *) split; [|discriminate]. intros v0 E0. subst out.
        apply bind_inv in Hev as [(tr1 & x & Hx & Hk)|(x & Hx & Ho)]; [|discriminate]. inv Hk. reflexivity.
      + (* UTypeof *)
        destruct se.
        * destruct (Hty eq_refl eq_refl) as (r & c & m & ->).
          destruct (unbound r); [destruct (genv r)|]; inv Hev;
            (split; [intros v0 E0; inv E0; reflexivity | eauto]).
        * split; [|discriminate].
          intros v0 E0. subst out.
          destruct e; try (apply bind_inv in Hev as [(tr1 & x & Hx & Hk)|(x & Hx & Ho)]; [inv Hk; reflexivity | discriminate]).
          destruct (unbound ref); [destruct (genv ref)|]; inv Hev; reflexivity.
    - (* EBin *)
      destruct Hwf as [Hwl Hwr].
      destruct op; cbn [eval is_sem_binop] in Hev; try discriminate;
        try (inv Hb; split; [|discriminate]; intros v0 E0; subst out; eapply binop_operands; exact Hev).
      + (* BAdd: the symbol special case throws, otherwise abstract *)
        inv Hb. split; [|discriminate]. intros v0 E0. subst out.
        apply bind_inv in Hev as [(tr1 & x & Hx & Hk)|(x & Hx & Ho)]; [|discriminate].
        apply bind_inv in Hk as [(tr2 & y & Hy & Hk2)|(y & Hy & Ho)]; [|discriminate].
        destruct x, y; try discriminate; eapply apply_bin_nn; eauto.
      + (* BLooseNe *)
        inv Hb. split; [|discriminate]. intros v0 E0. subst out.
        unfold neg_outcome in Hev.
        destruct (bind _ _) as [[t [w|w]]|]; try discriminate.
        destruct w; try discriminate. inv Hev. reflexivity.
      + (* BStrictEq *)
        inv Hb. split; [|discriminate]. intros v0 E0. subst out.
        apply bind_inv in Hev as [(tr1 & x & Hx & Hk)|(x & Hx & Ho)]; [|discriminate].
        apply bind_inv in Hk as [(tr2 & y & Hy & Hk2)|(y & Hy & Ho)]; [|discriminate].
        destruct (strict_eq x y); inv Hk2. reflexivity.
      + (* BStrictNe *)
        inv Hb. split; [|discriminate]. intros v0 E0. subst out.
        apply bind_inv in Hev as [(tr1 & x & Hx & Hk)|(x & Hx & Ho)]; [|discriminate].
        apply bind_inv in Hk as [(tr2 & y & Hy & Hk2)|(y & Hy & Ho)]; [|discriminate].
        destruct (strict_eq x y); inv Hk2. reflexivity.
      + (* BComma *)
        destruct (to_nullish e2) as [[b' se'] ok'] eqn:Hte.
        destruct ok'; [|discriminate]. inv Hb.
        split; [|discriminate].
        intros v0 E0. subst out.
        apply bind_inv in Hev as [(tr1 & x & Hx & Hk)|(x & Hx & Ho)]; [|discriminate].
        destruct (IHe2 _ _ _ _ _ Hwr Hk eq_refl) as [H1 _]. apply H1. reflexivity.
    - (* EArray *)
      inv Hb. split; [|discriminate]. intros v0 E0. subst out.
      destruct items; cbn in Hev; [inv Hev; reflexivity | discriminate].
    - (* EObject *)
      inv Hb. split; [|discriminate]. intros v0 E0. subst out.
      destruct props as [|[[[k c] key] val] props]; cbn [eval] in Hev; [inv Hev; reflexivity|].
      destruct k; try discriminate. destruct c; try discriminate. destruct props; try discriminate.
      apply bind_inv in Hev as [(tr1 & x & Hx & Hk)|(x & Hx & Ho)]; [|discriminate].
      destruct x; try discriminate;
        (apply bind_inv in Hk as [(tr2 & y & Hy & Hk2)|(y & Hy & Ho)]; [inv Hk2; reflexivity | discriminate]).
    - (* EAnnot *)
      destruct (to_nullish e) as [[b' se'] ok'] eqn:Hte. inv Hb.
      cbn [eval] in Hev. destruct removable; [discriminate|].
      cbn [wf_flags] in Hwf. exact (IHe _ _ _ _ _ Hwf Hev eq_refl).
    - (* EInlinedEnum *)
      cbn [eval] in Hev. cbn [wf_flags] in Hwf. exact (IHe _ _ _ _ _ Hwf Hev Hb).
  Qed.
End Proofs2.
