(* An expression never completes with the internal short-circuit marker: optional
   chains end inside the expression that contains them *)
From V Require Import Common.Base C03.Num C03.Tree C03.MiniJS C03.Worlds C03.TreeProofs C03.TreeProofs4.

Section NoShort.
  Variable W : world.
  Notation ev := (eval W).

  Definition ns (r : option (trace * outcome)) : Prop := forall t, r <> Some (t, Throw VShort).

  Lemma ns_eff : forall tr f, ns (eff tr f).
  Proof.
    intros tr f t H. unfold eff in H. destruct (f (length tr)) as [t2 [v|x]]; [discriminate|].
    destruct x; discriminate.
  Qed.
  Lemma ns_bind : forall r k, ns r -> (forall t v, ns (k t v)) -> ns (bind r k).
  Proof.
    intros [[t0 [v|x]]|] k Hr Hk t H; cbn [bind] in H; [exact (Hk _ _ _ H) | apply (Hr t0); congruence | discriminate].
  Qed.
  Lemma ns_catch : forall r, ns (catch_short r).
  Proof. intros [[t0 [v|x]]|] t H; cbn in H; try discriminate. destruct x; discriminate. Qed.
  Lemma ns_val : forall t v, ns (Some (t, Val v)).
  Proof. intros t v t0 H. discriminate. Qed.

  Definition nsl (r : option (trace * lres)) : Prop := forall t, r <> Some (t, LThrow VShort).

  Lemma ns_lbind : forall r k, nsl r -> (forall t vs, ns (k t vs)) -> ns (lbind r k).
  Proof.
    intros [[t0 [vs|x]]|] k Hr Hk t H; cbn [lbind] in H; [exact (Hk _ _ _ H) | apply (Hr t0); congruence | discriminate].
  Qed.

  Lemma nsl_lstep : forall r acc k, ns r -> (forall t a, nsl (k t a)) -> nsl (lstep r acc k).
  Proof.
    intros [[t0 [v|x]]|] acc k Hr Hk t H; cbn [lstep] in H; [exact (Hk _ _ _ H) | apply (Hr t0); congruence | discriminate].
  Qed.

  Lemma nsl_items : forall n, (forall y, (esize y <= n)%nat -> forall t, ns (ev t y)) ->
    forall l tr acc, (sum_sizes l <= n)%nat -> nsl (eval_items_with W ev tr l acc).
  Proof.
    intros n Hn. induction l as [|x r IH]; intros tr acc Hs; cbn [eval_items_with]; [intros t H; discriminate|].
    cbn [sum_sizes] in Hs.
    destruct x; try (apply nsl_lstep; [apply Hn; cbn [esize] in *; lia | intros; apply IH; lia]).
    - apply IH; lia.
    - apply nsl_lstep; [|intros; apply IH; lia].
      apply ns_bind; [apply Hn; cbn [esize] in *; lia | intros; apply ns_eff].
  Qed.

  Lemma ns_props : forall n, (forall y, (esize y <= n)%nat -> forall t, ns (ev t y)) ->
    forall l tr, (sum_props l <= n)%nat -> ns (eval_props_with W ev tr l).
  Proof.
    intros n Hn. induction l as [|[[[kind computed] key] value] r IH]; intros tr Hs; cbn [eval_props_with]; [apply ns_val|].
    cbn [sum_props] in Hs.
    destruct (kind =? 1); [|destruct computed].
    - apply ns_bind; [apply Hn; lia|]. intros. apply ns_bind; [apply ns_eff|]. intros. apply IH. lia.
    - apply ns_bind; [apply Hn; lia|]. intros. apply ns_bind; [apply ns_eff|]. intros.
      apply ns_bind; [apply Hn; lia|]. intros. apply IH. lia.
    - apply ns_bind; [apply Hn; lia|]. intros. apply IH. lia.
  Qed.

  Lemma ns_parts : forall n, (forall y, (esize y <= n)%nat -> forall t, ns (ev t y)) ->
    forall l tr acc, (sum_parts l <= n)%nat -> ns (eval_parts_with W ev tr l acc).
  Proof.
    intros n Hn. induction l as [|[v tl] r IH]; intros tr acc Hs; cbn [eval_parts_with]; [apply ns_val|].
    cbn [sum_parts] in Hs.
    apply ns_bind; [apply Hn; lia|]. intros. apply ns_bind; [apply ns_eff|]. intros t0 sv.
    destruct sv; try (intros t1 H; discriminate). apply IH. lia.
  Qed.

  Theorem eval_no_short_size : forall n e, (esize e <= n)%nat -> forall tr, ns (ev tr e).
  Proof.
    induction n as [|n IH]; intros e Hsz tr; [destruct e; cbn [esize] in Hsz; lia|].
    destruct e; try (cbn [eval]; first [apply ns_val | intros t H; discriminate]).
    - (* EBig *) cbn [eval]. destruct (big_value s); [apply ns_val | intros t H; discriminate].
    - (* EId *) cbn [eval]. destruct (w_unbound W ref); [destruct (w_genv W ref)|]; intros t H; discriminate.
    - rewrite eval_dot_eq. apply ns_catch.
    - rewrite eval_index_eq. apply ns_catch.
    - rewrite eval_call_eq. apply ns_catch.
    - (* ENew *)
      rewrite eval_new_eq. rewrite esize_new in Hsz.
      apply ns_bind; [apply IH; lia|]. intros. apply ns_lbind; [apply nsl_items with (n := n); [exact IH | lia] | intros; apply ns_eff].
    - (* EUn *)
      cbn [esize] in Hsz. cbn [eval].
      destruct op; try (intros t H; discriminate);
        try (apply ns_bind; [apply IH; lia | intros; first [apply ns_eff | apply ns_val]]).
      destruct e; try (apply ns_bind; [apply IH; cbn [esize] in *; lia | intros; apply ns_val]).
      destruct wasTypeofId; [|apply ns_bind; [apply IH; cbn [esize] in *; lia | intros; apply ns_val]].
      destruct (w_unbound W ref); [destruct (w_genv W ref)|]; apply ns_val.
    - (* EBin *)
      cbn [esize] in Hsz. cbn [eval].
      assert (H1 : forall t, ns (ev t e1)) by (intros; apply IH; lia).
      assert (H2 : forall t, ns (ev t e2)) by (intros; apply IH; lia).
      destruct op; cbn [is_sem_binop]; try (intros t H; discriminate);
        try (apply ns_bind; [apply H1|]; intros; apply ns_bind; [apply H2|]; intros; unfold apply_bin; apply ns_eff).
      + (* BAdd *)
        apply ns_bind; [apply H1|]. intros. apply ns_bind; [apply H2|]. intros. unfold add_values, apply_bin.
        destruct (is_object v || is_object v0); [apply ns_eff|].
        destruct v, v0; try apply ns_eff; intros t1 H; discriminate.
      + (* BLooseNe *)
        unfold neg_outcome.
        assert (Hb : ns (bind (ev tr e1) (fun tr1 x => bind (ev tr1 e2) (fun tr2 y => apply_bin W BLooseEq tr2 x y)))).
        { apply ns_bind; [apply H1|]. intros. apply ns_bind; [apply H2|]. intros. unfold apply_bin. apply ns_eff. }
        destruct (bind (ev tr e1) _) as [[t0 [v|x]]|]; [destruct v; intros t H; discriminate | exact Hb | intros t H; discriminate].
      + (* BStrictEq *)
        apply ns_bind; [apply H1|]. intros. apply ns_bind; [apply H2|]. intros. destruct (strict_eq v v0); intros t1 H; discriminate.
      + apply ns_bind; [apply H1|]. intros. apply ns_bind; [apply H2|]. intros. destruct (strict_eq v v0); intros t1 H; discriminate.
      + (* BNullish *) apply ns_bind; [apply H1|]. intros. destruct (nullish v); [apply H2 | apply ns_val].
      + apply ns_bind; [apply H1|]. intros. destruct (truthy v); [apply ns_val | apply H2].
      + apply ns_bind; [apply H1|]. intros. destruct (truthy v); [apply H2 | apply ns_val].
      + (* BComma *) apply ns_bind; [apply H1|]. intros. apply H2.
    - (* EIf *)
      cbn [esize] in Hsz. cbn [eval]. apply ns_bind; [apply IH; lia|]. intros. destruct (truthy v); apply IH; lia.
    - (* ETemplate *) rewrite eval_template_eq. rewrite esize_template in Hsz. apply ns_parts with (n := n); [exact IH | lia].
    - (* EArray *)
      rewrite eval_array_eq. rewrite esize_array in Hsz.
      apply ns_lbind; [apply nsl_items with (n := n); [exact IH | lia] | intros; apply ns_val].
    - (* EObject *) rewrite eval_object_eq. rewrite esize_object in Hsz. apply ns_props with (n := n); [exact IH | lia].
    - (* EAnnot *) cbn [esize] in Hsz. cbn [eval]. apply IH. lia.
    - (* EInlinedEnum *) cbn [esize] in Hsz. cbn [eval]. apply IH. lia.
  Qed.

  Theorem eval_no_short : forall e tr t, ev tr e <> Some (t, Throw VShort).
  Proof. intros e tr t. exact (eval_no_short_size (esize e) e (le_n _) tr t). Qed.
End NoShort.
