(* Statement-level mangling (mangleStmts / mangleIf of the parser) by translation
   validation: a small statement AST with a completion-record trace semantics over
   the worlds of MiniJS, a normal form (decision trees of effects, tests and
   completions) that is proved to have the semantics of the statement list, and the
   theorem that two statement lists with the same normal form have the same
   executions.  The check computes the normal forms of the parser's input and of
   what js_parser.Parse returns for it with MinifySyntax and compares them. *)
From V Require Import Common.Base C03.Num C03.Tree C03.MiniJS.

Inductive stmt :=
| SExpr (e : expr)
| SIf (t : expr) (yes no : stmt)                    (* without else: no = SEmpty *)
| SReturn (v : option expr)
| SThrow (e : expr)
| SBreak (l : option Z)
| SContinue (l : option Z)
| SBlock (body : list stmt)
| SLocal (kind : Z) (decls : list (Z * option expr))  (* var / let / const x = e, ... *)
| SLoop (id : Z) (init : option expr)               (* a loop with opaque test / update / body, after its initializer *)
| SLabel (l : Z) (body : stmt)                      (* l: body -- "break l" inside completes it *)
| SEmpty.

Inductive completion :=
| CNormal | CReturn (v : value) | CThrow (v : value) | CBreak (l : option Z) | CContinue (l : option Z).

(* decision trees: the normal form *)
Inductive tree :=
| TEnd
| TRet (v : option expr)
| TThrow (e : expr)
| TBreak (l : option Z)
| TCont (l : option Z)
| TEff (e : expr) (k : tree)
| TIf (e : expr) (k1 k2 : tree)
| TDecl (kind ref : Z) (e : expr) (k : tree)
| TLoop (id : Z) (k : tree).

Definition ebind (r : option (trace * outcome)) (k : trace -> value -> option (trace * completion))
  : option (trace * completion) :=
  match r with
  | Some (tr1, Val v) => k tr1 v
  | Some (tr1, Throw x) => Some (tr1, CThrow x)
  | None => None
  end.

Definition cseq (r : option (trace * completion)) (k : trace -> option (trace * completion))
  : option (trace * completion) :=
  match r with
  | Some (tr1, CNormal) => k tr1
  | other => other
  end.

Section StmtSem.
  Variable W : world.
  (* an opaque loop: runs at the current time, emits events, completes normally or throws *)
  Variable wloop : Z -> nat -> trace * outcome.

  Definition run_loop (id : Z) (tr : trace) : option (trace * completion) :=
    ebind (eff tr (wloop id)) (fun tr1 _ => Some (tr1, CNormal)).

  (* the end of a labelled statement catches "break l" *)
  Definition end_label (l : Z) (r : option (trace * completion)) : option (trace * completion) :=
    match r with
    | Some (tr1, CBreak (Some l')) => if l' =? l then Some (tr1, CNormal) else r
    | _ => r
    end.

  Fixpoint exec (tr : trace) (s : stmt) {struct s} : option (trace * completion) :=
    match s with
    | SExpr e => ebind (eval W tr e) (fun tr1 _ => Some (tr1, CNormal))
    | SIf t y n => ebind (eval W tr t) (fun tr1 v => if truthy v then exec tr1 y else exec tr1 n)
    | SReturn None => Some (tr, CReturn VUndef)
    | SReturn (Some e) => ebind (eval W tr e) (fun tr1 v => Some (tr1, CReturn v))
    | SThrow e => ebind (eval W tr e) (fun tr1 v => Some (tr1, CThrow v))
    | SBreak l => Some (tr, CBreak l)
    | SContinue l => Some (tr, CContinue l)
    | SBlock b =>
        (fix go (tr : trace) (l : list stmt) {struct l} : option (trace * completion) :=
           match l with
           | [] => Some (tr, CNormal)
           | x :: r => cseq (exec tr x) (fun tr1 => go tr1 r)
           end) tr b
    | SLocal _ decls =>
        (fix go (tr : trace) (l : list (Z * option expr)) {struct l} : option (trace * completion) :=
           match l with
           | [] => Some (tr, CNormal)
           | (_, None) :: r => go tr r
           | (_, Some e) :: r => ebind (eval W tr e) (fun tr1 _ => go tr1 r)
           end) tr decls
    | SLoop id None => run_loop id tr
    | SLoop id (Some e) => ebind (eval W tr e) (fun tr1 _ => run_loop id tr1)
    | SLabel l b => end_label l (exec tr b)
    | SEmpty => Some (tr, CNormal)
    end.

  Fixpoint exec_list (tr : trace) (l : list stmt) {struct l} : option (trace * completion) :=
    match l with
    | [] => Some (tr, CNormal)
    | x :: r => cseq (exec tr x) (fun tr1 => exec_list tr1 r)
    end.

  (* a function body: falling off the end returns undefined *)
  Definition exec_fn (tr : trace) (l : list stmt) : option (trace * completion) :=
    cseq (exec_list tr l) (fun tr1 => Some (tr1, CReturn VUndef)).

  Fixpoint exec_tree (tr : trace) (t : tree) {struct t} : option (trace * completion) :=
    match t with
    | TEnd => Some (tr, CNormal)
    | TRet None => Some (tr, CReturn VUndef)
    | TRet (Some e) => ebind (eval W tr e) (fun tr1 v => Some (tr1, CReturn v))
    | TThrow e => ebind (eval W tr e) (fun tr1 v => Some (tr1, CThrow v))
    | TBreak l => Some (tr, CBreak l)
    | TCont l => Some (tr, CContinue l)
    | TEff e k => ebind (eval W tr e) (fun tr1 _ => exec_tree tr1 k)
    | TIf e k1 k2 => ebind (eval W tr e) (fun tr1 v => if truthy v then exec_tree tr1 k1 else exec_tree tr1 k2)
    | TDecl _ _ e k => ebind (eval W tr e) (fun tr1 _ => exec_tree tr1 k)
    | TLoop id k => cseq (run_loop id tr) (fun tr1 => exec_tree tr1 k)
    end.
End StmtSem.

(* ---- the normal form --------------------------------------------------------------------- *)
(* jump leaves compare without looking at expressions *)
Definition oz_eqb (a b : option Z) : bool :=
  match a, b with Some x, Some y => x =? y | None, None => true | _, _ => false end.
Definition leaf_eqb (a b : tree) : bool :=
  match a, b with
  | TEnd, TEnd => true
  | TRet None, TRet None => true
  | TBreak x, TBreak y => oz_eqb x y
  | TCont x, TCont y => oz_eqb x y
  | _, _ => false
  end.

Section Norm.
  (* esbuild's view: identifier not declared in the code (reading it may throw) *)
  Variable unbound : Z -> bool.

  (* reading a declared identifier for its effects does nothing *)
  Definition mk_eff (e : expr) (k : tree) : tree :=
    match e with
    | EId r _ _ => if unbound r then TEff e k else k
    | _ => TEff e k
    end.
  (* a test whose two arms are the same jump is evaluated for its effects only *)
  Definition mk_if (e : expr) (k1 k2 : tree) : tree :=
    if leaf_eqb k1 k2 then mk_eff e k1 else TIf e k1 k2.

  (* the tree of a labelled statement followed by k: normal completion and "break l" go on with k *)
  Fixpoint graft (l : Z) (t k : tree) {struct t} : tree :=
    match t with
    | TEnd => k
    | TBreak (Some l') => if l' =? l then k else t
    | TEff e t1 => TEff e (graft l t1 k)
    | TIf e t1 t2 => mk_if e (graft l t1 k) (graft l t2 k)
    | TDecl ki r e t1 => TDecl ki r e (graft l t1 k)
    | TLoop i t1 => TLoop i (graft l t1 k)
    | _ => t
    end.

  (* an expression evaluated for its effects / as a branch condition: the operators
     the mangler builds statements from (comma, !, void, &&, ||, ?:) become tree structure *)
  Fixpoint split_eff (e : expr) (k : tree) {struct e} : tree :=
    match e with
    | EBin BComma a b => split_eff a (split_eff b k)
    | EBin BLogAnd a b => split_test a (split_eff b k) k
    | EBin BLogOr a b => split_test a k (split_eff b k)
    | EIf t a b => split_test t (split_eff a k) (split_eff b k)
    | EUn UNot a _ => split_eff a k
    | EUn UVoid a _ => split_eff a k
    | _ => mk_eff e k
    end
  with split_test (e : expr) (k1 k2 : tree) {struct e} : tree :=
    match e with
    | EUn UNot a _ => split_test a k2 k1
    | EBin BComma a b => split_eff a (split_test b k1 k2)
    | EBin BLogAnd a b => split_test a (split_test b k1 k2) k2
    | EBin BLogOr a b => split_test a k1 (split_test b k1 k2)
    | EIf t a b => split_test t (split_test a k1 k2) (split_test b k1 k2)
    | _ => mk_if e k1 k2
    end.

  Fixpoint split_ret (e : expr) {struct e} : tree :=
    match e with
    | EIf t a b => split_test t (split_ret a) (split_ret b)
    | EBin BComma a b => split_eff a (split_ret b)
    | EUn UVoid a _ => split_eff a (TRet None)
    | EUndefined => TRet None
    | _ => TRet (Some e)
    end.

  Fixpoint split_throw (e : expr) {struct e} : tree :=
    match e with
    | EIf t a b => split_test t (split_throw a) (split_throw b)
    | EBin BComma a b => split_eff a (split_throw b)
    | _ => TThrow e
    end.

  Fixpoint norm (s : stmt) (k : tree) {struct s} : tree :=
    match s with
    | SExpr e => split_eff e k
    | SIf t y n => split_test t (norm y k) (norm n k)
    | SReturn None => TRet None
    | SReturn (Some e) => split_ret e
    | SThrow e => split_throw e
    | SBreak l => TBreak l
    | SContinue l => TCont l
    | SBlock b =>
        (fix go (l : list stmt) {struct l} : tree :=
           match l with [] => k | x :: r => norm x (go r) end) b
    | SLocal kind decls =>
        (fix go (l : list (Z * option expr)) {struct l} : tree :=
           match l with
           | [] => k
           | (_, None) :: r => go r
           | (ref, Some e) :: r => TDecl kind ref e (go r)
           end) decls
    | SLoop id None => TLoop id k
    | SLoop id (Some e) => split_eff e (TLoop id k)
    | SLabel l b => graft l (norm b TEnd) k
    | SEmpty => k
    end.

  Fixpoint norm_list (l : list stmt) (k : tree) {struct l} : tree :=
    match l with [] => k | x :: r => norm x (norm_list r k) end.

  Definition norm_fn (l : list stmt) : tree := norm_list l (TRet None).
End Norm.

(* the "var" names a statement list declares (hoisted to the function): must survive mangling *)
Fixpoint var_names (s : stmt) {struct s} : list Z :=
  match s with
  | SIf _ y n => var_names y ++ var_names n
  | SBlock b => (fix go (l : list stmt) : list Z := match l with [] => [] | x :: r => var_names x ++ go r end) b
  | SLocal kind decls => if kind =? 0 then map fst decls else []
  | SLabel _ b => var_names b
  | _ => []
  end.
Fixpoint var_names_list (l : list stmt) : list Z :=
  match l with [] => [] | x :: r => var_names x ++ var_names_list r end.

(* ---- comparison of normal forms (used by the check) ---------------------------------------- *)
Definition oe_eqb (a b : option expr) : bool :=
  match a, b with Some x, Some y => expr_eqb x y | None, None => true | _, _ => false end.
Fixpoint tree_eqb (a b : tree) {struct a} : bool :=
  match a, b with
  | TEnd, TEnd => true
  | TRet x, TRet y => oe_eqb x y
  | TThrow x, TThrow y => expr_eqb x y
  | TBreak x, TBreak y => oz_eqb x y
  | TCont x, TCont y => oz_eqb x y
  | TEff x k, TEff y k' => expr_eqb x y && tree_eqb k k'
  | TIf x k1 k2, TIf y k1' k2' => expr_eqb x y && tree_eqb k1 k1' && tree_eqb k2 k2'
  | TDecl ki r x k, TDecl ki' r' y k' => (ki =? ki') && (r =? r') && expr_eqb x y && tree_eqb k k'
  | TLoop i k, TLoop i' k' => (i =? i') && tree_eqb k k'
  | _, _ => false
  end.

Definition subset (a b : list Z) : bool := forallb (fun x => existsb (Z.eqb x) b) a.

(* input and output of the mangler agree: same normal form, no hoisted name lost *)
Definition check_mangle_stmts (unbound : Z -> bool) (c : list stmt * list stmt) : bool :=
  let '(i, o) := c in
  tree_eqb (norm_fn unbound i) (norm_fn unbound o) && subset (var_names_list i) (var_names_list o).
