(* C03 model, part 1: float64 values and the pure numeric cores of
   /repo/internal/js_ast/js_ast_helpers.go:
     ToInt32, ToUint32, StringToEquivalentNumberValue, TryToStringOnNumberSafely,
     stringCompareUCS2, approximatePrintedIntCharCount (integer inputs).
   Executable definitions only.

   A float64 is either NaN, an infinity, or a finite dyadic  (-1)^neg * m * 2^e
   with m >= 0 (zero is m = 0, the sign of zero is kept).  Cases travel as
   64-bit patterns and are decoded by [num_of_bits]. *)
From V Require Import Common.Base.

Inductive num :=
| NaN
| Inf (neg : bool)
| Fin (neg : bool) (m : Z) (e : Z).

Definition wf_num (x : num) : Prop :=
  match x with Fin _ m _ => 0 <= m | _ => True end.

Definition two31 : Z := 2147483648.
Definition two32 : Z := 4294967296.
Definition two52 : Z := 4503599627370496.
Definition two53 : Z := 9007199254740992.

(* IEEE-754 binary64 decoding of a 64-bit pattern *)
Definition num_of_bits (b : Z) : num :=
  let s := Z.odd (Z.shiftr b 63) in
  let ex := Z.land (Z.shiftr b 52) 2047 in
  let fr := Z.land b (two52 - 1) in
  if ex =? 2047 then (if fr =? 0 then Inf s else NaN)
  else if ex =? 0 then Fin s fr (-1074)
  else Fin s (fr + two52) (ex - 1075).

Definition signed (neg : bool) (z : Z) : Z := if neg then - z else z.

(* floor of |x| for a finite dyadic *)
Definition trunc_abs (m e : Z) : Z := if 0 <=? e then m * 2 ^ e else m / 2 ^ (- e).
Definition is_int (m e : Z) : bool := if 0 <=? e then true else (m mod 2 ^ (- e) =? 0).

(* value equality of numbers (IEEE ==): NaN unequal to everything, +0 == -0 *)
Definition fin_cmp (s1 : bool) (m1 e1 : Z) (s2 : bool) (m2 e2 : Z) : comparison :=
  (* compare signed dyadics exactly by bringing them to the common exponent *)
  let e := Z.min e1 e2 in
  Z.compare (signed s1 (m1 * 2 ^ (e1 - e))) (signed s2 (m2 * 2 ^ (e2 - e))).

(* None = unordered (a NaN is involved) *)
Definition num_cmp (a b : num) : option comparison :=
  match a, b with
  | NaN, _ | _, NaN => None
  | Inf s1, Inf s2 => Some (if Bool.eqb s1 s2 then Eq else if s1 then Lt else Gt)
  | Inf s1, Fin _ _ _ => Some (if s1 then Lt else Gt)
  | Fin _ _ _, Inf s2 => Some (if s2 then Gt else Lt)
  | Fin s1 m1 e1, Fin s2 m2 e2 => Some (fin_cmp s1 m1 e1 s2 m2 e2)
  end.
Definition num_eq (a b : num) : bool := match num_cmp a b with Some Eq => true | _ => false end.
Definition num_lt (a b : num) : bool := match num_cmp a b with Some Lt => true | _ => false end.
Definition num_gt (a b : num) : bool := match num_cmp a b with Some Gt => true | _ => false end.
Definition num_le (a b : num) : bool := match num_cmp a b with Some Lt | Some Eq => true | _ => false end.
Definition num_ge (a b : num) : bool := match num_cmp a b with Some Gt | Some Eq => true | _ => false end.

Definition is_zero (a : num) : bool := match a with Fin _ m _ => m =? 0 | _ => false end.
Definition is_nan (a : num) : bool := match a with NaN => true | _ => false end.
Definition signbit (a : num) : bool := match a with Fin s _ _ | Inf s => s | NaN => false end.

(* identity of float values as the harness sees them (bit pattern up to the
   NaN payload): same class, same sign (also of zero), same value *)
Definition num_same (a b : num) : bool :=
  match a, b with
  | NaN, NaN => true
  | Inf s1, Inf s2 => Bool.eqb s1 s2
  | Fin s1 m1 e1, Fin s2 m2 e2 => Bool.eqb s1 s2 && (m1 * 2 ^ (e1 - Z.min e1 e2) =? m2 * 2 ^ (e2 - Z.min e1 e2))
  | _, _ => false
  end.

Definition num_of_Z (z : Z) : num := Fin (z <? 0) (Z.abs z) 0.

(* ---- Go conversions ---------------------------------------------------- *)

(* int32(f) for a float64 f.  The Go specification defines the result only when
   the truncated value fits; otherwise it is implementation-dependent: [cvt]. *)
Definition go_int32_of_float (cvt : num -> Z) (f : num) : Z :=
  match f with
  | Fin s m e =>
      let t := signed s (trunc_abs m e) in
      if (- two31 <=? t) && (t <? two31) then t else cvt f
  | _ => cvt f
  end.

(* float64(i) == f  for an int32 i *)
Definition float_of_int_eqb (i : Z) (f : num) : bool :=
  match f with
  | Fin s m e => is_int m e && (signed s (trunc_abs m e) =? i)
  | _ => false
  end.

(* integer conversion to int32 (wraps) *)
Definition wrap32 (z : Z) : Z := let u := z mod two32 in if u <? two31 then u else u - two32.
Definition wrapu32 (z : Z) : Z := z mod two32.

(* math.Mod(math.Abs(f), 4294967296) of a finite f: exact, as a dyadic (m', e') *)
Definition fmod_abs_two32 (m e : Z) : Z * Z :=
  if 0 <=? e then ((m * 2 ^ e) mod two32, 0) else (m mod (2 ^ (- e) * two32), e).

(* js_ast.ToInt32 *)
Definition go_ToInt32 (cvt : num -> Z) (f : num) : Z :=
  let i := go_int32_of_float cvt f in
  if float_of_int_eqb i f then i
  else match f with
       | NaN | Inf _ => 0
       | Fin s m e =>
           let '(m', e') := fmod_abs_two32 m e in
           let u := trunc_abs m' e' in          (* uint32(float) of a value in [0, 2^32) *)
           let i := wrap32 u in                 (* int32(uint32) *)
           if s then wrap32 (- i) else i
       end.

(* js_ast.ToUint32 *)
Definition go_ToUint32 (cvt : num -> Z) (f : num) : Z := wrapu32 (go_ToInt32 cvt f).

(* the conversion observed on amd64 (CVTTSD2SL: the "integer indefinite" value) *)
Definition cvt_amd64 (_ : num) : Z := - two31.

(* ---- stringCompareUCS2 -------------------------------------------------- *)
Fixpoint go_compare_ucs2 (a b : list Z) : Z :=
  match a, b with
  | x :: a', y :: b' => if x - y =? 0 then go_compare_ucs2 a' b' else x - y
  | _, _ => Z.of_nat (length a) - Z.of_nat (length b)
  end.

(* ---- decimal printing of an integer (strconv.FormatInt(v, 10)) ---------- *)
Fixpoint digits_fuel (fuel : nat) (v : Z) (acc : list Z) : list Z :=
  match fuel with
  | O => acc
  | S f => let acc' := (48 + v mod 10) :: acc in
           if v / 10 =? 0 then acc' else digits_fuel f (v / 10) acc'
  end.
Definition format_int (v : Z) : list Z :=
  if v <? 0 then 45 :: digits_fuel 40 (- v) [] else digits_fuel 40 v [].

(* ---- StringToEquivalentNumberValue ---------------------------------------
   int32 accumulation wraps around: intValue*10 + int32(c) - '0' is evaluated in
   int32, every operation wrapping; since wrapping is a ring homomorphism one
   wrap of the exact value is the same number *)
Fixpoint sten_loop (l : list Z) (acc : Z) : option Z :=
  match l with
  | [] => Some acc
  | c :: r => if (c <? 48) || (57 <? c) then None
              else sten_loop r (wrap32 (acc * 10 + c - 48))
  end.

Definition go_StringToEquivalentNumberValue (value : list Z) : option Z :=
  match value with
  | [] => None
  | c0 :: rest =>
      let neg := (c0 =? 45) && negb (match rest with [] => true | _ => false end) in
      match sten_loop (if neg then rest else value) 0 with
      | None => None
      | Some iv =>
          let iv := if neg then wrap32 (- iv) else iv in
          if zlist_eqb value (format_int iv) then Some iv else None
      end
  end.

(* ---- TryToStringOnNumberSafely (radix 10) -------------------------------- *)
Definition str_NaN : list Z := [78; 97; 78].
Definition str_Infinity : list Z := [73; 110; 102; 105; 110; 105; 116; 121].
Definition go_TryToStringOnNumberSafely (cvt : num -> Z) (n : num) : option (list Z) :=
  let i := go_int32_of_float cvt n in
  if float_of_int_eqb i n then Some (format_int i)
  else match n with
       | NaN => Some str_NaN
       | Inf false => Some str_Infinity
       | Inf true => Some (45 :: str_Infinity)
       | _ => None
       end.
