(* MaybeSimplifyNot / Not are correct: the rewritten expression evaluates
   exactly like "!e" (same trace, same completion, same value) *)
From V Require Import Common.Base C03.Num C03.Tree C03.MiniJS C03.Worlds C03.TreeProofs C03.TreeProofs3.

Section NotProofs.
  Variable W : world.
  Hypothesis Wok : world_ok W.
  Notation ev := (eval W).

  Lemma not_num : forall n, negb (truthy (VNum n)) = (is_zero n || is_nan n).
  Proof. intros n. cbn [truthy]. destruct (is_zero n), (is_nan n); reflexivity. Qed.

  Theorem simplify_not_correct_all : forall e e' w tr res,
    maybe_simplify_not e = Some e' ->
    ev tr (EUn UNot e w) = Some res -> ev tr e' = Some res.
  Proof.
    induction e; intros e' w0 tr res Hm Hev; cbn [maybe_simplify_not] in Hm; try discriminate.
    - inv Hm. cbn in Hev |- *. exact Hev.
    - inv Hm. cbn in Hev |- *. exact Hev.
    - inv Hm. cbn in Hev |- *. exact Hev.
    - (* ENum *) inv Hm. cbn [eval bind] in Hev |- *. rewrite not_num in Hev. exact Hev.
    - (* EBig *)
      destruct (check_equality_bigint s [48]) as [eq ok] eqn:Hc. destruct ok; [|discriminate]. inv Hm.
      cbn [eval] in Hev |- *. destruct (big_value s) as [z|] eqn:Hz; [|discriminate]. cbn [bind] in Hev.
      cbn [truthy] in Hev. rewrite <- (bigint_zero_test _ _ _ Hz Hc) in Hev. rewrite negb_involutive in Hev. exact Hev.
    - (* EStr *) inv Hm. cbn [eval bind truthy] in Hev |- *. destruct s; exact Hev.
    - inv Hm. cbn in Hev |- *. exact Hev.
    - inv Hm. cbn in Hev |- *. exact Hev.
    - inv Hm. cbn in Hev |- *. exact Hev.
    - (* EUn: !!x with x boolean *)
      destruct op; try discriminate.
      destruct (ptype_eqb (known_type e) PBoolean) eqn:Hk; [|discriminate]. inv Hm.
      apply internal_ptype_dec_bl in Hk.
      cbn [eval] in Hev.
      destruct (ev tr e') as [[t1 [x|x]]|] eqn:Hx; cbn [bind] in Hev; try exact Hev.
      pose proof (known_type_sound_all W Wok _ _ _ _ Hx) as Ht. rewrite Hk in Ht.
      destruct x; try discriminate Ht. cbn [truthy] in Hev. rewrite negb_involutive in Hev. exact Hev.
    - (* EBin *)
      destruct op; try discriminate; inv Hm; cbn [eval] in Hev |- *.
      + (* !(a == b) => a != b *)
        unfold neg_outcome.
        destruct (bind (ev tr e1) _) as [[t1 [x|x]]|] eqn:Hb; cbn [bind] in Hev; try exact Hev.
        assert (Hbool : is_bool x = true).
        { apply bind_inv in Hb as [(t2 & a & Ha & Hk)|(a & Ha & Ho)]; [|discriminate].
          apply bind_inv in Hk as [(t3 & b & Hb2 & Hk2)|(b & Hb2 & Ho)]; [|discriminate].
          apply eff_inv in Hk2 as (t4 & E & _). eapply ok_boolop; [exact Wok| |exact E]. reflexivity. }
        destruct x; try discriminate Hbool. exact Hev.
      + (* !(a != b) => a == b *)
        unfold neg_outcome in Hev.
        destruct (bind (ev tr e1) _) as [[t1 [x|x]]|] eqn:Hb; cbn [bind] in Hev; try exact Hev.
        destruct x; try discriminate. cbn [bind truthy] in Hev. rewrite negb_involutive in Hev. exact Hev.
      + (* !(a === b) => a !== b *)
        destruct (ev tr e1) as [[t1 [x|x]]|]; cbn [bind] in Hev |- *; try exact Hev.
        destruct (ev t1 e2) as [[t2 [y|y]]|]; cbn [bind] in Hev |- *; try exact Hev.
        destruct (strict_eq x y); cbn [bind truthy] in Hev |- *; exact Hev.
      + (* !(a !== b) => a === b *)
        destruct (ev tr e1) as [[t1 [x|x]]|]; cbn [bind] in Hev |- *; try exact Hev.
        destruct (ev t1 e2) as [[t2 [y|y]]|]; cbn [bind] in Hev |- *; try exact Hev.
        destruct (strict_eq x y); cbn [bind truthy] in Hev |- *; [rewrite negb_involutive in Hev|]; exact Hev.
      + (* !(a, b) => a, !b *)
        destruct (ev tr e1) as [[t1 [x|x]]|]; cbn [bind] in Hev |- *; try exact Hev.
        destruct (maybe_simplify_not e2) as [nb|] eqn:Hn.
        * apply (IHe2 nb false t1 res eq_refl). cbn [eval]. exact Hev.
        * cbn [eval]. exact Hev.
    - (* EAnnot *) cbn [eval] in Hev. apply (IHe e' false tr res Hm). cbn [eval]. exact Hev.
    - (* EInlinedEnum *) cbn [eval] in Hev. apply (IHe e' false tr res Hm). cbn [eval]. exact Hev.
  Qed.

  (* Not(e) evaluates like !e *)
  Corollary not_correct : forall e tr res, ev tr (EUn UNot e false) = Some res -> ev tr (not_ e) = Some res.
  Proof.
    intros e tr res H. unfold not_. destruct (maybe_simplify_not e) eqn:Hm; [|exact H].
    eapply simplify_not_correct_all; eauto.
  Qed.
End NotProofs.
