(* ValuesLookTheSame is sound: two expressions that look the same have the same
   evaluation at the same time (same trace, same completion, same value), in
   every world.  It does not say the evaluation has no effects: two identical
   calls look the same. *)
From V Require Import Common.Base C03.Num C03.Tree C03.MiniJS C03.Worlds C03.TreeProofs C03.TreeProofs4.

(* number literals as num_of_bits produces them: one representation per value *)
Definition canon_num (n : num) : Prop :=
  match n with
  | Fin _ m e => (e = -1074 /\ 0 <= m < two52) \/ (two52 <= m < two53 /\ -1074 <= e)
  | _ => True
  end.

Definition is_lit (e : expr) : bool :=
  match e with ENull | EUndefined | EBool _ | ENum _ | EBig _ | EStr _ => true | _ => false end.

(* the inputs of the helper: canonical number literals; inlined enum constants wrap literals *)
Fixpoint vls_ok (e : expr) {struct e} : Prop :=
  let all := fix all (l : list expr) : Prop := match l with [] => True | x :: r => vls_ok x /\ all r end in
  match e with
  | ENum n => canon_num n
  | EInlinedEnum v => is_lit v = true /\ vls_ok v
  | EDot t _ _ _ _ => vls_ok t
  | EIndex t i _ => vls_ok t /\ vls_ok i
  | ECall t args _ _ => vls_ok t /\ all args
  | EUn _ v _ => vls_ok v
  | EBin _ l r => vls_ok l /\ vls_ok r
  | EIf t y n => vls_ok t /\ vls_ok y /\ vls_ok n
  | ESpread v => vls_ok v
  | _ => True
  end.

Lemma canon_eq : forall a b, canon_num a -> canon_num b -> num_eq a b = true ->
  (is_zero a && is_zero b && negb (Bool.eqb (signbit a) (signbit b)) = false) -> a = b.
Proof.
  intros [| s1 | s1 m1 e1] [| s2 | s2 m2 e2] Ca Cb He Hz; unfold num_eq in He; cbn [num_cmp] in He; try discriminate.
  - destruct s1, s2; try reflexivity; discriminate.
  - destruct s1; discriminate.
  - destruct s2; discriminate.
  - unfold fin_cmp in He. destruct (Z.compare_spec (signed s1 (m1 * 2 ^ (e1 - Z.min e1 e2))) (signed s2 (m2 * 2 ^ (e2 - Z.min e1 e2)))) as [E|E|E]; try discriminate.
    cbn [canon_num] in Ca, Cb. cbn [is_zero signbit] in Hz.
    assert (Hp1 : 0 < 2 ^ (e1 - Z.min e1 e2)) by (apply Z.pow_pos_nonneg; lia).
    assert (Hp2 : 0 < 2 ^ (e2 - Z.min e1 e2)) by (apply Z.pow_pos_nonneg; lia).
    assert (Hm1 : 0 <= m1) by (unfold two52 in *; lia). assert (Hm2 : 0 <= m2) by (unfold two52 in *; lia).
    destruct (Z.eq_dec m1 0) as [Z1|N1].
    + subst m1. assert (m2 = 0) by (destruct s1, s2; cbn [signed] in E; nia). subst m2.
      assert (e1 = -1074) by (unfold two52 in *; lia). assert (e2 = -1074) by (unfold two52 in *; lia). subst.
      rewrite !Z.eqb_refl in Hz. cbn [andb] in Hz. destruct s1, s2; try reflexivity; discriminate.
    + assert (N2 : m2 <> 0) by (intro; subst m2; destruct s1, s2; cbn [signed] in E; nia).
      assert (Hs : s1 = s2) by (destruct s1, s2; try reflexivity; cbn [signed] in E; nia). subst s2.
      assert (Em : m1 * 2 ^ (e1 - Z.min e1 e2) = m2 * 2 ^ (e2 - Z.min e1 e2)) by (destruct s1; cbn [signed] in E; lia).
      clear E He Hz.
      assert (Hgoal : m1 = m2 /\ e1 = e2).
      { destruct (Z_lt_le_dec e1 e2) as [L|L].
        - (* e1 < e2: m1 = m2 * 2^k with k >= 1 *)
          rewrite Z.min_l in Em by lia. rewrite Z.sub_diag, Z.pow_0_r, Z.mul_1_r in Em.
          assert (Hk : 2 <= 2 ^ (e2 - e1)) by (replace (e2 - e1) with (Z.succ (e2 - e1 - 1)) by lia; rewrite Z.pow_succ_r by lia;
                                                assert (0 < 2 ^ (e2 - e1 - 1)) by (apply Z.pow_pos_nonneg; lia); lia).
          exfalso. destruct Ca as [[Ce Cm]|[Cm Ce]]; destruct Cb as [[Ce2 Cm2]|[Cm2 Ce2]]; unfold two52, two53 in *; nia.
        - destruct (Z.eq_dec e1 e2) as [->|Ne].
          + rewrite Z.min_id, Z.sub_diag, Z.pow_0_r, !Z.mul_1_r in Em. auto.
          + rewrite Z.min_r in Em by lia. rewrite Z.sub_diag, Z.pow_0_r, Z.mul_1_r in Em.
            assert (Hk : 2 <= 2 ^ (e1 - e2)) by (replace (e1 - e2) with (Z.succ (e1 - e2 - 1)) by lia; rewrite Z.pow_succ_r by lia;
                                                  assert (0 < 2 ^ (e1 - e2 - 1)) by (apply Z.pow_pos_nonneg; lia); lia).
            exfalso. destruct Ca as [[Ce Cm]|[Cm Ce]]; destruct Cb as [[Ce2 Cm2]|[Cm2 Ce2]]; unfold two52, two53 in *; nia. }
      destruct Hgoal as [-> ->]. reflexivity.
Qed.

Section VLS.
  Variable W : world.
  Notation ev := (eval W).
  Notation raw := (eval_raw W).

  Definition plain_item (x : expr) : bool := match x with ESpread _ | EMissing => false | _ => true end.

  (* same evaluation, also as the target of a continued optional chain *)
  Definition same_eval (a b : expr) : Prop := forall tr, ev tr a = ev tr b /\ raw tr a = raw tr b.

  Lemma same_eval_refl : forall a, same_eval a a.
  Proof. intros a tr. auto. Qed.

  Lemma strip_eval : forall r, vls_ok r -> same_eval r (strip_enum r).
  Proof.
    induction r; intros Hok; try apply same_eval_refl.
    cbn [vls_ok] in Hok. destruct Hok as [Hl Hok]. cbn [strip_enum]. intros tr.
    destruct (IHr Hok tr) as [E1 E2]. split; [cbn [eval]; exact E1|].
    (* the operand is a literal: neither side is a chain node *)
    cbn [eval_raw]. destruct r; try discriminate Hl; reflexivity.
  Qed.

  Lemma strip_ok : forall r, vls_ok r -> vls_ok (strip_enum r).
  Proof. induction r; intros Hok; try exact Hok. cbn [vls_ok] in Hok. cbn [strip_enum]. tauto. Qed.

  Lemma strip_idem : forall r, strip_enum (strip_enum r) = strip_enum r.
  Proof. induction r; cbn [strip_enum]; auto. Qed.

  (* a literal only looks the same as an equal literal *)
  Lemma lit_same : forall v r, is_lit v = true -> vls_ok v -> vls_ok r -> strip_enum r = r ->
    (let '(eq, ok) := check_equality_base v r true in ok && eq) = true ->
    (match v, r with
     | ENum a, ENum b => is_zero a && is_zero b && negb (Bool.eqb (signbit a) (signbit b)) = false
     | _, _ => True end) ->
    v = r.
  Proof.
    intros v r Hl Hv Hr Hs H Hz.
    destruct v; try discriminate Hl; cbn [check_equality_base] in H;
      destruct r; cbn [is_primitive_literal] in H; try discriminate H; try reflexivity;
      try (cbn [strip_enum] in Hs; repeat match type of H with context [if ?c then _ else _] => destruct c end; discriminate H).
    all: try (destruct b; cbn in H; discriminate H).
    - (* EBool *) cbn in H. apply eqb_prop in H. subst. reflexivity.
    - (* ENum *) cbn [andb] in H. cbn [vls_ok] in Hv, Hr. f_equal. apply canon_eq; assumption.
    - (* EBig *)
      unfold check_equality_bigint in H. destruct (zlist_eqb s s0) eqn:E; [apply zlist_eqb_eq in E; subst; reflexivity|].
      destruct (no_radix s && no_radix s0); discriminate H.
    - (* EStr *) cbn [andb] in H. apply zlist_eqb_eq in H. subst. reflexivity.
  Qed.

  Lemma vls_all : forall l,
    (fix all (l : list expr) : Prop := match l with [] => True | x :: r => vls_ok x /\ all r end) l ->
    forall x, In x l -> vls_ok x.
  Proof.
    induction l as [|y r IH]; intros H x Hin; [destruct Hin|].
    destruct H as [H1 H2]. destruct Hin as [->|Hin]; [assumption | eauto].
  Qed.

  (* arguments that pairwise have the same evaluation and are not spreads or holes *)
  Lemma items_same : forall a1 a2 tr acc,
    (fix go (x y : list expr) : bool :=
       match x, y with
       | e1 :: x', e2 :: y' => values_look_the_same e1 e2 && go x' y'
       | _, _ => true
       end) a1 a2 = true ->
    length a1 = length a2 ->
    (forall x y, In x a1 -> In y a2 -> values_look_the_same x y = true ->
        plain_item x = true /\ plain_item y = true /\ forall t, ev t x = ev t y) ->
    eval_items_with W ev tr a1 acc = eval_items_with W ev tr a2 acc.
  Proof.
    induction a1 as [|x r IH]; intros [|y r2] tr acc Hgo Hlen Hel; try discriminate Hlen; [reflexivity|].
    apply andb_true_iff in Hgo as [Hxy Hgo]. injection Hlen as Hlen.
    destruct (Hel x y (or_introl eq_refl) (or_introl eq_refl) Hxy) as [Px [Py Hev]].
    cbn [eval_items_with].
    assert (Hrest : forall t a, eval_items_with W ev t r a = eval_items_with W ev t r2 a).
    { intros. apply IH; [assumption|assumption|]. intros; apply Hel; try (right; assumption); assumption. }
    destruct x; try discriminate Px; destruct y; try discriminate Py; try rewrite Hev;
      (unfold lstep; match goal with |- context [ev tr ?e] => destruct (ev tr e) as [[t0 [v|v]]|] end; try reflexivity; apply Hrest).
  Qed.

  Lemma same_eval_trans : forall a b c, same_eval a b -> same_eval b c -> same_eval a c.
  Proof. intros a b c H1 H2 tr. destruct (H1 tr), (H2 tr). split; congruence. Qed.
  Lemma same_eval_sym : forall a b, same_eval a b -> same_eval b a.
  Proof. intros a b H tr. destruct (H tr). split; congruence. Qed.

  Lemma target_same : forall oc t1 t2 tr, same_eval t1 t2 -> eval_target W oc tr t1 = eval_target W oc tr t2.
  Proof. intros oc t1 t2 tr H. unfold eval_target. destruct (H tr). destruct (is_cont oc); assumption. Qed.

  Lemma vls_plain : forall x y, values_look_the_same x y = true -> plain_item x = true /\ plain_item (strip_enum y) = true.
  Proof.
    intros x y H. destruct x; cbn [values_look_the_same] in H; try discriminate H; cbn [plain_item];
      try (split; [reflexivity|]; destruct (strip_enum y); try discriminate H; reflexivity).
    - (* EInlinedEnum on the left is not an item mode of its own *) split; [reflexivity|].
      destruct (strip_enum y); try reflexivity.
      + (* EMissing *) exfalso. clear -H. induction x; cbn [values_look_the_same strip_enum] in H; try discriminate H; auto.
      + (* ESpread *) exfalso. clear -H. induction x; cbn [values_look_the_same strip_enum] in H; try discriminate H; auto.
  Qed.


  Lemma raw_dot_eq : forall t name oc c s tr, raw tr (EDot t name oc c s) = dot_step W (eval_target W oc tr t) name oc.
  Proof. reflexivity. Qed.
  Lemma raw_index_eq : forall t i oc tr, raw tr (EIndex t i oc) = index_step W (eval_target W oc tr t) (fun tr1 => ev tr1 i) oc.
  Proof. reflexivity. Qed.

  Lemma dot_cong : forall t1 t2 n oc c1 s1 c2 s2, same_eval t1 t2 -> same_eval (EDot t1 n oc c1 s1) (EDot t2 n oc c2 s2).
  Proof.
    intros t1 t2 n oc c1 s1 c2 s2 St tr. split.
    - rewrite !eval_dot_eq. rewrite (target_same _ _ _ tr St). reflexivity.
    - rewrite !raw_dot_eq. rewrite (target_same _ _ _ tr St). reflexivity.
  Qed.

  Lemma index_cong : forall t1 t2 i1 i2 oc, same_eval t1 t2 -> same_eval i1 i2 -> same_eval (EIndex t1 i1 oc) (EIndex t2 i2 oc).
  Proof.
    intros t1 t2 i1 i2 oc St Si tr.
    assert (Hstep : index_step W (eval_target W oc tr t1) (fun tr1 => ev tr1 i1) oc = index_step W (eval_target W oc tr t2) (fun tr1 => ev tr1 i2) oc).
    { rewrite (target_same _ _ _ tr St). unfold index_step.
      destruct (eval_target W oc tr t2) as [[t0 [ov|z]]|]; cbn [bind]; try reflexivity.
      unfold short_if. destruct ((oc =? 1) && nullish ov); try reflexivity. rewrite (proj1 (Si t0)). reflexivity. }
    split.
    - rewrite !eval_index_eq. rewrite Hstep. reflexivity.
    - rewrite !raw_index_eq. exact Hstep.
  Qed.

  Lemma call_cong : forall t1 t2 a1 a2 oc p1 p2, same_eval t1 t2 ->
    (forall t a, eval_items_with W ev t a1 a = eval_items_with W ev t a2 a) ->
    same_eval (ECall t1 a1 oc p1) (ECall t2 a2 oc p2).
  Proof.
    intros t1 t2 a1 a2 oc p1 p2 St Sa tr.
    assert (Hstep : call_step W (eval_target W oc tr t1) (fun tr1 => eval_items_with W ev tr1 a1 []) oc
                  = call_step W (eval_target W oc tr t2) (fun tr1 => eval_items_with W ev tr1 a2 []) oc).
    { rewrite (target_same _ _ _ tr St). unfold call_step.
      destruct (eval_target W oc tr t2) as [[t0 [fv|z]]|]; cbn [bind]; try reflexivity.
      unfold short_if. destruct ((oc =? 1) && nullish fv); try reflexivity. rewrite Sa. reflexivity. }
    split; [rewrite !eval_call_eq | rewrite !eval_raw_call_eq]; rewrite Hstep; reflexivity.
  Qed.

  Lemma plain_strip : forall y, plain_item (strip_enum y) = true -> plain_item y = true.
  Proof. destruct y; cbn [strip_enum plain_item]; auto. Qed.

  Theorem vls_sound_size : forall n l, (esize l <= n)%nat -> forall r,
    vls_ok l -> vls_ok r -> values_look_the_same l r = true -> same_eval l r.
  Proof.
    induction n as [|n IH]; intros l Hsz r Hl Hr H; [destruct l; cbn [esize] in Hsz; lia|].
    apply same_eval_trans with (b := strip_enum r); [|apply same_eval_sym; apply strip_eval; exact Hr].
    pose proof (strip_ok r Hr) as Hr'. pose proof (strip_idem r) as Hid.
    assert (Hlit : forall v, is_lit v = true -> vls_ok v ->
              (let '(eq, ok) := check_equality_base v (strip_enum r) true in ok && eq) = true ->
              (match v, strip_enum r with
               | ENum a, ENum b => is_zero a && is_zero b && negb (Bool.eqb (signbit a) (signbit b)) = false
               | _, _ => True end) -> same_eval v (strip_enum r)).
    { intros v Hv Hvok Hc Hz. rewrite <- (lit_same v (strip_enum r) Hv Hvok Hr' Hid Hc Hz). apply same_eval_refl. }
    destruct l; cbn [values_look_the_same] in H;
      try (apply Hlit; [reflexivity | exact Hl | exact H | exact I]);
      try (exfalso; destruct (strip_enum r); discriminate H).
    - (* ENum *)
      destruct (strip_enum r) eqn:Er;
        try (cbn [check_equality_base is_primitive_literal] in H;
             repeat match type of H with context [if ?c then _ else _] => destruct c end; discriminate H).
      match type of H with context [if ?c then _ else _] => destruct c eqn:Hz end; [discriminate H|].
      apply Hlit; [reflexivity | exact Hl | exact H | exact Hz].
    - (* EId *)
      destruct (strip_enum r); try discriminate H. destruct (ref =? ref0) eqn:E; [|discriminate H].
      apply Z.eqb_eq in E. subst. intros tr. split; reflexivity.
    - (* EDot *)
      destruct (strip_enum r) eqn:Er; try discriminate H.
      repeat (apply andb_true_iff in H as [H ?]).
      match goal with Hn : zlist_eqb _ _ = true |- _ => apply zlist_eqb_eq in Hn; subst end.
      match goal with Ho : (oc =? _) = true |- _ => apply Z.eqb_eq in Ho; subst end.
      cbn [esize vls_ok] in Hsz, Hl, Hr'.
      apply dot_cong. apply IH; [lia|assumption|assumption|assumption].
    - (* EIndex *)
      destruct (strip_enum r) eqn:Er; try discriminate H.
      repeat (apply andb_true_iff in H as [H ?]).
      match goal with Ho : (oc =? _) = true |- _ => apply Z.eqb_eq in Ho; subst end.
      cbn [esize vls_ok] in Hsz, Hl, Hr'. destruct Hl as [Hl1 Hl2]. destruct Hr' as [Hr1 Hr2].
      apply index_cong; apply IH; try assumption; lia.
    - (* ECall *)
      destruct (strip_enum r) eqn:Er; try discriminate H.
      repeat (apply andb_true_iff in H as [H ?]).
      match goal with Ho : (oc =? _) = true |- _ => apply Z.eqb_eq in Ho; subst end.
      match goal with Hp : Bool.eqb pure _ = true |- _ => apply eqb_prop in Hp; subst end.
      match goal with Hn : (length args =? length _)%nat = true |- _ => apply Nat.eqb_eq in Hn; rename Hn into Hlen end.
      rewrite esize_call in Hsz. cbn [vls_ok] in Hl, Hr'. destruct Hl as [Hl1 Hl2]. destruct Hr' as [Hr1 Hr2].
      assert (St : same_eval l e) by (apply IH; [lia|assumption|assumption|assumption]).
      assert (Sa : forall t a, eval_items_with W ev t args a = eval_items_with W ev t args0 a).
      { intros t a. apply items_same; [assumption|assumption|].
        intros x y Hx Hy Hxy. destruct (vls_plain _ _ Hxy) as [Px Py]. split; [exact Px|]. split; [apply plain_strip; exact Py|].
        pose proof (in_sum_sizes _ _ Hx) as Hs.
        assert (Sxy : same_eval x y) by (apply IH; [lia | exact (vls_all args Hl2 x Hx) | exact (vls_all args0 Hr2 y Hy) | exact Hxy]).
        intros t0. exact (proj1 (Sxy t0)). }
      apply call_cong; assumption.
    - (* EUn *)
      destruct (strip_enum r) eqn:Er; try discriminate H.
      repeat (apply andb_true_iff in H as [H ?]).
      match goal with Ho : unop_beq _ _ = true |- _ => apply internal_unop_dec_bl in Ho; subst end.
      match goal with Hw : Bool.eqb wasTypeofId _ = true |- _ => apply eqb_prop in Hw; subst end.
      cbn [esize vls_ok] in Hsz, Hl, Hr'.
      assert (Sv : same_eval l e) by (apply IH; [lia|assumption|assumption|assumption]).
      intros tr. split; [|reflexivity].
      (* the operand of typeof: both identifiers or neither *)
      destruct op0; cbn [eval]; try reflexivity; try (rewrite (proj1 (Sv tr)); reflexivity).
      destruct l; destruct e; cbn [values_look_the_same strip_enum] in *; try discriminate;
        try reflexivity; try (rewrite (proj1 (Sv tr)); reflexivity).
      all: try (match goal with Hq : (if ?a =? ?b then true else false) = true |- _ =>
                  destruct (a =? b) eqn:E; [apply Z.eqb_eq in E; subst; reflexivity | discriminate Hq] end).
      all: try (exfalso; match goal with Hq : vls_ok (EInlinedEnum ?x) |- _ => cbn [vls_ok] in Hq; destruct Hq as [Hlt _]; destruct x; try discriminate Hlt end;
                cbn [strip_enum] in *; discriminate).
    - (* EBin *)
      destruct (strip_enum r) eqn:Er; try discriminate H.
      repeat (apply andb_true_iff in H as [H ?]).
      match goal with Ho : binop_beq _ _ = true |- _ => apply internal_binop_dec_bl in Ho; subst end.
      cbn [esize vls_ok] in Hsz, Hl, Hr'. destruct Hl as [Hl1 Hl2]. destruct Hr' as [Hr1 Hr2].
      assert (S1 : same_eval l1 e1) by (apply IH; [lia|assumption|assumption|assumption]).
      assert (S2 : same_eval l2 e2) by (apply IH; [lia|assumption|assumption|assumption]).
      intros tr. split; [|reflexivity]. cbn [eval]. rewrite (proj1 (S1 tr)).
      destruct op0; try reflexivity;
        (destruct (ev tr e1) as [[t1 [x|z]]|]; cbn [bind neg_outcome]; try reflexivity;
         try (destruct (truthy x)); try (destruct (nullish x)); try rewrite (proj1 (S2 t1)); reflexivity).
    - (* EIf *)
      destruct (strip_enum r) eqn:Er; try discriminate H.
      repeat (apply andb_true_iff in H as [H ?]).
      cbn [esize vls_ok] in Hsz, Hl, Hr'. destruct Hl as [Hl1 [Hl2 Hl3]]. destruct Hr' as [Hr1 [Hr2 Hr3]].
      assert (S1 : same_eval l1 e1) by (apply IH; [lia|assumption|assumption|assumption]).
      assert (S2 : same_eval l2 e2) by (apply IH; [lia|assumption|assumption|assumption]).
      assert (S3 : same_eval l3 e3) by (apply IH; [lia|assumption|assumption|assumption]).
      intros tr. split; [|reflexivity]. cbn [eval]. rewrite (proj1 (S1 tr)).
      destruct (ev tr e1) as [[t1 [x|z]]|]; cbn [bind]; try reflexivity.
      destruct (truthy x); [apply S2 | apply S3].
    - (* EInlinedEnum *)
      cbn [esize vls_ok] in Hsz, Hl. destruct Hl as [Hlit0 Hlv].
      apply same_eval_trans with (b := l).
      + intros tr. split; [reflexivity|]. cbn [eval_raw]. destruct l; try discriminate Hlit0; reflexivity.
      + exact (IH l ltac:(lia) (strip_enum r) Hlv Hr' H).
  Qed.

  Theorem values_look_the_same_sound_all : forall l r,
    vls_ok l -> vls_ok r -> values_look_the_same l r = true -> forall tr, ev tr l = ev tr r.
  Proof. intros l r Hl Hr H tr. exact (proj1 (vls_sound_size (esize l) l (le_n _) r Hl Hr H tr)). Qed.
End VLS.
