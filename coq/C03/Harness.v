(* Checkers evaluated by the correspondence run: each returns the indices of
   the cases on which the model and the output observed on the real Go code
   differ, or on which the specification-side predicate fails. *)
From V Require Import Common.Base C03.Num C03.SpecOps C03.Tree C03.Fold C03.NumProofs C03.MiniJS C03.Stmt.

Fixpoint mism_from {A} (f : A -> bool) (l : list A) (i : nat) : list nat :=
  match l with
  | [] => []
  | x :: r => if f x then mism_from f r (S i) else i :: mism_from f r (S i)
  end.
Definition mismatches {A} (f : A -> bool) (l : list A) : list nat := mism_from f l 0.

(* ToInt32/ToUint32: (float64 bits, Go ToInt32, Go ToUint32) *)
Definition toint_ok (c : Z * Z * Z) : bool :=
  let '(b, gi, gu) := c in
  let f := num_of_bits b in
  (go_ToInt32 cvt_amd64 f =? gi) && (go_ToUint32 cvt_amd64 f =? gu)
  && (spec_ToInt32 f =? gi) && (spec_ToUint32 f =? gu).
Definition check_toint := mismatches toint_ok.

(* stringCompareUCS2 through FoldBinaryOperator on two string literals:
   (a, b, Go "a < b", Go "a > b", Go "a == b") *)
Definition cmp_ok (c : list Z * list Z * bool * bool * bool) : bool :=
  let '(a, b, lt, gt, eq) := c in
  let d := go_compare_ucs2 a b in
  Bool.eqb (d <? 0) lt && Bool.eqb (0 <? d) gt && Bool.eqb (d =? 0) eq
  && Bool.eqb (spec_string_lt a b) lt && Bool.eqb (spec_string_lt b a) gt.
Definition check_cmp := mismatches cmp_ok.

(* ---- expression trees ------------------------------------------------------ *)
Definition unbound_h (ref : Z) : bool := 1000 <=? ref.

Definition ptype_code (t : ptype) : Z :=
  match t with
  | PUnknown => 0 | PMixed => 1 | PNull => 2 | PUndefined => 3
  | PBoolean => 4 | PNumber => 5 | PString => 6 | PBigInt => 7
  end.

Definition check_known_type := mismatches (fun c : expr * Z => let '(e, t) := c in ptype_code (known_type e) =? t).

Definition triple_eqb (a b : bool * bool * bool) : bool :=
  let '(a1, a2, a3) := a in let '(b1, b2, b3) := b in Bool.eqb a1 b1 && Bool.eqb a2 b2 && Bool.eqb a3 b3.
Definition check_to_boolean :=
  mismatches (fun c : expr * bool * bool * bool => let '(e, b, se, ok) := c in triple_eqb (to_boolean e) (b, se, ok)).
Definition check_to_nullish :=
  mismatches (fun c : expr * bool * bool * bool => let '(e, b, se, ok) := c in triple_eqb (to_nullish e) (b, se, ok)).
Definition check_can_be_removed :=
  mismatches (fun c : expr * bool => let '(e, b) := c in Bool.eqb (can_be_removed unbound_h e) b).
Definition check_simplify_not :=
  mismatches (fun c : expr * option expr => let '(e, r) := c in option_eqb expr_eqb (maybe_simplify_not e) r).

(* (left, right, strict, Go equal, Go ok, Go ValuesLookTheSame) *)
Definition check_equality_cases :=
  mismatches (fun c : expr * expr * bool * bool * bool * bool =>
    let '(l, r, strict, eq, ok, same) := c in
    let '(meq, mok) := check_equality l r strict in
    Bool.eqb meq eq && Bool.eqb mok ok && Bool.eqb (values_look_the_same l r) same).

Definition check_join_left :=
  mismatches (fun c : binop * expr * expr * expr => let '(op, a, b, res) := c in expr_eqb (join_left op a b) res).

Definition check_simplify_boolean :=
  mismatches (fun c : expr * expr => let '(e, res) := c in expr_eqb (simplify_boolean unbound_h e) res).

Definition check_simplify_unused :=
  mismatches (fun c : expr * bool * option expr =>
    let '(e, noOC, res) := c in
    match simplify_unused unbound_h noOC e, res with
    | UNil, None => true
    | UExpr x, Some y => expr_eqb x y
    | _, _ => false
    end).

Definition check_mangle_if :=
  mismatches (fun c : expr * expr * expr * bool * bool * expr =>
    let '(t, y, n, noN, noOC, res) := c in
    match mangle_if unbound_h noN noOC t y n with
    | Some x => expr_eqb x res
    | None => false
    end).

(* ---- numeric folding ---------------------------------------------------------- *)
(* FoldBinaryOperator on two number literals: (op, left bits, right bits, kind, payload)
   kind 0: not folded; 1: number (payload = bits); 2: boolean (payload 0/1) *)
Definition fold_nn_ok (c : binop * Z * Z * Z * Z) : bool :=
  let '(op, lb, rb, kind, payload) := c in
  let l := num_of_bits lb in
  let r := num_of_bits rb in
  match fold_num_num cvt_amd64 op l r with
  | FNone => kind =? 0
  | FNum n => (kind =? 1) && num_same n (num_of_bits payload)
              && match spec_int_op op l r with Some z => num_same (num_of_Z z) (num_of_bits payload) | None => true end
  | FBool b => (kind =? 2) && Bool.eqb b (payload =? 1)
  end.
Definition check_fold_nn := mismatches fold_nn_ok.

(* math.Pow through FoldBinaryOperator: (x bits, y bits, result bits, agrees with the
   specification's special cases, as judged by Go: unused); the model must agree
   whenever it decides by a special case *)
Definition pow_ok (c : Z * Z * Z) : bool :=
  let '(xb, yb, rb) := c in
  match fold_pow (num_of_bits xb) (num_of_bits yb) with
  | Some r => num_same r (num_of_bits rb)
  | None => true
  end.
Definition check_pow := mismatches pow_ok.

(* special cases of the specification on the real result; the three families of
   known finding B are excluded by the harness while that finding reproduces *)
Definition pow_spec_ok (c : Z * Z * Z) : bool :=
  let '(xb, yb, rb) := c in
  match spec_exponentiate_special (num_of_bits xb) (num_of_bits yb) with
  | Some r => num_same r (num_of_bits rb)
  | None => true
  end.
Definition check_pow_spec := mismatches pow_spec_ok.

(* StringToEquivalentNumberValue: (string, -1 = none | 1 with value) *)
Definition check_sten :=
  mismatches (fun c : list Z * option Z => let '(s, r) := c in option_eqb Z.eqb (go_StringToEquivalentNumberValue s) r).
(* TryToStringOnNumberSafely(n, 10) *)
Definition check_tostr :=
  mismatches (fun c : Z * option (list Z) => let '(b, r) := c in
    option_eqb zlist_eqb (go_TryToStringOnNumberSafely cvt_amd64 (num_of_bits b)) r).

(* ---- statement-level mangling: (function body as parsed, function body as parsed with
   MinifySyntax): same normal form, no hoisted name lost ---- *)
Definition check_mangle_stmts_cases := mismatches (check_mangle_stmts unbound_h).
