(* Checkers evaluated by the correspondence run: each returns the indices of
   the cases on which the model and the output observed on the real Go code
   differ, or on which the specification-side predicate fails. *)
From V Require Import Common.Base C03.Num C03.SpecOps.

Fixpoint mism_from {A} (f : A -> bool) (l : list A) (i : nat) : list nat :=
  match l with
  | [] => []
  | x :: r => if f x then mism_from f r (S i) else i :: mism_from f r (S i)
  end.
Definition mismatches {A} (f : A -> bool) (l : list A) : list nat := mism_from f l 0.

(* ToInt32/ToUint32: (float64 bits, Go ToInt32, Go ToUint32) *)
Definition toint_ok (c : Z * Z * Z) : bool :=
  let '(b, gi, gu) := c in
  let f := num_of_bits b in
  (go_ToInt32 cvt_amd64 f =? gi) && (go_ToUint32 cvt_amd64 f =? gu)
  && (spec_ToInt32 f =? gi) && (spec_ToUint32 f =? gu).
Definition check_toint := mismatches toint_ok.

(* stringCompareUCS2 through FoldBinaryOperator on two string literals:
   (a, b, Go "a < b", Go "a > b", Go "a == b") *)
Definition cmp_ok (c : list Z * list Z * bool * bool * bool) : bool :=
  let '(a, b, lt, gt, eq) := c in
  let d := go_compare_ucs2 a b in
  Bool.eqb (d <? 0) lt && Bool.eqb (0 <? d) gt && Bool.eqb (d =? 0) eq
  && Bool.eqb (spec_string_lt a b) lt && Bool.eqb (spec_string_lt b a) gt.
Definition check_cmp := mismatches cmp_ok.
