(* C03 model, part 2: expression trees (the js_ast.E* constructors the helpers
   inspect) and line-by-line models of the tree helpers of
   /repo/internal/js_ast/js_ast_helpers.go:
     IsPrimitiveLiteral, KnownPrimitiveType, MergedKnownPrimitiveTypes,
     CheckEqualityBigInt, CheckEqualityIfNoSideEffects, ValuesLookTheSame,
     ToBooleanWithSideEffects, ToNullOrUndefinedWithSideEffects, isInt32OrUint32,
     MaybeSimplifyNot, Not, JoinWithLeftAssociativeOp, JoinWithComma,
     ExprCanBeRemovedIfUnused, isSideEffectFreeUnboundIdentifierRef,
     SimplifyBooleanExpr, SimplifyUnusedExpr, simplifyUnusedStringAdditionChain,
     TryToInsertOptionalChain, MangleIfExpr.
   Executable definitions only.  Locations (Loc) are not modelled. *)
From V Require Import Common.Base C03.Num.

Inductive unop := UPos | UNeg | UCpl | UNot | UVoid | UTypeof | UDelete
                | UPreDec | UPreInc | UPostDec | UPostInc.
Inductive binop :=
| BAdd | BSub | BMul | BDiv | BRem | BPow | BLt | BLe | BGt | BGe | BIn | BInstanceof
| BShl | BShr | BUShr | BLooseEq | BLooseNe | BStrictEq | BStrictNe
| BNullish | BLogOr | BLogAnd | BBitOr | BBitAnd | BBitXor | BComma
| BAssign | BAddAssign | BSubAssign | BMulAssign | BDivAssign | BRemAssign | BPowAssign
| BShlAssign | BShrAssign | BUShrAssign | BBitOrAssign | BBitAndAssign | BBitXorAssign
| BNullishAssign | BLogOrAssign | BLogAndAssign.

Scheme Equality for unop.
Scheme Equality for binop.
Notation unop_eqb := unop_beq.
Notation binop_eqb := binop_beq.

(* property kinds: 0 field, 1 spread, 2 other (method/getter/setter) *)
Inductive expr :=
| ENull | EUndefined | EMissing | EThis
| EBool (b : bool)
| ENum (n : num)
| EBig (s : list Z)                       (* literal text without the n *)
| EStr (s : list Z)
| ERegExp (s : list Z)
| EFunc (id : Z)                          (* function expression, body opaque *)
| EArrow (id : Z)
| EClassX (id : Z)                        (* class expression, opaque; never removable in the model's inputs *)
| EId (ref : Z) (removable : bool) (mustkeep : bool)
| EDot (t : expr) (name : list Z) (oc : Z) (removable : bool) (symInst : bool)
| EIndex (t i : expr) (oc : Z)
| ECall (t : expr) (args : list expr) (oc : Z) (pure : bool)
| ENew (t : expr) (args : list expr) (pure : bool)
| EUn (op : unop) (v : expr) (wasTypeofId : bool)
| EBin (op : binop) (l r : expr)
| EIf (t y n : expr)
| ETemplate (head : list Z) (parts : list (expr * list Z))   (* untagged *)
| EArray (items : list expr)
| ESpread (v : expr)
| EObject (props : list (Z * bool * expr * expr))   (* kind, computed, key, value *)
| EAnnot (v : expr) (removable : bool)
| EInlinedEnum (v : expr).

Definition ENumB (bits : Z) : expr := ENum (num_of_bits bits).

(* ---- structural equality (used by the checkers) -------------------------- *)
Fixpoint expr_eqb (a b : expr) {struct a} : bool :=
  match a, b with
  | ENull, ENull | EUndefined, EUndefined | EMissing, EMissing | EThis, EThis => true
  | EBool x, EBool y => Bool.eqb x y
  | ENum x, ENum y => num_same x y
  | EBig x, EBig y | EStr x, EStr y | ERegExp x, ERegExp y => zlist_eqb x y
  | EFunc x, EFunc y | EArrow x, EArrow y | EClassX x, EClassX y => x =? y
  | EId r1 c1 m1, EId r2 c2 m2 => (r1 =? r2) && Bool.eqb c1 c2 && Bool.eqb m1 m2
  | EDot t1 n1 o1 c1 s1, EDot t2 n2 o2 c2 s2 =>
      expr_eqb t1 t2 && zlist_eqb n1 n2 && (o1 =? o2) && Bool.eqb c1 c2 && Bool.eqb s1 s2
  | EIndex t1 i1 o1, EIndex t2 i2 o2 => expr_eqb t1 t2 && expr_eqb i1 i2 && (o1 =? o2)
  | ECall t1 a1 o1 p1, ECall t2 a2 o2 p2 =>
      expr_eqb t1 t2 && (o1 =? o2) && Bool.eqb p1 p2 &&
      (fix go (x y : list expr) : bool :=
         match x, y with
         | [], [] => true
         | e1 :: x', e2 :: y' => expr_eqb e1 e2 && go x' y'
         | _, _ => false
         end) a1 a2
  | ENew t1 a1 p1, ENew t2 a2 p2 =>
      expr_eqb t1 t2 && Bool.eqb p1 p2 &&
      (fix go (x y : list expr) : bool :=
         match x, y with
         | [], [] => true
         | e1 :: x', e2 :: y' => expr_eqb e1 e2 && go x' y'
         | _, _ => false
         end) a1 a2
  | EUn o1 v1 w1, EUn o2 v2 w2 => unop_eqb o1 o2 && expr_eqb v1 v2 && Bool.eqb w1 w2
  | EBin o1 l1 r1, EBin o2 l2 r2 => binop_eqb o1 o2 && expr_eqb l1 l2 && expr_eqb r1 r2
  | EIf t1 y1 n1, EIf t2 y2 n2 => expr_eqb t1 t2 && expr_eqb y1 y2 && expr_eqb n1 n2
  | ETemplate h1 p1, ETemplate h2 p2 =>
      zlist_eqb h1 h2 &&
      (fix go (x y : list (expr * list Z)) : bool :=
         match x, y with
         | [], [] => true
         | (e1, s1) :: x', (e2, s2) :: y' => expr_eqb e1 e2 && zlist_eqb s1 s2 && go x' y'
         | _, _ => false
         end) p1 p2
  | EArray a1, EArray a2 =>
      (fix go (x y : list expr) : bool :=
         match x, y with
         | [], [] => true
         | e1 :: x', e2 :: y' => expr_eqb e1 e2 && go x' y'
         | _, _ => false
         end) a1 a2
  | ESpread v1, ESpread v2 => expr_eqb v1 v2
  | EObject p1, EObject p2 =>
      (fix go (x y : list (Z * bool * expr * expr)) : bool :=
         match x, y with
         | [], [] => true
         | (k1, c1, e1, v1) :: x', (k2, c2, e2, v2) :: y' =>
             (k1 =? k2) && Bool.eqb c1 c2 && expr_eqb e1 e2 && expr_eqb v1 v2 && go x' y'
         | _, _ => false
         end) p1 p2
  | EAnnot v1 c1, EAnnot v2 c2 => expr_eqb v1 v2 && Bool.eqb c1 c2
  | EInlinedEnum v1, EInlinedEnum v2 => expr_eqb v1 v2
  | _, _ => false
  end.

(* ---- IsPrimitiveLiteral --------------------------------------------------- *)
Fixpoint is_primitive_literal (e : expr) : bool :=
  match e with
  | EAnnot v _ => is_primitive_literal v
  | EInlinedEnum v => is_primitive_literal v
  | ENull | EUndefined | EStr _ | EBool _ | ENum _ | EBig _ => true
  | _ => false
  end.

(* ---- KnownPrimitiveType ---------------------------------------------------- *)
Inductive ptype := PUnknown | PMixed | PNull | PUndefined | PBoolean | PNumber | PString | PBigInt.
Scheme Equality for ptype.
Notation ptype_eqb := ptype_beq.

Definition merge_types (x y : ptype) : ptype :=
  match x with
  | PUnknown => PUnknown
  | _ => match y with
         | PUnknown => PUnknown
         | _ => if ptype_eqb x y then x else PMixed
         end
  end.

Fixpoint known_type (e : expr) : ptype :=
  match e with
  | EAnnot v _ => known_type v
  | EInlinedEnum v => known_type v
  | ENull => PNull
  | EUndefined => PUndefined
  | EBool _ => PBoolean
  | ENum _ => PNumber
  | EStr _ => PString
  | EBig _ => PBigInt
  | ETemplate _ _ => PString
  | EIf _ y n => merge_types (known_type y) (known_type n)
  | EUn op v _ =>
      match op with
      | UVoid => PUndefined
      | UTypeof => PString
      | UNot | UDelete => PBoolean
      | UPos => PNumber
      | UNeg | UCpl =>
          let t := known_type v in
          match t with
          | PBigInt => PBigInt
          | PUnknown | PMixed => PMixed
          | _ => PNumber
          end
      | UPreDec | UPreInc | UPostDec | UPostInc => PMixed
      end
  | EBin op l r =>
      match op with
      | BStrictEq | BStrictNe | BLooseEq | BLooseNe | BLt | BGt | BLe | BGe | BInstanceof | BIn => PBoolean
      | BLogOr | BLogAnd => merge_types (known_type l) (known_type r)
      | BNullish =>
          let lt := known_type l in
          let rt := known_type r in
          match lt with
          | PNull | PUndefined => rt
          | PUnknown => PUnknown
          | PMixed => match rt with PUnknown => PUnknown | _ => PMixed end
          | _ => lt
          end
      | BAdd =>
          let lt := known_type l in
          let rt := known_type r in
          if ptype_eqb lt PString || ptype_eqb rt PString then PString
          else if ptype_eqb lt PBigInt && ptype_eqb rt PBigInt then PBigInt
          else if negb (ptype_eqb lt PUnknown) && negb (ptype_eqb lt PMixed) && negb (ptype_eqb lt PBigInt)
                  && negb (ptype_eqb rt PUnknown) && negb (ptype_eqb rt PMixed) && negb (ptype_eqb rt PBigInt)
               then PNumber
          else PMixed
      | BAddAssign => match known_type r with PString => PString | _ => PMixed end
      | BSub | BSubAssign | BMul | BMulAssign | BDiv | BDivAssign | BRem | BRemAssign | BPow | BPowAssign
      | BBitAnd | BBitAndAssign | BBitOr | BBitOrAssign | BBitXor | BBitXorAssign
      | BShl | BShlAssign | BShr | BShrAssign | BUShr | BUShrAssign => PMixed
      | BAssign | BComma => known_type r
      | _ => PUnknown
      end
  | _ => PUnknown
  end.

Definition merged_known_types (a b : expr) : ptype := merge_types (known_type a) (known_type b).
Definition can_change_strict_to_loose (a b : expr) : bool :=
  let x := known_type a in
  ptype_eqb x (known_type b) && negb (ptype_eqb x PUnknown) && negb (ptype_eqb x PMixed).

(* ---- CheckEqualityBigInt --------------------------------------------------- *)
Definition no_radix (a : list Z) : bool :=
  match a with
  | c :: _ :: _ => negb (c =? 48)
  | _ => true
  end.
Definition check_equality_bigint (a b : list Z) : bool * bool :=
  if zlist_eqb a b then (true, true)
  else if no_radix a && no_radix b then (false, true)
  else (false, false).

(* ---- CheckEqualityIfNoSideEffects (kind: true = strict) --------------------- *)
Fixpoint strip_enum (e : expr) : expr :=
  match e with EInlinedEnum v => strip_enum v | _ => e end.

Definition check_equality_base (l r : expr) (strict : bool) : bool * bool :=
  match l with
  | ENull =>
      match r with
      | ENull => (true, true)
      | EUndefined => (negb strict, true)
      | _ => if is_primitive_literal r then (false, true) else (false, false)
      end
  | EUndefined =>
      match r with
      | EUndefined => (true, true)
      | ENull => (negb strict, true)
      | _ => if is_primitive_literal r then (false, true) else (false, false)
      end
  | EBool lv =>
      match r with
      | EBool rv => (Bool.eqb lv rv, true)
      | ENum rv =>
          if strict then (false, true)
          else if lv then (num_eq rv (num_of_Z 1), true) else (num_eq rv (num_of_Z 0), true)
      | ENull | EUndefined => (false, true)
      | _ => if strict && is_primitive_literal r then (false, true) else (false, false)
      end
  | ENum lv =>
      match r with
      | ENum rv => (num_eq lv rv, true)
      | EBool rv =>
          if strict then (false, true)
          else if rv then (num_eq lv (num_of_Z 1), true) else (num_eq lv (num_of_Z 0), true)
      | ENull | EUndefined => (false, true)
      | _ => if strict && is_primitive_literal r then (false, true) else (false, false)
      end
  | EBig lv =>
      match r with
      | EBig rv => check_equality_bigint lv rv
      | ENull | EUndefined => (false, true)
      | _ => if strict && is_primitive_literal r then (false, true) else (false, false)
      end
  | EStr lv =>
      match r with
      | EStr rv => (zlist_eqb lv rv, true)
      | ENull | EUndefined => (false, true)
      | _ => if strict && is_primitive_literal r then (false, true) else (false, false)
      end
  | _ => (false, false)
  end.

(* the Go function first strips EInlinedEnum on the right, then on the left *)
Definition check_equality (l r : expr) (strict : bool) : bool * bool :=
  check_equality_base (strip_enum l) (strip_enum r) strict.

(* ---- ValuesLookTheSame ------------------------------------------------------ *)
Fixpoint values_look_the_same (l r : expr) {struct l} : bool :=
  let r := strip_enum r in
  match l with
  | EInlinedEnum v => values_look_the_same v r
  | EId r1 _ _ =>
      match r with
      | EId r2 _ _ => if r1 =? r2 then true else false
      | _ => false
      end
  | EDot t1 n1 o1 c1 s1 =>
      match r with
      | EDot t2 n2 o2 c2 s2 =>
          (o1 =? o2) && Bool.eqb c1 c2 && Bool.eqb s1 s2 && zlist_eqb n1 n2 && values_look_the_same t1 t2
      | _ => false
      end
  | EIndex t1 i1 o1 =>
      match r with
      | EIndex t2 i2 o2 => (o1 =? o2) && values_look_the_same t1 t2 && values_look_the_same i1 i2
      | _ => false
      end
  | EIf t1 y1 n1 =>
      match r with
      | EIf t2 y2 n2 => values_look_the_same t1 t2 && values_look_the_same y1 y2 && values_look_the_same n1 n2
      | _ => false
      end
  | EUn o1 v1 w1 =>
      match r with
      | EUn o2 v2 w2 => unop_eqb o1 o2 && Bool.eqb w1 w2 && values_look_the_same v1 v2
      | _ => false
      end
  | EBin o1 l1 r1 =>
      match r with
      | EBin o2 l2 r2 => binop_eqb o1 o2 && values_look_the_same l1 l2 && values_look_the_same r1 r2
      | _ => false
      end
  | ECall t1 a1 o1 p1 =>
      match r with
      | ECall t2 a2 o2 p2 =>
          (o1 =? o2) && Bool.eqb p1 p2 && (length a1 =? length a2)%nat && values_look_the_same t1 t2 &&
          (fix go (x y : list expr) : bool :=
             match x, y with
             | e1 :: x', e2 :: y' => values_look_the_same e1 e2 && go x' y'
             | _, _ => true
             end) a1 a2
      | _ => false
      end
  | ENum a =>
      match r with
      | ENum b =>
          if is_zero a && is_zero b && negb (Bool.eqb (signbit a) (signbit b)) then false
          else let '(eq, ok) := check_equality_base l r true in ok && eq
      | _ => let '(eq, ok) := check_equality_base l r true in ok && eq
      end
  | _ => let '(eq, ok) := check_equality_base l r true in ok && eq
  end.

(* ---- ToBooleanWithSideEffects: (boolean, noSideEffects, ok) ------------------ *)
Fixpoint to_boolean (e : expr) : bool * bool * bool :=
  match e with
  | EAnnot v removable =>
      let '(b, se, ok) := to_boolean v in
      (b, if removable then true else se, ok)
  | EInlinedEnum v => to_boolean v
  | ENull | EUndefined => (false, true, true)
  | EBool b => (b, true, true)
  | ENum n => (negb (is_zero n) && negb (is_nan n), true, true)
  | EBig s => let '(eq, ok) := check_equality_bigint s [48] in (negb eq, true, ok)
  | EStr s => (match s with [] => false | _ => true end, true, true)
  | EFunc _ | EArrow _ | ERegExp _ => (true, true, true)
  | EObject _ | EArray _ | EClassX _ => (true, false, true)
  | EUn op v w =>
      match op with
      | UVoid => (false, false, true)
      | UTypeof => (true, w, true)
      | UNot => let '(b, se, ok) := to_boolean v in if ok then (negb b, se, true) else (false, false, false)
      | _ => (false, false, false)
      end
  | EBin op l r =>
      match op with
      | BLogOr => let '(b, _, ok) := to_boolean r in if ok && b then (true, false, true) else (false, false, false)
      | BLogAnd => let '(b, _, ok) := to_boolean r in if ok && negb b then (false, false, true) else (false, false, false)
      | BComma => let '(b, _, ok) := to_boolean r in if ok then (b, false, true) else (false, false, false)
      | _ => (false, false, false)
      end
  | _ => (false, false, false)
  end.

(* ---- ToNullOrUndefinedWithSideEffects: (isNullish, noSideEffects, ok) -------- *)
Fixpoint to_nullish (e : expr) : bool * bool * bool :=
  match e with
  | EAnnot v removable =>
      let '(b, se, ok) := to_nullish v in
      (b, if removable then true else se, ok)
  | EInlinedEnum v => to_nullish v
  | EBool _ | ENum _ | EStr _ | ERegExp _ | EFunc _ | EArrow _ | EBig _ => (false, true, true)
  | EObject _ | EArray _ | EClassX _ => (false, false, true)
  | ENull | EUndefined => (true, true, true)
  | EUn op v w =>
      match op with
      | UPos | UNeg | UCpl | UPreDec | UPreInc | UPostDec | UPostInc | UNot | UDelete => (false, false, true)
      | UTypeof => (false, w, true)
      | UVoid => (true, false, true)
      end
  | EBin op l r =>
      match op with
      | BAdd | BAddAssign | BSub | BMul | BDiv | BRem | BPow
      | BSubAssign | BMulAssign | BDivAssign | BRemAssign | BPowAssign
      | BShl | BShr | BUShr | BShlAssign | BShrAssign | BUShrAssign
      | BBitOr | BBitAnd | BBitXor | BBitOrAssign | BBitAndAssign | BBitXorAssign
      | BLt | BLe | BGt | BGe | BIn | BInstanceof
      | BLooseEq | BLooseNe | BStrictEq | BStrictNe => (false, false, true)
      | BComma => let '(b, _, ok) := to_nullish r in if ok then (b, false, true) else (false, true, false)
      | _ => (false, true, false)
      end
  | _ => (false, true, false)
  end.

(* ---- isInt32OrUint32 ---------------------------------------------------------- *)
Fixpoint is_int32_or_uint32 (e : expr) : bool :=
  match e with
  | EBin BUShr _ _ => true
  | EBin BLogOr l r | EBin BLogAnd l r => is_int32_or_uint32 l && is_int32_or_uint32 r
  | EIf _ y n => is_int32_or_uint32 y && is_int32_or_uint32 n
  | _ => false
  end.

(* ---- MaybeSimplifyNot / Not --------------------------------------------------- *)
Fixpoint maybe_simplify_not (e : expr) : option expr :=
  match e with
  | EAnnot v _ => maybe_simplify_not v
  | EInlinedEnum v => maybe_simplify_not v
  | ENull | EUndefined => Some (EBool true)
  | EBool b => Some (EBool (negb b))
  | ENum n => Some (EBool (is_zero n || is_nan n))
  | EBig s => let '(eq, ok) := check_equality_bigint s [48] in if ok then Some (EBool eq) else None
  | EStr s => Some (EBool (match s with [] => true | _ => false end))
  | EFunc _ | EArrow _ | ERegExp _ => Some (EBool false)
  | EUn UNot v _ => if ptype_eqb (known_type v) PBoolean then Some v else None
  | EBin op l r =>
      match op with
      | BLooseEq => Some (EBin BLooseNe l r)
      | BLooseNe => Some (EBin BLooseEq l r)
      | BStrictEq => Some (EBin BStrictNe l r)
      | BStrictNe => Some (EBin BStrictEq l r)
      | BComma => Some (EBin BComma l (match maybe_simplify_not r with Some x => x | None => EUn UNot r false end))
      | _ => None
      end
  | _ => None
  end.

Definition not_ (e : expr) : expr :=
  match maybe_simplify_not e with Some x => x | None => EUn UNot e false end.

(* ---- JoinWithComma (None = nil expression) ------------------------------------- *)
Definition join_with_comma (a b : option expr) : option expr :=
  match a, b with
  | None, _ => b
  | _, None => a
  | Some x, Some y => Some (EBin BComma x y)
  end.

(* ---- JoinWithLeftAssociativeOp ---------------------------------------------------
   Structural on b, inner recursion on the comma spine of a.  The Go loop calls
   the whole function on (a, b.Left) and then continues with b.Right without
   re-testing the new a for a comma; the two coincide whenever op is not
   BinOpComma, which holds at every call site (||, &&, ??). *)
Fixpoint join_left_assoc (op : binop) (b : expr) {struct b} : expr -> expr :=
  fix ja (a : expr) {struct a} : expr :=
    match a with
    | EBin BComma al ar => EBin BComma al (ja ar)
    | _ =>
        match b with
        | EBin op' bl br =>
            if binop_eqb op' op then join_left_assoc op br (join_left_assoc op bl a)
            else EBin op a b
        | _ => EBin op a b
        end
    end.
Definition join_left (op : binop) (a b : expr) : expr := join_left_assoc op b a.

(* ---- isSideEffectFreeUnboundIdentifierRef ------------------------------------------ *)
Definition str_undefined : list Z := [117; 110; 100; 101; 102; 105; 110; 101; 100].
Definition str_u : list Z := [117].

Definition typeof_ident_ref (e : expr) : option Z :=
  match e with
  | EUn UTypeof (EId r _ _) true => Some r
  | _ => None
  end.

Definition as_str (e : expr) : option (list Z) := match e with EStr s => Some s | _ => None end.
Definition as_id (e : expr) : option Z := match e with EId r _ _ => Some r | _ => None end.
(* typeof <operand> with WasOriginallyTypeofIdentifier set *)
Definition as_typeof_marked (e : expr) : option expr :=
  match e with
  | EUn op tv w => if unop_eqb op UTypeof && w then Some tv else None
  | _ => None
  end.
Definition is_ne_op (op : binop) : bool := match op with BStrictNe | BLooseNe => true | _ => false end.
Definition is_lt_le_op (op : binop) : bool := match op with BLt | BLe => true | _ => false end.

Definition is_sefree_unbound_ref (unbound : Z -> bool) (value guard : expr) (isYes : bool) : bool :=
  match as_id value with
  | Some ref =>
      if unbound ref then
        match guard with
        | EBin op gl gr =>
            match op with
            | BStrictEq | BStrictNe | BLooseEq | BLooseNe =>
                (* Pattern match for "typeof x !== <string>" (either order) *)
                let '(ty, st) := match as_str gl with Some _ => (gr, gl) | None => (gl, gr) end in
                match as_typeof_marked ty, as_str st with
                | Some tv, Some text =>
                    if Bool.eqb (Bool.eqb (zlist_eqb text str_undefined) isYes) (is_ne_op op)
                    then match as_id tv with Some r2 => r2 =? ref | None => false end
                    else false
                | _, _ => false
                end
            | BLt | BGt | BLe | BGe =>
                (* Pattern match for "typeof x < <string>" (flipped: the branch sense flips too) *)
                let '(ty, st, isYes) := match as_str gl with Some _ => (gr, gl, negb isYes) | None => (gl, gr, isYes) end in
                match as_typeof_marked ty, as_str st with
                | Some tv, Some text =>
                    if zlist_eqb text str_u && Bool.eqb isYes (is_lt_le_op op)
                    then match as_id tv with Some r2 => r2 =? ref | None => false end
                    else false
                | _, _ => false
                end
            | _ => false
            end
        | _ => false
        end
      else false
  | None => false
  end.

(* ---- ExprCanBeRemovedIfUnused ---------------------------------------------------------- *)
Definition is_symbol_instance (e : expr) : bool :=
  match e with EDot _ _ _ _ s => s | _ => false end.

Fixpoint can_be_removed (unbound : Z -> bool) (e : expr) {struct e} : bool :=
  let all := fix all (l : list expr) : bool :=
               match l with [] => true | x :: r => can_be_removed unbound x && all r end in
  match e with
  | EAnnot _ removable => removable
  | EInlinedEnum v => can_be_removed unbound v
  | ENull | EUndefined | EMissing | EBool _ | ENum _ | EBig _ | EStr _ | EThis | ERegExp _ | EFunc _ | EArrow _ => true
  | EDot _ _ _ removable _ => removable
  | EClassX _ => false
  | EId ref removable mustkeep =>
      if mustkeep then false else removable || negb (unbound ref)
  | EIf t y n =>
      can_be_removed unbound t &&
      ((is_sefree_unbound_ref unbound y t true || can_be_removed unbound y) &&
       (is_sefree_unbound_ref unbound n t false || can_be_removed unbound n))
  | EArray items =>
      (fix go (l : list expr) : bool :=
         match l with
         | [] => true
         | x :: r =>
             (match x with
              | ESpread (EArray inner) =>
                  (fix go2 (l2 : list expr) : bool :=
                     match l2 with [] => true | x2 :: r2 => can_be_removed unbound x2 && go2 r2 end) inner
              | _ => can_be_removed unbound x
              end) && go r
         end) items
  | EObject props =>
      (fix go (l : list (Z * bool * expr * expr)) : bool :=
         match l with
         | [] => true
         | (kind, computed, key, value) :: r =>
             if kind =? 1 then false
             else if computed && negb (is_primitive_literal key) && negb (is_symbol_instance key) then false
             else if negb (can_be_removed unbound value) then false
             else go r
         end) props
  | ECall _ args _ pure => if pure then all args else false
  | ENew _ args pure => if pure then all args else false
  | EUn op v w =>
      match op with
      | UVoid | UNot => can_be_removed unbound v
      | UNeg => match v with EBig _ => true | _ => false end
      | UTypeof => match v with
                   | EId _ _ _ => if w then true else can_be_removed unbound v
                   | _ => can_be_removed unbound v
                   end
      | _ => false
      end
  | EBin op l r =>
      match op with
      | BStrictEq | BStrictNe | BComma | BNullish => can_be_removed unbound l && can_be_removed unbound r
      | BLogOr => can_be_removed unbound l && (is_sefree_unbound_ref unbound r l false || can_be_removed unbound r)
      | BLogAnd => can_be_removed unbound l && (is_sefree_unbound_ref unbound r l true || can_be_removed unbound r)
      | BLooseEq | BLooseNe => can_change_strict_to_loose l r && can_be_removed unbound l && can_be_removed unbound r
      | BLt | BGt | BLe | BGe =>
          let lt := known_type l in
          match lt with
          | PString | PNumber | PBigInt =>
              ptype_eqb (known_type r) lt && can_be_removed unbound l && can_be_removed unbound r
          | _ => false
          end
      | _ => false
      end
  | ETemplate _ parts =>
      (fix go (l : list (expr * list Z)) : bool :=
         match l with
         | [] => true
         | (v, _) :: r =>
             if negb (can_be_removed unbound v) || ptype_eqb (known_type v) PUnknown then false else go r
         end) parts
  | _ => false
  end.

(* ---- SimplifyBooleanExpr ------------------------------------------------------------------ *)
(* extractNumericValue looks through any nesting of EAnnotation/EInlinedEnum *)
Fixpoint extract_numeric_value (e : expr) : option num :=
  match e with
  | EAnnot v _ => extract_numeric_value v
  | EInlinedEnum v => extract_numeric_value v
  | ENum n => Some n
  | _ => None
  end.

Fixpoint simplify_boolean (unbound : Z -> bool) (e : expr) {struct e} : expr :=
  match e with
  | EUn op v w =>
      (* the Go switch has a case for every *EUnary: operators other than "!"
         leave the switch without reaching its default branch *)
      if unop_eqb op UNot then
        match v with
        | EUn op2 v2 _ => if unop_eqb op2 UNot then simplify_boolean unbound v2
                          else EUn UNot (simplify_boolean unbound v) false
        | _ => EUn UNot (simplify_boolean unbound v) false
        end
      else e
  | EBin op l r =>
      match op with
      | BStrictEq | BStrictNe | BLooseEq | BLooseNe =>
          match extract_numeric_value r with
          | Some n =>
              if is_zero n && is_int32_or_uint32 l then
                match op with
                | BStrictNe | BLooseNe => l
                | _ => not_ l
                end
              else e
          | None => e
          end
      | BLogAnd =>
          let l' := simplify_boolean unbound l in
          let r' := simplify_boolean unbound r in
          let '(b, se, ok) := to_boolean r' in
          if ok && b && se then l' else EBin op l' r'
      | BLogOr =>
          let l' := simplify_boolean unbound l in
          let r' := simplify_boolean unbound r in
          let '(b, se, ok) := to_boolean r' in
          if ok && negb b && se then l' else EBin op l' r'
      | _ => e
      end
  | EIf t y n =>
      let y' := simplify_boolean unbound y in
      let n' := simplify_boolean unbound n in
      let '(yb, yse, yok) := to_boolean y' in
      if yok && yse then
        (if yb then join_left BLogOr t n' else join_left BLogAnd (not_ t) n')
      else
        let '(nb, nse, nok) := to_boolean n' in
        if nok && nse then
          (if nb then join_left BLogOr (not_ t) y' else join_left BLogAnd t y')
        else EIf t y' n'
  | _ =>
      let '(b, se, ok) := to_boolean e in
      if ok && (se || can_be_removed unbound e) then EBool b else e
  end.

(* ---- simplifyUnusedStringAdditionChain -------------------------------------------------------- *)
Fixpoint simplify_unused_string_chain (e : expr) : expr * bool :=
  match e with
  | EStr _ => (EStr [], true)
  | EBin BAdd l r =>
      let '(lft, leftIs) := simplify_unused_string_chain l in
      match r with
      | EStr rv =>
          if leftIs then (lft, true)
          else match rv with
               | _ :: _ => (EBin BAdd lft (EStr []), true)
               | [] => (EBin BAdd lft r, leftIs)
               end
      | _ => (EBin BAdd lft r, leftIs)
      end
  | _ => (e, false)
  end.

(* ---- TryToInsertOptionalChain (returns the rewritten expression) ------------------------------- *)
(* IsOptionalChain *)
Definition is_optional_chain (e : expr) : bool :=
  match e with
  | EDot _ _ oc _ _ => negb (oc =? 0)
  | EIndex _ _ oc => negb (oc =? 0)
  | ECall _ _ oc _ => negb (oc =? 0)
  | _ => false
  end.

(* endsParenthesizedChain (fix 01a3711): in "(a.b?.c).d" the ".d" is not a link of
   the chain inside the parentheses *)
Definition ends_paren_chain (oc : Z) (t : expr) : bool := (oc =? 0) && is_optional_chain t.

Fixpoint try_insert_optional_chain (test e : expr) {struct e} : option expr :=
  match e with
  | EDot t name oc c s =>
      if values_look_the_same test t then Some (EDot t name 1 c s)
      else if ends_paren_chain oc t then None
      else match try_insert_optional_chain test t with
           | Some t' => Some (EDot t' name (if oc =? 0 then 2 else oc) c s)
           | None => None
           end
  | EIndex t i oc =>
      if values_look_the_same test t then Some (EIndex t i 1)
      else if ends_paren_chain oc t then None
      else match try_insert_optional_chain test t with
           | Some t' => Some (EIndex t' i (if oc =? 0 then 2 else oc))
           | None => None
           end
  | ECall t args oc p =>
      if values_look_the_same test t then Some (ECall t args 1 p)
      else if ends_paren_chain oc t then None
      else match try_insert_optional_chain test t with
           | Some t' => Some (ECall t' args (if oc =? 0 then 2 else oc) p)
           | None => None
           end
  | _ => None
  end.

(* ---- SimplifyUnusedExpr -------------------------------------------------------------------------
   Result: UNil = nil expression (can be removed), UExpr e, UFuel = fuel
   exhausted.  The recursion is not structural (the left operand of a logical
   operator is first rewritten by SimplifyBooleanExpr and then simplified), so
   the function is fuelled; [simplify_unused] supplies 2*size+8, which always
   suffices (theorems and checkers treat UFuel as a failure). *)
Inductive ures := UNil | UExpr (e : expr) | UFuel.
Definition is_null (e : expr) : bool := match e with ENull => true | _ => false end.

Definition join_u (a b : ures) : ures :=
  match a, b with
  | UFuel, _ | _, UFuel => UFuel
  | UNil, _ => b
  | _, UNil => a
  | UExpr x, UExpr y => UExpr (EBin BComma x y)
  end.

Definition zero_num : num := Fin false 0 0.

Fixpoint su_fuel (fuel : nat) (unbound : Z -> bool) (noOptChain : bool) (e : expr) {struct fuel} : ures :=
  match fuel with
  | O => UFuel
  | S f =>
  let su := su_fuel f unbound noOptChain in
  match e with
  | EAnnot _ removable => if removable then UNil else UExpr e
  | EInlinedEnum v => su v
  | ENull | EUndefined | EMissing | EBool _ | ENum _ | EBig _ | EStr _ | EThis | ERegExp _ | EFunc _ | EArrow _ => UNil
  | EDot _ _ _ removable _ => if removable then UNil else UExpr e
  | EId ref removable mustkeep =>
      if mustkeep then UExpr e
      else if removable || negb (unbound ref) then UNil else UExpr e
  | ETemplate _ parts =>
      let flush (comma : ures) (pend : list (expr * list Z)) : ures :=
        match pend with
        | [] => comma
        | _ => join_u comma (UExpr (ETemplate [] (rev pend)))
        end in
      (fix go (l : list (expr * list Z)) (comma : ures) (pend : list (expr * list Z)) : ures :=
         match l with
         | [] => flush comma pend
         | (v, _) :: r =>
             if negb (ptype_eqb (known_type v) PUnknown)
             then go r (join_u (flush comma pend) (su v)) []
             else go r comma ((v, []) :: pend)
         end) parts UNil []
  | EArray items =>
      if existsb (fun x => match x with ESpread _ => true | _ => false end) items then
        (fix go (l : list expr) (acc : list expr) : ures :=
           match l with
           | [] => UExpr (EArray (rev acc))
           | x :: r => match su x with
                       | UExpr x' => go r (x' :: acc)
                       | UNil => go r acc
                       | UFuel => UFuel
                       end
           end) items []
      else
        (fix go (l : list expr) (acc : ures) : ures :=
           match l with
           | [] => acc
           | x :: r => go r (join_u acc (su x))
           end) items UNil
  | EObject props =>
      if existsb (fun p : Z * bool * expr * expr => let '(kind, _, _, _) := p in kind =? 1) props then
        (fix go (l : list (Z * bool * expr * expr)) (acc : list (Z * bool * expr * expr)) : ures :=
           match l with
           | [] => UExpr (EObject (rev acc))
           | (kind, computed, key, value) :: r =>
               if kind =? 1 then go r ((kind, computed, key, value) :: acc)
               else match su value with
                    | UExpr v' => go r ((kind, computed, key, v') :: acc)
                    | UNil => if computed then go r ((kind, computed, key, ENum zero_num) :: acc) else go r acc
                    | UFuel => UFuel
                    end
           end) props []
      else
        (fix go (l : list (Z * bool * expr * expr)) (acc : ures) : ures :=
           match l with
           | [] => acc
           | (kind, computed, key, value) :: r =>
               let acc := if computed then join_u acc (UExpr (EBin BAdd key (EStr []))) else acc in
               go r (join_u acc (su value))
           end) props UNil
  | EIf t y n =>
      match su y, su n with
      | UFuel, _ | _, UFuel => UFuel
      | UNil, UNil => su t
      | UNil, UExpr n'' => UExpr (join_left BLogOr t n'')
      | UExpr y'', UNil => UExpr (join_left BLogAnd t y'')
      | UExpr y'', UExpr n'' => UExpr (EIf t y'' n'')
      end
  | EUn op v w =>
      match op with
      | UVoid | UNot => su v
      | UNeg => match v with EBig _ => UNil | _ => UExpr e end
      | UTypeof =>
          match v with
          | EId _ _ _ => if w then UNil else su v
          | _ => su v
          end
      | _ => UExpr e
      end
  | EBin op l r =>
      match op with
      | BStrictEq | BStrictNe | BComma => join_u (su l) (su r)
      | BLooseEq | BLooseNe =>
          if negb (ptype_eqb (merged_known_types l r) PUnknown) then join_u (su l) (su r) else UExpr e
      | BLogAnd | BLogOr | BNullish =>
          let l' := match op with BNullish => l | _ => simplify_boolean unbound l end in
          match su r with
          | UFuel => UFuel
          | UNil => su l'
          | UExpr r' =>
              let dflt := UExpr (EBin op l' r') in
              if noOptChain then dflt
              else match l' with
                   | EBin bop bl br =>
                       if (binop_eqb bop BLooseNe && binop_eqb op BLogAnd) || (binop_eqb bop BLooseEq && binop_eqb op BLogOr) then
                         let test := if is_null br then Some bl else if is_null bl then Some br else None in
                         match test with
                         | Some tst =>
                             match tst with
                             | EId ref c mustkeep =>
                                 if mustkeep then dflt
                                 else match try_insert_optional_chain tst r' with
                                      | Some r'' => UExpr r''
                                      | None => dflt
                                      end
                             | _ => dflt
                             end
                         | None => dflt
                         end
                       else dflt
                   | _ => dflt
                   end
          end
      | BAdd =>
          let '(res, isStr) := simplify_unused_string_chain e in
          if isStr then UExpr res else UExpr e
      | _ => UExpr e
      end
  | ECall t args oc pure =>
      if pure then
        (* fix a3926ba: the arguments of a call in an optional chain are not
           evaluated when the chain short-circuits *)
        if negb (oc =? 0) && negb (can_be_removed unbound e) then UExpr e else
        (fix go (l : list expr) (acc : ures) : ures :=
           match l with
           | [] => acc
           | x :: r =>
               go r (join_u acc
                       (match x with
                        | ESpread _ => UExpr (EArray [x])   (* SimplifyUnusedExpr([...x]) keeps the array *)
                        | _ => su x
                        end))
           end) args UNil
      else UExpr e
  | ENew t args pure =>
      if pure then
        (fix go (l : list expr) (acc : ures) : ures :=
           match l with
           | [] => acc
           | x :: r =>
               go r (join_u acc
                       (match x with
                        | ESpread _ => UExpr (EArray [x])
                        | _ => su x
                        end))
           end) args UNil
      else UExpr e
  | _ => UExpr e
  end
  end.

Fixpoint esize (e : expr) : nat :=
  let sum := fix sum (l : list expr) : nat := match l with [] => O | x :: r => (esize x + sum r)%nat end in
  S (match e with
     | EDot t _ _ _ _ => esize t
     | EIndex t i _ => esize t + esize i
     | ECall t args _ _ => esize t + sum args
     | ENew t args _ => esize t + sum args
     | EUn _ v _ => esize v
     | EBin _ l r => esize l + esize r
     | EIf t y n => esize t + esize y + esize n
     | ETemplate _ parts =>
         (fix go (l : list (expr * list Z)) : nat := match l with [] => O | (v, _) :: r => (esize v + go r)%nat end) parts
     | EArray items => sum items
     | ESpread v => esize v
     | EObject props =>
         (fix go (l : list (Z * bool * expr * expr)) : nat :=
            match l with [] => O | (_, _, k, v) :: r => (esize k + esize v + go r)%nat end) props
     | EAnnot v _ => esize v
     | EInlinedEnum v => esize v
     | _ => O
     end)%nat.

Definition simplify_unused (unbound : Z -> bool) (noOptChain : bool) (e : expr) : ures :=
  su_fuel (2 * esize e + 8) unbound noOptChain e.

(* ---- MangleIfExpr ------------------------------------------------------------------------------- *)
Definition orelse {A} (a : option A) (b : option A) : option A :=
  match a with Some x => Some x | None => b end.

Definition is_spread (e : expr) : bool := match e with ESpread _ => true | _ => false end.
Definition as_bool (e : expr) : option bool := match e with EBool b => Some b | _ => None end.
Definition as_call (e : expr) : option (expr * expr * list expr * Z * bool) :=
  match e with ECall t (a0 :: tl) oc p => Some (t, a0, tl, oc, p) | _ => None end.
Definition as_spread (e : expr) : option expr := match e with ESpread v => Some v | _ => None end.

Fixpoint all_look_same (x y : list expr) : bool :=
  match x, y with
  | e1 :: x', e2 :: y' => values_look_the_same e1 e2 && all_look_same x' y'
  | _, _ => true
  end.

(* the rewrites of MangleIfExpr after "(a, b) ? c : d" and "!a ? b : c" have been
   handled, one definition per rewrite, in the order of the Go function *)
Definition mi_bools (test yes no : expr) : option expr :=
  match as_bool yes, as_bool no with
  | Some true, Some false => Some (not_ (not_ test))
  | Some false, Some true => Some (not_ test)
  | _, _ => None
  end.

Definition mi_idcase (test yes no : expr) : option expr :=
  match as_id test with
  | Some r =>
      if (match as_id yes with Some r2 => r =? r2 | None => false end) then Some (join_left BLogOr test no)
      else if (match as_id no with Some r3 => r =? r3 | None => false end) then Some (join_left BLogAnd test yes)
      else None
  | None => None
  end.

Definition mi_yesif (test yes no : expr) : option expr :=
  match yes with
  | EIf yt yy yn => if values_look_the_same yn no then Some (EIf (join_left BLogAnd test yt) yy no) else None
  | _ => None
  end.

Definition mi_noif (test yes no : expr) : option expr :=
  match no with
  | EIf nt ny nn => if values_look_the_same yes ny then Some (EIf (join_left BLogOr test nt) yes nn) else None
  | _ => None
  end.

Definition mi_nocomma (test yes no : expr) : option expr :=
  match no with
  | EBin BComma cl cr => if values_look_the_same yes cr then Some (EBin BComma (join_left BLogOr test cl) cr) else None
  | _ => None
  end.

Definition mi_yescomma (test yes no : expr) : option expr :=
  match yes with
  | EBin BComma cl cr => if values_look_the_same cr no then Some (EBin BComma (join_left BLogAnd test cl) cr) else None
  | _ => None
  end.

Definition mi_yesor (test yes no : expr) : option expr :=
  match yes with
  | EBin BLogOr bl br => if values_look_the_same br no then Some (EBin BLogOr (join_left BLogAnd test bl) br) else None
  | _ => None
  end.

Definition mi_noand (test yes no : expr) : option expr :=
  match no with
  | EBin BLogAnd bl br => if values_look_the_same yes br then Some (EBin BLogAnd (join_left BLogOr test bl) br) else None
  | _ => None
  end.

(* "a ? b(c, d) : b(e, d)" => "b(a ? c : e, d)"; [rec] is MangleIfExpr itself.
   Some (Some r) = rewritten, Some None = not applicable, None = fuel *)
Definition mi_calls (rec : expr -> expr -> expr -> option expr) (unbound : Z -> bool)
           (test yes no : expr) : option (option expr) :=
  match as_call yes, as_call no with
  | Some (yt, y0, ytl, yoc, yp), Some (nt, n0, ntl, noc, np) =>
      if (length ytl =? length ntl)%nat && (yoc =? noc) && Bool.eqb yp np && values_look_the_same yt nt
         && can_be_removed unbound test && can_be_removed unbound yt && all_look_same ytl ntl then
        match as_spread y0, as_spread n0 with
        | Some ys, Some ns =>
            match rec test ys ns with
            | Some x => Some (Some (ECall yt (ESpread x :: ytl) yoc yp))
            | None => None
            end
        | None, None =>
            match rec test y0 n0 with
            | Some x => Some (Some (ECall yt (x :: ytl) yoc yp))
            | None => None
            end
        | _, _ => Some None
        end
      else Some None
  | _, _ => Some None
  end.

(* "a != null ? a : b" => "a ?? b";  "a != null ? a.b : undefined" => "a?.b" *)
Definition mi_nullish (unbound : Z -> bool) (noNullish noOptChain : bool) (test yes no : expr) : option expr :=
  match test with
  | EBin bop bl br =>
      let sel := match bop with
                 | BLooseEq => if is_null br then Some (bl, yes, no)       (* check, whenNull, whenNonNull *)
                               else if is_null bl then Some (br, yes, no) else None
                 | BLooseNe => if is_null br then Some (bl, no, yes)
                               else if is_null bl then Some (br, no, yes) else None
                 | _ => None
                 end in
      match sel with
      | Some (check, whenNull, whenNonNull) =>
          if can_be_removed unbound check then
            if negb noNullish && values_look_the_same check whenNonNull then Some (join_left BNullish check whenNull)
            else if negb noOptChain then
              (if (match whenNull with EUndefined => true | _ => false end)
               then try_insert_optional_chain check whenNonNull else None)
            else None
          else None
      | None => None
      end
  | _ => None
  end.

Definition mi_simple (test yes no : expr) : option expr :=
  orelse (mi_bools test yes no) (orelse (mi_idcase test yes no) (orelse (mi_yesif test yes no)
  (orelse (mi_noif test yes no) (orelse (mi_nocomma test yes no) (orelse (mi_yescomma test yes no)
  (orelse (mi_yesor test yes no) (mi_noand test yes no))))))).

(* None = fuel exhausted *)
Definition mangle_tail (rec : expr -> expr -> expr -> option expr)
           (unbound : Z -> bool) (noNullish noOptChain : bool) (test yes no : expr) : option expr :=
  if values_look_the_same yes no then
    (if can_be_removed unbound test then Some yes else Some (EBin BComma test yes))
  else
  match mi_simple test yes no with
  | Some x => Some x
  | None =>
      match mi_calls rec unbound test yes no with
      | None => None
      | Some (Some x) => Some x
      | Some None =>
          match mi_nullish unbound noNullish noOptChain test yes no with
          | Some x => Some x
          | None => Some (EIf test yes no)
          end
      end
  end.

(* None = fuel exhausted *)
Fixpoint mangle_if_fuel (fuel : nat) (unbound : Z -> bool) (noNullish noOptChain : bool)
         (test yes no : expr) {struct fuel} : option expr :=
  match fuel with
  | O => None
  | S f =>
  match test with
  | EBin BComma cl cr =>
      match mangle_if_fuel f unbound noNullish noOptChain cr yes no with
      | Some x => Some (EBin BComma cl x)
      | None => None
      end
  | _ =>
  let '(test, yes, no) := match test with EUn UNot v _ => (v, no, yes) | _ => (test, yes, no) end in
  mangle_tail (mangle_if_fuel f unbound noNullish noOptChain) unbound noNullish noOptChain test yes no
  end
  end.

Definition mangle_if (unbound : Z -> bool) (noNullish noOptChain : bool) (test yes no : expr) : option expr :=
  mangle_if_fuel (esize test + esize yes + esize no + 4) unbound noNullish noOptChain test yes no.
