(* SimplifyUnusedExpr preserves the effects of an unused expression statement:
   same trace, same kind of completion, same thrown value *)
From V Require Import Common.Base C03.Num C03.Tree C03.MiniJS C03.Worlds
  C03.TreeProofs C03.TreeProofs2 C03.TreeProofs3 C03.TreeProofs4 C03.TreeProofs5 C03.TreeProofs6 C03.TreeProofs7 C03.TreeProofs9 C03.TreeProofs10 C03.TreeProofs13.

(* the observable part of a completion: the trace and the thrown value, if any *)
Definition effects := option (trace * option value).
Definition eff_of (r : option (trace * outcome)) : effects :=
  match r with
  | Some (t, Val _) => Some (t, None)
  | Some (t, Throw z) => Some (t, Some z)
  | None => None
  end.
Definition seq_eff (r : effects) (k : trace -> effects) : effects :=
  match r with
  | Some (t, None) => k t
  | Some (t, Some z) => Some (t, Some z)
  | None => None
  end.

Lemma seq_assoc : forall r k1 k2, seq_eff (seq_eff r k1) k2 = seq_eff r (fun t => seq_eff (k1 t) k2).
Proof. intros [[t [z|]]|] k1 k2; reflexivity. Qed.
Lemma seq_ret : forall r, seq_eff r (fun t => Some (t, None)) = r.
Proof. intros [[t [z|]]|]; reflexivity. Qed.
Lemma seq_ext : forall r k1 k2, (forall t, k1 t = k2 t) -> seq_eff r k1 = seq_eff r k2.
Proof. intros [[t [z|]]|] k1 k2 H; cbn; auto. Qed.
Lemma seq_some : forall r k, seq_eff r k <> None -> r <> None.
Proof. intros [[t [z|]]|] k H; cbn in *; congruence. Qed.

Lemma eff_of_some : forall r, r <> None -> eff_of r <> None.
Proof. intros [[t [v|z]]|] H; cbn; congruence. Qed.

Lemma same_effects_iff : forall a b, eff_of a = eff_of b -> a <> None -> same_effects a b.
Proof.
  intros [[t1 [x|x]]|] [[t2 [y|y]]|] H Hn; cbn in *; try congruence; inversion H; auto.
Qed.

Section SU.
  Variable W : world.
  Hypothesis Wok : world_ok W.
  Notation ev := (eval W).
  Notation ub := (w_unbound W).

  Definition EE (e : expr) (tr : trace) : effects := eff_of (ev tr e).
  Definition EU (r : ures) (tr : trace) : effects := eff_of (eval_unused W tr r).

  (* r has the effects of e whenever e evaluates *)
  Definition SE (e : expr) (r : ures) : Prop := forall tr, EE e tr <> None -> EU r tr = EE e tr.

  (* effects of a bind whose continuation only depends on the trace for its effects *)
  Lemma eff_of_bind : forall r k (kk : trace -> effects),
    (forall t v, eff_of (k t v) = kk t) -> eff_of (bind r k) = seq_eff (eff_of r) kk.
  Proof. intros [[t [v|z]]|] k kk H; cbn; auto. Qed.

  Lemma EU_nil : forall tr, EU UNil tr = Some (tr, None).
  Proof. reflexivity. Qed.
  Lemma EU_expr : forall e tr, EU (UExpr e) tr = EE e tr.
  Proof. reflexivity. Qed.

  Lemma EU_join : forall ra rb tr, ra <> UFuel -> rb <> UFuel ->
    EU (join_u ra rb) tr = seq_eff (EU ra tr) (EU rb).
  Proof.
    intros ra rb tr Ha Hb. destruct ra as [|a|]; destruct rb as [|b|]; try congruence; cbn [join_u].
    - reflexivity.
    - reflexivity.
    - rewrite EU_expr. symmetry. etransitivity; [|apply seq_ret]. apply seq_ext. reflexivity.
    - unfold EU, EE. cbn [eval_unused eval]. apply eff_of_bind. reflexivity.
  Qed.

  Lemma join_u_fuel : forall ra rb, join_u ra rb <> UFuel -> ra <> UFuel /\ rb <> UFuel.
  Proof. intros [|a|] [|b|] H; cbn in H; split; congruence. Qed.

  Lemma EE_comma : forall a b tr, EE (EBin BComma a b) tr = seq_eff (EE a tr) (EE b).
  Proof. intros. unfold EE. cbn [eval]. apply eff_of_bind. reflexivity. Qed.

  (* composition: "a then b" *)
  Lemma SE_seq : forall a b ra rb, SE a ra -> SE b rb -> ra <> UFuel -> rb <> UFuel ->
    forall tr, seq_eff (EE a tr) (EE b) <> None ->
    EU (join_u ra rb) tr = seq_eff (EE a tr) (EE b).
  Proof.
    intros a b ra rb Ha Hb Fa Fb tr Hn. rewrite EU_join by assumption.
    pose proof (seq_some _ _ Hn) as Hna. rewrite (Ha tr Hna).
    destruct (EE a tr) as [[t [z|]]|] eqn:E; cbn [seq_eff] in *; try congruence.
    apply Hb. exact Hn.
  Qed.

  Lemma SE_refl : forall e, SE e (UExpr e).
  Proof. intros e tr _. reflexivity. Qed.

  Lemma SE_pure : forall e, pure_eval W e -> SE e UNil.
  Proof.
    intros e Hp tr Hn. unfold EE in *. destruct (ev tr e) as [[t o]|] eqn:E; [|cbn in Hn; congruence].
    destruct (Hp _ _ _ E) as [-> [v ->]]. reflexivity.
  Qed.

  (* an expression with the same evaluation *)
  Lemma SE_same_eval : forall e e' r, (forall tr, EE e tr = EE e' tr) -> SE e' r -> SE e r.
  Proof. intros e e' r H S tr Hn. rewrite H in *. apply S. exact Hn. Qed.

  (* ---- decomposition of the effects of the constructs ------------------------------ *)
  Lemma EE_unary_pure : forall op v w tr, (op = UVoid \/ op = UNot) -> EE (EUn op v w) tr = EE v tr.
  Proof.
    intros op v w tr [-> | ->]; unfold EE; cbn [eval];
      (etransitivity; [apply eff_of_bind with (kk := fun t => Some (t, None)); reflexivity | apply seq_ret]).
  Qed.

  Lemma EE_typeof : forall v w tr, (forall r c m, v <> EId r c m) -> EE (EUn UTypeof v w) tr = EE v tr.
  Proof.
    intros v w tr Hn. unfold EE. cbn [eval].
    destruct v; try (etransitivity; [apply eff_of_bind with (kk := fun t => Some (t, None)); reflexivity | apply seq_ret]).
    exfalso. eapply Hn. reflexivity.
  Qed.

  (* two operands then a final step without effects (possibly undefined) *)
  Lemma EE_two : forall a b tr (k : trace -> value -> value -> option (trace * outcome)),
    (forall t x y, k t x y = None \/ exists v, k t x y = Some (t, Val v)) ->
    eff_of (bind (ev tr a) (fun t1 x => bind (ev t1 b) (fun t2 y => k t2 x y))) <> None ->
    eff_of (bind (ev tr a) (fun t1 x => bind (ev t1 b) (fun t2 y => k t2 x y))) = seq_eff (EE a tr) (EE b).
  Proof.
    intros a b tr k Hk Hn. unfold EE.
    destruct (ev tr a) as [[t1 [x|x]]|]; cbn [bind eff_of seq_eff] in *; try reflexivity.
    destruct (ev t1 b) as [[t2 [y|y]]|]; cbn [bind eff_of seq_eff] in *; try reflexivity.
    destruct (Hk t2 x y) as [E|[v E]]; rewrite E in *; cbn in *; congruence.
  Qed.

  Lemma SE_two : forall e a b ra rb,
    (forall tr, EE e tr <> None -> EE e tr = seq_eff (EE a tr) (EE b)) ->
    SE a ra -> SE b rb -> ra <> UFuel -> rb <> UFuel -> SE e (join_u ra rb).
  Proof.
    intros e a b ra rb Hd Ha Hb Fa Fb tr Hn. rewrite (Hd tr Hn). apply SE_seq; try assumption.
    rewrite <- (Hd tr Hn). exact Hn.
  Qed.

  Lemma EE_strict : forall op a b tr, (op = BStrictEq \/ op = BStrictNe) ->
    EE (EBin op a b) tr <> None -> EE (EBin op a b) tr = seq_eff (EE a tr) (EE b).
  Proof.
    intros op a b tr [-> | ->] Hn; unfold EE in *; cbn [eval] in *;
      (apply (EE_two a b tr (fun t2 x y => match strict_eq x y with Some bb => Some (t2, Val (VBool _)) | None => None end)); [|exact Hn]);
      intros t x y; destruct (strict_eq x y); eauto.
  Qed.

  (* ---- if ----------------------------------------------------------------------------- *)
  Lemma EE_if : forall t y n tr,
    EE (EIf t y n) tr = match ev tr t with
                        | Some (t1, Val x) => if truthy x then EE y t1 else EE n t1
                        | Some (t1, Throw z) => Some (t1, Some z)
                        | None => None
                        end.
  Proof.
    intros. unfold EE. cbn [eval]. destruct (ev tr t) as [[t1 [x|z]]|]; cbn [bind eff_of]; try reflexivity.
    destruct (truthy x); reflexivity.
  Qed.

  Lemma EE_logic : forall op l r tr, EE (EBin op l r) tr =
    match op with
    | BLogAnd => match ev tr l with
                 | Some (t1, Val x) => if truthy x then EE r t1 else Some (t1, None)
                 | Some (t1, Throw z) => Some (t1, Some z) | None => None end
    | BLogOr => match ev tr l with
                | Some (t1, Val x) => if truthy x then Some (t1, None) else EE r t1
                | Some (t1, Throw z) => Some (t1, Some z) | None => None end
    | BNullish => match ev tr l with
                  | Some (t1, Val x) => if nullish x then EE r t1 else Some (t1, None)
                  | Some (t1, Throw z) => Some (t1, Some z) | None => None end
    | _ => EE (EBin op l r) tr
    end.
  Proof.
    intros. destruct op; try reflexivity; unfold EE; cbn [eval];
      destruct (ev tr l) as [[t1 [x|z]]|]; cbn [bind eff_of]; try reflexivity.
    - destruct (nullish x); reflexivity.
    - destruct (truthy x); reflexivity.
    - destruct (truthy x); reflexivity.
  Qed.

  Lemma EE_and : forall l r tr, EE (EBin BLogAnd l r) tr =
    match ev tr l with
    | Some (t1, Val x) => if truthy x then EE r t1 else Some (t1, None)
    | Some (t1, Throw z) => Some (t1, Some z) | None => None end.
  Proof. intros. exact (EE_logic BLogAnd l r tr). Qed.
  Lemma EE_or : forall l r tr, EE (EBin BLogOr l r) tr =
    match ev tr l with
    | Some (t1, Val x) => if truthy x then Some (t1, None) else EE r t1
    | Some (t1, Throw z) => Some (t1, Some z) | None => None end.
  Proof. intros. exact (EE_logic BLogOr l r tr). Qed.
  Lemma EE_nullish : forall l r tr, EE (EBin BNullish l r) tr =
    match ev tr l with
    | Some (t1, Val x) => if nullish x then EE r t1 else Some (t1, None)
    | Some (t1, Throw z) => Some (t1, Some z) | None => None end.
  Proof. intros. exact (EE_logic BNullish l r tr). Qed.

  Lemma nil_at : forall e t, SE e UNil -> EE e t <> None -> EE e t = Some (t, None).
  Proof. intros e t S Hn. rewrite <- (S t Hn). reflexivity. Qed.

  Lemma if_nil_nil : forall t y n rt, SE y UNil -> SE n UNil -> SE t rt -> SE (EIf t y n) rt.
  Proof.
    intros t y n rt Sy Sn St tr Hn. rewrite EE_if in Hn |- *.
    assert (Ht : EE t tr <> None) by (unfold EE; apply eff_of_some; intro E0; rewrite E0 in Hn; congruence).
    rewrite (St tr Ht). unfold EE at 1.
    destruct (ev tr t) as [[t1 [x|z]]|]; try reflexivity.
    destruct (truthy x); symmetry; apply nil_at; assumption.
  Qed.

  Lemma sc_nullish : short_circuit BNullish. Proof. right; right; reflexivity. Qed.

  Lemma EE_join : forall op a b tr, short_circuit op -> EE (join_left op a b) tr = EE (EBin op a b) tr.
  Proof. intros. unfold EE. rewrite join_left_assoc_equiv_all by assumption. reflexivity. Qed.

  Lemma if_nil_expr : forall t y n n', SE y UNil -> SE n (UExpr n') ->
    SE (EIf t y n) (UExpr (join_left BLogOr t n')).
  Proof.
    intros t y n n' Sy Sn tr Hn. rewrite EU_expr, EE_join by apply sc_or. rewrite EE_or. rewrite EE_if in Hn |- *.
    destruct (ev tr t) as [[t1 [x|z]]|]; try reflexivity.
    destruct (truthy x); [symmetry; apply nil_at; assumption | apply (Sn t1 Hn)].
  Qed.

  Lemma if_expr_nil : forall t y n y', SE y (UExpr y') -> SE n UNil ->
    SE (EIf t y n) (UExpr (join_left BLogAnd t y')).
  Proof.
    intros t y n y' Sy Sn tr Hn. rewrite EU_expr, EE_join by apply sc_and. rewrite EE_and. rewrite EE_if in Hn |- *.
    destruct (ev tr t) as [[t1 [x|z]]|]; try reflexivity.
    destruct (truthy x); [apply (Sy t1 Hn) | symmetry; apply nil_at; assumption].
  Qed.

  Lemma if_expr_expr : forall t y n y' n', SE y (UExpr y') -> SE n (UExpr n') ->
    SE (EIf t y n) (UExpr (EIf t y' n')).
  Proof.
    intros t y n y' n' Sy Sn tr Hn. rewrite EU_expr. rewrite !EE_if in *.
    destruct (ev tr t) as [[t1 [x|z]]|]; try reflexivity.
    destruct (truthy x); [apply (Sy t1 Hn) | apply (Sn t1 Hn)].
  Qed.

  (* ---- logical operators ----------------------------------------------------------------- *)
  Lemma SE_of_ST : forall l l' r, ST W l l' -> SE l' r -> SE l r.
  Proof.
    intros l l' r Hst S tr Hn. unfold EE in Hn. destruct (ev tr l) as [res|] eqn:E; [|cbn in Hn; congruence].
    pose proof (Hst tr res E) as Hs.
    assert (Heq : EE l' tr = EE l tr).
    { unfold EE. rewrite E. destruct res as [t [x|x]]; destruct (ev tr l') as [[t2 [y|y]]|]; cbn in Hs |- *; try contradiction.
      - destruct Hs as [-> _]. reflexivity.
      - destruct Hs as [-> ->]. reflexivity. }
    rewrite <- Heq. apply S. rewrite Heq. unfold EE. rewrite E. destruct res as [t [x|x]]; discriminate.
  Qed.

  Lemma logic_nil : forall op l r rl, short_circuit op -> SE r UNil -> SE l rl -> SE (EBin op l r) rl.
  Proof.
    intros op l r rl Hop Sr Sl tr Hn.
    assert (Ht : EE l tr <> None).
    { unfold EE. apply eff_of_some. intro E0.
      destruct Hop as [-> | [-> | ->]]; [rewrite EE_and in Hn | rewrite EE_or in Hn | rewrite EE_nullish in Hn]; rewrite E0 in Hn; congruence. }
    rewrite (Sl tr Ht). unfold EE at 1.
    destruct Hop as [-> | [-> | ->]]; [rewrite EE_and in Hn |- * | rewrite EE_or in Hn |- * | rewrite EE_nullish in Hn |- *];
      destruct (ev tr l) as [[t1 [x|z]]|]; try reflexivity.
    - destruct (truthy x); [symmetry; apply nil_at; assumption | reflexivity].
    - destruct (truthy x); [reflexivity | symmetry; apply nil_at; assumption].
    - destruct (nullish x); [symmetry; apply nil_at; assumption | reflexivity].
  Qed.

  Lemma and_expr : forall l l' r r', ST W l l' -> SE r (UExpr r') ->
    SE (EBin BLogAnd l r) (UExpr (EBin BLogAnd l' r')).
  Proof.
    intros l l' r r' Hst Sr tr Hn. rewrite EU_expr. rewrite EE_and in Hn. rewrite (EE_and l r), (EE_and l' r').
    destruct (ev tr l) as [[t1 [x|z]]|] eqn:E; try (cbn in Hn; congruence);
      pose proof (Hst tr _ E) as Hs; destruct (ev tr l') as [[t2 [y|y]]|]; cbn in Hs; try contradiction.
    - destruct Hs as [-> Ht]. rewrite <- Ht. destruct (truthy x); [apply (Sr t2 Hn) | reflexivity].
    - destruct Hs as [-> ->]. reflexivity.
  Qed.

  Lemma or_expr : forall l l' r r', ST W l l' -> SE r (UExpr r') ->
    SE (EBin BLogOr l r) (UExpr (EBin BLogOr l' r')).
  Proof.
    intros l l' r r' Hst Sr tr Hn. rewrite EU_expr. rewrite EE_or in Hn. rewrite (EE_or l r), (EE_or l' r').
    destruct (ev tr l) as [[t1 [x|z]]|] eqn:E; try (cbn in Hn; congruence);
      pose proof (Hst tr _ E) as Hs; destruct (ev tr l') as [[t2 [y|y]]|]; cbn in Hs; try contradiction.
    - destruct Hs as [-> Ht]. rewrite <- Ht. destruct (truthy x); [reflexivity | apply (Sr t2 Hn)].
    - destruct Hs as [-> ->]. reflexivity.
  Qed.

  Lemma nullish_expr : forall l r r', SE r (UExpr r') -> SE (EBin BNullish l r) (UExpr (EBin BNullish l r')).
  Proof.
    intros l r r' Sr tr Hn. rewrite EU_expr. rewrite EE_nullish in Hn. rewrite (EE_nullish l r), (EE_nullish l r').
    destruct (ev tr l) as [[t1 [x|z]]|]; try reflexivity.
    destruct (nullish x); [apply (Sr t1 Hn) | reflexivity].
  Qed.

  (* ---- lists of items (array elements, call arguments) ------------------------------------ *)
  Definition eff_l (r : option (trace * lres)) : effects :=
    match r with
    | Some (t, LVals _) => Some (t, None)
    | Some (t, LThrow z) => Some (t, Some z)
    | None => None
    end.
  Definition EEitem (x : expr) (t : trace) : effects :=
    match x with
    | ESpread v => eff_of (bind (ev t v) (fun t1 xv => eff t1 (w_spread W xv)))
    | EMissing => Some (t, None)
    | _ => EE x t
    end.
  Definition EEitems (l : list expr) (t : trace) : effects := eff_l (eval_items_with W ev t l []).

  Lemma eff_l_lstep : forall r acc k (kk : trace -> effects),
    (forall t a, eff_l (k t a) = kk t) -> eff_l (lstep r acc k) = seq_eff (eff_of r) kk.
  Proof. intros [[t [v|z]]|] acc k kk H; cbn; auto. Qed.

  Lemma items_acc : forall l t acc, eff_l (eval_items_with W ev t l acc) = EEitems l t.
  Proof.
    unfold EEitems. induction l as [|x r IH]; intros t acc; [reflexivity|].
    cbn [eval_items_with].
    destruct x; try (rewrite (eff_l_lstep _ acc _ (EEitems r)), (eff_l_lstep _ [] _ (EEitems r)); [reflexivity| |]; intros; apply IH).
    rewrite IH. symmetry. apply IH.
  Qed.

  Lemma items_cons : forall x r t, EEitems (x :: r) t = seq_eff (EEitem x t) (EEitems r).
  Proof.
    intros x r t. unfold EEitems at 1. cbn [eval_items_with].
    destruct x; cbn [EEitem]; try (apply eff_l_lstep; intros; apply items_acc).
    apply items_acc.
  Qed.

  Lemma items_nil : forall t, EEitems [] t = Some (t, None).
  Proof. reflexivity. Qed.

  Lemma EEitem_plain : forall x t, EE x t <> None -> EEitem x t = EE x t.
  Proof. intros x t H. destruct x; try reflexivity; exfalso; apply H; reflexivity. Qed.

  Lemma EE_array : forall items t, EE (EArray items) t = EEitems items t.
  Proof.
    intros. unfold EE, EEitems. rewrite eval_array_eq.
    destruct (eval_items_with W ev t items []) as [[t1 [vs|z]]|]; reflexivity.
  Qed.

  (* an item and its simplification *)
  Definition item_se (x : expr) (r : ures) : Prop := forall t, EEitem x t <> None -> EU r t = EEitem x t.

  Section Go_items_go.
  Variable f : expr -> ures.
  Fixpoint items_go (l : list expr) (acc : ures) : ures :=
    match l with [] => acc | x :: r => items_go r (join_u acc (f x)) end.
  End Go_items_go.

  Lemma join_u_fuel_l : forall x, join_u UFuel x = UFuel.
  Proof. destruct x; reflexivity. Qed.

  Lemma items_go_fuel : forall f l, items_go f l UFuel = UFuel.
  Proof. intros f. induction l as [|x r IH]; [reflexivity|]. cbn [items_go]. rewrite join_u_fuel_l. exact IH. Qed.

  Lemma fold_items : forall (f : expr -> ures) l acc tr,
    (forall x, In x l -> f x <> UFuel -> item_se x (f x)) ->
    items_go f l acc <> UFuel ->
    seq_eff (EU acc tr) (EEitems l) <> None ->
    EU (items_go f l acc) tr = seq_eff (EU acc tr) (EEitems l).
  Proof.
    intros f. induction l as [|x r IH]; intros acc tr Hall Hf Hn; cbn [items_go] in *.
    - symmetry. etransitivity; [apply seq_ext; intros; apply items_nil | apply seq_ret].
    - assert (Hj : join_u acc (f x) <> UFuel) by (intro E; rewrite E, items_go_fuel in Hf; congruence).
      destruct (join_u_fuel _ _ Hj) as [Hacc Hfx].
      pose proof (Hall x (or_introl eq_refl) Hfx) as Hx.
      assert (Heq : EU (join_u acc (f x)) tr = seq_eff (EU acc tr) (EEitem x)).
      { rewrite EU_join by assumption.
        destruct (EU acc tr) as [[t [z|]]|] eqn:Ea; cbn [seq_eff] in *; try reflexivity.
        apply Hx. rewrite items_cons in Hn. apply (seq_some _ _ Hn). }
      assert (Hn2 : seq_eff (EU (join_u acc (f x)) tr) (EEitems r) <> None).
      { rewrite Heq, seq_assoc. erewrite seq_ext; [exact Hn|]. intros; symmetry; apply items_cons. }
      rewrite (IH (join_u acc (f x)) tr (fun y Hy => Hall y (or_intror Hy)) Hf Hn2).
      rewrite Heq, seq_assoc. apply seq_ext. intros; symmetry; apply items_cons.
  Qed.

  (* array with a spread: the array is kept, removable items are dropped *)
  Definition item_keep (x : expr) (r : ures) : Prop :=
    match r with
    | UExpr x' => forall t, EEitem x t <> None -> EEitem x' t = EEitem x t
    | UNil => forall t, EEitem x t <> None -> EEitem x t = Some (t, None)
    | UFuel => True
    end.

  Section Go_keep_items_go.
  Variable f : expr -> ures.
  Fixpoint keep_items_go (l : list expr) (acc : list expr) : ures :=
    match l with
    | [] => UExpr (EArray (rev acc))
    | x :: r => match f x with
                | UExpr x' => keep_items_go r (x' :: acc)
                | UNil => keep_items_go r acc
                | UFuel => UFuel
                end
    end.
  End Go_keep_items_go.

  Lemma keep_items : forall (f : expr -> ures) l acc,
    (forall x, In x l -> item_keep x (f x)) ->
    keep_items_go f l acc <> UFuel ->
    exists K, keep_items_go f l acc = UExpr (EArray (rev acc ++ K)) /\ forall t, EEitems l t <> None -> EEitems K t = EEitems l t.
  Proof.
    intros f. induction l as [|x r IH]; intros acc Hall Hf; cbn [keep_items_go] in Hf |- *.
    - exists []. rewrite app_nil_r. split; reflexivity.
    - pose proof (Hall x (or_introl eq_refl)) as Hx. unfold item_keep in Hx.
      destruct (f x) as [|x'|] eqn:Hfx; [| |congruence].
      + destruct (IH acc (fun y Hy => Hall y (or_intror Hy)) Hf) as [K [E HK]].
        exists K. split; [exact E|]. intros t Hn. rewrite items_cons in Hn |- *.
        rewrite (Hx t (seq_some _ _ Hn)) in Hn |- *. cbn [seq_eff] in *. apply HK. exact Hn.
      + destruct (IH (x' :: acc) (fun y Hy => Hall y (or_intror Hy)) Hf) as [K [E HK]].
        exists (x' :: K). split; [rewrite E; cbn [rev]; rewrite <- app_assoc; reflexivity|].
        intros t Hn. rewrite !items_cons in *. rewrite (Hx t (seq_some _ _ Hn)).
        destruct (EEitem x t) as [[t1 [z|]]|]; cbn [seq_eff] in *; try reflexivity. apply HK. exact Hn.
  Qed.

  (* ---- object literal properties ---------------------------------------------------------------- *)
  Definition EEprops (l : list (Z * bool * expr * expr)) (t : trace) : effects := eff_of (eval_props_with W ev t l).
  Definition EEspread (v : expr) (t : trace) : effects := eff_of (bind (ev t v) (fun t1 xv => eff t1 (w_spread W xv))).
  Definition EEkey (k : expr) (t : trace) : effects := eff_of (bind (ev t k) (fun t1 kv => eff t1 (w_tokey W kv))).
  Definition EEprop (p : Z * bool * expr * expr) (t : trace) : effects :=
    let '(kind, computed, key, value) := p in
    if kind =? 1 then EEspread value t
    else if computed then seq_eff (EEkey key t) (EE value)
    else EE value t.

  Lemma props_cons : forall p r t, EEprops (p :: r) t = seq_eff (EEprop p t) (EEprops r).
  Proof.
    intros [[[kind computed] key] value] r t. unfold EEprops at 1, EEprop. cbn [eval_props_with].
    destruct (kind =? 1); [|destruct computed].
    - unfold EEspread. destruct (ev t value) as [[t1 [xv|z]]|]; cbn [bind eff_of seq_eff]; try reflexivity.
      destruct (eff t1 (w_spread W xv)) as [[t2 [y|z]]|]; reflexivity.
    - unfold EEkey, EE. destruct (ev t key) as [[t1 [kv|z]]|]; cbn [bind eff_of seq_eff]; try reflexivity.
      destruct (eff t1 (w_tokey W kv)) as [[t2 [y|z]]|]; cbn [bind eff_of seq_eff]; try reflexivity.
      destruct (ev t2 value) as [[t3 [y2|z]]|]; reflexivity.
    - unfold EE. destruct (ev t value) as [[t1 [y|z]]|]; reflexivity.
  Qed.

  Lemma EE_object : forall props t, EE (EObject props) t = EEprops props t.
  Proof. intros. unfold EE, EEprops. rewrite eval_object_eq. reflexivity. Qed.

  (* no spread, no computed key: the values in order *)
  Section Go_props_go.
  Variable f : expr -> ures.
  Fixpoint props_go (l : list (Z * bool * expr * expr)) (acc : ures) : ures :=
    match l with
    | [] => acc
    | (kind, computed, key, value) :: r =>
        let acc := if computed then join_u acc (UExpr (EBin BAdd key (EStr []))) else acc in
        props_go r (join_u acc (f value))
    end.
  End Go_props_go.

  Lemma props_go_fuel : forall f l, props_go f l UFuel = UFuel.
  Proof.
    intros f. induction l as [|[[[k c] key] v] r IH]; [reflexivity|]. cbn [props_go].
    destruct c; rewrite ?join_u_fuel_l; exact IH.
  Qed.

  Lemma fold_props : forall (f : expr -> ures) l acc tr,
    (forall kind computed key value, In (kind, computed, key, value) l ->
        (kind =? 1) = false /\ computed = false /\ (f value <> UFuel -> SE value (f value))) ->
    props_go f l acc <> UFuel -> seq_eff (EU acc tr) (EEprops l) <> None ->
    EU (props_go f l acc) tr = seq_eff (EU acc tr) (EEprops l).
  Proof.
    intros f. induction l as [|[[[kind computed] key] value] r IH]; intros acc tr Hall Hf Hn.
    - symmetry. apply seq_ret.
    - destruct (Hall kind computed key value (or_introl eq_refl)) as [Hk [-> Hv0]].
      cbn [props_go] in Hf |- *.
      assert (Hj : join_u acc (f value) <> UFuel) by (intro E; rewrite E, props_go_fuel in Hf; congruence).
      destruct (join_u_fuel _ _ Hj) as [Hacc Hfv]. pose proof (Hv0 Hfv) as Hv.
      assert (Hp : forall t, EEprop (kind, false, key, value) t = EE value t) by (intros; unfold EEprop; rewrite Hk; reflexivity).
      assert (Heq : EU (join_u acc (f value)) tr = seq_eff (EU acc tr) (EE value)).
      { rewrite EU_join by assumption.
        destruct (EU acc tr) as [[t [z|]]|] eqn:Ea; cbn [seq_eff] in *; try reflexivity.
        apply Hv. rewrite props_cons, Hp in Hn. apply (seq_some _ _ Hn). }
      assert (Hn2 : seq_eff (EU (join_u acc (f value)) tr) (EEprops r) <> None).
      { rewrite Heq, seq_assoc. erewrite seq_ext; [exact Hn|]. intros; rewrite props_cons, Hp; reflexivity. }
      rewrite (IH (join_u acc (f value)) tr (fun a b c d Hy => Hall a b c d (or_intror Hy)) Hf Hn2).
      rewrite Heq, seq_assoc. apply seq_ext. intros; rewrite props_cons, Hp; reflexivity.
  Qed.

  (* with a spread: the object is kept; a property is kept, dropped, or keeps its key with value 0 *)
  Definition prop_keep (p : Z * bool * expr * expr) (r : ures) : Prop :=
    let '(kind, computed, key, value) := p in
    match r with
    | UExpr v' => forall t, EE value t <> None -> EE v' t = EE value t
    | UNil => forall t, EE value t <> None -> EE value t = Some (t, None)
    | UFuel => True
    end.

  Section Go_keep_props_go.
  Variable f : expr -> ures.
  Fixpoint keep_props_go (l : list (Z * bool * expr * expr)) (acc : list (Z * bool * expr * expr)) : ures :=
    match l with
    | [] => UExpr (EObject (rev acc))
    | (kind, computed, key, value) :: r =>
        if kind =? 1 then keep_props_go r ((kind, computed, key, value) :: acc)
        else match f value with
             | UExpr v' => keep_props_go r ((kind, computed, key, v') :: acc)
             | UNil => if computed then keep_props_go r ((kind, computed, key, ENum zero_num) :: acc) else keep_props_go r acc
             | UFuel => UFuel
             end
    end.
  End Go_keep_props_go.

  Lemma keep_props : forall (f : expr -> ures) l acc,
    (forall p, In p l -> prop_keep p (f (snd p))) ->
    keep_props_go f l acc <> UFuel ->
    exists K, keep_props_go f l acc = UExpr (EObject (rev acc ++ K)) /\ forall t, EEprops l t <> None -> EEprops K t = EEprops l t.
  Proof.
    intros f. induction l as [|[[[kind computed] key] value] r IH]; intros acc Hall Hf; cbn [keep_props_go] in Hf |- *.
    - exists []. rewrite app_nil_r. split; reflexivity.
    - pose proof (Hall _ (or_introl eq_refl)) as Hx. cbn [snd prop_keep] in Hx.
      assert (Hr : forall p, In p r -> prop_keep p (f (snd p))) by (intros; apply Hall; right; assumption).
      destruct (kind =? 1) eqn:Hk.
      + destruct (IH _ Hr Hf) as [K [E HK]]. exists ((kind, computed, key, value) :: K).
        split; [rewrite E; cbn [rev]; rewrite <- app_assoc; reflexivity|].
        intros t Hn. rewrite !props_cons in *.
        destruct (EEprop (kind, computed, key, value) t) as [[t1 [z|]]|]; cbn [seq_eff] in *; try reflexivity. apply HK. exact Hn.
      + destruct (f value) as [|v'|] eqn:Hfv; [| |congruence].
        * (* value removable *)
          destruct computed.
          -- destruct (IH _ Hr Hf) as [K [E HK]]. exists ((kind, true, key, ENum zero_num) :: K).
             split; [rewrite E; cbn [rev]; rewrite <- app_assoc; reflexivity|].
             intros t Hn. rewrite !props_cons in *. unfold EEprop in *. rewrite Hk in *.
             destruct (EEkey key t) as [[t1 [z|]]|]; cbn [seq_eff] in *; try reflexivity.
             rewrite (Hx t1 (seq_some _ _ Hn)) in Hn |- *. cbn [seq_eff] in *.
             change (EE (ENum zero_num) t1) with (Some (t1, @None MiniJS.value)). cbn [seq_eff]. apply HK. exact Hn.
          -- destruct (IH _ Hr Hf) as [K [E HK]]. exists K. split; [exact E|].
             intros t Hn. rewrite props_cons in Hn |- *. unfold EEprop in *. rewrite Hk in *.
             rewrite (Hx t (seq_some _ _ Hn)) in Hn |- *. cbn [seq_eff] in *. apply HK. exact Hn.
        * destruct (IH _ Hr Hf) as [K [E HK]]. exists ((kind, computed, key, v') :: K).
          split; [rewrite E; cbn [rev]; rewrite <- app_assoc; reflexivity|].
          intros t Hn. rewrite !props_cons in *. unfold EEprop in *. rewrite Hk in *.
          destruct computed.
          -- destruct (EEkey key t) as [[t1 [z|]]|]; cbn [seq_eff] in *; try reflexivity.
             rewrite (Hx t1 (seq_some _ _ Hn)).
             destruct (EE value t1) as [[t2 [z|]]|]; cbn [seq_eff] in *; try reflexivity. apply HK. exact Hn.
          -- rewrite (Hx t (seq_some _ _ Hn)).
             destruct (EE value t) as [[t2 [z|]]|]; cbn [seq_eff] in *; try reflexivity. apply HK. exact Hn.
  Qed.

  (* ---- template literals ------------------------------------------------------------------------ *)
  Definition EEparts (l : list (expr * list Z)) (t : trace) : effects := eff_of (eval_parts_with W ev t l []).
  Definition EEpart (v : expr) (t : trace) : effects :=
    eff_of (bind (ev t v) (fun t1 x => eff t1 (w_tostr W x))).

  Lemma tostr_is_str : forall t1 x t2 sv, eff t1 (w_tostr W x) = Some (t2, Val sv) -> is_str sv = true.
  Proof.
    intros t1 x t2 sv H. apply eff_inv in H as (t3 & E & _). eapply ok_tostr_str; eauto.
  Qed.

  Lemma parts_acc : forall l t acc, eff_of (eval_parts_with W ev t l acc) = EEparts l t.
  Proof.
    unfold EEparts. induction l as [|[v tl] r IH]; intros t acc; [reflexivity|].
    cbn [eval_parts_with].
    destruct (ev t v) as [[t1 [x|z]]|]; cbn [bind]; try reflexivity.
    destruct (eff t1 (w_tostr W x)) as [[t2 [sv|z]]|] eqn:E; cbn [bind]; try reflexivity.
    pose proof (tostr_is_str _ _ _ _ E) as Hs. destruct sv; try discriminate Hs.
    rewrite IH. symmetry. apply IH.
  Qed.

  Lemma parts_cons : forall v tl r t, EEparts ((v, tl) :: r) t = seq_eff (EEpart v t) (EEparts r).
  Proof.
    intros v tl r t. unfold EEparts at 1, EEpart. cbn [eval_parts_with].
    destruct (ev t v) as [[t1 [x|z]]|]; cbn [bind eff_of seq_eff]; try reflexivity.
    destruct (eff t1 (w_tostr W x)) as [[t2 [sv|z]]|] eqn:E; cbn [bind eff_of seq_eff]; try reflexivity.
    pose proof (tostr_is_str _ _ _ _ E) as Hs. destruct sv; try discriminate Hs. apply parts_acc.
  Qed.

  Lemma parts_app : forall l1 l2 t, EEparts (l1 ++ l2) t = seq_eff (EEparts l1 t) (EEparts l2).
  Proof.
    induction l1 as [|[v tl] r IH]; intros l2 t; [reflexivity|].
    cbn [app]. rewrite !parts_cons, seq_assoc. apply seq_ext. intros; apply IH.
  Qed.

  Lemma EE_template : forall h parts t, EE (ETemplate h parts) t = EEparts parts t.
  Proof. intros. unfold EE. rewrite eval_template_eq. apply parts_acc. Qed.

  Lemma known_part : forall v t, ptype_eqb (known_type v) PUnknown = false -> EEpart v t = EE v t.
  Proof.
    intros v t Hk. unfold EEpart, EE. destruct (ev t v) as [[t1 [x|z]]|] eqn:E; cbn [bind eff_of]; try reflexivity.
    destruct (known_prim W Wok _ _ _ _ E Hk) as [Hp Hs].
    destruct (ok_tostr_prim W Wok x (length t1) Hp Hs) as [sv Hsv].
    unfold eff. rewrite Hsv. cbn. rewrite app_nil_r. reflexivity.
  Qed.

  Definition flush (comma : ures) (pend : list (expr * list Z)) : ures :=
    match pend with
    | [] => comma
    | _ => join_u comma (UExpr (ETemplate [] (rev pend)))
    end.

  Section Go_tpl_go.
  Variable f : expr -> ures.
  Fixpoint tpl_go (l : list (expr * list Z)) (comma : ures) (pend : list (expr * list Z)) : ures :=
    match l with
    | [] => flush comma pend
    | (v, _) :: r =>
        if negb (ptype_eqb (known_type v) PUnknown)
        then tpl_go r (join_u (flush comma pend) (f v)) []
        else tpl_go r comma ((v, []) :: pend)
    end.
  End Go_tpl_go.

  Lemma flush_fuel : forall pend, flush UFuel pend = UFuel.
  Proof. destruct pend; reflexivity. Qed.
  Lemma tpl_go_fuel : forall f l pend, tpl_go f l UFuel pend = UFuel.
  Proof.
    intros f. induction l as [|[v tl] r IH]; intros pend; cbn [tpl_go]; [apply flush_fuel|].
    destruct (negb _); [rewrite flush_fuel, join_u_fuel_l|]; apply IH.
  Qed.

  Lemma EU_flush : forall comma pend tr, comma <> UFuel ->
    EU (flush comma pend) tr = seq_eff (EU comma tr) (EEparts (rev pend)).
  Proof.
    intros comma pend tr Hc. destruct pend as [|p q].
    - cbn [flush rev]. symmetry. apply seq_ret.
    - unfold flush. rewrite EU_join by (try assumption; discriminate).
      apply seq_ext. intros t. rewrite EU_expr. apply EE_template.
  Qed.

  Lemma flush_nofuel : forall comma pend, flush comma pend <> UFuel -> comma <> UFuel.
  Proof. intros comma pend H E. subst. rewrite flush_fuel in H. congruence. Qed.

  Lemma tpl_sound : forall (f : expr -> ures) l comma pend tr,
    (forall v tl, In (v, tl) l -> ptype_eqb (known_type v) PUnknown = false -> f v <> UFuel -> SE v (f v)) ->
    tpl_go f l comma pend <> UFuel ->
    seq_eff (EU (flush comma pend) tr) (EEparts l) <> None ->
    EU (tpl_go f l comma pend) tr = seq_eff (EU (flush comma pend) tr) (EEparts l).
  Proof.
    intros f. induction l as [|[v tl] r IH]; intros comma pend tr Hall Hf Hn; cbn [tpl_go] in *.
    - symmetry. apply seq_ret.
    - destruct (ptype_eqb (known_type v) PUnknown) eqn:Hk; cbn [negb] in *.
      + (* unknown type: the part is kept in the pending template *)
        assert (Hc : comma <> UFuel) by (intro E; subst; rewrite tpl_go_fuel in Hf; congruence).
        assert (Hfl : forall t, EU (flush comma ((v, []) :: pend)) t = seq_eff (EU (flush comma pend) t) (EEpart v)).
        { intros t. rewrite !EU_flush by assumption. cbn [rev]. rewrite seq_assoc. apply seq_ext. intros t0.
          rewrite parts_app. apply seq_ext. intros t1. rewrite parts_cons.
          etransitivity; [apply seq_ext; intros; reflexivity | apply seq_ret]. }
        rewrite IH.
        * rewrite Hfl, seq_assoc. apply seq_ext. intros; symmetry; apply parts_cons.
        * intros; eapply Hall; eauto. right; eassumption.
        * exact Hf.
        * rewrite Hfl, seq_assoc. erewrite seq_ext; [exact Hn|]. intros; symmetry; apply parts_cons.
      + (* known primitive type: ToString has no effect, the value is simplified on its own *)
        assert (Hj : join_u (flush comma pend) (f v) <> UFuel) by (intro E; rewrite E, tpl_go_fuel in Hf; congruence).
        destruct (join_u_fuel _ _ Hj) as [Hfl Hfv].
        pose proof (Hall v tl (or_introl eq_refl) Hk Hfv) as Hv.
        assert (Heq : EU (flush (join_u (flush comma pend) (f v)) []) tr = seq_eff (EU (flush comma pend) tr) (EEpart v)).
        { cbn [flush]. rewrite EU_join by assumption.
          destruct (EU (flush comma pend) tr) as [[t [z|]]|] eqn:Ea; cbn [seq_eff] in *; try reflexivity.
          rewrite known_part by assumption. apply Hv.
          rewrite parts_cons, known_part in Hn by assumption. apply (seq_some _ _ Hn). }
        rewrite IH.
        * rewrite Heq, seq_assoc. apply seq_ext. intros; symmetry; apply parts_cons.
        * intros; eapply Hall; eauto. right; eassumption.
        * exact Hf.
        * rewrite Heq, seq_assoc. erewrite seq_ext; [exact Hn|]. intros; symmetry; apply parts_cons.
  Qed.

  (* ---- calls marked pure, loose equality on known primitives ------------------------------------- *)
  Lemma EE_pure_call : forall t args tr, pure_callee W (w_call W) 0 t ->
    EE (ECall t args 0 true) tr = EEitems args tr.
  Proof.
    intros t args tr Hp. unfold EE, EEitems. rewrite eval_call_eq.
    destruct (Hp tr) as [fv [Hfv Hcall]]. rewrite Hfv. unfold call_step. cbn [bind]. unfold short_if. cbn [Z.eqb andb].
    destruct (eval_items_with W ev tr args []) as [[t1 [vs|z]]|] eqn:El; cbn [lbind catch_short eff_of eff_l]; try reflexivity.
    - destruct (Hcall vs (length t1)) as [r Hr]. unfold eff. rewrite Hr. cbn. rewrite app_nil_r. reflexivity.
    - destruct z; try reflexivity. exfalso.
      match goal with E : eval_items_with W ev tr args [] = _ |- _ =>
        exact (nsl_items W (sum_sizes args) (fun y _ t => eval_no_short W y t) args tr [] (le_n _) _ E) end.
  Qed.

  Lemma EE_pure_new : forall t args tr, pure_callee W (w_new W) 0 t ->
    EE (ENew t args true) tr = EEitems args tr.
  Proof.
    intros t args tr Hp. unfold EE, EEitems. rewrite eval_new_eq.
    destruct (Hp tr) as [fv [Hfv Hcall]]. change (eval_target W 0 tr t) with (ev tr t) in Hfv. rewrite Hfv. cbn [bind].
    destruct (eval_items_with W ev tr args []) as [[t1 [vs|z]]|]; cbn [lbind eff_of eff_l]; try reflexivity.
    destruct (Hcall vs (length t1)) as [r Hr]. unfold eff. rewrite Hr. cbn. rewrite app_nil_r. reflexivity.
  Qed.

  Lemma EE_loose : forall op a b tr, (op = BLooseEq \/ op = BLooseNe) ->
    ptype_eqb (merged_known_types a b) PUnknown = false ->
    EE (EBin op a b) tr <> None -> EE (EBin op a b) tr = seq_eff (EE a tr) (EE b).
  Proof.
    intros op a b tr Hop Hk Hn.
    assert (Hka : ptype_eqb (known_type a) PUnknown = false /\ ptype_eqb (known_type b) PUnknown = false).
    { unfold merged_known_types, merge_types in Hk.
      destruct (known_type a); try discriminate; destruct (known_type b); try discriminate; split; reflexivity. }
    destruct Hka as [Ha Hb].
    assert (Hstep : forall t x y, ev tr a = Some (t, Val x) -> forall t2, ev t b = Some (t2, Val y) ->
              exists r, apply_bin W BLooseEq t2 x y = Some (t2, Val (VBool r))).
    { intros t x y Hx t2 Hy. destruct (known_prim W Wok _ _ _ _ Hx Ha) as [Hpx _].
      destruct (known_prim W Wok _ _ _ _ Hy Hb) as [Hpy _].
      destruct (ok_looseeq_prim W Wok x y (length t2) Hpx Hpy) as [r Hr].
      exists r. unfold apply_bin, eff. rewrite Hr. cbn. rewrite app_nil_r. reflexivity. }
    unfold EE in *. destruct Hop as [-> | ->]; cbn [eval] in *; unfold neg_outcome in *;
      destruct (ev tr a) as [[t1 [x|z]]|] eqn:Ea; cbn [bind eff_of seq_eff] in *; try reflexivity;
      destruct (ev t1 b) as [[t2 [y|z]]|] eqn:Eb; cbn [bind eff_of seq_eff] in *; try reflexivity;
      destruct (Hstep _ _ _ eq_refl _ Eb) as [r Hr]; rewrite Hr in *; reflexivity.
  Qed.

  Definition plain (x : expr) : bool := match x with ESpread _ | EMissing => false | _ => true end.
  Lemma item_se_of_SE : forall x r, plain x = true -> SE x r -> item_se x r.
  Proof. intros x r Hp S t Hn. destruct x; try discriminate Hp; cbn [EEitem] in *; apply S; exact Hn. Qed.


  (* ---- simplifyUnusedStringAdditionChain ---------------------------------------------------------- *)
  (* values that are equal, or both strings (their contents are not observable in an unused + chain) *)
  Definition Rv (v v' : value) : Prop := v = v' \/ (is_str v = true /\ is_str v' = true).

  (* e' has the evaluation of e up to the contents of string values *)
  Definition CH (e e' : expr) : Prop :=
    forall tr, match ev tr e with
               | Some (t, Val v) => exists v', ev tr e' = Some (t, Val v') /\ Rv v v'
               | Some (t, Throw z) => ev tr e' = Some (t, Throw z)
               | None => True
               end.
  Definition str_valued (e : expr) : Prop := forall tr t v, ev tr e = Some (t, Val v) -> is_str v = true.

  Lemma CH_refl : forall e, CH e e.
  Proof. intros e tr. destruct (ev tr e) as [[t [v|z]]|]; auto. exists v. split; [reflexivity | left; reflexivity]. Qed.

  Lemma Rv_str : forall v v', Rv v v' -> is_str v = true -> is_str v' = true.
  Proof. intros v v' [->|[_ H]] Hs; assumption. Qed.

  (* two world steps with the same trace and the same kind of completion *)
  Lemma eff_rel : forall t (f1 f2 : nat -> trace * outcome),
    fst (f1 (length t)) = fst (f2 (length t)) ->
    match snd (f1 (length t)), snd (f2 (length t)) with
    | Val _, Val _ => True | Throw x, Throw y => x = y | _, _ => False end ->
    match eff t f1 with
    | Some (t2, Val r) => exists r', eff t f2 = Some (t2, Val r')
    | Some (t2, Throw z) => eff t f2 = Some (t2, Throw z)
    | None => True
    end.
  Proof.
    intros t f1 f2 Hf Hs. unfold eff. destruct (f1 (length t)) as [t1 o1], (f2 (length t)) as [t2 o2]. cbn in *. subst t2.
    destruct o1 as [r|z], o2 as [r'|z']; try contradiction.
    - eauto.
    - subst z'. destruct z; reflexivity.
  Qed.

  Lemma add_val_str : forall t x y t2 r, add_values W t x y = Some (t2, Val r) -> is_str x || is_str y = true -> is_str r = true.
  Proof.
    intros t x y t2 r H Hs. unfold add_values in H.
    assert (Ha : apply_bin W BAdd t x y = Some (t2, Val r) -> is_str r = true).
    { intros E. unfold apply_bin in E. apply eff_inv in E as (t3 & E & _). eapply ok_add_str; eauto. }
    destruct (is_object x || is_object y); [auto|]. destruct x, y; try discriminate; auto.
  Qed.

  (* x + y and x' + y' where the operands are equal or both strings *)
  Lemma add_rel : forall t x x' y y', Rv x x' -> Rv y y' ->
    match add_values W t x y with
    | Some (t2, Val r) => exists r', add_values W t x' y' = Some (t2, Val r') /\ Rv r r'
    | Some (t2, Throw z) => add_values W t x' y' = Some (t2, Throw z)
    | None => True
    end.
  Proof.
    intros t x x' y y' Hx Hy.
    destruct Hx as [<-|[Hsx Hsx']]; destruct Hy as [<-|[Hsy Hsy']].
    - destruct (add_values W t x y) as [[t2 [r|z]]|]; auto. exists r. split; [reflexivity | left; reflexivity].
    - (* same left operand, two strings on the right *)
      destruct y; try discriminate Hsy. destruct y'; try discriminate Hsy'.
      destruct (ok_add_indep_r W Wok x s s0 (length t)) as [Hf Ho].
      pose proof (eff_rel t (w_bin W BAdd x (VStr s)) (w_bin W BAdd x (VStr s0)) Hf Ho) as He.
      unfold add_values. cbn [is_object orb]. rewrite !orb_false_r.
      destruct (is_object x).
      + unfold apply_bin. destruct (eff t (w_bin W BAdd x (VStr s))) as [[t2 [r0|z0]]|] eqn:E1; auto.
        destruct He as [r' E2]. exists r'. split; [exact E2|]. right.
        apply eff_inv in E1 as (t3 & E1 & _). apply eff_inv in E2 as (t4 & E2 & _).
        split; eapply ok_add_str; eauto; cbn; apply orb_true_r.
      + destruct x; try reflexivity;
          (unfold apply_bin; destruct (eff t (w_bin W BAdd _ (VStr s))) as [[t2 [r0|z0]]|] eqn:E1; auto;
           destruct He as [r' E2]; exists r'; split; [exact E2|]; right;
           apply eff_inv in E1 as (t3 & E1 & _); apply eff_inv in E2 as (t4 & E2 & _);
           split; eapply ok_add_str; eauto; cbn; apply orb_true_r).
    - (* two strings on the left, same right operand *)
      destruct x; try discriminate Hsx. destruct x'; try discriminate Hsx'.
      destruct (ok_add_indep_l W Wok y s s0 (length t)) as [Hf Ho].
      pose proof (eff_rel t (w_bin W BAdd (VStr s) y) (w_bin W BAdd (VStr s0) y) Hf Ho) as He.
      unfold add_values. cbn [is_object orb].
      destruct (is_object y).
      + unfold apply_bin. destruct (eff t (w_bin W BAdd (VStr s) y)) as [[t2 [r0|z0]]|] eqn:E1; auto.
        destruct He as [r' E2]. exists r'. split; [exact E2|]. right.
        apply eff_inv in E1 as (t3 & E1 & _). apply eff_inv in E2 as (t4 & E2 & _).
        split; eapply ok_add_str; eauto.
      + destruct y; try reflexivity;
          (unfold apply_bin; destruct (eff t (w_bin W BAdd (VStr s) _)) as [[t2 [r0|z0]]|] eqn:E1; auto;
           destruct He as [r' E2]; exists r'; split; [exact E2|]; right;
           apply eff_inv in E1 as (t3 & E1 & _); apply eff_inv in E2 as (t4 & E2 & _);
           split; eapply ok_add_str; eauto).
    - (* strings on both sides *)
      destruct x; try discriminate Hsx. destruct x'; try discriminate Hsx'.
      destruct y; try discriminate Hsy. destruct y'; try discriminate Hsy'.
      unfold add_values, apply_bin, eff. cbn [is_object orb]. rewrite !(ok_add_str_str W Wok).
      eexists. split; [reflexivity|]. right. split; reflexivity.
  Qed.

  Lemma CH_add : forall l l' r r', CH l l' ->
    (forall t, match ev t r with
               | Some (t2, Val y) => exists y', ev t r' = Some (t2, Val y') /\ Rv y y'
               | Some (t2, Throw z) => ev t r' = Some (t2, Throw z)
               | None => True end) ->
    CH (EBin BAdd l r) (EBin BAdd l' r').
  Proof.
    intros l l' r r' Hl Hr tr. cbn [eval]. specialize (Hl tr).
    destruct (ev tr l) as [[t1 [x|z]]|]; cbn [bind]; [| rewrite Hl; reflexivity | exact I].
    destruct Hl as [x' [El Rx]]. rewrite El. cbn [bind]. specialize (Hr t1).
    destruct (ev t1 r) as [[t2 [y|z]]|]; cbn [bind]; [| rewrite Hr; reflexivity | exact I].
    destruct Hr as [y' [Er Ry]]. rewrite Er. cbn [bind]. apply add_rel; assumption.
  Qed.

  Lemma chain_sound : forall e res isS, simplify_unused_string_chain e = (res, isS) ->
    CH e res /\ (isS = true -> str_valued e /\ str_valued res).
  Proof.
    induction e; intros res isS H; cbn [simplify_unused_string_chain] in H;
      try (inv H; split; [apply CH_refl | discriminate]).
    - (* EStr *)
      inv H. split.
      + intros tr. cbn [eval]. eexists. split; [reflexivity | right; split; reflexivity].
      + intros _. split; intros tr t v E; cbn [eval] in E; inv E; reflexivity.
    - (* EBin *)
      destruct op; try (inv H; split; [apply CH_refl | discriminate]).
      destruct (simplify_unused_string_chain e1) as [lft leftIs] eqn:Hc.
      destruct (IHe1 _ _ eq_refl) as [CHl Hstr].
      assert (Hsame : forall (r : expr) t, match ev t r with
               | Some (t2, Val y) => exists y', ev t r = Some (t2, Val y') /\ Rv y y'
               | Some (t2, Throw z) => ev t r = Some (t2, Throw z)
               | None => True end).
      { intros r t. destruct (ev t r) as [[t2 [y|z]]|]; auto. exists y. split; [reflexivity | left; reflexivity]. }
      assert (Hgen : forall r, CH (EBin BAdd e1 r) (EBin BAdd lft r) /\
                               (leftIs = true -> str_valued (EBin BAdd e1 r) /\ str_valued (EBin BAdd lft r))).
      { intros r. split; [apply CH_add; [exact CHl | apply Hsame]|].
        intros Hl. destruct (Hstr Hl) as [S1 S2].
        split; intros tr t v E; cbn [eval] in E;
          (apply bind_inv in E as [(t1 & x & Hx & E)|(x & Hx & Ho)]; [|discriminate];
           apply bind_inv in E as [(t2 & y & Hy & E)|(y & Hy & Ho)]; [|discriminate];
           eapply add_val_str; [exact E|]).
        - rewrite (S1 _ _ _ Hx). reflexivity.
        - rewrite (S2 _ _ _ Hx). reflexivity. }
      destruct e2; try (inv H; exact (Hgen _)).
      (* the right operand is a string literal *)
      destruct leftIs.
      + inv H. destruct (Hstr eq_refl) as [S1 S2]. split.
        * intros tr. cbn [eval]. specialize (CHl tr).
          destruct (ev tr e1) as [[t1 [x|z]]|] eqn:E1; cbn [bind]; [| exact CHl | exact I].
          destruct CHl as [x' [El Rx]]. pose proof (S1 _ _ _ E1) as Hsx.
          destruct x; try discriminate Hsx.
          unfold add_values, apply_bin, eff. cbn [is_object orb]. rewrite (ok_add_str_str W Wok). cbn. rewrite app_nil_r.
          exists x'. split; [exact El|]. right. split; [reflexivity | eapply Rv_str; eauto].
        * intros _. split; [|exact S2].
          intros tr t v E. cbn [eval] in E.
          apply bind_inv in E as [(t1 & x & Hx & E)|(x & Hx & Ho)]; [|discriminate]. cbn [bind] in E.
          eapply add_val_str; [exact E|]. cbn. apply orb_true_r.
      + destruct s as [|c s].
        * inv H. exact (Hgen _).
        * inv H. split.
          -- apply CH_add; [exact CHl|]. intros t. cbn [eval]. eexists. split; [reflexivity | right; split; reflexivity].
          -- intros _. split; intros tr t v E; cbn [eval] in E;
               (apply bind_inv in E as [(t1 & x & Hx & E)|(x & Hx & Ho)]; [|discriminate]; cbn [bind] in E;
                eapply add_val_str; [exact E|]; cbn; apply orb_true_r).
  Qed.

  Lemma CH_SE : forall e e', CH e e' -> SE e (UExpr e').
  Proof.
    intros e e' H tr Hn. rewrite EU_expr. unfold EE in *. specialize (H tr).
    destruct (ev tr e) as [[t [v|z]]|]; [| rewrite H; reflexivity | cbn in Hn; congruence].
    destruct H as [v' [E _]]. rewrite E. reflexivity.
  Qed.

  (* ---- list predicates ------------------------------------------------------------------------- *)
  Lemma no_bad_all : forall l,
    (fix all (l : list expr) : Prop := match l with [] => True | x :: r => no_bad W x /\ all r end) l ->
    forall x, In x l -> no_bad W x.
  Proof.
    induction l as [|y r IH]; intros H x Hin; [destruct Hin|].
    destruct H as [H1 H2]. destruct Hin as [->|Hin]; [assumption | eauto].
  Qed.


  Lemma flags_parts : forall l,
    (fix go (l : list (expr * list Z)) : Prop := match l with [] => True | (v, _) :: r => flags_ok W v /\ go r end) l ->
    forall v t, In (v, t) l -> flags_ok W v.
  Proof.
    induction l as [|[p q] r IH]; intros H v t Hin; [destruct Hin|].
    destruct H as [H1 H2]. destruct Hin as [E|Hin]; [inv E; assumption | eauto].
  Qed.
  Lemma no_bad_parts : forall l,
    (fix go (l : list (expr * list Z)) : Prop := match l with [] => True | (v, _) :: r => no_bad W v /\ go r end) l ->
    forall v t, In (v, t) l -> no_bad W v.
  Proof.
    induction l as [|[p q] r IH]; intros H v t Hin; [destruct Hin|].
    destruct H as [H1 H2]. destruct Hin as [E|Hin]; [inv E; assumption | eauto].
  Qed.
  Lemma flags_props : forall l,
    (fix go (l : list (Z * bool * expr * expr)) : Prop :=
       match l with [] => True | (_, _, k, v) :: r => flags_ok W k /\ flags_ok W v /\ go r end) l ->
    forall a b k v, In (a, b, k, v) l -> flags_ok W v.
  Proof.
    induction l as [|[[[a0 b0] k0] v0] r IH]; intros H a b k v Hin; [destruct Hin|].
    destruct H as [H1 [H2 H3]]. destruct Hin as [E|Hin]; [inv E; assumption | eauto].
  Qed.
  Lemma no_bad_props : forall l,
    (fix go (l : list (Z * bool * expr * expr)) : Prop :=
       match l with [] => True | (_, _, k, v) :: r => no_bad W k /\ no_bad W v /\ go r end) l ->
    forall a b k v, In (a, b, k, v) l -> no_bad W v.
  Proof.
    induction l as [|[[[a0 b0] k0] v0] r IH]; intros H a b k v Hin; [destruct Hin|].
    destruct H as [H1 [H2 H3]]. destruct Hin as [E|Hin]; [inv E; assumption | eauto].
  Qed.

  Lemma keep_of_SE : forall x r, plain x = true -> SE x r -> item_keep x r.
  Proof.
    intros x r Hp S. destruct r as [|x'|]; cbn [item_keep]; [| |exact I].
    - intros t Hn. rewrite (EEitem_plain x t) in * by (destruct x; try discriminate Hp; exact Hn).
      rewrite <- (S t Hn). reflexivity.
    - intros t Hn.
      assert (Hx : EEitem x t = EE x t) by (destruct x; try discriminate Hp; reflexivity).
      rewrite Hx in *. pose proof (S t Hn) as E. rewrite EU_expr in E.
      rewrite EEitem_plain by (rewrite E; exact Hn). exact E.
  Qed.

  Lemma su_missing : forall noOC f, su_fuel f ub noOC EMissing <> UFuel -> su_fuel f ub noOC EMissing = UNil.
  Proof. intros noOC; destruct f; cbn; congruence. Qed.
  Lemma su_spread : forall noOC f v, su_fuel f ub noOC (ESpread v) <> UFuel -> su_fuel f ub noOC (ESpread v) = UExpr (ESpread v).
  Proof. intros noOC; destruct f; cbn; congruence. Qed.

  Lemma by_cbr : forall e, flags_ok W e -> can_be_removed ub e = true -> SE e UNil.
  Proof.
    intros e Hf Hc. apply SE_pure. intros tr tr' out Hev. exact (can_be_removed_sound_all W Wok e tr tr' out Hf Hc Hev).
  Qed.

  (* ---- optional-chain insertion: "a != null && a.b.c" => "a?.b.c" --------------------------- *)
  Lemma SE_replace : forall E a b, SE E (UExpr a) -> (forall tr, EE a tr <> None -> EE b tr = EE a tr) -> SE E (UExpr b).
  Proof.
    intros E a b S H tr Hn. rewrite EU_expr. pose proof (S tr Hn) as S1. rewrite EU_expr in S1.
    rewrite H; [exact S1 | rewrite S1; exact Hn].
  Qed.

  Lemma id_eval : forall r c m tr, exists o, ev tr (EId r c m) = Some (tr, o).
  Proof.
    intros r c m tr. cbn [eval]. destruct (w_unbound W r); [destruct (w_genv W r)|]; eauto.
  Qed.

  Lemma ev_looseeq : forall l r tr,
    ev tr (EBin BLooseEq l r) = bind (ev tr l) (fun tr1 x => bind (ev tr1 r) (fun tr2 y => apply_bin W BLooseEq tr2 x y)).
  Proof. reflexivity. Qed.
  Lemma ev_loosene : forall l r tr,
    ev tr (EBin BLooseNe l r) = neg_outcome (bind (ev tr l) (fun tr1 x => bind (ev tr1 r) (fun tr2 y => apply_bin W BLooseEq tr2 x y))).
  Proof. reflexivity. Qed.

  (* the value of the guard "a == null" / "null == a" / "a != null" / "null != a" *)
  Lemma guard_eval : forall bop bl br r c m tr o,
    (bop = BLooseEq \/ bop = BLooseNe) ->
    (if is_null br then Some bl else if is_null bl then Some br else None) = Some (EId r c m) ->
    ev tr (EId r c m) = Some (tr, o) ->
    ev tr (EBin bop bl br) =
      match o with
      | Val a => Some (tr, Val (VBool (match bop with BLooseNe => negb (nullish a) | _ => nullish a end)))
      | Throw z => Some (tr, Throw z)
      end.
  Proof.
    intros bop bl br r c m tr o Hb Hsel E.
    destruct (is_null br) eqn:Nr.
    - inv Hsel. destruct br; try discriminate Nr.
      destruct Hb as [-> | ->]; [rewrite ev_looseeq | rewrite ev_loosene]; rewrite E; destruct o as [a|z]; cbn [bind neg_outcome]; try reflexivity;
        change (ev tr ENull) with (Some (tr, Val VNull)); cbn [bind];
        unfold apply_bin, eff; rewrite (ok_looseeq_null_r W Wok); rewrite app_nil_r; reflexivity.
    - destruct (is_null bl) eqn:Nl; [|discriminate Hsel]. inv Hsel. destruct bl; try discriminate Nl.
      destruct Hb as [-> | ->]; [rewrite ev_looseeq | rewrite ev_loosene];
        change (ev tr ENull) with (Some (tr, Val VNull)); cbn [bind]; rewrite E; destruct o as [a|z]; cbn [bind neg_outcome]; try reflexivity;
        unfold apply_bin, eff; rewrite (ok_looseeq_null_l W Wok); rewrite app_nil_r; reflexivity.
  Qed.

  Lemma guard_effects : forall op bop bl br r c r' r'',
    (binop_eqb bop BLooseNe && binop_eqb op BLogAnd) || (binop_eqb bop BLooseEq && binop_eqb op BLogOr) = true ->
    (if is_null br then Some bl else if is_null bl then Some br else None) = Some (EId r c false) ->
    try_insert_optional_chain (EId r c false) r' = Some r'' ->
    forall tr, EE (EBin op (EBin bop bl br) r') tr <> None -> EE r'' tr = EE (EBin op (EBin bop bl br) r') tr.
  Proof.
    intros op bop bl br r c r' r'' Hops Hsel TI tr Hn.
    destruct (tioc_sound_id W r c false r' r'' TI) as [_ [_ Hsem]]. destruct (Hsem tr) as [Hthrow Hval].
    destruct (id_eval r c false tr) as [o Eo].
    assert (Hcases : (bop = BLooseNe /\ op = BLogAnd) \/ (bop = BLooseEq /\ op = BLogOr)).
    { apply orb_true_iff in Hops. destruct Hops as [H|H]; apply andb_true_iff in H; destruct H as [H1 H2];
        [left | right]; split; (destruct bop; try discriminate H1; reflexivity) || (destruct op; try discriminate H2; reflexivity). }
    destruct Hcases as [[-> ->] | [-> ->]].
    - pose proof (guard_eval BLooseNe bl br r c false tr o (or_intror eq_refl) Hsel Eo) as G.
      unfold EE in *. cbn [eval] in Hn |- *. cbn [eval] in G. rewrite G in Hn |- *.
      destruct o as [a|z]; cbn [bind] in Hn |- *.
      + destruct (Hval a Eo) as [Hnull Hnon]. cbn [truthy] in Hn |- *.
        destruct (nullish a); cbn [negb] in Hn |- *.
        * rewrite (Hnull eq_refl). reflexivity.
        * destruct (ev tr r') as [x|] eqn:Er; [|cbn in Hn; congruence]. rewrite (Hnon eq_refl x eq_refl). reflexivity.
      + rewrite (Hthrow _ _ Eo). reflexivity.
    - pose proof (guard_eval BLooseEq bl br r c false tr o (or_introl eq_refl) Hsel Eo) as G.
      unfold EE in *. cbn [eval] in Hn |- *. cbn [eval] in G. rewrite G in Hn |- *.
      destruct o as [a|z]; cbn [bind] in Hn |- *.
      + destruct (Hval a Eo) as [Hnull Hnon]. cbn [truthy] in Hn |- *.
        destruct (nullish a).
        * rewrite (Hnull eq_refl). reflexivity.
        * destruct (ev tr r') as [x|] eqn:Er; [|cbn in Hn; congruence]. rewrite (Hnon eq_refl x eq_refl). reflexivity.
      + rewrite (Hthrow _ _ Eo). reflexivity.
  Qed.

  Lemma chain_branch : forall E op l' r' (noOC : bool),
    SE E (UExpr (EBin op l' r')) ->
    SE E (let dflt := UExpr (EBin op l' r') in
          if noOC then dflt
          else match l' with
               | EBin bop bl br =>
                   if (binop_eqb bop BLooseNe && binop_eqb op BLogAnd) || (binop_eqb bop BLooseEq && binop_eqb op BLogOr) then
                     let test := if is_null br then Some bl else if is_null bl then Some br else None in
                     match test with
                     | Some tst =>
                         match tst with
                         | EId ref c mustkeep =>
                             if mustkeep then dflt
                             else match try_insert_optional_chain tst r' with
                                  | Some r'' => UExpr r''
                                  | None => dflt
                                  end
                         | _ => dflt
                         end
                     | None => dflt
                     end
                   else dflt
               | _ => dflt
               end).
  Proof.
    intros E op l' r' noOC H. cbv zeta. destruct noOC; [exact H|].
    destruct l'; try exact H.
    destruct (_ || _) eqn:Hops; [|exact H].
    destruct (if is_null l'2 then Some l'1 else if is_null l'1 then Some l'2 else None) as [tst|] eqn:Hsel; [|exact H].
    destruct tst; try exact H. destruct mustkeep; [exact H|].
    destruct (try_insert_optional_chain _ r') as [r''|] eqn:TI; [|exact H].
    eapply SE_replace; [exact H|]. intros tr Hn. eapply guard_effects; eauto.
  Qed.

  (* arguments that can all be removed and evaluate: no effects *)
  Lemma items_all_pure : forall l,
    (forall x, In x l -> flags_ok W x /\ can_be_removed ub x = true /\ forall tr, ev tr x <> None) ->
    forall t, EEitems l t = Some (t, None).
  Proof.
    induction l as [|x r IHl]; intros H t; [apply items_nil|].
    rewrite items_cons. destruct (H x (or_introl eq_refl)) as [Hf [Hc Hd]].
    assert (HE : EE x t = Some (t, None)).
    { unfold EE. destruct (ev t x) as [[t' o]|] eqn:E; [|exfalso; exact (Hd t E)].
      destruct (can_be_removed_sound_all W Wok x t t' o Hf Hc E) as [-> [v ->]]. reflexivity. }
    rewrite EEitem_plain by (rewrite HE; discriminate). rewrite HE. cbn [seq_eff].
    apply IHl. intros y Hy. apply H. right. exact Hy.
  Qed.

  Theorem su_sound_fuel : forall noOC f e, flags_ok W e -> no_bad W e ->
    su_fuel f ub noOC e <> UFuel -> SE e (su_fuel f ub noOC e).
  Proof.
    intros noOC. induction f as [|f IH]; intros e Hfl Hnb Hf; [cbn in Hf; congruence|].
    destruct e; cbn [su_fuel] in Hf |- *; try (apply by_cbr; [assumption|reflexivity]); try apply SE_refl.
    - (* EId *)
      destruct mustkeep; [apply SE_refl|].
      destruct (removable || negb (ub ref)) eqn:C; [|apply SE_refl].
      apply by_cbr; [assumption|]. cbn [can_be_removed]. exact C.
    - (* EDot *)
      destruct removable; [|apply SE_refl]. apply by_cbr; [assumption|reflexivity].
    - (* ECall *)
      destruct pure; [|apply SE_refl].
      cbn [no_bad] in Hnb. destruct Hnb as [Hdef [Hnt Hna]].
      pose proof Hfl as Hfl0. cbn [flags_ok] in Hfl. destruct Hfl as [Hpc [Hft Hfa]].
      set (g := fun x => match x with ESpread _ => UExpr (EArray [x]) | _ => su_fuel f ub noOC x end).
      assert (Hitem : forall x, In x args -> g x <> UFuel -> item_se x (g x)).
      { intros x Hin Hgx. pose proof (flags_all W _ Hfa x Hin) as Hfx. pose proof (no_bad_all _ Hna x Hin) as Hnx.
        destruct x; try (apply item_se_of_SE; [reflexivity|]; apply IH; assumption).
        + unfold g in *. rewrite su_missing by exact Hgx. intros t _. reflexivity.
        + unfold g. intros t Hn2. rewrite EU_expr, EE_array, items_cons.
          etransitivity; [apply seq_ext; intros; apply items_nil | apply seq_ret]. }
      revert Hf.
      destruct (negb (oc =? 0) && negb (can_be_removed ub (ECall e args oc true))) eqn:Ck; intros Hf; [apply SE_refl|].
      change (SE (ECall e args oc true) (items_go g args UNil)). change (items_go g args UNil <> UFuel) in Hf.
      destruct (oc =? 0) eqn:Eoc.
      + apply Z.eqb_eq in Eoc. subst oc.
        intros tr Hn. rewrite (EE_pure_call _ _ _ (Hpc eq_refl)) in Hn |- *.
        rewrite fold_items; [reflexivity|exact Hitem|exact Hf|exact Hn].
      + (* a pure call in an optional chain whose arguments can all be removed (fix a3926ba) *)
        cbn [negb andb] in Ck. apply negb_false_iff in Ck. apply Z.eqb_neq in Eoc.
        assert (Hitems : forall t, EEitems args t = Some (t, None)).
        { apply items_all_pure. intros x Hin. split; [exact (flags_all W _ Hfa x Hin)|]. split.
          - cbn [can_be_removed] in Ck. exact (all_args W _ Ck x Hin).
          - exact (Hdef eq_refl Eoc Ck x Hin). }
        intros tr Hn. pose proof (by_cbr _ Hfl0 Ck tr Hn) as HE. rewrite EU_nil in HE. rewrite <- HE.
        rewrite fold_items; [rewrite EU_nil; cbn [seq_eff]; apply Hitems | exact Hitem | exact Hf |].
        rewrite EU_nil. cbn [seq_eff]. rewrite Hitems. discriminate.
    - (* ENew *)
      destruct pure; [|apply SE_refl].
      cbn [no_bad] in Hnb. destruct Hnb as [Hnt Hna].
      cbn [flags_ok] in Hfl. destruct Hfl as [Hpc [Hft Hfa]].
      set (g := fun x => match x with ESpread _ => UExpr (EArray [x]) | _ => su_fuel f ub noOC x end).
      change (SE (ENew e args true) (items_go g args UNil)). change (items_go g args UNil <> UFuel) in Hf.
      intros tr Hn. rewrite (EE_pure_new _ _ _ (Hpc eq_refl)) in Hn |- *.
      rewrite fold_items; [reflexivity| |exact Hf|exact Hn].
      intros x Hin Hgx. pose proof (flags_all W _ Hfa x Hin) as Hfx. pose proof (no_bad_all _ Hna x Hin) as Hnx.
      destruct x; try (apply item_se_of_SE; [reflexivity|]; apply IH; assumption).
      + unfold g in *. rewrite su_missing by exact Hgx. intros t _. reflexivity.
      + unfold g. intros t Hn2. rewrite EU_expr, EE_array, items_cons.
        etransitivity; [apply seq_ext; intros; apply items_nil | apply seq_ret].
    - (* EUn *)
      cbn [flags_ok] in Hfl. destruct Hfl as [Hty Hfv]. cbn [no_bad] in Hnb.
      destruct op; try apply SE_refl.
      + (* UNeg *) destruct e; try apply SE_refl. apply by_cbr; [cbn [flags_ok]; auto | reflexivity].
      + (* UNot *) eapply SE_same_eval; [intros; apply EE_unary_pure; auto | apply IH; assumption].
      + (* UVoid *) eapply SE_same_eval; [intros; apply EE_unary_pure; auto | apply IH; assumption].
      + (* UTypeof *)
        destruct e; try (eapply SE_same_eval; [intros; apply EE_typeof; intros; discriminate | apply IH; assumption]).
        destruct wasTypeofId.
        * apply by_cbr; [cbn [flags_ok]; auto | reflexivity].
        * eapply SE_same_eval; [|apply IH; assumption].
          intros tr. unfold EE. cbn [eval]. etransitivity; [apply eff_of_bind with (kk := fun t => Some (t, None)); reflexivity | apply seq_ret].
    - (* EBin *)
      cbn [flags_ok] in Hfl. destruct Hfl as [Hf1 Hf2]. cbn [no_bad] in Hnb. destruct Hnb as [Hn1 Hn2].
      destruct op; try apply SE_refl.
      + (* BAdd *)
        destruct (simplify_unused_string_chain (EBin BAdd e1 e2)) as [res isStr] eqn:Hc.
        destruct isStr; [|apply SE_refl].
        apply CH_SE. exact (proj1 (chain_sound _ _ _ Hc)).
      + (* BLooseEq *)
        destruct (negb (ptype_eqb (merged_known_types e1 e2) PUnknown)) eqn:C; [|apply SE_refl].
        apply negb_true_iff in C. destruct (join_u_fuel _ _ Hf) as [F1 F2].
        eapply SE_two; try eassumption; [intros; apply EE_loose; auto | apply IH; assumption | apply IH; assumption].
      + (* BLooseNe *)
        destruct (negb (ptype_eqb (merged_known_types e1 e2) PUnknown)) eqn:C; [|apply SE_refl].
        apply negb_true_iff in C. destruct (join_u_fuel _ _ Hf) as [F1 F2].
        eapply SE_two; try eassumption; [intros; apply EE_loose; auto | apply IH; assumption | apply IH; assumption].
      + (* BStrictEq *)
        destruct (join_u_fuel _ _ Hf) as [F1 F2].
        eapply SE_two; try eassumption; [intros; apply EE_strict; auto | apply IH; assumption | apply IH; assumption].
      + (* BStrictNe *)
        destruct (join_u_fuel _ _ Hf) as [F1 F2].
        eapply SE_two; try eassumption; [intros; apply EE_strict; auto | apply IH; assumption | apply IH; assumption].
      + (* BNullish *)
        destruct (su_fuel f ub noOC e2) as [|r'|] eqn:Hr; [| |congruence].
        * apply logic_nil; [apply sc_nullish | rewrite <- Hr; apply IH; try assumption; congruence | apply IH; assumption].
        * apply chain_branch. apply nullish_expr. rewrite <- Hr. apply IH; try assumption; congruence.
      + (* BLogOr *)
        destruct (su_fuel f ub noOC e2) as [|r'|] eqn:Hr; [| |congruence].
        * apply logic_nil; [apply sc_or | rewrite <- Hr; apply IH; try assumption; congruence |].
          eapply SE_of_ST; [intros tr res Hev; exact (simplify_boolean_sound_all W Wok e1 tr res Hf1 Hev)|].
          apply IH; [apply simplify_boolean_flags; assumption | apply no_bad_sb; assumption | assumption].
        * apply chain_branch. apply or_expr; [intros tr res Hev; exact (simplify_boolean_sound_all W Wok e1 tr res Hf1 Hev)|].
          rewrite <- Hr. apply IH; try assumption; congruence.
      + (* BLogAnd *)
        destruct (su_fuel f ub noOC e2) as [|r'|] eqn:Hr; [| |congruence].
        * apply logic_nil; [apply sc_and | rewrite <- Hr; apply IH; try assumption; congruence |].
          eapply SE_of_ST; [intros tr res Hev; exact (simplify_boolean_sound_all W Wok e1 tr res Hf1 Hev)|].
          apply IH; [apply simplify_boolean_flags; assumption | apply no_bad_sb; assumption | assumption].
        * apply chain_branch. apply and_expr; [intros tr res Hev; exact (simplify_boolean_sound_all W Wok e1 tr res Hf1 Hev)|].
          rewrite <- Hr. apply IH; try assumption; congruence.
      + (* BComma *)
        destruct (join_u_fuel _ _ Hf) as [F1 F2].
        eapply SE_two; try eassumption; [intros; apply EE_comma | apply IH; assumption | apply IH; assumption].
    - (* EIf *)
      cbn [flags_ok] in Hfl. destruct Hfl as [Hf1 [Hf2 Hf3]]. cbn [no_bad] in Hnb. destruct Hnb as [Hn1 [Hn2 Hn3]].
      destruct (su_fuel f ub noOC e2) as [|y'|] eqn:Hy; destruct (su_fuel f ub noOC e3) as [|n'|] eqn:Hn; try congruence.
      + apply if_nil_nil; [rewrite <- Hy | rewrite <- Hn |]; apply IH; try assumption; congruence.
      + apply if_nil_expr; [rewrite <- Hy | rewrite <- Hn]; apply IH; try assumption; congruence.
      + apply if_expr_nil; [rewrite <- Hy | rewrite <- Hn]; apply IH; try assumption; congruence.
      + apply if_expr_expr; [rewrite <- Hy | rewrite <- Hn]; apply IH; try assumption; congruence.
    - (* ETemplate *)
      cbn [flags_ok] in Hfl. cbn [no_bad] in Hnb.
      change (SE (ETemplate head parts) (tpl_go (su_fuel f ub noOC) parts UNil [])).
      change (tpl_go (su_fuel f ub noOC) parts UNil [] <> UFuel) in Hf.
      intros tr Hn. rewrite EE_template in Hn |- *.
      rewrite tpl_sound; [reflexivity| |exact Hf|exact Hn].
      intros v tl Hin Hk Hfv. apply IH; [eapply flags_parts; eauto | eapply no_bad_parts; eauto | exact Hfv].
    - (* EArray *)
      cbn [flags_ok] in Hfl. cbn [no_bad] in Hnb.
      destruct (existsb (fun x => match x with ESpread _ => true | _ => false end) items) eqn:Hsp.
      + change (keep_items_go (su_fuel f ub noOC) items [] <> UFuel) in Hf.
        change (SE (EArray items) (keep_items_go (su_fuel f ub noOC) items [])).
        destruct (keep_items (su_fuel f ub noOC) items []) as [K [E HK]]; [|exact Hf|].
        * intros x Hin. pose proof (flags_all W _ Hfl x Hin) as Hfx. pose proof (no_bad_all _ Hnb x Hin) as Hnx.
          destruct (su_fuel f ub noOC x) as [|x'|] eqn:Hx; [| |exact I].
          -- destruct x; try (rewrite <- Hx; apply keep_of_SE; [reflexivity|]; apply IH; try assumption; congruence).
             ++ intros t _. reflexivity.
             ++ destruct f; discriminate Hx.
          -- destruct x; try (rewrite <- Hx; apply keep_of_SE; [reflexivity|]; apply IH; try assumption; congruence).
             ++ destruct f; discriminate Hx.
             ++ assert (x' = ESpread x) by (destruct f; cbn in Hx; congruence). subst x'. intros t _. reflexivity.
        * rewrite E. cbn [rev app]. intros tr Hn. rewrite EU_expr, !EE_array in *. apply HK. exact Hn.
      + change (items_go (su_fuel f ub noOC) items UNil <> UFuel) in Hf.
        change (SE (EArray items) (items_go (su_fuel f ub noOC) items UNil)).
        intros tr Hn. rewrite EE_array in Hn |- *.
        rewrite fold_items; [reflexivity| |exact Hf|exact Hn].
        intros x Hin Hgx. pose proof (flags_all W _ Hfl x Hin) as Hfx. pose proof (no_bad_all _ Hnb x Hin) as Hnx.
        destruct x; try (apply item_se_of_SE; [reflexivity|]; apply IH; assumption).
        * rewrite su_missing by exact Hgx. intros t _. reflexivity.
        * exfalso. assert (Hex : existsb (fun x => match x with ESpread _ => true | _ => false end) items = true)
            by (apply existsb_exists; eexists; split; [exact Hin | reflexivity]). congruence.
    - (* EObject *)
      cbn [flags_ok] in Hfl. cbn [no_bad] in Hnb. destruct Hnb as [Hshape Hnb].
      destruct (existsb (fun p : Z * bool * expr * expr => let '(kind, _, _, _) := p in kind =? 1) props) eqn:Hsp.
      + change (keep_props_go (su_fuel f ub noOC) props [] <> UFuel) in Hf.
        change (SE (EObject props) (keep_props_go (su_fuel f ub noOC) props [])).
        destruct (keep_props (su_fuel f ub noOC) props []) as [K [E HK]]; [|exact Hf|].
        * intros [[[kind computed] key] value] Hin. cbn [snd prop_keep].
          pose proof (flags_props _ Hfl _ _ _ _ Hin) as Hfv. pose proof (no_bad_props _ Hnb _ _ _ _ Hin) as Hnv.
          destruct (su_fuel f ub noOC value) as [|v'|] eqn:Hv; [| |exact I].
          -- intros t Hn. assert (S : SE value UNil) by (rewrite <- Hv; apply IH; try assumption; congruence).
             rewrite <- (S t Hn). reflexivity.
          -- intros t Hn. assert (S : SE value (UExpr v')) by (rewrite <- Hv; apply IH; try assumption; congruence).
             pose proof (S t Hn) as E0. rewrite EU_expr in E0. exact E0.
        * rewrite E. cbn [rev app]. intros tr Hn. rewrite EU_expr, !EE_object in *. apply HK. exact Hn.
      + destruct Hshape as [Hs|Hnc]; [congruence|].
        change (props_go (su_fuel f ub noOC) props UNil <> UFuel) in Hf.
        change (SE (EObject props) (props_go (su_fuel f ub noOC) props UNil)).
        intros tr Hn. rewrite EE_object in Hn |- *.
        rewrite fold_props; [reflexivity| |exact Hf|exact Hn].
        intros kind computed key value Hin.
        assert (Hk : (kind =? 1) = false).
        { destruct (kind =? 1) eqn:Hk1; [|reflexivity]. exfalso.
          assert (Hex : existsb (fun p : Z * bool * expr * expr => let '(kind, _, _, _) := p in kind =? 1) props = true)
            by (apply existsb_exists; eexists; split; [exact Hin | exact Hk1]). congruence. }
        assert (Hc : computed = false).
        { pose proof (proj1 (forallb_forall _ _) Hnc _ Hin) as Hc. cbn in Hc. destruct computed; [discriminate|reflexivity]. }
        split; [exact Hk|]. split; [exact Hc|]. intros Hfv.
        apply IH; [eapply flags_props; eauto | eapply no_bad_props; eauto | exact Hfv].
    - (* EAnnot *)
      destruct removable; [|apply SE_refl]. apply by_cbr; [assumption|reflexivity].
    - (* EInlinedEnum *)
      cbn [flags_ok] in Hfl. cbn [no_bad] in Hnb.
      apply (SE_same_eval (EInlinedEnum e) e); [intros; reflexivity | apply IH; assumption].
  Qed.

  (* final form: same trace, same kind of completion, same thrown value *)
  Theorem simplify_unused_sound_partial_all : forall noOC e tr res,
    flags_ok W e -> no_bad W e ->
    simplify_unused ub noOC e <> UFuel ->
    ev tr e = Some res ->
    same_effects (Some res) (eval_unused W tr (simplify_unused ub noOC e)).
  Proof.
    intros noOC e tr res Hf Hn Hfu Hev. unfold simplify_unused in *.
    pose proof (su_sound_fuel noOC _ e Hf Hn Hfu tr) as S. unfold EE, EU in S. rewrite Hev in S.
    apply same_effects_iff; [|discriminate].
    symmetry. apply S. destruct res as [t [v|z]]; discriminate.
  Qed.
End SU.

