(* C03: what the theorems assume of a world.
   [world_ok]: guarantees of ECMA-262 about the operations left abstract, on
   PRIMITIVE operands only (on objects they may run arbitrary user code);
   [flags_ok]: the annotations the parser attaches to nodes (pure-call comments,
   known side-effect-free globals and property reads from the define table,
   typeof-identifier marks) are true in this world. *)
From V Require Import Common.Base C03.Num C03.SpecOps C03.Tree C03.MiniJS.

Definition is_prim (v : value) : bool :=
  match v with VObj _ | VObjLit | VArr | VFun => false | _ => true end.
Definition is_sym (v : value) : bool := match v with VSym _ => true | _ => false end.
Definition is_numeric (v : value) : bool := match v with VNum _ | VBig _ => true | _ => false end.
Definition is_bool (v : value) : bool := match v with VBool _ => true | _ => false end.
Definition is_num (v : value) : bool := match v with VNum _ => true | _ => false end.
Definition is_big (v : value) : bool := match v with VBig _ => true | _ => false end.
Definition is_str (v : value) : bool := match v with VStr _ => true | _ => false end.
(* undefined, null, boolean, number: ToNumeric gives a Number *)
Definition is_plain (v : value) : bool :=
  match v with VUndef | VNull | VBool _ | VNum _ => true | _ => false end.

Definition is_arith (op : binop) : bool :=
  match op with
  | BSub | BMul | BDiv | BRem | BPow | BShl | BShr | BUShr | BBitOr | BBitAnd | BBitXor => true
  | _ => false
  end.
Definition is_rel (op : binop) : bool :=
  match op with BLt | BLe | BGt | BGe => true | _ => false end.
Definition is_boolop (op : binop) : bool :=
  match op with BLt | BLe | BGt | BGe | BIn | BInstanceof | BLooseEq => true | _ => false end.

Record world_ok (W : world) : Prop := {
  (* result types (13.5, 13.6-13.12, 7.2.13-7.2.14) *)
  ok_un_numeric : forall op v n t r, w_un W op v n = (t, Val r) -> is_numeric r = true;
  ok_un_pos : forall v n t r, w_un W UPos v n = (t, Val r) -> is_num r = true;
  ok_un_big : forall op v n t r, w_un W op v n = (t, Val r) -> is_big v = true -> is_big r = true;
  ok_un_plain : forall op v n t r, w_un W op v n = (t, Val r) -> is_prim v = true -> is_big v = false -> is_num r = true;
  ok_arith : forall op a b n t r, is_arith op = true -> w_bin W op a b n = (t, Val r) -> is_numeric r = true;
  ok_ushr : forall a b n t r, w_bin W BUShr a b n = (t, Val r) -> exists m e, r = VNum (Fin false m e);
  ok_boolop : forall op a b n t r, is_boolop op = true -> w_bin W op a b n = (t, Val r) -> is_bool r = true;
  ok_add_prim : forall a b n t r, w_bin W BAdd a b n = (t, Val r) -> is_str r || is_numeric r = true;
  ok_add_str : forall a b n t r, w_bin W BAdd a b n = (t, Val r) -> is_str a || is_str b = true -> is_str r = true;
  ok_add_big : forall a b n t r, w_bin W BAdd a b n = (t, Val r) -> is_big a = true -> is_big b = true -> is_big r = true;
  ok_add_plain : forall a b n t r, w_bin W BAdd a b n = (t, Val r) -> is_plain a = true -> is_plain b = true -> is_num r = true;
  (* no user code runs on primitive operands *)
  ok_rel_prim : forall op a b n, is_rel op = true -> is_prim a = true -> is_prim b = true -> is_sym a = false -> is_sym b = false ->
                exists r, w_bin W op a b n = ([], Val (VBool r));
  ok_looseeq_prim : forall a b n, is_prim a = true -> is_prim b = true -> exists r, w_bin W BLooseEq a b n = ([], Val (VBool r));
  (* strings: IsLooselyEqual / IsLessThan are the code-unit comparisons *)
  ok_looseeq_str : forall a b n, w_bin W BLooseEq (VStr a) (VStr b) n = ([], Val (VBool (zlist_eqb a b)));
  (* string concatenation: a + b with two strings is their concatenation; with one
     string operand the conversion of the other operand (its effects, and whether
     and what it throws) does not depend on the contents of the string *)
  ok_add_str_str : forall a b n, w_bin W BAdd (VStr a) (VStr b) n = ([], Val (VStr (a ++ b)));
  ok_add_indep_r : forall a s1 s2 n,
    fst (w_bin W BAdd a (VStr s1) n) = fst (w_bin W BAdd a (VStr s2) n) /\
    match snd (w_bin W BAdd a (VStr s1) n), snd (w_bin W BAdd a (VStr s2) n) with
    | Val _, Val _ => True | Throw x, Throw y => x = y | _, _ => False end;
  ok_add_indep_l : forall b s1 s2 n,
    fst (w_bin W BAdd (VStr s1) b n) = fst (w_bin W BAdd (VStr s2) b n) /\
    match snd (w_bin W BAdd (VStr s1) b n), snd (w_bin W BAdd (VStr s2) b n) with
    | Val _, Val _ => True | Throw x, Throw y => x = y | _, _ => False end;
  (* x == null: true exactly for null and undefined, no conversion of x (7.2.14 steps 2-3, 14) *)
  ok_looseeq_null_r : forall a n, w_bin W BLooseEq a VNull n = ([], Val (VBool (nullish a)));
  ok_looseeq_null_l : forall a n, w_bin W BLooseEq VNull a n = ([], Val (VBool (nullish a)));
  (* numbers: IsLooselyEqual on two Numbers is Number::equal *)
  ok_looseeq_num : forall a b n, w_bin W BLooseEq (VNum a) (VNum b) n = ([], Val (VBool (num_eq a b)));
  ok_lt_str : forall a b n, w_bin W BLt (VStr a) (VStr b) n = ([], Val (VBool (spec_string_lt a b)));
  ok_gt_str : forall a b n, w_bin W BGt (VStr a) (VStr b) n = ([], Val (VBool (spec_string_lt b a)));
  ok_le_str : forall a b n, w_bin W BLe (VStr a) (VStr b) n = ([], Val (VBool (negb (spec_string_lt b a))));
  ok_ge_str : forall a b n, w_bin W BGe (VStr a) (VStr b) n = ([], Val (VBool (negb (spec_string_lt a b))));
  (* -x on a bigint *)
  ok_neg_big : forall z n, exists r, w_un W UNeg (VBig z) n = ([], Val r);
  ok_tokey_prim : forall v n, is_prim v = true -> exists k, w_tokey W v n = ([], Val k);
  ok_tostr_prim : forall v n, is_prim v = true -> is_sym v = false -> exists s, w_tostr W v n = ([], Val (VStr s));
  ok_tostr_str : forall v n t r, w_tostr W v n = (t, Val r) -> is_str r = true;
  (* iterating an array created by a literal (Array.prototype[Symbol.iterator] is the built-in one) *)
  ok_spread_arr : forall n, exists r, w_spread W VArr n = ([], Val r)
}.

Section Flags.
  Variable W : world.
  Notation ev := (eval W).

  (* evaluates without effects and completes normally, at any time *)
  Definition pure_here (e : expr) : Prop := forall tr, exists v, ev tr e = Some (tr, Val v).
  Definition sym_here (e : expr) : Prop := forall tr, exists id, ev tr e = Some (tr, Val (VSym id)).
  (* a call marked /* @__PURE__ */: the callee read and the call itself are free of effects *)
  Definition pure_callee (callf : value -> list value -> nat -> trace * outcome) (oc : Z) (t : expr) : Prop :=
    forall tr, exists fv, eval_target W oc tr t = Some (tr, Val fv) /\ forall vs n, exists r, callf fv vs n = ([], Val r).

  Fixpoint flags_ok (e : expr) {struct e} : Prop :=
    let all := fix all (l : list expr) : Prop :=
                 match l with [] => True | x :: r => flags_ok x /\ all r end in
    match e with
    | EId ref removable _ => removable = true -> w_unbound W ref = true -> w_genv W ref <> None
    | EDot t name oc removable symInst =>
        (removable = true -> pure_here (EDot t name oc removable symInst)) /\
        (symInst = true -> sym_here (EDot t name oc removable symInst)) /\ flags_ok t
    | EIndex t i _ => flags_ok t /\ flags_ok i
    | ECall t args oc pure => (pure = true -> pure_callee (w_call W) oc t) /\ flags_ok t /\ all args
    | ENew t args pure => (pure = true -> pure_callee (w_new W) 0 t) /\ flags_ok t /\ all args
    | EUn op v w => (op = UTypeof -> w = true -> exists r c m, v = EId r c m) /\ flags_ok v
    | EBin _ l r => flags_ok l /\ flags_ok r
    | EIf t y n => flags_ok t /\ flags_ok y /\ flags_ok n
    | ETemplate _ parts =>
        (fix go (l : list (expr * list Z)) : Prop :=
           match l with [] => True | (v, _) :: r => flags_ok v /\ go r end) parts
    | EArray items => all items
    | ESpread v => flags_ok v
    | EObject props =>
        (fix go (l : list (Z * bool * expr * expr)) : Prop :=
           match l with [] => True | (_, _, k, v) :: r => flags_ok k /\ flags_ok v /\ go r end) props
    | EAnnot v removable => (removable = true -> pure_here v) /\ flags_ok v
    | EInlinedEnum v => flags_ok v
    | _ => True
    end.
End Flags.
