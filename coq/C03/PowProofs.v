(* FoldBinaryOperator's ** (fix 9e1822e + math.Pow special cases) agrees with the
   special cases of Number::exponentiate, for all doubles *)
From V Require Import Common.Base C03.Num C03.SpecOps C03.Tree C03.Fold.

Definition wf_double (x : num) : Prop :=
  match x with Fin _ m _ => 0 <= m < two53 | _ => True end.

Definition abs_cmp1 (m e : Z) : comparison := fin_cmp false m e false 1 0.

Lemma pow2_gt0 : forall k, 0 <= k -> 0 < 2 ^ k.
Proof. intros. apply Z.pow_pos_nonneg; lia. Qed.

Lemma cmp_zero : forall s m e s2 e2, 0 <= m ->
  fin_cmp s m e s2 0 e2 = Z.compare (signed s m) 0.
Proof.
  intros s m e s2 e2 Hm. unfold fin_cmp.
  assert (Hs : signed s2 (0 * 2 ^ (e2 - Z.min e e2)) = 0) by (destruct s2; cbn; lia).
  rewrite Hs. assert (Hp : 0 < 2 ^ (e - Z.min e e2)) by (apply pow2_gt0; lia).
  destruct s; cbn [signed].
  - destruct (Z.compare_spec (- m) 0), (Z.compare_spec (- (m * 2 ^ (e - Z.min e e2))) 0); try reflexivity; nia.
  - destruct (Z.compare_spec m 0), (Z.compare_spec (m * 2 ^ (e - Z.min e e2)) 0); try reflexivity; nia.
Qed.

Lemma lt_zero : forall s m e, 0 <= m -> num_lt (Fin s m e) pzero = s && negb (m =? 0).
Proof.
  intros s m e Hm. unfold num_lt, pzero. cbn [num_cmp]. rewrite cmp_zero by assumption.
  destruct s; cbn [signed andb]; destruct (Z.compare_spec (- m) 0); destruct (Z.compare_spec m 0); destruct (m =? 0) eqn:E; try reflexivity; lia.
Qed.

Lemma gt_zero : forall s m e, 0 <= m -> num_gt (Fin s m e) pzero = negb s && negb (m =? 0).
Proof.
  intros s m e Hm. unfold num_gt, pzero. cbn [num_cmp]. rewrite cmp_zero by assumption.
  destruct s; cbn [signed andb negb]; destruct (Z.compare_spec (- m) 0); destruct (Z.compare_spec m 0); destruct (m =? 0) eqn:E; try reflexivity; lia.
Qed.

Lemma eq_one : forall s m e, 0 <= m ->
  num_eq (Fin s m e) one = negb s && match abs_cmp1 m e with Eq => true | _ => false end.
Proof.
  intros s m e Hm. unfold num_eq, one, abs_cmp1. cbn [num_cmp]. destruct s; [|reflexivity].
  cbn [negb andb]. unfold fin_cmp. cbn [signed].
  assert (H1 : 0 < 2 ^ (e - Z.min e 0)) by (apply pow2_gt0; lia).
  assert (H2 : 0 < 2 ^ (0 - Z.min e 0)) by (apply pow2_gt0; lia).
  destruct (Z.compare_spec (- (m * 2 ^ (e - Z.min e 0))) (1 * 2 ^ (0 - Z.min e 0))); try reflexivity; nia.
Qed.

Lemma eq_mone : forall s m e, 0 <= m ->
  num_eq (Fin s m e) (num_neg one) = s && match abs_cmp1 m e with Eq => true | _ => false end.
Proof.
  intros s m e Hm. unfold num_eq, one, num_neg, abs_cmp1. cbn [num_cmp negb]. unfold fin_cmp. cbn [signed].
  assert (H1 : 0 < 2 ^ (e - Z.min e 0)) by (apply pow2_gt0; lia).
  assert (H2 : 0 < 2 ^ (0 - Z.min e 0)) by (apply pow2_gt0; lia).
  destruct s; cbn [signed andb].
  - destruct (Z.compare_spec (- (m * 2 ^ (e - Z.min e 0))) (- (1 * 2 ^ (0 - Z.min e 0))));
      destruct (Z.compare_spec (m * 2 ^ (e - Z.min e 0)) (1 * 2 ^ (0 - Z.min e 0))); try reflexivity; lia.
  - destruct (Z.compare_spec (m * 2 ^ (e - Z.min e 0)) (- (1 * 2 ^ (0 - Z.min e 0)))); try reflexivity; nia.
Qed.

Lemma abs_lt_one : forall s m e, num_lt (num_abs (Fin s m e)) one = match abs_cmp1 m e with Lt => true | _ => false end.
Proof. reflexivity. Qed.

Lemma abs_cmp_zero : forall e, abs_cmp1 0 e = Lt.
Proof.
  intros e. unfold abs_cmp1, fin_cmp. cbn [signed]. rewrite Z.mul_0_l.
  assert (H2 : 0 < 2 ^ (0 - Z.min e 0)) by (apply pow2_gt0; lia).
  destruct (Z.compare_spec 0 (1 * 2 ^ (0 - Z.min e 0))); try reflexivity; lia.
Qed.

(* |y| = 1 exactly: y is the odd integer 1 *)
Lemma abs_eq_one_int : forall m e, 0 <= m -> abs_cmp1 m e = Eq ->
  is_int m e = true /\ Z.odd (trunc_abs m e) = true /\ (m =? 0) = false.
Proof.
  intros m e Hm H. unfold abs_cmp1, fin_cmp in H. cbn [signed] in H. apply Z.compare_eq in H.
  unfold is_int, trunc_abs. destruct (0 <=? e) eqn:He.
  - assert (Hmin : Z.min e 0 = 0) by lia. rewrite Hmin in H. rewrite Z.sub_0_r in H. cbn in H.
    split; [reflexivity|]. rewrite H. split; [reflexivity|]. destruct (m =? 0) eqn:E; [|reflexivity].
    apply Z.eqb_eq in E. subst. lia.
  - assert (Hmin : Z.min e 0 = e) by lia. rewrite Hmin in H. rewrite Z.sub_diag in H.
    replace (0 - e) with (- e) in H by lia. rewrite Z.pow_0_r, Z.mul_1_r, Z.mul_1_l in H. subst m.
    assert (Hp : 0 < 2 ^ (- e)) by (apply pow2_gt0; lia).
    rewrite Z.mod_same by lia. rewrite Z.div_same by lia.
    split; [reflexivity|]. split; [reflexivity|]. destruct (2 ^ (- e) =? 0) eqn:E; [lia|reflexivity].
Qed.

Lemma odd_int_small : forall m e, 0 <= m < two53 ->
  is_int m e && Z.odd (trunc_abs m e) = true -> num_lt (Fin false m e) (Fin false two53 0) = true.
Proof.
  intros m e Hm H. apply andb_true_iff in H as [Hi Ho].
  unfold trunc_abs in Ho. unfold num_lt. cbn [num_cmp]. unfold fin_cmp. cbn [signed].
  destruct (0 <=? e) eqn:He.
  - destruct (Z.eq_dec e 0) as [->|Hne].
    + unfold two53 in *. cbn. match goal with |- context [?a ?= ?b] => destruct (Z.compare_spec a b) end; try reflexivity; lia.
    + exfalso. replace e with (Z.succ (e - 1)) in Ho by lia. rewrite Z.pow_succ_r in Ho by lia.
      rewrite Z.mul_assoc, (Z.mul_comm m 2), <- Z.mul_assoc in Ho. rewrite Z.odd_mul in Ho. cbn in Ho. discriminate.
  - assert (Hmin : Z.min e 0 = e) by lia. rewrite Hmin, Z.sub_diag, Z.pow_0_r, Z.mul_1_r.
    assert (Hp : 1 <= 2 ^ (0 - e)) by (assert (0 < 2 ^ (0 - e)) by (apply pow2_gt0; lia); lia).
    destruct (Z.compare_spec m (two53 * 2 ^ (0 - e))); try reflexivity; unfold two53 in *; nia.
Qed.

Lemma odd_int_agree : forall y, wf_double y -> is_odd_int y = spec_is_odd_integer y.
Proof.
  intros [| |s m e] Hw; try reflexivity. cbn [is_odd_int spec_is_odd_integer wf_double] in *.
  destruct (is_int m e && Z.odd (trunc_abs m e)) eqn:H.
  - rewrite (odd_int_small m e Hw H). apply andb_true_iff in H as [-> ->]. reflexivity.
  - apply andb_false_iff in H as [->| ->]; rewrite ?andb_false_r; reflexivity.
Qed.

Lemma neg_wf : forall y, wf_double y -> wf_double (num_neg y).
Proof. destruct y; cbn; auto. Qed.

Lemma odd_neg : forall y, spec_is_odd_integer (num_neg y) = spec_is_odd_integer y.
Proof. destruct y; reflexivity. Qed.

(* all tests on a finite number, in terms of its sign, zero-ness, |x| ? 1, integrality and parity *)
Ltac norm_fin H :=
  repeat first
    [ rewrite eq_one in H by lia | rewrite eq_mone in H by lia
    | rewrite lt_zero in H by lia | rewrite gt_zero in H by lia
    | rewrite abs_lt_one in H ].

(* split on zero-ness and on |x| ? 1, with the consequences of |x| = 1 *)
Ltac fin_atoms m e Hc :=
  destruct (m =? 0) eqn:?;
  [ match goal with Z0 : (m =? 0) = true |- _ => apply Z.eqb_eq in Z0; subst m; rewrite ?abs_cmp_zero in * end
  | destruct (abs_cmp1 m e) eqn:?;
    try (let Hi := fresh "Hi" in let Ho := fresh "Ho" in let Hz := fresh "Hz" in
         destruct (Hc eq_refl) as (Hi & Ho & Hz); rewrite ?Hi, ?Ho in *) ].
Ltac bool_atoms H :=
  repeat match type of H with
         | context [is_int ?a ?b] => destruct (is_int a b) eqn:?
         | context [Z.odd (trunc_abs ?a ?b)] => destruct (Z.odd (trunc_abs a b)) eqn:?
         end.

Lemma is_odd_fin : forall s m e, 0 <= m < two53 ->
  is_odd_int (Fin s m e) = is_int m e && Z.odd (trunc_abs m e).
Proof. intros s m e H. rewrite (odd_int_agree (Fin s m e)) by exact H. reflexivity. Qed.

Theorem fold_pow_special_cases_all : forall x y, wf_double x -> wf_double y ->
  forall r, fold_pow x y = Some r ->
  match spec_exponentiate_special x y with Some r' => num_same r r' = true | None => True end.
Proof.
  intros x y Hx Hy r H. unfold fold_pow, go_pow_special in H.
  destruct y as [|sy|sy my ey]; destruct x as [|sx|sx mx ex]; cbn [wf_double] in Hx, Hy;
    cbn [is_nan is_zero orb andb signbit num_neg negb num_abs] in H;
    rewrite ?is_odd_fin in H by assumption;
    norm_fin H;
    cbn [spec_exponentiate_special spec_abs_cmp_one spec_gt_zero spec_is_odd_integer];
    try change (num_cmp (Fin false mx ex) (Fin false 1 0)) with (Some (abs_cmp1 mx ex));
    try (pose proof (abs_cmp_zero ex) as Hcz);
    try (pose proof (abs_eq_one_int mx ex ltac:(lia)) as Hce);
    try (pose proof (abs_eq_one_int my ey ltac:(lia)) as Hcey).
  all: try (cbn in H; inversion H; subst; reflexivity).
  (* y infinite, x NaN / infinite *)
  1: (destruct sy; cbv in H; inversion H; subst; reflexivity).
  1: (destruct sx, sy; cbv in H; inversion H; subst; reflexivity).
  all: try change (fin_cmp false mx ex false 1 0) with (abs_cmp1 mx ex) in *;
    try (fin_atoms mx ex Hce); try (fin_atoms my ey Hcey); bool_atoms H;
    try congruence;
    try (destruct sx); try (destruct sy); cbn in H;
    try change (fin_cmp false mx ex false 1 0) with (abs_cmp1 mx ex) in H;
    repeat match goal with E : abs_cmp1 _ _ = _ |- _ => rewrite E in H end; cbn in H;
    inversion H; subst; cbn; try reflexivity; try exact I;
    try (apply andb_true_iff; split; [reflexivity|]; rewrite Z.min_id, Z.sub_diag; apply Z.eqb_refl).
Qed.
