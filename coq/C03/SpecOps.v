(* C03 specification side: abstract operations of ECMA-262 (2023), transcribed
   from the standard's text, not from esbuild's code.  Numbers are the same
   mathematical objects as in Num.v (NaN, +-Infinity, finite dyadic reals). *)
From V Require Import Common.Base C03.Num.

(* 7.1.6 ToInt32 ( argument )
   2. If number is not finite or number is either +0 or -0, return +0.
   3. Let int be truncate(R(number)).
   4. Let int32bit be int modulo 2^32.
   5. If int32bit >= 2^31, return F(int32bit - 2^32); otherwise return F(int32bit). *)
Definition spec_truncate (s : bool) (m e : Z) : Z :=
  (* truncate(x) rounds toward zero; x = (+-m) * 2^e *)
  if 0 <=? e then signed s m * 2 ^ e else Z.quot (signed s m) (2 ^ (- e)).

Definition spec_ToInt32 (f : num) : Z :=
  match f with
  | NaN | Inf _ => 0
  | Fin s m e =>
      let int := spec_truncate s m e in
      let int32bit := int mod 2 ^ 32 in
      if 2 ^ 31 <=? int32bit then int32bit - 2 ^ 32 else int32bit
  end.

(* 7.1.7 ToUint32: steps 1-4 the same, 5. Return F(int32bit). *)
Definition spec_ToUint32 (f : num) : Z :=
  match f with
  | NaN | Inf _ => 0
  | Fin s m e => spec_truncate s m e mod 2 ^ 32
  end.

(* 7.2.13 IsLessThan, strings (steps 3.a-3.f):
   a. If IsStringPrefix(py, px) is true, return false.
   b. If IsStringPrefix(px, py) is true, return true.
   c. Let k be the smallest non-negative integer such that the code unit at
      index k within px is different from the code unit at index k within py.
   d-f. Let m, n be those code units; if m < n return true, otherwise false. *)
Fixpoint is_string_prefix (p q : list Z) : bool :=   (* p is a prefix of q *)
  match p, q with
  | [], _ => true
  | x :: p', y :: q' => (x =? y) && is_string_prefix p' q'
  | _ :: _, [] => false
  end.

Fixpoint first_diff (px py : list Z) : option (Z * Z) :=
  match px, py with
  | x :: px', y :: py' => if x =? y then first_diff px' py' else Some (x, y)
  | _, _ => None
  end.

Definition spec_string_lt (px py : list Z) : bool :=
  if is_string_prefix py px then false
  else if is_string_prefix px py then true
  else match first_diff px py with
       | Some (m, n) => m <? n
       | None => false      (* unreachable: neither is a prefix of the other *)
       end.
