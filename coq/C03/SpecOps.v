(* C03 specification side: abstract operations of ECMA-262 (2023), transcribed
   from the standard's text, not from esbuild's code.  Numbers are the same
   mathematical objects as in Num.v (NaN, +-Infinity, finite dyadic reals). *)
From V Require Import Common.Base C03.Num.

(* 7.1.6 ToInt32 ( argument )
   2. If number is not finite or number is either +0 or -0, return +0.
   3. Let int be truncate(R(number)).
   4. Let int32bit be int modulo 2^32.
   5. If int32bit >= 2^31, return F(int32bit - 2^32); otherwise return F(int32bit). *)
Definition spec_truncate (s : bool) (m e : Z) : Z :=
  (* truncate(x) rounds toward zero; x = (+-m) * 2^e *)
  if 0 <=? e then signed s m * 2 ^ e else Z.quot (signed s m) (2 ^ (- e)).

Definition spec_ToInt32 (f : num) : Z :=
  match f with
  | NaN | Inf _ => 0
  | Fin s m e =>
      let int := spec_truncate s m e in
      let int32bit := int mod 2 ^ 32 in
      if 2 ^ 31 <=? int32bit then int32bit - 2 ^ 32 else int32bit
  end.

(* 7.1.7 ToUint32: steps 1-4 the same, 5. Return F(int32bit). *)
Definition spec_ToUint32 (f : num) : Z :=
  match f with
  | NaN | Inf _ => 0
  | Fin s m e => spec_truncate s m e mod 2 ^ 32
  end.

(* 7.2.13 IsLessThan, strings (steps 3.a-3.f):
   a. If IsStringPrefix(py, px) is true, return false.
   b. If IsStringPrefix(px, py) is true, return true.
   c. Let k be the smallest non-negative integer such that the code unit at
      index k within px is different from the code unit at index k within py.
   d-f. Let m, n be those code units; if m < n return true, otherwise false. *)
Fixpoint is_string_prefix (p q : list Z) : bool :=   (* p is a prefix of q *)
  match p, q with
  | [], _ => true
  | x :: p', y :: q' => (x =? y) && is_string_prefix p' q'
  | _ :: _, [] => false
  end.

Fixpoint first_diff (px py : list Z) : option (Z * Z) :=
  match px, py with
  | x :: px', y :: py' => if x =? y then first_diff px' py' else Some (x, y)
  | _, _ => None
  end.

Definition spec_string_lt (px py : list Z) : bool :=
  if is_string_prefix py px then false
  else if is_string_prefix px py then true
  else match first_diff px py with
       | Some (m, n) => m <? n
       | None => false      (* unreachable: neither is a prefix of the other *)
       end.

(* 6.1.6.1.3 Number::exponentiate ( base, exponent ), steps 1-12 (the special
   cases; step 13 is "an implementation-approximated value").
   Some r: decided by steps 1-12; None: step 13. *)
Definition spec_is_odd_integer (x : num) : bool :=
  match x with
  | Fin _ m e => is_int m e && Z.odd (trunc_abs m e)
  | _ => false
  end.
Definition spec_gt_zero (x : num) : bool :=
  match x with Inf s => negb s | Fin s m _ => negb s && negb (m =? 0) | NaN => false end.
Definition spec_abs_cmp_one (x : num) : option comparison :=   (* abs(R(base)) compared with 1 *)
  match x with Fin _ m e => num_cmp (Fin false m e) (Fin false 1 0) | _ => None end.

Definition spec_exponentiate_special (base exponent : num) : option num :=
  match exponent with
  | NaN => Some NaN                                              (* 1 *)
  | _ =>
  if (match exponent with Fin _ m _ => m =? 0 | _ => false end) then Some (Fin false 1 0)   (* 2 *)
  else match base with
  | NaN => Some NaN                                              (* 3 *)
  | Inf false => if spec_gt_zero exponent then Some (Inf false) else Some (Fin false 0 0)   (* 4 *)
  | Inf true =>                                                  (* 5 *)
      if spec_gt_zero exponent
      then (if spec_is_odd_integer exponent then Some (Inf true) else Some (Inf false))
      else (if spec_is_odd_integer exponent then Some (Fin true 0 0) else Some (Fin false 0 0))
  | Fin bs bm be =>
      if bm =? 0 then
        (if negb bs then                                         (* 6: +0 *)
           (if spec_gt_zero exponent then Some (Fin false 0 0) else Some (Inf false))
         else                                                    (* 7: -0 *)
           (if spec_gt_zero exponent
            then (if spec_is_odd_integer exponent then Some (Fin true 0 0) else Some (Fin false 0 0))
            else (if spec_is_odd_integer exponent then Some (Inf true) else Some (Inf false))))
      else match exponent with
      | Inf false =>                                             (* 9 *)
          match spec_abs_cmp_one base with
          | Some Gt => Some (Inf false) | Some Eq => Some NaN | _ => Some (Fin false 0 0)
          end
      | Inf true =>                                              (* 10 *)
          match spec_abs_cmp_one base with
          | Some Gt => Some (Fin false 0 0) | Some Eq => Some NaN | _ => Some (Inf false)
          end
      | Fin _ em ee =>                                           (* 12 *)
          if bs && negb (is_int em ee) then Some NaN else None
      | NaN => Some NaN
      end
  end
  end.
