(* Proofs about the numeric cores (Num.v) against SpecOps.v *)
From V Require Import Common.Base C03.Num C03.SpecOps.

Lemma two32_eq : 2 ^ 32 = two32. Proof. reflexivity. Qed.
Lemma two31_eq : 2 ^ 31 = two31. Proof. reflexivity. Qed.

Lemma pow2_pos k : 0 < 2 ^ k \/ 2 ^ k = 0.
Proof.
  destruct (Z_lt_le_dec k 0) as [H|H].
  - right. apply Z.pow_neg_r; lia.
  - left. apply Z.pow_pos_nonneg; lia.
Qed.

(* truncation: the model's floor-of-magnitude with the sign put back equals
   the standard's truncate *)
Lemma trunc_is_spec s m e : 0 <= m -> signed s (trunc_abs m e) = spec_truncate s m e.
Proof.
  intros Hm. unfold trunc_abs, spec_truncate.
  destruct (0 <=? e) eqn:He.
  - destruct s; cbn [signed]; lia.
  - assert (Hp : 0 < 2 ^ (- e)) by (apply Z.pow_pos_nonneg; lia).
    destruct s; cbn [signed].
    + rewrite Z.quot_opp_l by lia. rewrite Z.quot_div_nonneg by lia. reflexivity.
    + rewrite Z.quot_div_nonneg by lia. reflexivity.
Qed.

Lemma trunc_abs_nonneg m e : 0 <= m -> 0 <= trunc_abs m e.
Proof.
  intros Hm. unfold trunc_abs. destruct (0 <=? e) eqn:He.
  - apply Z.mul_nonneg_nonneg; [lia|]. apply Z.pow_nonneg; lia.
  - apply Z.div_pos; [lia|]. apply Z.pow_pos_nonneg; lia.
Qed.

(* uint32(math.Mod(|f|, 2^32)) = floor(|f|) mod 2^32 *)
Lemma fmod_trunc m e : 0 <= m ->
  (let '(m', e') := fmod_abs_two32 m e in trunc_abs m' e') = trunc_abs m e mod two32.
Proof.
  intros Hm. unfold fmod_abs_two32, trunc_abs at 2.
  destruct (0 <=? e) eqn:He.
  - unfold trunc_abs. cbn. rewrite Z.mul_1_r. reflexivity.
  - unfold trunc_abs. rewrite He.
    assert (Hp : 0 < 2 ^ (- e)) by (apply Z.pow_pos_nonneg; lia).
    rewrite Z.rem_mul_r by (unfold two32; lia).
    rewrite Z.mul_comm, Z.div_add by lia.
    rewrite Z.div_small by (apply Z.mod_pos_bound; lia). lia.
Qed.

Lemma wrap_neg_wrap a :
  0 <= a ->
  wrap32 (- wrap32 (a mod two32)) =
  (if two31 <=? (- a) mod two32 then (- a) mod two32 - two32 else (- a) mod two32).
Proof.
  intros Ha. unfold wrap32, two32, two31. cbv zeta.
  repeat match goal with |- context [if ?c then _ else _] => destruct c eqn:? end; lia.
Qed.

Lemma wrap_pos a :
  wrap32 (a mod two32) =
  (if two31 <=? a mod two32 then a mod two32 - two32 else a mod two32).
Proof.
  unfold wrap32, two32, two31. cbv zeta.
  repeat match goal with |- context [if ?c then _ else _] => destruct c eqn:? end; lia.
Qed.

Lemma wrap32_range z : - two31 <= wrap32 z < two31.
Proof. unfold wrap32, two31, two32. cbv zeta. destruct (Z.ltb _ _) eqn:?; lia. Qed.

Lemma wrap32_id z : - two31 <= z < two31 -> wrap32 z = z.
Proof. unfold wrap32, two31, two32. intros H. cbv zeta. destruct (Z.ltb _ _) eqn:?; lia. Qed.

(* the slow path of ToInt32 computes the standard's result *)
Lemma slow_path_is_spec (s : bool) (m e : Z) : 0 <= m ->
  (let '(m', e') := fmod_abs_two32 m e in
   let i := wrap32 (trunc_abs m' e') in if s then wrap32 (- i) else i)
  = spec_ToInt32 (Fin s m e).
Proof.
  intros Hm. pose proof (fmod_trunc m e Hm) as HF.
  destruct (fmod_abs_two32 m e) as [m' e']. rewrite HF.
  cbn [spec_ToInt32]. rewrite <- trunc_is_spec by assumption.
  rewrite two32_eq, two31_eq.
  pose proof (trunc_abs_nonneg m e Hm) as Hn.
  destruct s; cbn [signed].
  - apply wrap_neg_wrap; assumption.
  - apply wrap_pos.
Qed.

(* the fast path: an exactly represented int32 is its own ToInt32 *)
Lemma fast_path_is_spec s m e i : 0 <= m -> - two31 <= i < two31 ->
  float_of_int_eqb i (Fin s m e) = true -> i = spec_ToInt32 (Fin s m e).
Proof.
  intros Hm Hi H. cbn [float_of_int_eqb] in H.
  apply andb_true_iff in H as [_ H]. apply Z.eqb_eq in H.
  cbn [spec_ToInt32]. rewrite <- trunc_is_spec by assumption. rewrite H.
  rewrite two32_eq, two31_eq. unfold two31, two32 in *.
  destruct (Z.leb _ _) eqn:?; lia.
Qed.

Theorem to_int32_is_spec_all :
  forall (cvt : num -> Z) (f : num),
    (forall x, - two31 <= cvt x < two31) -> wf_num f ->
    go_ToInt32 cvt f = spec_ToInt32 f.
Proof.
  intros cvt f Hc Hw. unfold go_ToInt32.
  destruct f as [|n|s m e]; try reflexivity.
  cbn [wf_num] in Hw.
  destruct (float_of_int_eqb _ _) eqn:Hf.
  - apply fast_path_is_spec; [assumption| |assumption].
    unfold go_int32_of_float.
    destruct (andb _ _) eqn:Hr; [lia | apply Hc].
  - apply slow_path_is_spec; assumption.
Qed.

Theorem to_uint32_is_spec_all :
  forall (cvt : num -> Z) (f : num),
    (forall x, - two31 <= cvt x < two31) -> wf_num f ->
    go_ToUint32 cvt f = spec_ToUint32 f.
Proof.
  intros cvt f Hc Hw. unfold go_ToUint32. rewrite to_int32_is_spec_all by assumption.
  destruct f as [|n|s m e]; try reflexivity.
  cbn [spec_ToInt32 spec_ToUint32]. unfold wrapu32. rewrite two32_eq, two31_eq. unfold two31, two32.
  destruct (Z.leb _ _) eqn:?; lia.
Qed.

Lemma num_of_bits_wf b : 0 <= b -> wf_num (num_of_bits b).
Proof.
  intros Hb. unfold num_of_bits.
  destruct (_ =? 2047); [destruct (_ =? 0); exact I|].
  assert (H : 0 <= Z.land b (two52 - 1)) by (apply Z.land_nonneg; left; assumption).
  destruct (_ =? 0); cbn [wf_num]; unfold two52 in *; lia.
Qed.

(* ---- stringCompareUCS2 ---------------------------------------------------- *)
Lemma compare_ucs2_lt_all : forall a b, (go_compare_ucs2 a b <? 0) = spec_string_lt a b.
Proof.
  induction a as [|x a IH]; intros [|y b]; unfold spec_string_lt; cbn [go_compare_ucs2 is_string_prefix first_diff length].
  - reflexivity.
  - cbn [length Z.of_nat]. lia.
  - cbn [length Z.of_nat]. lia.
  - destruct (x - y =? 0) eqn:E.
    + assert (x = y) by lia. subst y. rewrite !Z.eqb_refl. cbn [andb].
      rewrite IH. unfold spec_string_lt. reflexivity.
    + assert (Hxy : (x =? y) = false) by lia. assert (Hyx : (y =? x) = false) by lia.
      rewrite Hxy, Hyx. cbn [andb]. lia.
Qed.

Lemma compare_ucs2_eq_all : forall a b, (go_compare_ucs2 a b =? 0) = zlist_eqb a b.
Proof.
  unfold zlist_eqb.
  induction a as [|x a IH]; intros [|y b]; cbn [go_compare_ucs2 list_eqb length]; try reflexivity.
  - destruct (x - y =? 0) eqn:E.
    + assert (Hxy : (x =? y) = true) by lia. rewrite Hxy. cbn [andb]. apply IH.
    + assert (Hxy : (x =? y) = false) by lia. rewrite Hxy. cbn [andb]. lia.
Qed.

Lemma compare_ucs2_antisym : forall a b, go_compare_ucs2 b a = - go_compare_ucs2 a b.
Proof.
  induction a as [|x a IH]; intros [|y b]; cbn [go_compare_ucs2 length]; try lia.
  destruct (x - y =? 0) eqn:E.
  - assert (Hyx : (y - x =? 0) = true) by lia. rewrite Hyx. apply IH.
  - assert (Hyx : (y - x =? 0) = false) by lia. rewrite Hyx. lia.
Qed.

Lemma compare_ucs2_gt_all : forall a b, (0 <? go_compare_ucs2 a b) = spec_string_lt b a.
Proof.
  intros a b. rewrite <- compare_ucs2_lt_all, (compare_ucs2_antisym a b). lia.
Qed.

(* ---- FoldBinaryOperator: integer operators ---------------------------------- *)
From V Require Import C03.Tree C03.Fold.

Definition spec_int_op (op : binop) (l r : num) : option Z :=
  (* 6.1.6.1.9-6.1.6.1.11 Number::leftShift / signedRightShift / unsignedRightShift,
     6.1.6.1.17 NumberBitwiseOp *)
  let shift := spec_ToUint32 r mod 32 in
  match op with
  | BShl => let v := (spec_ToInt32 l * 2 ^ shift) mod 2 ^ 32 in Some (if 2 ^ 31 <=? v then v - 2 ^ 32 else v)
  | BShr => Some (spec_ToInt32 l / 2 ^ shift)
  | BUShr => Some (spec_ToUint32 l / 2 ^ shift)
  | BBitAnd => Some (Z.land (spec_ToInt32 l) (spec_ToInt32 r))
  | BBitOr => Some (Z.lor (spec_ToInt32 l) (spec_ToInt32 r))
  | BBitXor => Some (Z.lxor (spec_ToInt32 l) (spec_ToInt32 r))
  | _ => None
  end.

Lemma land31_is_mod32 u : 0 <= u -> Z.land u 31 = u mod 32.
Proof. intros H. change 31 with (Z.ones 5). rewrite Z.land_ones by lia. reflexivity. Qed.

Lemma spec_ToUint32_nonneg f : 0 <= spec_ToUint32 f.
Proof.
  destruct f as [| |s m e]; cbn [spec_ToUint32]; lia.
Qed.

Theorem fold_int_ops_is_spec_all :
  forall (cvt : num -> Z) (op : binop) (l r : num),
    (forall x, - two31 <= cvt x < two31) -> wf_num l -> wf_num r ->
    forall z, spec_int_op op l r = Some z -> fold_num_num cvt op l r = FNum (num_of_Z z).
Proof.
  intros cvt op l r Hc Hl Hr z Hs.
  unfold fold_num_num, go_ToUint32.
  rewrite !to_int32_is_spec_all by assumption.
  pose proof (to_uint32_is_spec_all cvt r Hc Hr) as Hur. unfold go_ToUint32 in Hur.
  rewrite to_int32_is_spec_all in Hur by assumption.
  pose proof (to_uint32_is_spec_all cvt l Hc Hl) as Hul. unfold go_ToUint32 in Hul.
  rewrite to_int32_is_spec_all in Hul by assumption.
  rewrite Hur, Hul.
  pose proof (spec_ToUint32_nonneg r) as Hn.
  destruct op; cbn [spec_int_op] in Hs; try discriminate; inversion Hs; subst z; clear Hs;
    rewrite ?land31_is_mod32 by assumption; try reflexivity.
  (* BShl: int32 << k wraps *)
  unfold go_shl32, wrap32. cbv zeta.
  change (Z.pow_pos 2 31) with two31. change (Z.pow_pos 2 32) with two32.
  set (v := (spec_ToInt32 l * 2 ^ (spec_ToUint32 r mod 32)) mod two32).
  do 2 f_equal. unfold two31 in *.
  destruct (Z.ltb v _) eqn:E1; destruct (Z.leb _ v) eqn:E2; try reflexivity; lia.
Qed.
