(* TryToInsertOptionalChain (after fix 01a3711): when it succeeds on "test" and a
   chain e, the result e' short-circuits when test is null or undefined and
   otherwise evaluates like e. *)
From V Require Import Common.Base C03.Num C03.Tree C03.MiniJS C03.Worlds C03.TreeProofs C03.TreeProofs4
  C03.TreeProofs9 C03.TreeProofs10.

Section TIOC.
  Variable W : world.
  Notation ev := (eval W).
  Notation raw := (eval_raw W).

  Definition is_chain (e : expr) : bool :=
    match e with EDot _ _ _ _ _ | EIndex _ _ _ | ECall _ _ _ _ => true | _ => false end.
  Definition oc_of (e : expr) : Z :=
    match e with EDot _ _ oc _ _ => oc | EIndex _ _ oc => oc | ECall _ _ oc _ => oc | _ => 0 end.
  Definition target_of (e : expr) : expr :=
    match e with EDot t _ _ _ _ => t | EIndex t _ _ => t | ECall t _ _ _ => t | _ => e end.
  (* what a link does once its target value is known and the link is not skipped *)
  Definition body_of (e : expr) (tr1 : trace) (v : value) : option (trace * outcome) :=
    match e with
    | EDot _ name _ _ _ => eff tr1 (w_get W v (VStr name))
    | EIndex _ i _ => bind (ev tr1 i) (fun tr2 kv => bind (eff tr2 (w_tokey W kv)) (fun tr3 key => eff tr3 (w_get W v key)))
    | ECall _ args _ _ => lbind (eval_items_with W ev tr1 args []) (fun tr2 vs => eff tr2 (w_call W v vs))
    | _ => None
    end.
  Definition gstep (K : trace -> value -> option (trace * outcome)) (rt : option (trace * outcome)) (oc : Z)
    : option (trace * outcome) :=
    bind rt (fun tr1 v => short_if oc tr1 v (K tr1 v)).
  Definition relink (e t' : expr) (oc' : Z) : expr :=
    match e with
    | EDot _ name _ c s => EDot t' name oc' c s
    | EIndex _ i _ => EIndex t' i oc'
    | ECall _ args _ p => ECall t' args oc' p
    | _ => e
    end.

  Lemma raw_relink : forall e t' oc' tr, is_chain e = true ->
    raw tr (relink e t' oc') = gstep (body_of e) (eval_target W oc' tr t') oc'.
  Proof.
    destruct e; try discriminate; intros t' oc' tr _; cbn [relink body_of];
      [reflexivity | reflexivity | rewrite eval_raw_call_eq; reflexivity].
  Qed.

  Lemma raw_link : forall e tr, is_chain e = true ->
    raw tr e = gstep (body_of e) (eval_target W (oc_of e) tr (target_of e)) (oc_of e).
  Proof.
    destruct e; try discriminate; intros tr _; cbn [oc_of target_of body_of];
      [reflexivity | reflexivity | rewrite eval_raw_call_eq; reflexivity].
  Qed.

  Lemma chain_eval : forall e tr, is_chain e = true -> ev tr e = catch_short (raw tr e).
  Proof.
    destruct e; try discriminate; intros tr _;
      [reflexivity | reflexivity | rewrite eval_call_eq, eval_raw_call_eq; reflexivity].
  Qed.

  Lemma raw_nonchain : forall e tr, is_chain e = false -> raw tr e = None.
  Proof. destruct e; try discriminate; reflexivity. Qed.

  Lemma relink_chain : forall e t' oc', is_chain e = true -> is_chain (relink e t' oc') = true.
  Proof. destruct e; try discriminate; reflexivity. Qed.

  Lemma target_size : forall e, is_chain e = true -> (esize (target_of e) < esize e)%nat.
  Proof. destruct e; try discriminate; intros _; cbn [target_of esize]; lia. Qed.

  Lemma target_vls : forall e, is_chain e = true -> vls_ok e -> vls_ok (target_of e).
  Proof. destruct e; try discriminate; intros _ H; cbn [vls_ok target_of] in *; tauto. Qed.

  Lemma tioc_inv : forall test e e', try_insert_optional_chain test e = Some e' ->
    is_chain e = true /\
    ((values_look_the_same test (target_of e) = true /\ e' = relink e (target_of e) 1) \/
     (ends_paren_chain (oc_of e) (target_of e) = false /\
      exists t', try_insert_optional_chain test (target_of e) = Some t' /\
                 e' = relink e t' (if oc_of e =? 0 then 2 else oc_of e))).
  Proof.
    intros test e e' H.
    destruct e; try discriminate H; cbn [try_insert_optional_chain] in H; cbn [is_chain target_of oc_of relink];
      (split; [reflexivity|]);
      (match type of H with context [values_look_the_same test ?t] =>
         destruct (values_look_the_same test t) eqn:V; [left; inv H; split; reflexivity|];
         destruct (ends_paren_chain oc t) eqn:P; [discriminate H|];
         destruct (try_insert_optional_chain test t) as [t'|] eqn:T; [|discriminate H];
         inv H; right; (split; [reflexivity|]); exists t'; split; reflexivity
       end).
  Qed.

  (* a link that is not part of an optional chain never yields the short-circuit marker *)
  Lemma body_ns : forall e tr1 v, ns (body_of e tr1 v).
  Proof.
    intros e tr1 v. destruct e; cbn [body_of]; try (intros t H; discriminate H).
    - apply ns_eff.
    - apply ns_bind; [intros t; apply eval_no_short|]. intros t kv.
      apply ns_bind; [apply ns_eff|]. intros; apply ns_eff.
    - apply ns_lbind; [|intros; apply ns_eff].
      apply (nsl_items W (sum_sizes args)); [|lia]. intros y _ t t0. apply eval_no_short.
  Qed.

  Lemma raw_ns0 : forall e tr, is_chain e = true -> oc_of e = 0 -> ns (raw tr e).
  Proof.
    intros e tr Hc H0. rewrite raw_link by exact Hc. rewrite H0. unfold gstep, eval_target. cbn [Z.eqb Pos.eqb].
    apply ns_bind; [intros t; apply eval_no_short|]. intros t v. unfold short_if. cbn [Z.eqb Pos.eqb andb]. apply body_ns.
  Qed.

  Lemma catch_ns : forall r, ns r -> catch_short r = r.
  Proof. intros [[t [v|z]]|] H; try reflexivity. destruct z; try reflexivity. exfalso. exact (H t eq_refl). Qed.

  (* the value of a target that evaluates to a non-nullish value, in either mode *)
  Lemma target_value : forall oc t tr a, ev tr t = Some (tr, Val a) -> nullish a = false ->
    forall x, eval_target W oc tr t = Some x -> x = (tr, Val a).
  Proof.
    intros oc t tr a E Hn x H. unfold eval_target in H. destruct (is_cont oc); [|congruence].
    destruct (is_chain t) eqn:C; [|rewrite raw_nonchain in H by exact C; discriminate H].
    rewrite (chain_eval t tr C), H in E. destruct x as [t0 [v|z]]; cbn [catch_short] in E.
    - congruence.
    - destruct z; try discriminate E. inv E. discriminate Hn.
  Qed.

  Definition D (p q : option (trace * outcome)) : Prop := forall r, p = Some r -> q = Some r.

  Section Core.
    Variable test : expr.
    (* a property of the chain that goes down to its targets and makes "looks the same as test" sound *)
    Variable Q : expr -> Prop.
    Hypothesis Q_target : forall e, is_chain e = true -> Q e -> Q (target_of e).
    Hypothesis Q_same : forall t, Q t -> values_look_the_same test t = true -> same_eval W test t.

    Theorem tioc_core_size : forall n e, (esize e <= n)%nat -> forall e',
      Q e -> try_insert_optional_chain test e = Some e' ->
      is_chain e' = true /\
      forall tr,
        (forall tr1 z, ev tr test = Some (tr1, Throw z) -> raw tr e' = Some (tr1, Throw z)) /\
        (forall a, ev tr test = Some (tr, Val a) ->
           (nullish a = true -> raw tr e' = Some (tr, Throw VShort)) /\
           (nullish a = false -> D (raw tr e) (raw tr e'))).
    Proof.
      induction n as [|n IH]; intros e Hsz e' Hq H; [destruct e; cbn [esize] in Hsz; lia|].
      destruct (tioc_inv _ _ _ H) as [Hc [[V ->] | [P [t' [T ->]]]]].
      - (* the insertion point *)
        split; [apply relink_chain; exact Hc|]. intros tr. rewrite raw_relink by exact Hc.
        pose proof (Q_same _ (Q_target e Hc Hq) V) as St.
        assert (Et1 : eval_target W 1 tr (target_of e) = ev tr test)
          by (unfold eval_target; cbn; symmetry; exact (proj1 (St tr))).
        rewrite Et1. split.
        + intros tr1 z E. rewrite E. reflexivity.
        + intros a E. rewrite E. unfold gstep. cbn [bind]. unfold short_if. cbn [Z.eqb Pos.eqb andb].
          split; intros Hn; rewrite Hn; [reflexivity|].
          intros r Hr. rewrite raw_link in Hr by exact Hc. unfold gstep in Hr.
          destruct (eval_target W (oc_of e) tr (target_of e)) as [x|] eqn:Et; [|discriminate Hr].
          assert (E0 : ev tr (target_of e) = Some (tr, Val a)) by (rewrite <- (proj1 (St tr)); exact E).
          rewrite (target_value _ _ _ _ E0 Hn _ Et) in Hr. cbn [bind] in Hr. unfold short_if in Hr.
          rewrite Hn, andb_false_r in Hr. exact Hr.
      - (* a link above the insertion point *)
        pose proof (target_size e Hc) as Hts.
        destruct (IH (target_of e) ltac:(lia) t' (Q_target e Hc Hq) T) as [Hct' Hraw'].
        pose proof (proj1 (tioc_inv _ _ _ T)) as Hct.
        split; [apply relink_chain; exact Hc|]. intros tr. rewrite raw_relink by exact Hc.
        destruct (Hraw' tr) as [Hthrow Hval].
        set (oc' := if oc_of e =? 0 then 2 else oc_of e).
        (* the new flag is "start" exactly when the old one is, and otherwise "continue" *)
        assert (Hoc' : (oc' =? 1) = (oc_of e =? 1) /\ is_cont oc' = negb (oc_of e =? 1)).
        { unfold oc', is_cont. destruct (oc_of e =? 0) eqn:E0; [apply Z.eqb_eq in E0; rewrite E0; split; reflexivity|].
          rewrite E0. split; reflexivity. }
        destruct Hoc' as [Hs1 Hc1].
        split.
        + intros tr1 z E. pose proof (Hthrow _ _ E) as Rt.
          assert (Et : eval_target W oc' tr t' = Some (tr1, Throw z)).
          { unfold eval_target. destruct (is_cont oc'); [exact Rt|].
            rewrite (chain_eval t' tr Hct'), Rt. cbn [catch_short]. destruct z; try reflexivity.
            exfalso. exact (eval_no_short W test tr tr1 E). }
          rewrite Et. reflexivity.
        + intros a E. destruct (Hval a E) as [Hnull Hnon]. split; intros Hn.
          * pose proof (Hnull Hn) as Rt. unfold eval_target. rewrite Hc1.
            destruct (oc_of e =? 1) eqn:E1; cbn [negb].
            -- rewrite (chain_eval t' tr Hct'), Rt. unfold gstep. cbn [catch_short bind]. unfold short_if.
               rewrite Hs1. reflexivity.
            -- rewrite Rt. reflexivity.
          * pose proof (Hnon Hn) as Dt. intros r Hr. rewrite raw_link in Hr by exact Hc.
            unfold eval_target in *. rewrite Hc1. unfold gstep, short_if in *. rewrite Hs1.
            destruct (oc_of e =? 1) eqn:E1; cbn [negb].
            -- (* a link that starts a chain *)
               assert (Hcont : is_cont (oc_of e) = false) by (unfold is_cont; rewrite E1; apply andb_false_r).
               rewrite Hcont in Hr.
               rewrite (chain_eval _ tr Hct) in Hr. rewrite (chain_eval t' tr Hct').
               destruct (raw tr (target_of e)) as [x|] eqn:Rt; [|discriminate Hr].
               rewrite (Dt x eq_refl). exact Hr.
            -- destruct (oc_of e =? 0) eqn:E0.
               ++ (* a link outside of any chain: its target is not an optional chain (fix 01a3711) *)
                  assert (Hcont : is_cont (oc_of e) = false) by (unfold is_cont; rewrite E0; reflexivity).
                  rewrite Hcont in Hr.
                  unfold ends_paren_chain in P. rewrite E0 in P. cbn [andb] in P.
                  assert (O' : oc_of (target_of e) = 0).
                  { destruct (target_of e); try discriminate Hct; cbn [is_optional_chain oc_of] in *;
                      apply negb_false_iff in P; apply Z.eqb_eq in P; exact P. }
                  rewrite (chain_eval _ tr Hct), (catch_ns _ (raw_ns0 _ tr Hct O')) in Hr.
                  destruct (raw tr (target_of e)) as [x|] eqn:Rt; [|discriminate Hr].
                  rewrite (Dt x eq_refl). exact Hr.
               ++ (* a link that continues a chain *)
                  assert (Hcont : is_cont (oc_of e) = true) by (unfold is_cont; rewrite E0, E1; reflexivity).
                  rewrite Hcont in Hr.
                  destruct (raw tr (target_of e)) as [x|] eqn:Rt; [|discriminate Hr].
                  rewrite (Dt x eq_refl). exact Hr.
    Qed.

    Theorem tioc_core : forall e e', Q e -> try_insert_optional_chain test e = Some e' ->
      is_chain e = true /\ is_chain e' = true /\
      forall tr,
        (forall tr1 z, ev tr test = Some (tr1, Throw z) -> ev tr e' = Some (tr1, Throw z)) /\
        (forall a, ev tr test = Some (tr, Val a) ->
           (nullish a = true -> ev tr e' = Some (tr, Val VUndef)) /\
           (nullish a = false -> D (ev tr e) (ev tr e'))).
    Proof.
      intros e e' Hq H.
      destruct (tioc_core_size (esize e) e (le_n _) e' Hq H) as [Hc' Hr].
      pose proof (proj1 (tioc_inv _ _ _ H)) as Hc.
      split; [exact Hc|]. split; [exact Hc'|]. intros tr. destruct (Hr tr) as [Hthrow Hval]. split.
      - intros tr1 z E. rewrite (chain_eval e' tr Hc'), (Hthrow _ _ E). cbn [catch_short].
        destruct z; try reflexivity. exfalso. exact (eval_no_short W test tr tr1 E).
      - intros a E. destruct (Hval a E) as [Hnull Hnon]. split; intros Hn.
        + rewrite (chain_eval e' tr Hc'), (Hnull Hn). reflexivity.
        + intros r Hr0. rewrite (chain_eval e tr Hc) in Hr0. rewrite (chain_eval e' tr Hc').
          destruct (raw tr e) as [x|] eqn:Rt; [|discriminate Hr0].
          rewrite (Hnon Hn x eq_refl). exact Hr0.
    Qed.
  End Core.

  (* any guard, canonical number literals *)
  Theorem tioc_sound : forall test e e',
    vls_ok test -> vls_ok e -> try_insert_optional_chain test e = Some e' ->
    is_chain e = true /\ is_chain e' = true /\
    forall tr,
      (forall tr1 z, ev tr test = Some (tr1, Throw z) -> ev tr e' = Some (tr1, Throw z)) /\
      (forall a, ev tr test = Some (tr, Val a) ->
         (nullish a = true -> ev tr e' = Some (tr, Val VUndef)) /\
         (nullish a = false -> D (ev tr e) (ev tr e'))).
  Proof.
    intros test e e' Hvt Hv H. apply (tioc_core test vls_ok); [exact target_vls | | exact Hv | exact H].
    intros t Ht V. exact (vls_sound_size W (esize test) test (le_n _) t Hvt Ht V).
  Qed.

  (* an identifier as guard: no condition on the chain *)
  Lemma strip_same : forall t tr, ev tr t = ev tr (strip_enum t).
  Proof. induction t; intros tr; try reflexivity. cbn [strip_enum eval]. apply IHt. Qed.

  Lemma vls_id_same : forall r c m t, values_look_the_same (EId r c m) t = true -> same_eval W (EId r c m) t.
  Proof.
    intros r c m t H. cbn [values_look_the_same] in H.
    destruct (strip_enum t) eqn:S; try discriminate H.
    destruct (r =? ref) eqn:E; [|discriminate H]. apply Z.eqb_eq in E. subst ref.
    intros tr. split.
    - rewrite (strip_same t tr), S. reflexivity.
    - destruct t; try discriminate S; reflexivity.
  Qed.

  Theorem tioc_sound_id : forall r c m e e',
    try_insert_optional_chain (EId r c m) e = Some e' ->
    is_chain e = true /\ is_chain e' = true /\
    forall tr,
      (forall tr1 z, ev tr (EId r c m) = Some (tr1, Throw z) -> ev tr e' = Some (tr1, Throw z)) /\
      (forall a, ev tr (EId r c m) = Some (tr, Val a) ->
         (nullish a = true -> ev tr e' = Some (tr, Val VUndef)) /\
         (nullish a = false -> D (ev tr e) (ev tr e'))).
  Proof.
    intros r c m e e' H. apply (tioc_core (EId r c m) (fun _ => True)); [auto | | exact I | exact H].
    intros t _ V. apply vls_id_same. exact V.
  Qed.
End TIOC.
