(* C03 property theorems. This file contains only statements closed by
   [exact lemma] and Print Assumptions. *)
From V Require Import Common.Base C03.Num C03.SpecOps C03.NumProofs C03.Tree C03.Fold C03.PowProofs C03.MiniJS C03.Worlds C03.TreeProofs C03.TreeProofs2 C03.TreeProofs3 C03.TreeProofs4 C03.TreeProofs5 C03.TreeProofs6 C03.TreeProofs7 C03.TreeProofs8 C03.TreeProofs9 C03.TreeProofs10 C03.TreeProofs13 C03.TreeProofs11 C03.TreeProofs12 C03.Stmt C03.StmtProofs C03.Refuted.

(* js_ast.ToInt32 computes ECMA-262 ToInt32 for every float64 (finite dyadic of
   any magnitude, NaN, infinities), whatever Go's implementation-defined
   out-of-range int32(f) conversion returns *)
Theorem to_int32_is_spec :
  forall (cvt : num -> Z) (f : num),
    (forall x, - two31 <= cvt x < two31) -> wf_num f ->
    go_ToInt32 cvt f = spec_ToInt32 f.
Proof. exact to_int32_is_spec_all. Qed.
Print Assumptions to_int32_is_spec.

Theorem to_uint32_is_spec :
  forall (cvt : num -> Z) (f : num),
    (forall x, - two31 <= cvt x < two31) -> wf_num f ->
    go_ToUint32 cvt f = spec_ToUint32 f.
Proof. exact to_uint32_is_spec_all. Qed.
Print Assumptions to_uint32_is_spec.

(* stringCompareUCS2 decides IsLessThan on strings (UTF-16 code unit order),
   for all code-unit sequences *)
Theorem compare_ucs2_is_spec :
  forall a b : list Z,
    (go_compare_ucs2 a b <? 0) = spec_string_lt a b /\
    (0 <? go_compare_ucs2 a b) = spec_string_lt b a /\
    (go_compare_ucs2 a b =? 0) = zlist_eqb a b.
Proof. intros a b. exact (conj (compare_ucs2_lt_all a b) (conj (compare_ucs2_gt_all a b) (compare_ucs2_eq_all a b))). Qed.
Print Assumptions compare_ucs2_is_spec.

(* FoldBinaryOperator's << >> >>> & | ^ on two numbers = the standard's
   Number::leftShift, signedRightShift, unsignedRightShift, bitwiseAND/OR/XOR
   (defined through ToInt32/ToUint32), for all float64 operands *)
Theorem fold_int_ops_is_spec :
  forall (cvt : num -> Z) (op : binop) (l r : num),
    (forall x, - two31 <= cvt x < two31) -> wf_num l -> wf_num r ->
    forall z, spec_int_op op l r = Some z -> fold_num_num cvt op l r = FNum (num_of_Z z).
Proof. exact fold_int_ops_is_spec_all. Qed.
Print Assumptions fold_int_ops_is_spec.

(* ToBooleanWithSideEffects is sound over MiniJS, for every world (effectful
   calls, getters, conversions ...): the truthiness it reports is the
   truthiness of every normal completion, and NoSideEffects means normal
   completion with an unchanged trace.  [flags_ok]: the parser's annotations
   (pure marks, typeof-identifier marks) are true in the world *)
Theorem to_boolean_sound :
  forall (W : world) e tr tr' out b se,
    flags_ok W e ->
    eval W tr e = Some (tr', out) ->
    to_boolean e = (b, se, true) ->
    (forall v, out = Val v -> truthy v = b) /\ (se = true -> tr' = tr /\ exists v, out = Val v).
Proof. exact to_boolean_sound_all. Qed.
Print Assumptions to_boolean_sound.

(* ToNullOrUndefinedWithSideEffects is sound, for every world that respects the
   result types ECMA-262 guarantees of the operators ([world_ok]) *)
Theorem to_nullish_sound :
  forall (W : world), world_ok W ->
    forall e tr tr' out b se,
    flags_ok W e ->
    eval W tr e = Some (tr', out) ->
    to_nullish e = (b, se, true) ->
    (forall v, out = Val v -> nullish v = b) /\ (se = true -> tr' = tr /\ exists v, out = Val v).
Proof. exact to_nullish_sound_all. Qed.
Print Assumptions to_nullish_sound.

(* JoinWithLeftAssociativeOp(op, a, b) evaluates exactly like (a op b) for the
   short-circuit operators it is used with (&&, ||, ??): same trace, same
   completion, in every world *)
Theorem join_left_assoc_equiv :
  forall (W : world) op, short_circuit op ->
    forall b a tr, eval W tr (join_left op a b) = eval W tr (EBin op a b).
Proof. exact join_left_assoc_equiv_all. Qed.
Print Assumptions join_left_assoc_equiv.

(* KnownPrimitiveType is sound w.r.t. the value semantics: whatever value an
   expression produces in whatever world has the reported type (Mixed = some
   primitive other than a symbol) *)
Theorem known_type_sound :
  forall (W : world), world_ok W ->
    forall e tr tr' v, eval W tr e = Some (tr', Val v) -> type_ok (known_type e) v = true.
Proof. exact known_type_sound_all. Qed.
Print Assumptions known_type_sound.

(* ExprCanBeRemovedIfUnused is sound over the whole modelled AST (calls, new,
   property reads, templates, array/object literals with spreads and computed
   keys, guarded references to undeclared globals ...) and every effectful
   world: if the model says true, evaluating e emits no trace event and
   completes normally.  The world has no other mutable state than the trace
   (time), on which every effectful operation may depend, so "trace unchanged"
   is "world unchanged". *)
Theorem expr_can_be_removed_sound :
  forall (W : world), world_ok W ->
    forall e tr tr' out,
    flags_ok W e -> can_be_removed (w_unbound W) e = true ->
    eval W tr e = Some (tr', out) -> tr' = tr /\ exists v, out = Val v.
Proof. exact can_be_removed_sound_all. Qed.
Print Assumptions expr_can_be_removed_sound.

(* MaybeSimplifyNot: whenever it rewrites "!e" to e', e' evaluates exactly like
   "!e" (same trace, same completion, same value), in every world_ok world; and
   Not(e) always evaluates like "!e" *)
Theorem simplify_not_correct :
  forall (W : world), world_ok W ->
    forall e e' w tr res,
    maybe_simplify_not e = Some e' ->
    eval W tr (EUn UNot e w) = Some res -> eval W tr e' = Some res.
Proof. exact simplify_not_correct_all. Qed.
Print Assumptions simplify_not_correct.

Theorem not_is_negation :
  forall (W : world), world_ok W ->
    forall e tr res, eval W tr (EUn UNot e false) = Some res -> eval W tr (not_ e) = Some res.
Proof. exact not_correct. Qed.
Print Assumptions not_is_negation.

(* SimplifyBooleanExpr: in every world_ok world, whenever e evaluates, the
   simplified expression evaluates with the same trace, the same kind of
   completion (same thrown value) and a value of the same truthiness; and the
   parser's annotations stay true of the result *)
Theorem simplify_boolean_sound :
  forall (W : world), world_ok W ->
    forall e tr res, flags_ok W e -> eval W tr e = Some res ->
    same_truthiness (Some res) (eval W tr (simplify_boolean (w_unbound W) e)).
Proof. exact simplify_boolean_sound_all. Qed.
Print Assumptions simplify_boolean_sound.

Theorem simplify_boolean_keeps_flags :
  forall (W : world), world_ok W ->
    forall e, flags_ok W e -> flags_ok W (simplify_boolean (w_unbound W) e).
Proof. exact simplify_boolean_flags. Qed.
Print Assumptions simplify_boolean_keeps_flags.

(* an expression never completes with the internal short-circuit marker of
   optional chains: a chain ends inside the expression that contains it *)
Theorem eval_never_short :
  forall (W : world) e tr t, eval W tr e <> Some (t, Throw VShort).
Proof. exact eval_no_short. Qed.
Print Assumptions eval_never_short.

(* SimplifyUnusedExpr (with or without optional-chain insertion): in every
   world_ok world, whenever the unused expression e evaluates, its simplification
   has the same trace, the same kind of completion and the same thrown value.
   Covers templates, array/object literals with spreads, pure calls and new,
   conditionals, logical operators (left operand through SimplifyBooleanExpr),
   equality operators, typeof, unused string-addition chains, and the rewrite
   a != null && a.b.c => a?.b.c (TryToInsertOptionalChain after fix 01a3711:
   finding J).
   PARTIAL: [no_bad] excludes the shape on which the statement is false of the
   real code (refuted below): an object literal without spread that has a
   computed key (finding A).  For a call marked pure inside an optional chain
   (finding K, repaired by a3926ba: unwrapped only when all its arguments can be
   removed) [no_bad] asks that the arguments of the unwrapped call evaluate in
   the model: the call evaluates without evaluating them when the chain
   short-circuits, and the model is partial.
   The model is total (no fuel hypothesis: see simplify_unused_total).
   Full statement: forall e, flags_ok W e -> ... same_effects (eval e) (eval_unused (simplify_unused ub noOC e)) *)
Theorem simplify_unused_sound_partial :
  forall (W : world), world_ok W ->
    forall noOptChain e tr res,
    flags_ok W e -> no_bad W e ->
    eval W tr e = Some res ->
    same_effects (Some res) (eval_unused W tr (simplify_unused (w_unbound W) noOptChain e)).
Proof. exact simplify_unused_sound_nofuel_all. Qed.
Print Assumptions simplify_unused_sound_partial.

(* CheckEqualityIfNoSideEffects on two literals (also inlined enum constants)
   answers what IsStrictlyEqual / IsLooselyEqual compute on their values: -0 == 0,
   NaN != NaN, null == undefined, true == 1, ... (two bigint literals are compared
   textually by the code: not covered) *)
Theorem check_equality_sound :
  forall l r strict eq x y,
    lit_value l = Some x -> lit_value r = Some y -> both_bigint l r = false ->
    check_equality l r strict = (eq, true) ->
    (if strict then strict_eq x y else spec_loose_eq x y) = Some eq.
Proof. exact check_equality_sound_all. Qed.
Print Assumptions check_equality_sound.

(* FoldBinaryOperator's ** (after fix 9e1822e): whenever the folded result is
   decided by a special case (of the fix or of math.Pow), Number::exponentiate
   decides the same value, or leaves it implementation-approximated; for ALL
   doubles.  (Was refuted with witness 1 ** NaN before the fix, DESIGN 7-B.) *)
Theorem fold_pow_special_cases :
  forall x y, wf_double x -> wf_double y ->
    forall r, fold_pow x y = Some r ->
    match spec_exponentiate_special x y with Some r' => num_same r r' = true | None => True end.
Proof. exact fold_pow_special_cases_all. Qed.
Print Assumptions fold_pow_special_cases.

(* REFUTED (DESIGN 7-A): SimplifyUnusedExpr does not preserve the effects of an
   unused object literal with a computed key: ({[k]: 1}) with k a symbol
   completes normally, the residue k + "" throws TypeError *)
Theorem simplify_unused_object_key_refuted :
  exists e, simplify_unused ub false e = UExpr (EBin BAdd (EId 1 false false) (EStr []))
            /\ eval W0 [] e = Some ([], Val VObjLit)
            /\ ~ simplify_unused_preserves_effects e.
Proof. exact simplify_unused_object_key_refuted_w. Qed.
Print Assumptions simplify_unused_object_key_refuted.

(* Finding J (repaired by 01a3711): with optional-chain insertion, the former
   witness a != null && (a.q?.y).z is no longer turned into a?.q?.y.z (which
   short-circuits where the input throws): it is kept and still throws *)
Theorem simplify_unused_paren_chain_fixed :
  simplify_unused ub false paren_chain = UExpr paren_chain
  /\ eval WJ [] paren_chain = Some ([], Throw (VStr s_TypeError))
  /\ eval_unused WJ [] (simplify_unused ub false paren_chain) = Some ([], Throw (VStr s_TypeError)).
Proof. exact simplify_unused_paren_chain_fixed_w. Qed.
Print Assumptions simplify_unused_paren_chain_fixed.

(* Finding K (repaired by a3926ba): the former witness, an unused pure optional call
   whose argument has effects, is no longer unwrapped to its arguments (which the
   input does not evaluate when the callee is null): it is kept *)
Theorem simplify_unused_pure_optional_call_fixed :
  simplify_unused ub true pure_optional_call = UExpr pure_optional_call
  /\ eval WJ [] pure_optional_call = Some ([], Val VUndef)
  /\ eval_unused WJ [] (simplify_unused ub true pure_optional_call) = Some ([], Val VUndef).
Proof. exact simplify_unused_pure_optional_call_fixed_w. Qed.
Print Assumptions simplify_unused_pure_optional_call_fixed.

(* ValuesLookTheSame (after fix 71e396b, which made it compare the typeof-identifier
   mark: finding P) is sound in every world: two expressions that look the same
   have the same evaluation at the same time -- same trace, same completion, same
   value.  (Not "no effects": two identical calls look the same.)
   PARTIAL: [vls_ok] = number literals are canonical (one representation per
   value, as num_of_bits produces them) and inlined enum constants wrap literals. *)
Theorem values_look_the_same_sound_partial :
  forall (W : world) l r,
    vls_ok l -> vls_ok r -> values_look_the_same l r = true ->
    forall tr, eval W tr l = eval W tr r.
Proof. exact values_look_the_same_sound_all. Qed.
Print Assumptions values_look_the_same_sound_partial.

(* the former witness of finding P: now told apart, and the conditional is kept *)
Theorem values_look_the_same_typeof_mark_fixed :
  values_look_the_same typeof_bare typeof_comma = false
  /\ mangle_if ub false false (EId 1 false false) typeof_bare typeof_comma
      = Some (EIf (EId 1 false false) typeof_bare typeof_comma).
Proof. exact (conj (proj1 values_look_the_same_typeof_mark) mangle_if_typeof_mark_kept). Qed.
Print Assumptions values_look_the_same_typeof_mark_fixed.

(* TryToInsertOptionalChain (after fix 01a3711): when it turns the chain e guarded
   by "test" into e', then e' completes like test when test throws, evaluates to
   undefined (without evaluating any link) when test is null or undefined, and
   otherwise evaluates exactly like e.
   PARTIAL: [vls_ok] (canonical number literals; not needed when test is an
   identifier: tioc_sound_id).
   Full statement: the same without vls_ok. *)
Theorem try_insert_optional_chain_sound_partial :
  forall (W : world) test e e',
    vls_ok test -> vls_ok e -> try_insert_optional_chain test e = Some e' ->
    forall tr,
      (forall tr1 z, eval W tr test = Some (tr1, Throw z) -> eval W tr e' = Some (tr1, Throw z)) /\
      (forall a, eval W tr test = Some (tr, Val a) ->
         (nullish a = true -> eval W tr e' = Some (tr, Val VUndef)) /\
         (nullish a = false -> forall r, eval W tr e = Some r -> eval W tr e' = Some r)).
Proof. intros W test e e' H1 H2 H4. exact (proj2 (proj2 (tioc_sound W test e e' H1 H2 H4))). Qed.
Print Assumptions try_insert_optional_chain_sound_partial.

(* MangleIfExpr: in every world_ok world, whenever the conditional test ? yes : no
   evaluates, the expression MangleIfExpr returns for it evaluates to the same
   trace, the same completion and the same value.  Covers all rewrites of the
   function: comma hoisting, negated test, equal branches (test kept or dropped when
   removable), boolean arms, a ? a : b => a || b, a ? b : a => a && b, the six
   rewrites that merge an arm into the test (nested conditional, comma, ||, &&),
   the merge of two calls that differ in their first argument (also spread;
   recursive), a != null ? a : b => a ?? b, and a != null ? a.b.c : undefined =>
   a?.b.c (optional-chain insertion, after fix 01a3711).
   The model is total (no fuel hypothesis: see mangle_if_total).
   PARTIAL: [vls_ok] as for values_look_the_same_sound_partial; [no_hole_args]: call
   arguments are not array holes.
   Full statement: the same without these two well-formedness hypotheses. *)
Theorem mangle_if_equiv_partial :
  forall (W : world), world_ok W ->
  forall noNullish noOptChain test yes no,
    flags_ok W test -> flags_ok W yes -> flags_ok W no ->
    vls_ok test -> vls_ok yes -> vls_ok no ->
    no_hole_args yes -> no_hole_args no ->
    exists e', mangle_if (w_unbound W) noNullish noOptChain test yes no = Some e' /\
      forall tr res, eval W tr (EIf test yes no) = Some res -> eval W tr e' = Some res.
Proof. exact mangle_if_equiv_all. Qed.
Print Assumptions mangle_if_equiv_partial.

(* the fuel of the MangleIfExpr model suffices for every input *)
Theorem mangle_if_total :
  forall unbound noNullish noOptChain test yes no,
    exists e', mangle_if unbound noNullish noOptChain test yes no = Some e'.
Proof. exact mangle_if_total_all. Qed.
Print Assumptions mangle_if_total.

(* the fuel of the SimplifyUnusedExpr model suffices for every input (its recursion
   goes through SimplifyBooleanExpr, which never grows an expression) *)
Theorem simplify_boolean_never_grows :
  forall unbound e, (esize (simplify_boolean unbound e) <= esize e)%nat.
Proof. exact sb_size_le. Qed.
Print Assumptions simplify_boolean_never_grows.

Theorem simplify_unused_total :
  forall unbound noOptChain e, simplify_unused unbound noOptChain e <> UFuel.
Proof. exact simplify_unused_total_all. Qed.
Print Assumptions simplify_unused_total.

(* Statement-level mangling (mangleStmts / mangleIf of the parser), by translation
   validation.  Statement lists (expression statements, if/else, return, throw,
   break/continue, labelled statements, blocks, var/let/const declarations, loops as
   opaque effects) have
   a completion-record trace semantics over the worlds of MiniJS; [norm_fn] turns a
   function body into a decision tree of effects, tests and completions, splitting
   the operators the mangler builds statements from (comma, !, void, &&, ||, ?: in
   statement, test, return and throw position).  The tree has exactly the
   executions of the body, so two bodies with the same tree are equivalent.  The
   check computes both trees for every generated function body as parsed by
   js_parser.Parse without and with MinifySyntax and compares them (and checks that
   no hoisted "var" name is lost).
   PARTIAL (which rewrites of the mangler are inside, i.e. identified by the normal
   form): "if (a) return b; return c" => "return a ? b : c" (also throw), "if (a) b;
   else c" => "a ? b : c" / "a && b" / "a || b", negated tests, dropping "else"
   after a jump, "if (a) return; rest" => "a || rest", joining expression
   statements (and a following return / throw / if test / for initializer) with
   comma, merging adjacent declarations, dead code after jumps, dropping empty
   statements and blocks, a trailing "return;" / "return void a" at the end of a
   function, "if (a) return;" at the end of a function, reading a declared
   identifier for nothing, "if (a) break L; if (b) break L" => "if (a || b) break L",
   dropping an unused label.  Not inside: an if with equal arms that are not jumps, the
   store (a declaration evaluates its initializer, the binding is not modelled: the
   single-use substitution of the mangler is not covered), loop bodies (opaque),
   switch / try / continue to a label.
   Full statement: mangleStmts preserves the executions of every statement list. *)
Theorem stmt_normal_form_sound :
  forall (W : world) (wloop : Z -> nat -> trace * outcome) body tr,
    exec_tree W wloop tr (norm_fn (w_unbound W) body) = exec_fn W wloop tr body.
Proof. exact norm_fn_sound. Qed.
Print Assumptions stmt_normal_form_sound.

Theorem mangle_stmts_equiv_partial :
  forall (W : world) (wloop : Z -> nat -> trace * outcome) input output,
    norm_fn (w_unbound W) input = norm_fn (w_unbound W) output ->
    forall tr, exec_fn W wloop tr input = exec_fn W wloop tr output.
Proof. exact same_normal_form_equiv. Qed.
Print Assumptions mangle_stmts_equiv_partial.
