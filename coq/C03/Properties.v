(* C03 property theorems. This file contains only statements closed by
   [exact lemma] and Print Assumptions. *)
From V Require Import Common.Base C03.Num C03.SpecOps C03.NumProofs.

(* js_ast.ToInt32 computes ECMA-262 ToInt32 for every float64 (finite dyadic of
   any magnitude, NaN, infinities), whatever Go's implementation-defined
   out-of-range int32(f) conversion returns *)
Theorem to_int32_is_spec :
  forall (cvt : num -> Z) (f : num),
    (forall x, - two31 <= cvt x < two31) -> wf_num f ->
    go_ToInt32 cvt f = spec_ToInt32 f.
Proof. exact to_int32_is_spec_all. Qed.
Print Assumptions to_int32_is_spec.

Theorem to_uint32_is_spec :
  forall (cvt : num -> Z) (f : num),
    (forall x, - two31 <= cvt x < two31) -> wf_num f ->
    go_ToUint32 cvt f = spec_ToUint32 f.
Proof. exact to_uint32_is_spec_all. Qed.
Print Assumptions to_uint32_is_spec.

(* stringCompareUCS2 decides IsLessThan on strings (UTF-16 code unit order),
   for all code-unit sequences *)
Theorem compare_ucs2_is_spec :
  forall a b : list Z,
    (go_compare_ucs2 a b <? 0) = spec_string_lt a b /\
    (0 <? go_compare_ucs2 a b) = spec_string_lt b a /\
    (go_compare_ucs2 a b =? 0) = zlist_eqb a b.
Proof. intros a b. exact (conj (compare_ucs2_lt_all a b) (conj (compare_ucs2_gt_all a b) (compare_ucs2_eq_all a b))). Qed.
Print Assumptions compare_ucs2_is_spec.
