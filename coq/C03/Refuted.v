(* Statements that are FALSE of the faithful model (the real code has the
   defect), with their witnesses, and the strongest parts that do hold. *)
From V Require Import Common.Base C03.Num C03.SpecOps C03.Tree C03.Fold C03.MiniJS.

(* ---- SimplifyUnusedExpr on an unused object literal with a computed key ------- *)
Section UnusedKey.
  Definition ub (r : Z) : bool := 1000 <=? r.
  Definition zero_v : value := VNum (Fin false 0 0).
  (* a world in which the declared identifier 1 holds a symbol (var k = Symbol.iterator)
     and every abstract operation is free of effects *)
  Definition W0 : world := {|
    w_unbound := ub;
    w_lenv := fun _ => VSym 1;
    w_this := VUndef;
    w_genv := fun _ => None;
    w_un := fun _ _ _ => ([], Val zero_v);
    w_bin := fun _ _ _ _ => ([], Val zero_v);
    w_call := fun _ _ _ => ([], Val VUndef);
    w_new := fun _ _ _ => ([], Val VObjLit);
    w_get := fun _ _ _ => ([], Val VUndef);
    w_tokey := fun v _ => ([], Val v);
    w_tostr := fun _ _ => ([], Val (VStr []));
    w_spread := fun _ _ => ([], Val VUndef)
  |}.

  Definition obj_with_symbol_key : expr := EObject [(0, true, EId 1 false false, ENum (Fin false 1 0))].

  (* the statement one would like: an unused expression statement and its
     simplification have the same effects *)
  Definition simplify_unused_preserves_effects (e : expr) : Prop :=
    same_effects (eval W0 [] e) (eval_unused W0 [] (simplify_unused ub false e)).

  (* ({[k]: 1}) completes normally; its simplification k + "" throws TypeError *)
  Lemma simplify_unused_object_key_refuted_w :
    exists e, simplify_unused ub false e = UExpr (EBin BAdd (EId 1 false false) (EStr []))
              /\ eval W0 [] e = Some ([], Val VObjLit)
              /\ ~ simplify_unused_preserves_effects e.
  Proof.
    exists obj_with_symbol_key. split; [vm_compute; reflexivity|]. split; [vm_compute; reflexivity|].
    unfold simplify_unused_preserves_effects. vm_compute. exact (fun H => H).
  Qed.
End UnusedKey.

(* ---- SimplifyUnusedExpr and optional chains (findings J and K, repaired by 01a3711 / a3926ba) -------------- *)
Section Chains.
  Definition s_q : list Z := [113].
  Definition s_y : list Z := [121].
  Definition s_z : list Z := [122].
  (* a world where the declared identifier 1 is an object whose property q is null,
     reading a property of undefined throws a TypeError, and calling the global 1000 logs *)
  Definition WJ : world := {|
    w_unbound := ub;
    w_lenv := fun r => if r =? 1 then VObj 1 else VNull;
    w_this := VUndef;
    w_genv := fun r => Some (VObj r);
    w_un := fun _ _ _ => ([], Val zero_v);
    w_bin := fun op a b _ => match op, b with BLooseEq, VNull => ([], Val (VBool (nullish a))) | _, _ => ([], Val zero_v) end;
    w_call := fun f _ _ => (match f with VObj r => [r] | _ => [] end, Val VUndef);
    w_new := fun _ _ _ => ([], Val VObjLit);
    w_get := fun o k _ => match o with
                          | VObj 1 => ([], Val VNull)
                          | VUndef | VNull => ([], Throw (VStr s_TypeError))
                          | _ => ([], Val VUndef)
                          end;
    w_tokey := fun v _ => ([], Val v);
    w_tostr := fun _ _ => ([], Val (VStr []));
    w_spread := fun _ _ => ([], Val VUndef)
  |}.

  (* a != null && (a.q?.y).z : the parenthesized chain a.q?.y ends before .z *)
  Definition paren_chain : expr :=
    EBin BLogAnd (EBin BLooseNe (EId 1 false false) ENull)
      (EDot (EDot (EDot (EId 1 false false) s_q 0 false false) s_y 1 false false) s_z 0 false false).

  (* J (repaired by 01a3711): the input throws TypeError (reading .z of undefined);
     TryToInsertOptionalChain stops at the link that ends the parenthesized chain, the
     expression is kept and still throws (before the fix: a?.q?.y.z, which completes normally) *)
  Lemma simplify_unused_paren_chain_fixed_w :
    simplify_unused ub false paren_chain = UExpr paren_chain
    /\ eval WJ [] paren_chain = Some ([], Throw (VStr s_TypeError))
    /\ eval_unused WJ [] (simplify_unused ub false paren_chain) = Some ([], Throw (VStr s_TypeError)).
  Proof. repeat split; vm_compute; reflexivity. Qed.

  (* the chain without parentheses is still shortened: a != null && a.q.y  =>  a?.q.y *)
  Definition plain_chain : expr :=
    EBin BLogAnd (EBin BLooseNe (EId 1 false false) ENull)
      (EDot (EDot (EId 1 false false) s_q 0 false false) s_y 0 false false).
  Lemma simplify_unused_plain_chain_inserted :
    simplify_unused ub false plain_chain
      = UExpr (EDot (EDot (EId 1 false false) s_q 1 false false) s_y 2 false false)
    /\ eval WJ [] plain_chain = eval_unused WJ [] (simplify_unused ub false plain_chain).
  Proof. repeat split; vm_compute; reflexivity. Qed.

  (* K (repaired by a3926ba): /* @__PURE__ */ n?.(g()) with n null never calls g; the
     call is kept because its argument cannot be removed (before the fix: g()) *)
  Definition pure_optional_call : expr :=
    ECall (EId 2 false false) [ECall (EId 1000 false false) [] 0 false] 1 true.
  Lemma simplify_unused_pure_optional_call_fixed_w :
    simplify_unused ub true pure_optional_call = UExpr pure_optional_call
    /\ eval WJ [] pure_optional_call = Some ([], Val VUndef)
    /\ eval_unused WJ [] (simplify_unused ub true pure_optional_call) = Some ([], Val VUndef).
  Proof. repeat split; vm_compute; reflexivity. Qed.

  (* with removable arguments the pure optional call is still dropped *)
  Lemma simplify_unused_pure_optional_call_removable :
    simplify_unused ub true (ECall (EId 2 false false) [ENum zero_num; EStr []] 1 true) = UNil.
  Proof. vm_compute. reflexivity. Qed.
End Chains.

(* ---- ValuesLookTheSame and the typeof-identifier mark (finding P, fixed by 71e396b) ---------- *)
Section TypeofMark.
  (* a world where the identifier 1000 is not declared and does not exist, and the
     declared identifier 1 is falsy *)
  Definition WP : world := {|
    w_unbound := ub;
    w_lenv := fun _ => VNum (Fin false 0 0);
    w_this := VUndef;
    w_genv := fun _ => None;
    w_un := fun _ _ _ => ([], Val zero_v);
    w_bin := fun _ _ _ _ => ([], Val zero_v);
    w_call := fun _ _ _ => ([], Val VUndef);
    w_new := fun _ _ _ => ([], Val VObjLit);
    w_get := fun _ _ _ => ([], Val VUndef);
    w_tokey := fun v _ => ([], Val v);
    w_tostr := fun _ _ => ([], Val (VStr []));
    w_spread := fun _ _ => ([], Val VUndef)
  |}.
  Definition typeof_bare : expr := EUn UTypeof (EId 1000 false false) true.    (* typeof x *)
  Definition typeof_comma : expr := EUn UTypeof (EId 1000 false false) false.  (* typeof (0, x) *)

  (* after fix 71e396b the helper tells them apart, and the conditional is kept *)
  Lemma values_look_the_same_typeof_mark :
    values_look_the_same typeof_bare typeof_comma = false
    /\ eval WP [] typeof_bare = Some ([], Val (VStr s_undefined))
    /\ eval WP [] typeof_comma = Some ([], Throw (VStr s_ReferenceError)).
  Proof. repeat split; vm_compute; reflexivity. Qed.

  Lemma mangle_if_typeof_mark_kept :
    mangle_if ub false false (EId 1 false false) typeof_bare typeof_comma
      = Some (EIf (EId 1 false false) typeof_bare typeof_comma).
  Proof. vm_compute. reflexivity. Qed.
End TypeofMark.
