(* Statements that are FALSE of the faithful model (the real code has the
   defect), with their witnesses, and the strongest parts that do hold. *)
From V Require Import Common.Base C03.Num C03.SpecOps C03.Tree C03.Fold C03.MiniJS.

(* ---- SimplifyUnusedExpr on an unused object literal with a computed key ------- *)
Section UnusedKey.
  Definition ub (r : Z) : bool := 1000 <=? r.
  Definition zero_v : value := VNum (Fin false 0 0).
  (* a world in which the declared identifier 1 holds a symbol (var k = Symbol.iterator)
     and every abstract operation is free of effects *)
  Definition W0 : world := {|
    w_unbound := ub;
    w_lenv := fun _ => VSym 1;
    w_this := VUndef;
    w_genv := fun _ => None;
    w_un := fun _ _ _ => ([], Val zero_v);
    w_bin := fun _ _ _ _ => ([], Val zero_v);
    w_call := fun _ _ _ => ([], Val VUndef);
    w_new := fun _ _ _ => ([], Val VObjLit);
    w_get := fun _ _ _ => ([], Val VUndef);
    w_tokey := fun v _ => ([], Val v);
    w_tostr := fun _ _ => ([], Val (VStr []));
    w_spread := fun _ _ => ([], Val VUndef)
  |}.

  Definition obj_with_symbol_key : expr := EObject [(0, true, EId 1 false false, ENum (Fin false 1 0))].

  (* the statement one would like: an unused expression statement and its
     simplification have the same effects *)
  Definition simplify_unused_preserves_effects (e : expr) : Prop :=
    same_effects (eval W0 [] e) (eval_unused W0 [] (simplify_unused ub false e)).

  (* ({[k]: 1}) completes normally; its simplification k + "" throws TypeError *)
  Lemma simplify_unused_object_key_refuted_w :
    exists e, simplify_unused ub false e = UExpr (EBin BAdd (EId 1 false false) (EStr []))
              /\ eval W0 [] e = Some ([], Val VObjLit)
              /\ ~ simplify_unused_preserves_effects e.
  Proof.
    exists obj_with_symbol_key. split; [vm_compute; reflexivity|]. split; [vm_compute; reflexivity|].
    unfold simplify_unused_preserves_effects. vm_compute. exact (fun H => H).
  Qed.
End UnusedKey.
