(* Statements that are FALSE of the faithful model (the real code has the
   defect), with their witnesses, and the strongest parts that do hold. *)
From V Require Import Common.Base C03.Num C03.SpecOps C03.Tree C03.Fold C03.MiniJS.

(* the full statement one would like: whenever math.Pow decides by a special
   case, Number::exponentiate decides the same value *)
Definition pow_special_cases_agree (x y : num) : Prop :=
  forall r, go_pow_special x y = Some r ->
  match spec_exponentiate_special x y with Some r' => num_same r r' = true | None => True end.

(* 1 ** NaN: math.Pow says 1, ECMA-262 says NaN (also 1 ** +-Infinity, (-1) ** +-Infinity) *)
Lemma fold_pow_special_cases_refuted_w :
  exists x y, wf_num x /\ wf_num y /\ ~ pow_special_cases_agree x y.
Proof.
  exists (Fin false 1 0), NaN. split; [cbn; lia|]. split; [exact I|].
  intro H. specialize (H _ eq_refl). vm_compute in H. discriminate.
Qed.

Lemma fold_pow_all_five_witnesses :
  map (fun p => match go_pow_special (fst p) (snd p), spec_exponentiate_special (fst p) (snd p) with
                | Some a, Some b => num_same a b | _, _ => true end)
      [(Fin false 1 0, NaN); (Fin false 1 0, Inf false); (Fin false 1 0, Inf true);
       (Fin true 1 0, Inf false); (Fin true 1 0, Inf true)]
  = [false; false; false; false; false].
Proof. vm_compute. reflexivity. Qed.

(* the part that holds on the whole boundary grid of the harness: every pair
   of grid values outside the |base| = 1 family agrees (finite domain, stated) *)
Definition pow_grid : list num :=
  [Fin false 0 0; Fin true 0 0; Fin false 1 0; Fin true 1 0; Fin false 2 0; Fin true 2 0; Fin false 1 (-1); Fin true 1 (-1);
   Fin false 3 (-1); Fin true 3 (-1); Fin false 3 0; Fin true 3 0; Fin false 1 (-1074); Fin false (two53 - 1) 0; Fin false two53 0;
   Fin false (two53 + 2) 0; Fin true (two53 - 1) 0; Fin false 1 1000; Fin true 1 1000; Inf false; Inf true; NaN;
   Fin false (two53 - 1) (-53); Fin false (two52 + 1) (-52); Fin true (two53 - 1) (-53); Fin false (two32 + 1) 0; Fin true (two32 + 1) 0].

Definition bad_family (x y : num) : bool :=
  (num_eq x (Fin false 1 0) && (is_nan y || match y with Inf _ => true | _ => false end))
  || (num_eq x (Fin true 1 0) && match y with Inf _ => true | _ => false end).

Lemma fold_pow_special_cases_partial_grid :
  forallb (fun x => forallb (fun y =>
    bad_family x y ||
    match go_pow_special x y with
    | Some r => match spec_exponentiate_special x y with Some r' => num_same r r' | None => true end
    | None => true
    end) pow_grid) pow_grid = true.
Proof. vm_compute. reflexivity. Qed.

(* ---- SimplifyUnusedExpr on an unused object literal with a computed key ------- *)
Section UnusedKey.
  Definition ub (r : Z) : bool := 1000 <=? r.
  Definition zero_v : value := VNum (Fin false 0 0).
  (* a world in which the declared identifier 1 holds a symbol (var k = Symbol.iterator)
     and every abstract operation is free of effects *)
  Definition W0 : world := {|
    w_unbound := ub;
    w_lenv := fun _ => VSym 1;
    w_this := VUndef;
    w_genv := fun _ => None;
    w_un := fun _ _ _ => ([], Val zero_v);
    w_bin := fun _ _ _ _ => ([], Val zero_v);
    w_call := fun _ _ _ => ([], Val VUndef);
    w_new := fun _ _ _ => ([], Val VObjLit);
    w_get := fun _ _ _ => ([], Val VUndef);
    w_tokey := fun v _ => ([], Val v);
    w_tostr := fun _ _ => ([], Val (VStr []));
    w_spread := fun _ _ => ([], Val VUndef)
  |}.

  Definition obj_with_symbol_key : expr := EObject [(0, true, EId 1 false false, ENum (Fin false 1 0))].

  (* the statement one would like: an unused expression statement and its
     simplification have the same effects *)
  Definition simplify_unused_preserves_effects (e : expr) : Prop :=
    same_effects (eval W0 [] e) (eval_unused W0 [] (simplify_unused ub false e)).

  (* ({[k]: 1}) completes normally; its simplification k + "" throws TypeError *)
  Lemma simplify_unused_object_key_refuted_w :
    exists e, simplify_unused ub false e = UExpr (EBin BAdd (EId 1 false false) (EStr []))
              /\ eval W0 [] e = Some ([], Val VObjLit)
              /\ ~ simplify_unused_preserves_effects e.
  Proof.
    exists obj_with_symbol_key. split; [vm_compute; reflexivity|]. split; [vm_compute; reflexivity|].
    unfold simplify_unused_preserves_effects. vm_compute. exact (fun H => H).
  Qed.
End UnusedKey.
