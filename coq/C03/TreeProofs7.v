(* Predicates on expressions that are preserved by Not, JoinWithLeftAssociativeOp
   and SimplifyBooleanExpr (these only rearrange subexpressions and add !, &&, ||,
   ?: and boolean literals), and the shapes excluded from simplify_unused_sound *)
From V Require Import Common.Base C03.Num C03.Tree C03.MiniJS C03.Worlds C03.TreeProofs4.

Section Closed.
  Variable Q : expr -> Prop.
  Hypothesis Q_un_inv : forall op v w, Q (EUn op v w) -> Q v.
  Hypothesis Q_bin_inv : forall op l r, Q (EBin op l r) -> Q l /\ Q r.
  Hypothesis Q_if_inv : forall t y n, Q (EIf t y n) -> Q t /\ Q y /\ Q n.
  Hypothesis Q_annot_inv : forall v r, Q (EAnnot v r) -> Q v.
  Hypothesis Q_enum_inv : forall v, Q (EInlinedEnum v) -> Q v.
  Hypothesis Q_bool : forall b, Q (EBool b).
  Hypothesis Q_not : forall v, Q v -> Q (EUn UNot v false).
  Hypothesis Q_bin : forall op l r, Q l -> Q r -> Q (EBin op l r).
  Hypothesis Q_if : forall t y n, Q t -> Q y -> Q n -> Q (EIf t y n).

  Lemma Q_msn : forall e e', Q e -> maybe_simplify_not e = Some e' -> Q e'.
  Proof.
    induction e; intros e' Hq Hm; cbn [maybe_simplify_not] in Hm; try discriminate;
      try (inversion Hm; subst; apply Q_bool).
    - destruct (check_equality_bigint s [48]) as [eq ok]. destruct ok; inversion Hm. apply Q_bool.
    - destruct op; try discriminate. destruct (ptype_eqb (known_type e) PBoolean); inversion Hm; subst. eapply Q_un_inv; eauto.
    - destruct (Q_bin_inv _ _ _ Hq) as [H1 H2].
      destruct op; try discriminate; inversion Hm; subst; try (apply Q_bin; assumption).
      apply Q_bin; [assumption|].
      destruct (maybe_simplify_not e2) eqn:Hn; [eauto | apply Q_not; assumption].
    - eauto.
    - eauto.
  Qed.

  Lemma Q_not_ : forall e, Q e -> Q (not_ e).
  Proof.
    intros e Hq. unfold not_. destruct (maybe_simplify_not e) eqn:Hm; [eapply Q_msn; eauto | apply Q_not; assumption].
  Qed.

  Lemma Q_join : forall op b a, Q a -> Q b -> Q (join_left_assoc op b a).
  Proof.
    intros op.
    induction b as [| | | | | | | | | | | | | | | | | | op' bl IHl br IHr | | | | | | |];
      intros a Ha Hb;
      try (induction a as [| | | | | | | | | | | | | | | | | | opa al IHal ar IHar | | | | | | |];
           cbn [join_left_assoc]; try (apply Q_bin; assumption);
           destruct opa; try (apply Q_bin; assumption);
           destruct (Q_bin_inv _ _ _ Ha) as [Ha1 Ha2]; apply Q_bin; [assumption | apply IHar; assumption]).
    destruct (Q_bin_inv _ _ _ Hb) as [Hbl Hbr].
    induction a as [| | | | | | | | | | | | | | | | | | opa al IHal ar IHar | | | | | | |];
      cbn [join_left_assoc];
      try (destruct (binop_eqb op' op); [apply IHr; [apply IHl; assumption | assumption] | apply Q_bin; assumption]).
    destruct opa;
      try (destruct (binop_eqb op' op); [apply IHr; [apply IHl; assumption | assumption] | apply Q_bin; assumption]).
    destruct (Q_bin_inv _ _ _ Ha) as [Ha1 Ha2]. apply Q_bin; [assumption | apply IHar; assumption].
  Qed.

  Lemma Q_sb_size : forall ub n e, (esize e <= n)%nat -> Q e -> Q (simplify_boolean ub e).
  Proof.
    intros ub. induction n as [|n IH]; intros e Hsz Hq; [destruct e; cbn [esize] in Hsz; lia|].
    assert (Hdef : forall e0, Q e0 ->
              Q (let '(b, se, ok) := to_boolean e0 in if ok && (se || can_be_removed ub e0) then EBool b else e0)).
    { intros e0 H0. destruct (to_boolean e0) as [[b se] ok]. destruct (ok && (se || can_be_removed ub e0)); [apply Q_bool | assumption]. }
    destruct e; try (exact (Hdef _ Hq)).
    - cbn [simplify_boolean]. cbn [esize] in Hsz. pose proof (Q_un_inv _ _ _ Hq) as Hv.
      destruct (unop_eqb op UNot); [|assumption].
      assert (Hgen : Q (EUn UNot (simplify_boolean ub e) false)) by (apply Q_not; apply IH; [lia|assumption]).
      destruct e; try exact Hgen.
      destruct (unop_eqb op0 UNot); [|exact Hgen].
      cbn [esize] in Hsz. apply IH; [lia|]. eapply Q_un_inv; eauto.
    - cbn [esize] in Hsz. destruct (Q_bin_inv _ _ _ Hq) as [H1 H2].
      assert (F1 : Q (simplify_boolean ub e1)) by (apply IH; [lia|assumption]).
      assert (F2 : Q (simplify_boolean ub e2)) by (apply IH; [lia|assumption]).
      destruct op; cbn [simplify_boolean]; try assumption;
        try (destruct (extract_numeric_value e2); [|assumption];
             destruct (is_zero n0 && is_int32_or_uint32 e1); [|assumption];
             first [assumption | apply Q_not_; assumption]).
      + destruct (to_boolean (simplify_boolean ub e2)) as [[b se] ok].
        destruct (ok && negb b && se); [assumption | apply Q_bin; assumption].
      + destruct (to_boolean (simplify_boolean ub e2)) as [[b se] ok].
        destruct (ok && b && se); [assumption | apply Q_bin; assumption].
    - cbn [esize] in Hsz. destruct (Q_if_inv _ _ _ Hq) as [H1 [H2 H3]].
      assert (F2 : Q (simplify_boolean ub e2)) by (apply IH; [lia|assumption]).
      assert (F3 : Q (simplify_boolean ub e3)) by (apply IH; [lia|assumption]).
      cbn [simplify_boolean].
      destruct (to_boolean (simplify_boolean ub e2)) as [[yb yse] yok].
      destruct (yok && yse).
      { destruct yb; unfold join_left; apply Q_join; try assumption. apply Q_not_; assumption. }
      destruct (to_boolean (simplify_boolean ub e3)) as [[nb nse] nok].
      destruct (nok && nse).
      { destruct nb; unfold join_left; apply Q_join; try assumption. apply Q_not_; assumption. }
      apply Q_if; assumption.
  Qed.

  Lemma Q_sb : forall ub e, Q e -> Q (simplify_boolean ub e).
  Proof. intros ub e H. exact (Q_sb_size ub (esize e) e (le_n _) H). Qed.
End Closed.

(* ---- the side condition of simplify_unused_sound:
   A (known finding, excluded shape): an object literal without spread that has a
      computed key (residue k + "");
   K (repaired, a3926ba): a call marked pure in an optional chain is unwrapped only
      when all its arguments can be removed; the arguments of such a call have to
      evaluate in the model (the call itself evaluates without evaluating them when
      the chain short-circuits, and the model is partial) *)
Fixpoint no_bad (W : world) (e : expr) {struct e} : Prop :=
  let all := fix all (l : list expr) : Prop := match l with [] => True | x :: r => no_bad W x /\ all r end in
  match e with
  | EDot t _ _ _ _ => no_bad W t
  | EIndex t i _ => no_bad W t /\ no_bad W i
  | ECall t args oc pure =>
      (pure = true -> oc <> 0 -> can_be_removed (w_unbound W) e = true ->
         forall x, In x args -> forall tr, eval W tr x <> None) /\ no_bad W t /\ all args
  | ENew t args _ => no_bad W t /\ all args
  | EUn _ v _ => no_bad W v
  | EBin _ l r => no_bad W l /\ no_bad W r
  | EIf t y n => no_bad W t /\ no_bad W y /\ no_bad W n
  | ETemplate _ parts =>
      (fix go (l : list (expr * list Z)) : Prop := match l with [] => True | (v, _) :: r => no_bad W v /\ go r end) parts
  | EArray items => all items
  | ESpread v => no_bad W v
  | EObject props =>
      (existsb (fun p : Z * bool * expr * expr => let '(kind, _, _, _) := p in kind =? 1) props = true \/
       forallb (fun p : Z * bool * expr * expr => let '(_, computed, _, _) := p in negb computed) props = true) /\
      (fix go (l : list (Z * bool * expr * expr)) : Prop :=
         match l with [] => True | (_, _, k, v) :: r => no_bad W k /\ no_bad W v /\ go r end) props
  | EAnnot v _ => no_bad W v
  | EInlinedEnum v => no_bad W v
  | _ => True
  end.

Lemma no_bad_sb : forall W ub e, no_bad W e -> no_bad W (simplify_boolean ub e).
Proof.
  intros W ub e. apply Q_sb; intros; cbn [no_bad] in *; tauto.
Qed.
