(* Fuel sufficiency of the SimplifyUnusedExpr model: SimplifyBooleanExpr never
   grows an expression, so the recursion of su_fuel (which goes through
   simplify_boolean on the left operand of a logical operator) is bounded by
   the size of its argument, and simplify_unused never returns UFuel. *)
From V Require Import Common.Base C03.Num C03.Tree C03.MiniJS C03.Worlds C03.TreeProofs4 C03.TreeProofs7 C03.TreeProofs8.

Lemma esize_pos : forall e, (1 <= esize e)%nat.
Proof. destruct e; cbn [esize]; lia. Qed.

(* "!e" has size S (esize e); its simplification is not larger *)
Lemma msn_size : forall e e', maybe_simplify_not e = Some e' -> (esize e' <= S (esize e))%nat.
Proof.
  induction e; intros e' Hm; cbn [maybe_simplify_not] in Hm; try discriminate;
    try (inversion Hm; subst; cbn [esize]; lia).
  - destruct (check_equality_bigint s [48]) as [eq ok]. destruct ok; inversion Hm. cbn [esize]. lia.
  - destruct op; try discriminate. destruct (ptype_eqb (known_type e) PBoolean); inversion Hm; subst. cbn [esize]. lia.
  - destruct op; try discriminate; inversion Hm; subst; cbn [esize]; try lia.
    destruct (maybe_simplify_not e2) eqn:Hn; [pose proof (IHe2 _ eq_refl); lia | cbn [esize]; lia].
  - pose proof (IHe _ Hm). cbn [esize]. lia.
  - pose proof (IHe _ Hm). cbn [esize]. lia.
Qed.

Lemma not_size : forall e, (esize (not_ e) <= S (esize e))%nat.
Proof.
  intros e. unfold not_. destruct (maybe_simplify_not e) eqn:Hm; [apply msn_size; exact Hm | cbn [esize]; lia].
Qed.

Lemma jla_size : forall op b a, (esize (join_left_assoc op b a) <= S (esize a + esize b))%nat.
Proof.
  intros op.
  induction b as [| | | | | | | | | | | | | | | | | | op' bl IHl br IHr | | | | | | |];
    intros a;
    try (induction a as [| | | | | | | | | | | | | | | | | | opa al IHal ar IHar | | | | | | |];
         cbn [join_left_assoc]; try (cbn [esize]; lia);
         destruct opa; try (cbn [esize]; lia);
         cbn [esize]; apply le_n_S;
         (etransitivity; [apply Nat.add_le_mono_l; apply IHar | cbn [esize]; lia])).
  assert (Hmain : forall a0,
    (esize (if binop_eqb op' op then join_left_assoc op br (join_left_assoc op bl a0) else EBin op a0 (EBin op' bl br))
     <= S (esize a0 + esize (EBin op' bl br)))%nat).
  { intros a0. destruct (binop_eqb op' op); [|cbn [esize]; lia].
    etransitivity; [apply IHr|]. apply le_n_S.
    etransitivity; [apply Nat.add_le_mono_r; apply IHl|]. cbn [esize]. lia. }
  induction a as [| | | | | | | | | | | | | | | | | | opa al IHal ar IHar | | | | | | |];
    cbn [join_left_assoc]; try apply Hmain.
  destruct opa; try apply Hmain.
  cbn [esize]. apply le_n_S.
  etransitivity; [apply Nat.add_le_mono_l; apply IHar | cbn [esize]; lia].
Qed.

Lemma jl_size : forall op a b, (esize (join_left op a b) <= S (esize a + esize b))%nat.
Proof. intros. unfold join_left. apply jla_size. Qed.

Theorem sb_size : forall ub n e, (esize e <= n)%nat -> (esize (simplify_boolean ub e) <= esize e)%nat.
Proof.
  intros ub. induction n as [|n IH]; intros e Hsz; [pose proof (esize_pos e); lia|].
  assert (Hdef : forall e0,
            (esize (let '(b, se, ok) := to_boolean e0 in if ok && (se || can_be_removed ub e0) then EBool b else e0) <= esize e0)%nat).
  { intros e0. destruct (to_boolean e0) as [[b se] ok]. destruct (ok && (se || can_be_removed ub e0)); [apply esize_pos | lia]. }
  destruct e; try (match goal with |- (_ <= esize ?x)%nat => exact (Hdef x) end).
  - cbn [simplify_boolean]. cbn [esize] in Hsz.
    destruct (unop_eqb op UNot); [|lia].
    assert (Hgen : (esize (EUn UNot (simplify_boolean ub e) false) <= S (esize e))%nat)
      by (cbn [esize]; pose proof (IH e ltac:(lia)); lia).
    destruct e; try exact Hgen.
    destruct (unop_eqb op0 UNot); [|exact Hgen].
    cbn [esize] in Hsz |- *. pose proof (IH e ltac:(lia)). lia.
  - cbn [esize] in Hsz.
    pose proof (IH e1 ltac:(lia)) as F1. pose proof (IH e2 ltac:(lia)) as F2.
    pose proof (not_size e1) as N1. pose proof (esize_pos e2) as P2.
    destruct op; cbn [simplify_boolean]; try lia; cbn [esize];
      try (destruct (extract_numeric_value e2); [|cbn [esize]; lia];
           destruct (is_zero n0 && is_int32_or_uint32 e1); cbn [esize]; lia).
    + destruct (to_boolean (simplify_boolean ub e2)) as [[b se] ok].
      destruct (ok && negb b && se); cbn [esize]; lia.
    + destruct (to_boolean (simplify_boolean ub e2)) as [[b se] ok].
      destruct (ok && b && se); cbn [esize]; lia.
  - cbn [esize] in Hsz.
    pose proof (IH e2 ltac:(lia)) as F2. pose proof (IH e3 ltac:(lia)) as F3.
    pose proof (esize_pos (simplify_boolean ub e2)) as P2. pose proof (esize_pos (simplify_boolean ub e3)) as P3.
    pose proof (not_size e1) as N1.
    cbn [simplify_boolean].
    destruct (to_boolean (simplify_boolean ub e2)) as [[yb yse] yok].
    destruct (yok && yse).
    { destruct yb; [pose proof (jl_size BLogOr e1 (simplify_boolean ub e3)) | pose proof (jl_size BLogAnd (not_ e1) (simplify_boolean ub e3))];
        cbn [esize]; lia. }
    destruct (to_boolean (simplify_boolean ub e3)) as [[nb nse] nok].
    destruct (nok && nse).
    { destruct nb; [pose proof (jl_size BLogOr (not_ e1) (simplify_boolean ub e2)) | pose proof (jl_size BLogAnd e1 (simplify_boolean ub e2))];
        cbn [esize]; lia. }
    cbn [esize]. lia.
Qed.

Lemma sb_size_le : forall ub e, (esize (simplify_boolean ub e) <= esize e)%nat.
Proof. intros ub e. exact (sb_size ub (esize e) e (le_n _)). Qed.

(* ---- the folds of su_fuel do not run out of fuel when their elements do not ---- *)
Lemma join_u_ok : forall a b, a <> UFuel -> b <> UFuel -> join_u a b <> UFuel.
Proof. intros [|a|] [|b|] Ha Hb; cbn [join_u]; congruence. Qed.

Lemma items_go_ok : forall (f : expr -> ures) l acc,
  (forall x, In x l -> f x <> UFuel) -> acc <> UFuel -> items_go f l acc <> UFuel.
Proof.
  intros f. induction l as [|x r IH]; intros acc H Ha; cbn [items_go]; [exact Ha|].
  apply IH; [intros y Hy; apply H; right; exact Hy|]. apply join_u_ok; [exact Ha | apply H; left; reflexivity].
Qed.

Lemma keep_items_go_ok : forall (f : expr -> ures) l acc,
  (forall x, In x l -> f x <> UFuel) -> keep_items_go f l acc <> UFuel.
Proof.
  intros f. induction l as [|x r IH]; intros acc H; cbn [keep_items_go]; [discriminate|].
  pose proof (H x (or_introl eq_refl)) as Hx.
  destruct (f x); [ | | congruence]; apply IH; intros y Hy; apply H; right; exact Hy.
Qed.

Lemma props_go_ok : forall (f : expr -> ures) l acc,
  (forall a b k v, In (a, b, k, v) l -> f v <> UFuel) -> acc <> UFuel -> props_go f l acc <> UFuel.
Proof.
  intros f. induction l as [|[[[kind computed] key] value] r IH]; intros acc H Ha; cbn [props_go]; [exact Ha|].
  apply IH; [intros a b k v Hin; eapply H; right; exact Hin|].
  apply join_u_ok; [|eapply H; left; reflexivity].
  destruct computed; [apply join_u_ok; [exact Ha | discriminate] | exact Ha].
Qed.

Lemma keep_props_go_ok : forall (f : expr -> ures) l acc,
  (forall a b k v, In (a, b, k, v) l -> f v <> UFuel) -> keep_props_go f l acc <> UFuel.
Proof.
  intros f. induction l as [|[[[kind computed] key] value] r IH]; intros acc H; cbn [keep_props_go]; [discriminate|].
  assert (Hr : forall a b k v, In (a, b, k, v) r -> f v <> UFuel) by (intros a b k v Hin; eapply H; right; exact Hin).
  destruct (kind =? 1); [apply IH; exact Hr|].
  pose proof (H _ _ _ _ (or_introl eq_refl)) as Hv.
  destruct (f value); [ | | congruence]; [destruct computed|]; apply IH; exact Hr.
Qed.

Lemma flush_ok : forall comma pend, comma <> UFuel -> flush comma pend <> UFuel.
Proof. intros comma [|p pend] H; cbn [flush]; [exact H | apply join_u_ok; [exact H | discriminate]]. Qed.

Lemma tpl_go_ok : forall (f : expr -> ures) l comma pend,
  (forall v t, In (v, t) l -> f v <> UFuel) -> comma <> UFuel -> tpl_go f l comma pend <> UFuel.
Proof.
  intros f. induction l as [|[v tl] r IH]; intros comma pend H Hc; cbn [tpl_go]; [apply flush_ok; exact Hc|].
  assert (Hr : forall v0 t, In (v0, t) r -> f v0 <> UFuel) by (intros v0 t Hin; eapply H; right; exact Hin).
  destruct (negb (ptype_eqb (known_type v) PUnknown)).
  - apply IH; [exact Hr|]. apply join_u_ok; [apply flush_ok; exact Hc | eapply H; left; reflexivity].
  - apply IH; [exact Hr | exact Hc].
Qed.

Section Fuel.
  Variable ub : Z -> bool.
  Variable noOC : bool.

  Theorem su_fuel_enough : forall f e, (esize e < f)%nat -> su_fuel f ub noOC e <> UFuel.
  Proof.
    induction f as [|f IH]; intros e Hsz; [lia|].
    destruct e; cbn [su_fuel]; try discriminate.
    - (* EId *) destruct mustkeep; [discriminate|]. destruct (removable || negb (ub ref)); discriminate.
    - (* EDot *) destruct removable; discriminate.
    - (* ECall *)
      destruct pure; [|discriminate].
      destruct (negb (oc =? 0) && negb (can_be_removed ub (ECall e args oc true))); [discriminate|].
      rewrite esize_call in Hsz.
      set (g := fun x => match x with ESpread _ => UExpr (EArray [x]) | _ => su_fuel f ub noOC x end).
      change (items_go g args UNil <> UFuel). apply items_go_ok; [|discriminate].
      intros x Hin. pose proof (in_sum_sizes _ _ Hin). unfold g. destruct x; try discriminate; apply IH; lia.
    - (* ENew *)
      destruct pure; [|discriminate].
      rewrite esize_new in Hsz.
      set (g := fun x => match x with ESpread _ => UExpr (EArray [x]) | _ => su_fuel f ub noOC x end).
      change (items_go g args UNil <> UFuel). apply items_go_ok; [|discriminate].
      intros x Hin. pose proof (in_sum_sizes _ _ Hin). unfold g. destruct x; try discriminate; apply IH; lia.
    - (* EUn *)
      cbn [esize] in Hsz.
      destruct op; try discriminate; try (apply IH; lia).
      + destruct e; discriminate.
      + destruct e; try (apply IH; cbn [esize] in *; lia). destruct wasTypeofId; [discriminate | apply IH; cbn [esize] in *; lia].
    - (* EBin *)
      cbn [esize] in Hsz.
      assert (H1 : su_fuel f ub noOC e1 <> UFuel) by (apply IH; lia).
      assert (H2 : su_fuel f ub noOC e2 <> UFuel) by (apply IH; lia).
      assert (Hb : su_fuel f ub noOC (simplify_boolean ub e1) <> UFuel)
        by (apply IH; pose proof (sb_size_le ub e1); lia).
      assert (Hlog : forall l', su_fuel f ub noOC l' <> UFuel -> forall op,
        match su_fuel f ub noOC e2 with
        | UFuel => UFuel
        | UNil => su_fuel f ub noOC l'
        | UExpr r' =>
            let dflt := UExpr (EBin op l' r') in
            if noOC then dflt
            else match l' with
                 | EBin bop bl br =>
                     if (binop_eqb bop BLooseNe && binop_eqb op BLogAnd) || (binop_eqb bop BLooseEq && binop_eqb op BLogOr) then
                       let test := if is_null br then Some bl else if is_null bl then Some br else None in
                       match test with
                       | Some tst =>
                           match tst with
                           | EId ref c mustkeep =>
                               if mustkeep then dflt
                               else match try_insert_optional_chain tst r' with
                                    | Some r'' => UExpr r''
                                    | None => dflt
                                    end
                           | _ => dflt
                           end
                       | None => dflt
                       end
                     else dflt
                 | _ => dflt
                 end
        end <> UFuel).
      { intros l' Hl' op0. destruct (su_fuel f ub noOC e2) as [|r'|]; [exact Hl' | | congruence].
        cbv zeta. destruct noOC; [discriminate|].
        destruct l'; try discriminate.
        destruct (_ || _); [|discriminate].
        destruct (if is_null l'2 then Some l'1 else if is_null l'1 then Some l'2 else None) as [tst|]; [|discriminate].
        destruct tst; try discriminate. destruct mustkeep; [discriminate|].
        destruct (try_insert_optional_chain _ r'); discriminate. }
      destruct op; try discriminate; try (apply join_u_ok; assumption);
        try (destruct (simplify_unused_string_chain _) as [res isStr]; destruct isStr; discriminate);
        try (destruct (negb (ptype_eqb (merged_known_types e1 e2) PUnknown)); [apply join_u_ok; assumption | discriminate]);
        first [apply (Hlog _ Hb) | apply (Hlog _ H1)].
    - (* EIf *)
      cbn [esize] in Hsz.
      assert (H1 : su_fuel f ub noOC e1 <> UFuel) by (apply IH; lia).
      assert (H2 : su_fuel f ub noOC e2 <> UFuel) by (apply IH; lia).
      assert (H3 : su_fuel f ub noOC e3 <> UFuel) by (apply IH; lia).
      destruct (su_fuel f ub noOC e2); [ | | congruence]; destruct (su_fuel f ub noOC e3); try congruence; discriminate.
    - (* ETemplate *)
      change (tpl_go (su_fuel f ub noOC) parts UNil [] <> UFuel). apply tpl_go_ok; [|discriminate].
      intros v t Hin. apply IH. pose proof (in_sum_parts _ _ _ Hin) as Hs.
      change (esize (ETemplate head parts)) with (S (sum_parts parts)) in Hsz. lia.
    - (* EArray *)
      rewrite esize_array in Hsz.
      assert (Hall : forall x, In x items -> su_fuel f ub noOC x <> UFuel)
        by (intros x Hin; apply IH; pose proof (in_sum_sizes _ _ Hin); lia).
      destruct (existsb _ items).
      + change (keep_items_go (su_fuel f ub noOC) items [] <> UFuel). apply keep_items_go_ok. exact Hall.
      + change (items_go (su_fuel f ub noOC) items UNil <> UFuel). apply items_go_ok; [exact Hall | discriminate].
    - (* EObject *)
      assert (Hall : forall a b k v, In (a, b, k, v) props -> su_fuel f ub noOC v <> UFuel).
      { intros a b k v Hin. apply IH. pose proof (in_sum_props _ _ _ _ _ Hin) as Hs.
        change (esize (EObject props)) with (S (sum_props props)) in Hsz. lia. }
      destruct (existsb _ props).
      + change (keep_props_go (su_fuel f ub noOC) props [] <> UFuel). apply keep_props_go_ok. exact Hall.
      + change (props_go (su_fuel f ub noOC) props UNil <> UFuel). apply props_go_ok; [exact Hall | discriminate].
    - (* EAnnot *) destruct removable; discriminate.
    - (* EInlinedEnum *) apply IH. cbn [esize] in Hsz. lia.
  Qed.

  Theorem simplify_unused_total_all : forall e, simplify_unused ub noOC e <> UFuel.
  Proof. intros e. unfold simplify_unused. apply su_fuel_enough. lia. Qed.
End Fuel.

(* simplify_unused_sound without the "fuel did not run out" hypothesis *)
Theorem simplify_unused_sound_nofuel_all : forall (W : world), world_ok W ->
  forall noOptChain e tr res,
    flags_ok W e -> no_bad W e ->
    eval W tr e = Some res ->
    same_effects (Some res) (eval_unused W tr (simplify_unused (w_unbound W) noOptChain e)).
Proof.
  intros W Wok noOC e tr res Hf Hn Hev.
  apply (simplify_unused_sound_partial_all W Wok noOC e tr res Hf Hn); [apply simplify_unused_total_all | exact Hev].
Qed.
