From V Require Import Common.Base C03.Num C03.SpecOps.
(* non-vacuity / sanity: concrete values *)
(* 2^32 + 5 -> 5 ; -(2^31 + 1) -> 2^31 - 1 ; 2^31 -> -2^31 ; -1.5 -> -1 ; 1e300-ish (m*2^900) -> 0 *)
Example toint32_ex :
  map (go_ToInt32 cvt_amd64) [Fin false (two32 + 5) 0; Fin true (two31 + 1) 0; Fin false two31 0; Fin true 3 (-1); Fin false 12345 900; NaN; Inf true]
  = [5; two31 - 1; - two31; -1; 0; 0; 0].
Proof. vm_compute. reflexivity. Qed.
Example bits_ex : num_of_bits 4607182418800017408 = Fin false two52 (-52).  (* 1.0 *)
Proof. vm_compute. reflexivity. Qed.
Example cmp_ex : spec_string_lt [97; 55357] [97; 65281] = true.  (* lone/high surrogate < U+FF01 in code-unit order *)
Proof. vm_compute. reflexivity. Qed.
