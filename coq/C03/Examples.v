From V Require Import Common.Base C03.Num C03.SpecOps.
(* non-vacuity / sanity: concrete values *)
(* 2^32 + 5 -> 5 ; -(2^31 + 1) -> 2^31 - 1 ; 2^31 -> -2^31 ; -1.5 -> -1 ; 1e300-ish (m*2^900) -> 0 *)
Example toint32_ex :
  map (go_ToInt32 cvt_amd64) [Fin false (two32 + 5) 0; Fin true (two31 + 1) 0; Fin false two31 0; Fin true 3 (-1); Fin false 12345 900; NaN; Inf true]
  = [5; two31 - 1; - two31; -1; 0; 0; 0].
Proof. vm_compute. reflexivity. Qed.
Example bits_ex : num_of_bits 4607182418800017408 = Fin false two52 (-52).  (* 1.0 *)
Proof. vm_compute. reflexivity. Qed.
Example cmp_ex : spec_string_lt [97; 55357] [97; 65281] = true.  (* lone/high surrogate < U+FF01 in code-unit order *)
Proof. vm_compute. reflexivity. Qed.

From V Require Import C03.Tree C03.Fold C03.MiniJS C03.Worlds C03.NumProofs C03.TreeProofs.
(* (-1) >>> 0 = 4294967295 ; 1 << 31 = -2147483648 ; 2^32+5 | 0 = 5 *)
Example fold_ex :
  [fold_num_num cvt_amd64 BUShr (Fin true 1 0) (Fin false 0 0);
   fold_num_num cvt_amd64 BShl (Fin false 1 0) (Fin false 31 0);
   fold_num_num cvt_amd64 BBitOr (Fin false (two32 + 5) 0) (Fin false 0 0)]
  = [FNum (Fin false 4294967295 0); FNum (Fin true 2147483648 0); FNum (Fin false 5 0)].
Proof. vm_compute. reflexivity. Qed.
Example spec_int_op_ex : spec_int_op BUShr (Fin true 1 0) (Fin false 0 0) = Some 4294967295.
Proof. vm_compute. reflexivity. Qed.

(* to_boolean_sound is not vacuous: `f(), !0` evaluates (probe 1000 logged) and is reported truthy with side effects *)
Definition ex_e : expr := EBin BComma (ECall (EId 1000 false false) [] 0 false) (EUn UNot (ENum (Fin false 0 0)) false).
(* a world where calling the global 1000 logs 1000 and returns null *)
Definition Wex : world := {|
  w_unbound := fun r => 1000 <=? r; w_lenv := fun _ => VUndef; w_this := VUndef;
  w_genv := fun r => Some (VObj r);
  w_un := fun _ _ _ => ([], Val (VNum (Fin false 0 0)));
  w_bin := fun _ _ _ _ => ([], Val (VNum (Fin false 0 0)));
  w_call := fun f _ _ => (match f with VObj r => [r] | _ => [] end, Val VNull);
  w_new := fun _ _ _ => ([], Val VObjLit);
  w_get := fun _ _ _ => ([7], Val VUndef);          (* every property read is a logged getter *)
  w_tokey := fun v _ => ([], Val v);
  w_tostr := fun _ _ => ([], Val (VStr []));
  w_spread := fun _ _ => ([], Val VUndef) |}.
Example to_boolean_ex :
  to_boolean ex_e = (true, false, true) /\
  eval Wex [] ex_e = Some ([1000], Val (VBool true)) /\
  flags_ok Wex ex_e.
Proof.
  split; [vm_compute; reflexivity|]. split; [vm_compute; reflexivity|].
  cbn. repeat split; intros; try discriminate; exact I.
Qed.

(* the models rewrite: a ? true : f()  ->  a || f() in a boolean context *)
Example simplify_boolean_ex :
  simplify_boolean (fun r => 1000 <=? r) (EIf (EId 1 false false) (EBool true) (ECall (EId 1000 false false) [] 0 false))
  = EBin BLogOr (EId 1 false false) (ECall (EId 1000 false false) [] 0 false).
Proof. vm_compute. reflexivity. Qed.
Example mangle_if_ex :
  mangle_if (fun r => 1000 <=? r) false false (EBin BLooseNe (EId 1 false false) ENull) (EId 1 false false) (EStr [98])
  = Some (EBin BNullish (EId 1 false false) (EStr [98])).
Proof. vm_compute. reflexivity. Qed.

(* check_equality_sound is not vacuous: -0 === 0 is true, NaN == NaN false, null == undefined true, true == 1 true *)
Example check_equality_ex :
  [check_equality (ENum (Fin true 0 0)) (ENum (Fin false 0 0)) true; check_equality (ENum NaN) (EInlinedEnum (ENum NaN)) false;
   check_equality ENull EUndefined false; check_equality ENull EUndefined true; check_equality (EBool true) (ENum (Fin false 1 0)) false]
  = [(true, true); (false, true); (true, true); (false, true); (true, true)].
Proof. vm_compute. reflexivity. Qed.

From V Require Import C03.TreeProofs2.
(* join_left_assoc_equiv is about a real rotation: a || (b || c) becomes (a || b) || c, and a comma is hoisted *)
Example join_left_ex :
  join_left BLogOr (EBin BComma (EId 1 false false) (EId 2 false false)) (EBin BLogOr (EId 3 false false) (EId 4 false false))
  = EBin BComma (EId 1 false false) (EBin BLogOr (EBin BLogOr (EId 2 false false) (EId 3 false false)) (EId 4 false false)).
Proof. vm_compute. reflexivity. Qed.
Example short_circuit_ex : short_circuit BLogOr.
Proof. right; left; reflexivity. Qed.
Example to_nullish_ex : to_nullish (EBin BComma (ECall (EId 1000 false false) [] 0 false) (EUn UVoid (EStr [97]) false)) = (true, false, true).
Proof. vm_compute. reflexivity. Qed.

From V Require Import C03.WorldEx C03.TreeProofs3 C03.TreeProofs4.
(* expr_can_be_removed_sound / known_type_sound are not vacuous: Wgood is a world_ok
   world with logged getters, calls and object conversions; the expression
     [ typeof g !== "undefined" && g, ...[x], "a" < "b", `t${1}`, {["k"]: !x} ]
   is removable, its flags are ok and it evaluates *)
Definition ex_guard : expr :=
  EBin BLogAnd (EBin BStrictNe (EUn UTypeof (EId 1000 false false) true) (EStr str_undefined)) (EId 1000 false false).
Definition ex_removable : expr :=
  EArray [ex_guard; ESpread (EArray [EId 1 false false]); EBin BLt (EStr [97]) (EStr [98]);
          ETemplate [116] [(ENum (Fin false 1 0), [])];
          EObject [(0, true, EStr [107], EUn UNot (EId 1 false false) false)]].
Example can_be_removed_ex :
  can_be_removed (w_unbound Wgood) ex_removable = true /\
  eval Wgood [] ex_removable = Some ([], Val VArr) /\
  flags_ok Wgood ex_removable /\ world_ok Wgood.
Proof.
  split; [vm_compute; reflexivity|]. split; [vm_compute; reflexivity|]. split; [|exact Wgood_ok].
  cbn. repeat split; intros; try discriminate; try exact I; eauto.
Qed.
(* ... while a property read is a logged getter in that world (and is not removable) *)
Example getter_effect_ex :
  eval Wgood [] (EDot (EId 1 false false) [120] 0 false false) = Some ([7], Val (VObj 5)) /\
  can_be_removed (w_unbound Wgood) (EDot (EId 1 false false) [120] 0 false false) = false.
Proof. split; vm_compute; reflexivity. Qed.
Example known_type_ex :
  known_type (EBin BAdd (EStr [97]) (EId 1 false false)) = PString /\
  eval Wgood [] (EBin BAdd (EStr [97]) (EId 1 false false)) = Some ([88], Val (VStr [])).
Proof. split; vm_compute; reflexivity. Qed.

From V Require Import C03.TreeProofs5.
(* simplify_not_correct is about real rewrites: !(f(), NaN) => f(), true ; !!(a == b) keeps one == ; !(a === b) => a !== b *)
Example simplify_not_ex :
  maybe_simplify_not (EBin BComma (ECall (EId 1000 false false) [] 0 false) (ENum NaN))
  = Some (EBin BComma (ECall (EId 1000 false false) [] 0 false) (EBool true)) /\
  maybe_simplify_not (EUn UNot (EBin BLooseEq (EId 1 false false) (EId 2 false false)) false)
  = Some (EBin BLooseEq (EId 1 false false) (EId 2 false false)) /\
  eval Wgood [] (EUn UNot (EBin BComma (ECall (EId 1000 false false) [] 0 false) (ENum NaN)) false)
  = Some ([99], Val (VBool true)).
Proof. repeat split; vm_compute; reflexivity. Qed.

From V Require Import C03.TreeProofs6.
(* simplify_boolean_sound on a real rewrite in an effectful world: (g() ? 1 : 0) is simplified to g() || false
   and ((x >>> 0) === 0) to !(x >>> 0) *)
Definition ex_sb : expr :=
  EBin BLogAnd (EIf (ECall (EId 1000 false false) [] 0 false) (ENum (Fin false 1 0)) (EBool false))
               (EBin BStrictEq (EBin BUShr (EId 1 false false) (ENum (Fin false 0 0))) (ENum (Fin false 0 0))).
Example simplify_boolean_sound_ex :
  simplify_boolean (w_unbound Wgood) ex_sb
  = EBin BLogAnd (EBin BLogOr (ECall (EId 1000 false false) [] 0 false) (EBool false))
                 (EUn UNot (EBin BUShr (EId 1 false false) (ENum (Fin false 0 0))) false) /\
  eval Wgood [] ex_sb = Some ([99], Val (VBool false)) /\ flags_ok Wgood ex_sb.
Proof.
  split; [vm_compute; reflexivity|]. split; [vm_compute; reflexivity|].
  cbn. repeat split; intros; try discriminate; try exact I; eauto.
Qed.

From V Require Import C03.PowProofs.
(* fold_pow_special_cases: the former witnesses now fold to NaN, as the standard says *)
Example fold_pow_ex :
  map (fun p => fold_pow (fst p) (snd p))
      [(Fin false 1 0, NaN); (Fin false 1 0, Inf false); (Fin true 1 0, Inf true); (Fin false 2 0, Inf true); (Fin true 0 0, Fin true 3 0)]
  = [Some NaN; Some NaN; Some NaN; Some (Fin false 0 0); Some (Inf true)] /\ wf_double (Fin false 1 0).
Proof. split; [vm_compute; reflexivity | cbn; unfold two53; lia]. Qed.

From V Require Import C03.TreeProofs7 C03.TreeProofs8.
(* simplify_unused_sound_partial on a real input in the effectful world Wgood:
     [`t${g()}${1}`, x.k, ...[g()]] && (g() ? 1 : g())   (unused)
   keeps the template conversion, the getter and the calls, drops the rest *)
Definition ex_su : expr :=
  EBin BLogAnd
    (EArray [ETemplate [116] [(ECall (EId 1000 false false) [] 0 false, []); (ENum (Fin false 1 0), [])];
             EDot (EId 1 false false) [107] 0 false false;
             ESpread (EArray [ECall (EId 1000 false false) [] 0 false])])
    (EIf (ECall (EId 1000 false false) [] 0 false) (ENum (Fin false 1 0)) (ECall (EId 1000 false false) [] 0 false)).
Example simplify_unused_ex :
  simplify_unused (w_unbound Wgood) false ex_su <> UFuel /\ no_bad Wgood ex_su /\ flags_ok Wgood ex_su /\
  eval Wgood [] ex_su = Some ([99; 7; 99; 99], Throw (VStr [101])) /\
  eval_unused Wgood [] (simplify_unused (w_unbound Wgood) false ex_su) = Some ([99; 7; 99; 99], Throw (VStr [101])).
Proof.
  split; [vm_compute; discriminate|]. split; [cbn; tauto|]. split; [cbn; repeat split; intros; try discriminate; exact I|].
  split; vm_compute; reflexivity.
Qed.

From V Require Import C03.TreeProofs10.
(* values_look_the_same_sound_partial is about effectful expressions too: g(x.k, -0) looks the same as itself
   (and not as g(x.k, 0)); its evaluation logs the getter and the call *)
Definition ex_vls : expr := ECall (EId 1000 false false) [EDot (EId 1 false false) [107] 0 false false; ENum (Fin true 0 (-1074))] 0 false.
Example vls_ex :
  values_look_the_same ex_vls ex_vls = true /\ vls_ok ex_vls /\
  values_look_the_same ex_vls (ECall (EId 1000 false false) [EDot (EId 1 false false) [107] 0 false false; ENum (Fin false 0 (-1074))] 0 false) = false /\
  eval Wgood [] ex_vls = Some ([7; 99], Throw (VStr [101])).
Proof. repeat split; try (vm_compute; reflexivity); cbn; unfold two52; try lia; auto; left; lia. Qed.

From V Require Import C03.TreeProofs13 C03.TreeProofs11.
(* mangle_if_equiv_partial / mangle_if_total on real rewrites in the effectful world Wgood:
     (g(), !b) ? f(g(), 1) : f(x.k, 1)   =>   g(), f(b ? x.k : g(), 1)
   (comma hoisted, negation flipped, the two calls merged through the recursive call), with the
   same logged evaluation (call, getter, call); and  a != null ? a : g()  =>  a ?? g() *)
Definition ex_mi_g : expr := ECall (EId 1000 false false) [] 0 false.
Definition ex_mi_one : expr := ENum (Fin false 4503599627370496 (-52)).
Definition ex_mi_t : expr := EBin BComma ex_mi_g (EUn UNot (EId 2 false false) false).
Definition ex_mi_y : expr := ECall (EId 3 false false) [ex_mi_g; ex_mi_one] 0 false.
Definition ex_mi_n : expr := ECall (EId 3 false false) [EDot (EId 1 false false) [107] 0 false false; ex_mi_one] 0 false.
Definition ex_mi_r : expr :=
  EBin BComma ex_mi_g
    (ECall (EId 3 false false) [EIf (EId 2 false false) (EDot (EId 1 false false) [107] 0 false false) ex_mi_g; ex_mi_one] 0 false).
Example mangle_if_equiv_ex :
  mangle_if (w_unbound Wgood) false true ex_mi_t ex_mi_y ex_mi_n = Some ex_mi_r /\
  (flags_ok Wgood ex_mi_t /\ flags_ok Wgood ex_mi_y /\ flags_ok Wgood ex_mi_n) /\
  (vls_ok ex_mi_t /\ vls_ok ex_mi_y /\ vls_ok ex_mi_n) /\ (no_hole_args ex_mi_y /\ no_hole_args ex_mi_n) /\
  eval Wgood [] (EIf ex_mi_t ex_mi_y ex_mi_n) = Some ([99; 7; 99], Val VUndef) /\
  eval Wgood [] ex_mi_r = Some ([99; 7; 99], Val VUndef) /\
  mangle_if (w_unbound Wgood) false true (EBin BLooseNe (EId 1 false false) ENull) (EId 1 false false) ex_mi_g
    = Some (EBin BNullish (EId 1 false false) ex_mi_g).
Proof.
  split; [vm_compute; reflexivity|].
  split; [cbn; repeat split; intros; try discriminate; exact I|].
  split; [cbn; unfold two52, two53; repeat split; try (right; lia); exact I|].
  split; [cbn; repeat split; try discriminate; exact I|].
  repeat split; vm_compute; reflexivity.
Qed.

(* try_insert_optional_chain_sound_partial / mangle_if_equiv_partial with optional-chain insertion:
   x != null ? x.k.l : undefined  =>  x?.k.l  (both getters logged), while over the parenthesized
   chain  null == b ? undefined : (b.k?.l).m  nothing is inserted (fix 01a3711) *)
Example mangle_if_chain_ex :
  mangle_if (w_unbound Wgood) false false (EBin BLooseNe (EId 1 false false) ENull)
    (EDot (EDot (EId 1 false false) [107] 0 false false) [108] 0 false false) EUndefined
    = Some (EDot (EDot (EId 1 false false) [107] 1 false false) [108] 2 false false) /\
  eval Wgood [] (EDot (EDot (EId 1 false false) [107] 1 false false) [108] 2 false false) = Some ([7; 7], Val (VObj 5)) /\
  eval Wgood [] (EIf (EBin BLooseNe (EId 1 false false) ENull)
                   (EDot (EDot (EId 1 false false) [107] 0 false false) [108] 0 false false) EUndefined)
    = Some ([7; 7], Val (VObj 5)) /\
  try_insert_optional_chain (EId 2 false false)
    (EDot (EDot (EDot (EId 2 false false) [107] 0 false false) [108] 1 false false) [109] 0 false false) = None.
Proof. repeat split; vm_compute; reflexivity. Qed.

(* simplify_boolean_never_grows / simplify_unused_total on a real input: the left operand
   (g() ? 1 : 0) of an unused && shrinks to g() || false before it is simplified again *)
Example simplify_unused_total_ex :
  esize (simplify_boolean (w_unbound Wgood) ex_sb) = 9%nat /\ esize ex_sb = 11%nat /\
  simplify_unused (w_unbound Wgood) false (EBin BLogAnd ex_sb (EId 1 false false)) <> UFuel.
Proof. repeat split; vm_compute; try reflexivity; discriminate. Qed.

From V Require Import C03.Stmt C03.StmtProofs.
(* stmt_normal_form_sound / mangle_stmts_equiv_partial on a real rewrite of the parser:
     if (x) return g(); h(); return k();   =>   return x ? g() : (h(), k());
   same normal form, and the body runs (x is truthy in Wgood: the call is logged, its result returned) *)
Definition ex_ms_call (r : Z) : expr := ECall (EId r false false) [] 0 false.
Definition ex_ms_in : list stmt :=
  [SIf (EId 1 false false) (SReturn (Some (ex_ms_call 1000))) SEmpty; SExpr (ex_ms_call 1001); SReturn (Some (ex_ms_call 1002))].
Definition ex_ms_out : list stmt :=
  [SReturn (Some (EIf (EId 1 false false) (ex_ms_call 1000) (EBin BComma (ex_ms_call 1001) (ex_ms_call 1002))))].
Example mangle_stmts_ex :
  norm_fn (w_unbound Wgood) ex_ms_in = norm_fn (w_unbound Wgood) ex_ms_out /\
  norm_fn (w_unbound Wgood) ex_ms_in =
    TIf (EId 1 false false) (TRet (Some (ex_ms_call 1000))) (TEff (ex_ms_call 1001) (TRet (Some (ex_ms_call 1002)))) /\
  exec_fn Wgood (fun _ _ => ([], Val VUndef)) [] ex_ms_in = Some ([99], CReturn VUndef) /\
  check_mangle_stmts (w_unbound Wgood) (ex_ms_in, ex_ms_out) = true /\
  check_mangle_stmts (w_unbound Wgood) (ex_ms_in, [SReturn (Some (ex_ms_call 1002))]) = false.
Proof. repeat split; vm_compute; reflexivity. Qed.
