From V Require Import Common.Base C03.Num C03.SpecOps.
(* non-vacuity / sanity: concrete values *)
(* 2^32 + 5 -> 5 ; -(2^31 + 1) -> 2^31 - 1 ; 2^31 -> -2^31 ; -1.5 -> -1 ; 1e300-ish (m*2^900) -> 0 *)
Example toint32_ex :
  map (go_ToInt32 cvt_amd64) [Fin false (two32 + 5) 0; Fin true (two31 + 1) 0; Fin false two31 0; Fin true 3 (-1); Fin false 12345 900; NaN; Inf true]
  = [5; two31 - 1; - two31; -1; 0; 0; 0].
Proof. vm_compute. reflexivity. Qed.
Example bits_ex : num_of_bits 4607182418800017408 = Fin false two52 (-52).  (* 1.0 *)
Proof. vm_compute. reflexivity. Qed.
Example cmp_ex : spec_string_lt [97; 55357] [97; 65281] = true.  (* lone/high surrogate < U+FF01 in code-unit order *)
Proof. vm_compute. reflexivity. Qed.

From V Require Import C03.Tree C03.Fold C03.MiniJS C03.NumProofs C03.TreeProofs.
(* (-1) >>> 0 = 4294967295 ; 1 << 31 = -2147483648 ; 2^32+5 | 0 = 5 *)
Example fold_ex :
  [fold_num_num cvt_amd64 BUShr (Fin true 1 0) (Fin false 0 0);
   fold_num_num cvt_amd64 BShl (Fin false 1 0) (Fin false 31 0);
   fold_num_num cvt_amd64 BBitOr (Fin false (two32 + 5) 0) (Fin false 0 0)]
  = [FNum (Fin false 4294967295 0); FNum (Fin true 2147483648 0); FNum (Fin false 5 0)].
Proof. vm_compute. reflexivity. Qed.
Example spec_int_op_ex : spec_int_op BUShr (Fin true 1 0) (Fin false 0 0) = Some 4294967295.
Proof. vm_compute. reflexivity. Qed.

(* to_boolean_sound is not vacuous: `f(), !0` evaluates (probe 1000 logged) and is reported truthy with side effects *)
Definition ex_e : expr := EBin BComma (ECall (EId 1000 false false) [] 0 false) (EUn UNot (ENum (Fin false 0 0)) false).
Example to_boolean_ex :
  to_boolean ex_e = (true, false, true) /\
  eval (fun r => 1000 <=? r) (fun _ => VUndef) (fun _ => None) (fun _ _ => Val VNull)
       (fun _ _ _ => ([], Val VUndef)) (fun _ _ _ _ => ([], Val VUndef)) [] ex_e = Some ([1000], Val (VBool true)) /\
  wf_flags ex_e.
Proof.
  split; [vm_compute; reflexivity|]. split; [vm_compute; reflexivity|].
  cbn. repeat split; intros; discriminate.
Qed.

(* the models rewrite: a ? true : f()  ->  a || f() in a boolean context *)
Example simplify_boolean_ex :
  simplify_boolean (fun r => 1000 <=? r) (EIf (EId 1 false false) (EBool true) (ECall (EId 1000 false false) [] 0 false))
  = EBin BLogOr (EId 1 false false) (ECall (EId 1000 false false) [] 0 false).
Proof. vm_compute. reflexivity. Qed.
Example mangle_if_ex :
  mangle_if (fun r => 1000 <=? r) false false (EBin BLooseNe (EId 1 false false) ENull) (EId 1 false false) (EStr [98])
  = Some (EBin BNullish (EId 1 false false) (EStr [98])).
Proof. vm_compute. reflexivity. Qed.

(* check_equality_sound is not vacuous: -0 === 0 is true, NaN == NaN false, null == undefined true, true == 1 true *)
Example check_equality_ex :
  [check_equality (ENum (Fin true 0 0)) (ENum (Fin false 0 0)) true; check_equality (ENum NaN) (EInlinedEnum (ENum NaN)) false;
   check_equality ENull EUndefined false; check_equality ENull EUndefined true; check_equality (EBool true) (ENum (Fin false 1 0)) false]
  = [(true, true); (false, true); (true, true); (false, true); (true, true)].
Proof. vm_compute. reflexivity. Qed.

From V Require Import C03.TreeProofs2.
(* join_left_assoc_equiv is about a real rotation: a || (b || c) becomes (a || b) || c, and a comma is hoisted *)
Example join_left_ex :
  join_left BLogOr (EBin BComma (EId 1 false false) (EId 2 false false)) (EBin BLogOr (EId 3 false false) (EId 4 false false))
  = EBin BComma (EId 1 false false) (EBin BLogOr (EBin BLogOr (EId 2 false false) (EId 3 false false)) (EId 4 false false)).
Proof. vm_compute. reflexivity. Qed.
Example short_circuit_ex : short_circuit BLogOr.
Proof. right; left; reflexivity. Qed.
(* to_nullish_sound's hypotheses are satisfiable: operators returning numbers *)
Example nullish_hyp_ex :
  (forall (op : unop) (v : value) (t : nat) tr' w, (fun _ _ _ => (@nil Z, Val (VNum NaN))) op v t = (tr', Val w) -> nullish w = false).
Proof. intros op v t tr' w H. inversion H. reflexivity. Qed.
Example to_nullish_ex : to_nullish (EBin BComma (ECall (EId 1000 false false) [] 0 false) (EUn UVoid (EStr [97]) false)) = (true, false, true).
Proof. vm_compute. reflexivity. Qed.
