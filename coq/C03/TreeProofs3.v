(* KnownPrimitiveType is sound w.r.t. the value semantics *)
From V Require Import Common.Base C03.Num C03.Tree C03.MiniJS C03.Worlds C03.TreeProofs.

Definition type_ok (t : ptype) (v : value) : bool :=
  match t with
  | PUnknown => true
  | PMixed => is_prim v && negb (is_sym v)
  | PNull => match v with VNull => true | _ => false end
  | PUndefined => match v with VUndef => true | _ => false end
  | PBoolean => is_bool v
  | PNumber => is_num v
  | PString => is_str v
  | PBigInt => is_big v
  end.

Lemma type_ok_mixed : forall t v, t <> PUnknown -> type_ok t v = true -> type_ok PMixed v = true.
Proof. intros [] [] Hn H; cbn in *; congruence. Qed.

Lemma merge_ok_l : forall a b v, type_ok a v = true -> type_ok (merge_types a b) v = true.
Proof.
  intros a b v H. unfold merge_types.
  destruct a; try reflexivity; destruct b; try reflexivity; cbn [ptype_beq];
    try assumption; (eapply type_ok_mixed; [|eassumption]; discriminate).
Qed.

Lemma merge_ok_r : forall a b v, type_ok b v = true -> type_ok (merge_types a b) v = true.
Proof.
  intros a b v H. unfold merge_types.
  destruct a; try reflexivity; destruct b; try reflexivity; cbn [ptype_beq];
    try assumption; (eapply type_ok_mixed; [|eassumption]; discriminate).
Qed.

Section KT.
  Variable W : world.
  Hypothesis Wok : world_ok W.
  Notation ev := (eval W).

  Lemma parts_value : forall (evf : trace -> expr -> option (trace * outcome)) l tr acc tr' v,
    eval_parts_with W evf tr l acc = Some (tr', Val v) -> is_str v = true.
  Proof.
    induction l as [|[p tail] r IH]; intros tr acc tr' v H; cbn [eval_parts_with] in H.
    - inv H. reflexivity.
    - apply bind_inv in H as [(t1 & x & Hx & H)|(x & Hx & Ho)]; [|discriminate].
      apply bind_inv in H as [(t2 & sv & Hs & H)|(x0 & Hx0 & Ho)]; [|discriminate].
      destruct sv; try discriminate. eauto.
  Qed.

  Lemma numeric_mixed : forall v, is_numeric v = true -> type_ok PMixed v = true.
  Proof. destruct v; cbn; congruence. Qed.

  Theorem known_type_sound_all : forall e tr tr' v,
    ev tr e = Some (tr', Val v) -> type_ok (known_type e) v = true.
  Proof.
    induction e; intros tr tr' v0 Hev; cbn [known_type]; try reflexivity;
      try (cbn [eval] in Hev; inv Hev; reflexivity).
    - (* EBig *) cbn [eval] in Hev. destruct (big_value s); inv Hev. reflexivity.
    - (* EUn *)
      cbn [eval] in Hev.
      destruct op; try discriminate.
      + (* UPos *)
        apply bind_inv in Hev as [(t1 & x & Hx & Hk)|(x & Hx & Ho)]; [|discriminate].
        apply eff_inv in Hk as (t2 & E & _). eapply ok_un_pos; eauto.
      + (* UNeg *)
        apply bind_inv in Hev as [(t1 & x & Hx & Hk)|(x & Hx & Ho)]; [|discriminate].
        apply eff_inv in Hk as (t2 & E & _). pose proof (IHe _ _ _ Hx) as Ht.
        destruct (known_type e) eqn:Hkt; cbn [type_ok];
          try (apply numeric_mixed; eapply ok_un_numeric; eauto);
          try (eapply ok_un_big; eauto);
          try (eapply ok_un_plain; eauto; destruct x; cbn in Ht |- *; congruence).
      + (* UCpl *)
        apply bind_inv in Hev as [(t1 & x & Hx & Hk)|(x & Hx & Ho)]; [|discriminate].
        apply eff_inv in Hk as (t2 & E & _). pose proof (IHe _ _ _ Hx) as Ht.
        destruct (known_type e) eqn:Hkt; cbn [type_ok];
          try (apply numeric_mixed; eapply ok_un_numeric; eauto);
          try (eapply ok_un_big; eauto);
          try (eapply ok_un_plain; eauto; destruct x; cbn in Ht |- *; congruence).
      + (* UNot *)
        apply bind_inv in Hev as [(t1 & x & Hx & Hk)|(x & Hx & Ho)]; [|discriminate]. inv Hk. reflexivity.
      + (* UVoid *)
        apply bind_inv in Hev as [(t1 & x & Hx & Hk)|(x & Hx & Ho)]; [|discriminate]. inv Hk. reflexivity.
      + (* UTypeof *)
        destruct e; try (apply bind_inv in Hev as [(t1 & x & Hx & Hk)|(x & Hx & Ho)]; [inv Hk; reflexivity | discriminate]).
        destruct wasTypeofId.
        * destruct (w_unbound W ref); [destruct (w_genv W ref)|]; inv Hev; reflexivity.
        * apply bind_inv in Hev as [(t1 & x & Hx & Hk)|(x & Hx & Ho)]; [inv Hk; reflexivity | discriminate].
    - (* EBin *)
      cbn [eval] in Hev.
      destruct op; cbn [is_sem_binop] in Hev; try discriminate; cbn [type_ok];
        (* arithmetic operators: numeric *)
        try (apply bind_inv in Hev as [(t1 & x & Hx & Hk)|(x & Hx & Ho)]; [|discriminate];
             apply bind_inv in Hk as [(t2 & y & Hy & Hk2)|(y & Hy & Ho)]; [|discriminate];
             apply eff_inv in Hk2 as (t3 & E & _);
             first [ apply numeric_mixed; eapply ok_arith; [exact Wok| |exact E]; reflexivity
                   | eapply ok_boolop; [exact Wok| |exact E]; reflexivity ]).
      + (* BAdd *)
        apply bind_inv in Hev as [(t1 & x & Hx & Hk)|(x & Hx & Ho)]; [|discriminate].
        apply bind_inv in Hk as [(t2 & y & Hy & Hk2)|(y & Hy & Ho)]; [|discriminate].
        pose proof (IHe1 _ _ _ Hx) as Htx. pose proof (IHe2 _ _ _ Hy) as Hty.
        assert (HE : exists t3, w_bin W BAdd x y (length t2) = (t3, Val v0)).
        { unfold add_values in Hk2.
          destruct (is_object x || is_object y); [apply eff_inv in Hk2 as (t3 & E & _); eauto|].
          destruct x, y; try discriminate; apply eff_inv in Hk2 as (t3 & E & _); eauto. }
        destruct HE as [t3 E].
        destruct (ptype_eqb (known_type e1) PString || ptype_eqb (known_type e2) PString) eqn:Hs.
        { cbn [type_ok]. eapply ok_add_str; eauto.
          apply orb_true_iff in Hs as [Hs|Hs]; apply internal_ptype_dec_bl in Hs; rewrite Hs in *; cbn [type_ok] in *;
            [rewrite Htx | rewrite Hty; rewrite orb_true_r]; reflexivity. }
        destruct (ptype_eqb (known_type e1) PBigInt && ptype_eqb (known_type e2) PBigInt) eqn:Hb.
        { apply andb_true_iff in Hb as [H1 H2]. apply internal_ptype_dec_bl in H1, H2. rewrite H1, H2 in *.
          cbn [type_ok] in *. eapply ok_add_big; eauto. }
        match goal with |- type_ok (if ?c then _ else _) _ = true => destruct c eqn:Hp end.
        { cbn [type_ok]. eapply ok_add_plain; eauto.
          - destruct (known_type e1); cbn in Hp; try discriminate; destruct x; cbn in Htx |- *; congruence.
          - destruct (known_type e2); cbn in Hp; try (rewrite ?andb_false_r in Hp; discriminate);
              destruct (known_type e1); cbn in Hp; try discriminate; destruct y; cbn in Hty |- *; congruence. }
        pose proof (ok_add_prim W Wok _ _ _ _ _ E) as Hr. destruct v0; cbn in Hr |- *; congruence.
      + (* BLooseNe *)
        unfold neg_outcome in Hev. destruct (bind _ _) as [[t [w|w]]|]; try discriminate.
        destruct w; try discriminate. inv Hev. reflexivity.
      + (* BStrictEq *)
        apply bind_inv in Hev as [(t1 & x & Hx & Hk)|(x & Hx & Ho)]; [|discriminate].
        apply bind_inv in Hk as [(t2 & y & Hy & Hk2)|(y & Hy & Ho)]; [|discriminate].
        destruct (strict_eq x y); inv Hk2. reflexivity.
      + (* BStrictNe *)
        apply bind_inv in Hev as [(t1 & x & Hx & Hk)|(x & Hx & Ho)]; [|discriminate].
        apply bind_inv in Hk as [(t2 & y & Hy & Hk2)|(y & Hy & Ho)]; [|discriminate].
        destruct (strict_eq x y); inv Hk2. reflexivity.
      + (* BNullish *)
        apply bind_inv in Hev as [(t1 & x & Hx & Hk)|(x & Hx & Ho)]; [|discriminate].
        pose proof (IHe1 _ _ _ Hx) as Htx.
        destruct (nullish x) eqn:Hn.
        * pose proof (IHe2 _ _ _ Hk) as Hty.
          destruct (known_type e1) eqn:K1; try reflexivity; try assumption;
            try (destruct x; cbn in Htx, Hn; discriminate).
          destruct (known_type e2) eqn:K2; try reflexivity; (eapply type_ok_mixed; [|exact Hty]; discriminate).
        * inv Hk.
          destruct (known_type e1) eqn:K1; try reflexivity; try assumption;
            try (destruct v0; cbn in Htx, Hn; discriminate).
          destruct (known_type e2); try reflexivity; assumption.
      + (* BLogOr *)
        apply bind_inv in Hev as [(t1 & x & Hx & Hk)|(x & Hx & Ho)]; [|discriminate].
        destruct (truthy x); [inv Hk; apply merge_ok_l; eauto | apply merge_ok_r; eauto].
      + (* BLogAnd *)
        apply bind_inv in Hev as [(t1 & x & Hx & Hk)|(x & Hx & Ho)]; [|discriminate].
        destruct (truthy x); [apply merge_ok_r; eauto | inv Hk; apply merge_ok_l; eauto].
      + (* BComma *)
        apply bind_inv in Hev as [(t1 & x & Hx & Hk)|(x & Hx & Ho)]; [|discriminate]. eauto.
    - (* EIf *)
      cbn [eval] in Hev.
      apply bind_inv in Hev as [(t1 & x & Hx & Hk)|(x & Hx & Ho)]; [|discriminate].
      destruct (truthy x); [apply merge_ok_l | apply merge_ok_r]; eauto.
    - (* ETemplate *)
      rewrite eval_template_eq in Hev. cbn [type_ok]. eapply parts_value; eauto.
    - (* EAnnot *) cbn [eval] in Hev. eauto.
    - (* EInlinedEnum *) cbn [eval] in Hev. eauto.
  Qed.

  Lemma known_prim : forall e tr tr' v,
    ev tr e = Some (tr', Val v) -> ptype_eqb (known_type e) PUnknown = false ->
    is_prim v = true /\ is_sym v = false.
  Proof.
    intros e tr tr' v H Hk. pose proof (known_type_sound_all _ _ _ _ H) as Ht.
    destruct (known_type e); try discriminate; destruct v; cbn in Ht |- *; try discriminate; auto.
  Qed.
End KT.
