(* C03 specification side, part 2: MiniJS, a big-step semantics with probe
   traces for the expression fragment on which the helper rewrites are proved
   sound.  Written from ECMA-262 (13.5 unary operators, 13.10-13.14 relational,
   equality, logical, conditional, comma; 7.1.2 ToBoolean; 7.2.15
   IsStrictlyEqual), not from esbuild's code.

   * values: primitives, objects with an identity (returned by probes), literal
     objects (no identity), symbols, functions;
   * a probe is a zero-argument call of an identifier: it appends its
     identifier to the trace and returns what the oracle says for (identifier,
     time) -- two calls of the same probe may return different things;
   * reading a bound identifier is pure (exclusions NoTDZ / ReadsArePure of the
     property); reading an unbound one throws ReferenceError unless the global
     exists; typeof of an unbound identifier never throws;
   * operators that may run user code (valueOf/toString of objects) or whose
     numeric result is not needed by any rewrite are section parameters
     [un_sem], [bin_sem]: every theorem holds for all of them;
   * constructs outside the fragment evaluate to None and are excluded from the
     theorems' hypotheses (eval e = Some _). *)
From V Require Import Common.Base C03.Num C03.Tree.

Inductive value :=
| VUndef | VNull | VBool (b : bool) | VNum (n : num) | VBig (z : Z) | VStr (s : list Z)
| VObj (id : Z)        (* object with identity (from a probe) *)
| VObjLit              (* object created by a literal: [] {} /re/ *)
| VFun                 (* function created by a literal *)
| VSym (id : Z).

Inductive outcome := Val (v : value) | Throw (v : value).
Definition trace := list Z.

Definition truthy (v : value) : bool :=
  match v with
  | VUndef | VNull => false
  | VBool b => b
  | VNum n => negb (is_zero n) && negb (is_nan n)
  | VBig z => negb (z =? 0)
  | VStr s => match s with [] => false | _ => true end
  | _ => true
  end.

Definition nullish (v : value) : bool := match v with VUndef | VNull => true | _ => false end.

Definition s_undefined : list Z := [117; 110; 100; 101; 102; 105; 110; 101; 100].
Definition s_object : list Z := [111; 98; 106; 101; 99; 116].
Definition s_boolean : list Z := [98; 111; 111; 108; 101; 97; 110].
Definition s_number : list Z := [110; 117; 109; 98; 101; 114].
Definition s_bigint : list Z := [98; 105; 103; 105; 110; 116].
Definition s_string : list Z := [115; 116; 114; 105; 110; 103].
Definition s_symbol : list Z := [115; 121; 109; 98; 111; 108].
Definition s_function : list Z := [102; 117; 110; 99; 116; 105; 111; 110].
Definition s_TypeError : list Z := [84; 121; 112; 101; 69; 114; 114; 111; 114].
Definition s_ReferenceError : list Z := [82; 101; 102; 101; 114; 101; 110; 99; 101; 69; 114; 114; 111; 114].

Definition typeof_value (v : value) : list Z :=
  match v with
  | VUndef => s_undefined | VNull => s_object | VBool _ => s_boolean | VNum _ => s_number
  | VBig _ => s_bigint | VStr _ => s_string | VObj _ | VObjLit => s_object | VFun => s_function
  | VSym _ => s_symbol
  end.

(* 7.2.15 IsStrictlyEqual; None when it would compare the identity of an
   object created by a literal (not tracked) *)
Definition strict_eq (a b : value) : option bool :=
  match a, b with
  | VUndef, VUndef | VNull, VNull => Some true
  | VBool x, VBool y => Some (Bool.eqb x y)
  | VNum x, VNum y => Some (num_eq x y)
  | VBig x, VBig y => Some (x =? y)
  | VStr x, VStr y => Some (zlist_eqb x y)
  | VObj x, VObj y => Some (x =? y)
  | VSym x, VSym y => Some (x =? y)
  | (VObjLit | VFun), (VObjLit | VFun | VObj _) => None
  | VObj _, (VObjLit | VFun) => None
  | _, _ => Some false
  end.

(* decimal bigint literal text (no radix prefix) *)
Fixpoint dec_value (l : list Z) (acc : Z) : option Z :=
  match l with
  | [] => Some acc
  | c :: r => if (48 <=? c) && (c <=? 57) then dec_value r (acc * 10 + (c - 48)) else None
  end.
Definition big_value (s : list Z) : option Z :=
  match s with
  | [] => None
  | [c] => dec_value s 0
  | c :: _ => if c =? 48 then None else dec_value s 0      (* leading 0: radix literal or invalid *)
  end.

Section Semantics.
  (* the world *)
  Variable unbound : Z -> bool.              (* esbuild's view: identifier not declared in the code *)
  Variable lenv : Z -> value.                (* declared identifiers: always readable (NoTDZ) *)
  Variable genv : Z -> option value.         (* globals: None = does not exist *)
  Variable oracle : Z -> nat -> outcome.     (* result of probe r called at time t *)
  Variable un_sem : unop -> value -> nat -> trace * outcome.             (* + - ~ on any value *)
  Variable bin_sem : binop -> value -> value -> nat -> trace * outcome.  (* arithmetic, relational, ==, in, instanceof *)

  Definition bind (r : option (trace * outcome)) (k : trace -> value -> option (trace * outcome)) : option (trace * outcome) :=
    match r with
    | Some (tr, Val v) => k tr v
    | Some (tr, Throw x) => Some (tr, Throw x)
    | None => None
    end.

  Definition neg_outcome (r : option (trace * outcome)) : option (trace * outcome) :=
    match r with
    | Some (tr, Val (VBool b)) => Some (tr, Val (VBool (negb b)))
    | Some (tr, Val _) => None                       (* an equality operator always yields a boolean *)
    | other => other
    end.

  Definition is_sem_binop (op : binop) : bool :=
    match op with
    | BAdd | BSub | BMul | BDiv | BRem | BPow | BLt | BLe | BGt | BGe | BIn | BInstanceof
    | BShl | BShr | BUShr | BBitOr | BBitAnd | BBitXor => true
    | _ => false
    end.

  Definition apply_bin (op : binop) (tr : trace) (a b : value) : option (trace * outcome) :=
    let '(t2, o) := bin_sem op a b (length tr) in Some (tr ++ t2, o).

  Fixpoint eval (tr : trace) (e : expr) {struct e} : option (trace * outcome) :=
    match e with
    | ENull => Some (tr, Val VNull)
    | EUndefined => Some (tr, Val VUndef)
    | EBool b => Some (tr, Val (VBool b))
    | ENum n => Some (tr, Val (VNum n))
    | EBig s => match big_value s with Some z => Some (tr, Val (VBig z)) | None => None end
    | EStr s => Some (tr, Val (VStr s))
    | ERegExp _ => Some (tr, Val VObjLit)
    | EFunc _ | EArrow _ => Some (tr, Val VFun)
    | EArray [] => Some (tr, Val VObjLit)
    | EObject [] => Some (tr, Val VObjLit)
    | EObject [(0, true, k, v)] =>
        (* { [k]: v }: evaluate k, ToPropertyKey (a symbol is a valid key; an
           object key would run toString: outside the fragment), evaluate v *)
        bind (eval tr k) (fun tr1 kv =>
          match kv with
          | VObj _ | VObjLit | VFun => None
          | _ => bind (eval tr1 v) (fun tr2 _ => Some (tr2, Val VObjLit))
          end)
    | EId ref _ _ =>
        if unbound ref then
          match genv ref with
          | Some v => Some (tr, Val v)
          | None => Some (tr, Throw (VStr s_ReferenceError))
          end
        else Some (tr, Val (lenv ref))
    | ECall (EId ref _ _) [] 0 false =>
        (* probe *)
        Some (tr ++ [ref], oracle ref (length tr))
    | EAnnot v false => eval tr v
    | EInlinedEnum v => eval tr v
    | EUn op v w =>
        match op with
        | UNot => bind (eval tr v) (fun tr1 x => Some (tr1, Val (VBool (negb (truthy x)))))
        | UVoid => bind (eval tr v) (fun tr1 _ => Some (tr1, Val VUndef))
        | UTypeof =>
            match v with
            | EId ref _ _ =>
                if unbound ref then
                  match genv ref with
                  | Some x => Some (tr, Val (VStr (typeof_value x)))
                  | None => Some (tr, Val (VStr s_undefined))
                  end
                else Some (tr, Val (VStr (typeof_value (lenv ref))))
            | _ => bind (eval tr v) (fun tr1 x => Some (tr1, Val (VStr (typeof_value x))))
            end
        | UPos | UNeg | UCpl =>
            bind (eval tr v) (fun tr1 x => let '(t2, o) := un_sem op x (length tr1) in Some (tr1 ++ t2, o))
        | _ => None
        end
    | EBin op l r =>
        match op with
        | BComma => bind (eval tr l) (fun tr1 _ => eval tr1 r)
        | BLogAnd => bind (eval tr l) (fun tr1 x => if truthy x then eval tr1 r else Some (tr1, Val x))
        | BLogOr => bind (eval tr l) (fun tr1 x => if truthy x then Some (tr1, Val x) else eval tr1 r)
        | BNullish => bind (eval tr l) (fun tr1 x => if nullish x then eval tr1 r else Some (tr1, Val x))
        | BStrictEq =>
            bind (eval tr l) (fun tr1 x => bind (eval tr1 r) (fun tr2 y =>
              match strict_eq x y with Some b => Some (tr2, Val (VBool b)) | None => None end))
        | BStrictNe =>
            bind (eval tr l) (fun tr1 x => bind (eval tr1 r) (fun tr2 y =>
              match strict_eq x y with Some b => Some (tr2, Val (VBool (negb b))) | None => None end))
        | BLooseEq =>
            bind (eval tr l) (fun tr1 x => bind (eval tr1 r) (fun tr2 y => apply_bin BLooseEq tr2 x y))
        | BLooseNe =>
            neg_outcome (bind (eval tr l) (fun tr1 x => bind (eval tr1 r) (fun tr2 y => apply_bin BLooseEq tr2 x y)))
        | BAdd =>
            bind (eval tr l) (fun tr1 x => bind (eval tr1 r) (fun tr2 y =>
              match x, y with
              | VSym _, _ | _, VSym _ =>
                  (* 7.1.1 ToPrimitive leaves a symbol; 7.1.17 ToString / 7.1.4 ToNumber of a symbol throw a TypeError *)
                  match x, y with
                  | (VObj _ | VObjLit | VFun), _ | _, (VObj _ | VObjLit | VFun) => apply_bin BAdd tr2 x y
                  | _, _ => Some (tr2, Throw (VStr s_TypeError))
                  end
              | _, _ => apply_bin BAdd tr2 x y
              end))
        | _ =>
            if is_sem_binop op then
              bind (eval tr l) (fun tr1 x => bind (eval tr1 r) (fun tr2 y => apply_bin op tr2 x y))
            else None
        end
    | EIf t y n =>
        bind (eval tr t) (fun tr1 x => if truthy x then eval tr1 y else eval tr1 n)
    | _ => None
    end.

  (* evaluation of a possibly removed expression statement *)
  Definition eval_unused (tr : trace) (r : ures) : option (trace * outcome) :=
    match r with
    | UNil => Some (tr, Val VUndef)
    | UExpr e => eval tr e
    | UFuel => None
    end.

  (* observable agreement of an expression statement: same trace, same
     completion kind, same thrown value *)
  Definition same_effects (a b : option (trace * outcome)) : Prop :=
    match a, b with
    | Some (t1, Val _), Some (t2, Val _) => t1 = t2
    | Some (t1, Throw x), Some (t2, Throw y) => t1 = t2 /\ x = y
    | _, _ => False
    end.

  (* agreement in a boolean context *)
  Definition same_truthiness (a b : option (trace * outcome)) : Prop :=
    match a, b with
    | Some (t1, Val x), Some (t2, Val y) => t1 = t2 /\ truthy x = truthy y
    | Some (t1, Throw x), Some (t2, Throw y) => t1 = t2 /\ x = y
    | _, _ => False
    end.
End Semantics.

(* 7.2.14 IsLooselyEqual restricted to primitive operands of the kinds the
   equality table of CheckEqualityIfNoSideEffects answers for:
   1. same type -> IsStrictlyEqual; 2-3. null/undefined pair -> true;
   9-10. a Boolean operand is replaced by ToNumber of it; 14. otherwise false
   (a null/undefined operand against any other primitive).
   None: pairs outside the table (Number/String, BigInt/Number, ...). *)
Definition bool_to_number (b : bool) : num := num_of_Z (if b then 1 else 0).
Definition spec_loose_eq (x y : value) : option bool :=
  match x, y with
  | (VUndef | VNull), (VUndef | VNull) => Some true
  | (VUndef | VNull), (VBool _ | VNum _ | VBig _ | VStr _ | VSym _) => Some false
  | (VBool _ | VNum _ | VBig _ | VStr _ | VSym _), (VUndef | VNull) => Some false
  | VBool a, VBool b => Some (Bool.eqb a b)
  | VBool a, VNum n => Some (num_eq (bool_to_number a) n)
  | VNum n, VBool b => Some (num_eq n (bool_to_number b))
  | VNum a, VNum b => Some (num_eq a b)
  | VBig a, VBig b => Some (a =? b)
  | VStr a, VStr b => Some (zlist_eqb a b)
  | _, _ => None
  end.

(* value of a bare literal (possibly an inlined enum constant) *)
Fixpoint lit_value (e : expr) : option value :=
  match e with
  | ENull => Some VNull
  | EUndefined => Some VUndef
  | EBool b => Some (VBool b)
  | ENum n => Some (VNum n)
  | EStr s => Some (VStr s)
  | EBig s => match big_value s with Some z => Some (VBig z) | None => None end
  | EInlinedEnum v => lit_value v
  | _ => None
  end.
