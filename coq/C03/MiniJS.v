(* C03 specification side, part 2: MiniJS, a big-step semantics with probe
   traces for the expression fragment on which the helper rewrites are proved
   sound.  Written from ECMA-262 (13.5 unary operators, 13.10-13.14 relational,
   equality, logical, conditional, comma; 7.1.2 ToBoolean; 7.2.15
   IsStrictlyEqual), not from esbuild's code.

   * values: primitives, objects with an identity (returned by probes), literal
     objects (no identity), symbols, functions;
   * every operation that can run user code is a parameter of the WORLD and may
     emit any trace and complete normally or abruptly, as a function of its
     operands and of the time (length of the trace so far): calls, new,
     property reads (getters, Proxy traps), ToPropertyKey, ToString in template
     literals, spread/iteration, unary + - ~, arithmetic/relational/equality
     operators on arbitrary operands.  Two evaluations of the same operation
     at different times may differ;
   * reading a bound identifier is pure (exclusions NoTDZ / ReadsArePure of the
     property); reading an unbound one throws ReferenceError unless the global
     exists; typeof of an unbound identifier never throws;
   * operators that may run user code (valueOf/toString of objects) or whose
     numeric result is not needed by any rewrite are section parameters
     [un_sem], [bin_sem]: every theorem holds for all of them;
   * covered: every constructor of Tree.expr except class expressions,
     assignments, ++/-- and delete: those evaluate to None and are excluded
     from the theorems' hypotheses (eval e = Some _);
   * optional chains (13.3.9): a node with oc = 1 (a?.b) short-circuits the whole
     chain when its target is null/undefined; a node with oc = 2 continues the
     chain of its target; any other context ends the chain.  Short-circuiting is
     the internal abrupt completion Throw VShort, caught where the chain ends; a
     world operation throwing that marker is outside the semantics (None);
   * the receiver (this) of a method call is not tracked: the callee value
     returned by the property read stands for the bound method. *)
From V Require Import Common.Base C03.Num C03.Tree.

Inductive value :=
| VUndef | VNull | VBool (b : bool) | VNum (n : num) | VBig (z : Z) | VStr (s : list Z)
| VObj (id : Z)        (* object with identity (from a probe) *)
| VObjLit              (* object created by a literal: {} /re/ *)
| VArr                 (* array created by a literal *)
| VFun                 (* function created by a literal *)
| VSym (id : Z)
| VShort.              (* internal: completion marker of a short-circuited optional chain; never a world's throw *)

Inductive outcome := Val (v : value) | Throw (v : value).
Definition trace := list Z.

Definition truthy (v : value) : bool :=
  match v with
  | VUndef | VNull => false
  | VBool b => b
  | VNum n => negb (is_zero n) && negb (is_nan n)
  | VBig z => negb (z =? 0)
  | VStr s => match s with [] => false | _ => true end
  | _ => true
  end.

Definition nullish (v : value) : bool := match v with VUndef | VNull => true | _ => false end.

Definition s_undefined : list Z := [117; 110; 100; 101; 102; 105; 110; 101; 100].
Definition s_object : list Z := [111; 98; 106; 101; 99; 116].
Definition s_boolean : list Z := [98; 111; 111; 108; 101; 97; 110].
Definition s_number : list Z := [110; 117; 109; 98; 101; 114].
Definition s_bigint : list Z := [98; 105; 103; 105; 110; 116].
Definition s_string : list Z := [115; 116; 114; 105; 110; 103].
Definition s_symbol : list Z := [115; 121; 109; 98; 111; 108].
Definition s_function : list Z := [102; 117; 110; 99; 116; 105; 111; 110].
Definition s_TypeError : list Z := [84; 121; 112; 101; 69; 114; 114; 111; 114].
Definition s_ReferenceError : list Z := [82; 101; 102; 101; 114; 101; 110; 99; 101; 69; 114; 114; 111; 114].

Definition typeof_value (v : value) : list Z :=
  match v with
  | VUndef => s_undefined | VNull => s_object | VBool _ => s_boolean | VNum _ => s_number
  | VBig _ => s_bigint | VStr _ => s_string | VObj _ | VObjLit | VArr => s_object | VFun => s_function
  | VSym _ => s_symbol
  | VShort => s_undefined
  end.

(* 7.2.15 IsStrictlyEqual; None when it would compare the identity of an
   object created by a literal (not tracked) *)
Definition strict_eq (a b : value) : option bool :=
  match a, b with
  | VUndef, VUndef | VNull, VNull => Some true
  | VBool x, VBool y => Some (Bool.eqb x y)
  | VNum x, VNum y => Some (num_eq x y)
  | VBig x, VBig y => Some (x =? y)
  | VStr x, VStr y => Some (zlist_eqb x y)
  | VObj x, VObj y => Some (x =? y)
  | VSym x, VSym y => Some (x =? y)
  | (VObjLit | VArr | VFun), (VObjLit | VArr | VFun | VObj _) => None
  | VObj _, (VObjLit | VArr | VFun) => None
  | _, _ => Some false
  end.

(* decimal bigint literal text (no radix prefix) *)
Fixpoint dec_value (l : list Z) (acc : Z) : option Z :=
  match l with
  | [] => Some acc
  | c :: r => if (48 <=? c) && (c <=? 57) then dec_value r (acc * 10 + (c - 48)) else None
  end.
Definition big_value (s : list Z) : option Z :=
  match s with
  | [] => None
  | [c] => dec_value s 0
  | c :: _ => if c =? 48 then None else dec_value s 0      (* leading 0: radix literal or invalid *)
  end.

(* The world: everything esbuild cannot see. *)
Record world := {
  w_unbound : Z -> bool;              (* esbuild's view: identifier not declared in the code *)
  w_lenv : Z -> value;                (* declared identifiers: always readable (NoTDZ) *)
  w_this : value;
  w_genv : Z -> option value;         (* globals: None = does not exist *)
  w_un : unop -> value -> nat -> trace * outcome;              (* + - ~ *)
  w_bin : binop -> value -> value -> nat -> trace * outcome;   (* arithmetic, relational, ==, in, instanceof *)
  w_call : value -> list value -> nat -> trace * outcome;      (* callee, arguments *)
  w_new : value -> list value -> nat -> trace * outcome;
  w_get : value -> value -> nat -> trace * outcome;            (* object, primitive key: getters / traps *)
  w_tokey : value -> nat -> trace * outcome;                   (* ToPropertyKey *)
  w_tostr : value -> nat -> trace * outcome;                   (* ToString of a template substitution *)
  w_spread : value -> nat -> trace * outcome                   (* iteration / CopyDataProperties of a spread operand *)
}.

Inductive lres := LVals (vs : list value) | LThrow (x : value).

Section Semantics.
  Variable W : world.

  Definition bind (r : option (trace * outcome)) (k : trace -> value -> option (trace * outcome)) : option (trace * outcome) :=
    match r with
    | Some (tr, Val v) => k tr v
    | Some (tr, Throw x) => Some (tr, Throw x)
    | None => None
    end.

  (* an effectful step of the world performed at the current time *)
  Definition eff (tr : trace) (f : nat -> trace * outcome) : option (trace * outcome) :=
    let '(t2, o) := f (length tr) in
    match o with
    | Throw VShort => None
    | _ => Some (tr ++ t2, o)
    end.



  Definition lbind (r : option (trace * lres)) (k : trace -> list value -> option (trace * outcome)) : option (trace * outcome) :=
    match r with
    | Some (tr, LVals vs) => k tr vs
    | Some (tr, LThrow x) => Some (tr, Throw x)
    | None => None
    end.

  Definition neg_outcome (r : option (trace * outcome)) : option (trace * outcome) :=
    match r with
    | Some (tr, Val (VBool b)) => Some (tr, Val (VBool (negb b)))
    | Some (tr, Val _) => None                       (* an equality operator always yields a boolean *)
    | other => other
    end.

  Definition is_sem_binop (op : binop) : bool :=
    match op with
    | BAdd | BSub | BMul | BDiv | BRem | BPow | BLt | BLe | BGt | BGe | BIn | BInstanceof
    | BShl | BShr | BUShr | BBitOr | BBitAnd | BBitXor => true
    | _ => false
    end.

  Definition apply_bin (op : binop) (tr : trace) (a b : value) : option (trace * outcome) :=
    eff tr (w_bin W op a b).

  Definition is_object (v : value) : bool :=
    match v with VObj _ | VObjLit | VArr | VFun => true | _ => false end.

  (* a + b: a symbol operand that survives ToPrimitive makes ToString/ToNumber
     throw a TypeError (7.1.17, 7.1.4); everything else is the world's *)
  Definition add_values (tr : trace) (x y : value) : option (trace * outcome) :=
    if is_object x || is_object y then apply_bin BAdd tr x y
    else match x, y with
         | VSym _, _ | _, VSym _ => Some (tr, Throw (VStr s_TypeError))
         | _, _ => apply_bin BAdd tr x y
         end.

  (* one step of a list evaluation: run k on an element, accumulate *)
  Definition lstep (r : option (trace * outcome)) (acc : list value)
             (k : trace -> list value -> option (trace * lres)) : option (trace * lres) :=
    match r with
    | Some (tr, Val v) => k tr (acc ++ [v])
    | Some (tr, Throw x) => Some (tr, LThrow x)
    | None => None
    end.

  (* a link that continues the optional chain of its target (OptionalChainContinue):
     every flag other than 0 (none) and 1 (start) *)
  Definition is_cont (oc : Z) : bool := negb (oc =? 0) && negb (oc =? 1).

  (* end of an optional chain *)
  Definition catch_short (r : option (trace * outcome)) : option (trace * outcome) :=
    match r with
    | Some (t, Throw VShort) => Some (t, Val VUndef)
    | _ => r
    end.

  (* the steps of the three chain-capable nodes, given the evaluated target *)
  Definition short_if (oc : Z) (tr : trace) (v : value) (k : option (trace * outcome)) : option (trace * outcome) :=
    if (oc =? 1) && nullish v then Some (tr, Throw VShort) else k.
  Definition dot_step (rt : option (trace * outcome)) (name : list Z) (oc : Z) : option (trace * outcome) :=
    bind rt (fun tr1 ov => short_if oc tr1 ov (eff tr1 (w_get W ov (VStr name)))).
  Definition index_step (rt : option (trace * outcome)) (evi : trace -> option (trace * outcome)) (oc : Z) : option (trace * outcome) :=
    bind rt (fun tr1 ov => short_if oc tr1 ov
      (bind (evi tr1) (fun tr2 kv => bind (eff tr2 (w_tokey W kv)) (fun tr3 key => eff tr3 (w_get W ov key))))).
  Definition call_step (rt : option (trace * outcome)) (evargs : trace -> option (trace * lres)) (oc : Z) : option (trace * outcome) :=
    bind rt (fun tr1 fv => short_if oc tr1 fv (lbind (evargs tr1) (fun tr2 vs => eff tr2 (w_call W fv vs)))).

  Notation evaluator := (trace -> expr -> option (trace * outcome)).

  (* call / new arguments and array items: left to right; a spread operand is
     evaluated and then iterated by the world; holes are skipped *)
  Fixpoint eval_items_with (ev : evaluator) (tr : trace) (l : list expr) (acc : list value) {struct l}
    : option (trace * lres) :=
    match l with
    | [] => Some (tr, LVals acc)
    | x :: r =>
        match x with
        | ESpread v => lstep (bind (ev tr v) (fun tr1 xv => eff tr1 (w_spread W xv))) acc
                             (fun tr2 acc2 => eval_items_with ev tr2 r acc2)
        | EMissing => eval_items_with ev tr r acc
        | _ => lstep (ev tr x) acc (fun tr2 acc2 => eval_items_with ev tr2 r acc2)
        end
    end.

  (* object literal properties: kind 1 = spread (CopyDataProperties runs
     getters), computed keys go through ToPropertyKey *)
  Fixpoint eval_props_with (ev : evaluator) (tr : trace) (l : list (Z * bool * expr * expr)) {struct l}
    : option (trace * outcome) :=
    match l with
    | [] => Some (tr, Val VObjLit)
    | (kind, computed, key, value) :: r =>
        if kind =? 1 then
          bind (ev tr value) (fun tr1 xv => bind (eff tr1 (w_spread W xv)) (fun tr2 _ => eval_props_with ev tr2 r))
        else if computed then
          bind (ev tr key) (fun tr1 kv => bind (eff tr1 (w_tokey W kv)) (fun tr2 _ =>
            bind (ev tr2 value) (fun tr3 _ => eval_props_with ev tr3 r)))
        else bind (ev tr value) (fun tr1 _ => eval_props_with ev tr1 r)
    end.

  (* template literal: every substitution is evaluated and converted by ToString *)
  Fixpoint eval_parts_with (ev : evaluator) (tr : trace) (l : list (expr * list Z)) (acc : list Z) {struct l}
    : option (trace * outcome) :=
    match l with
    | [] => Some (tr, Val (VStr acc))
    | (v, tail) :: r =>
        bind (ev tr v) (fun tr1 x => bind (eff tr1 (w_tostr W x)) (fun tr2 sv =>
          match sv with
          | VStr s => eval_parts_with ev tr2 r (acc ++ s ++ tail)
          | _ => None                      (* ToString yields a string *)
          end))
    end.

  Fixpoint eval (tr : trace) (e : expr) {struct e} : option (trace * outcome) :=
    let eval_items :=
      fix go (tr : trace) (l : list expr) (acc : list value) {struct l} : option (trace * lres) :=
        match l with
        | [] => Some (tr, LVals acc)
        | x :: r =>
            match x with
            | ESpread v => lstep (bind (eval tr v) (fun tr1 xv => eff tr1 (w_spread W xv))) acc (fun tr2 acc2 => go tr2 r acc2)
            | EMissing => go tr r acc
            | _ => lstep (eval tr x) acc (fun tr2 acc2 => go tr2 r acc2)
            end
        end in
    match e with
    | ENull => Some (tr, Val VNull)
    | EUndefined => Some (tr, Val VUndef)
    | EThis => Some (tr, Val (w_this W))
    | EBool b => Some (tr, Val (VBool b))
    | ENum n => Some (tr, Val (VNum n))
    | EBig s => match big_value s with Some z => Some (tr, Val (VBig z)) | None => None end
    | EStr s => Some (tr, Val (VStr s))
    | ERegExp _ => Some (tr, Val VObjLit)
    | EFunc _ | EArrow _ => Some (tr, Val VFun)
    | EId ref _ _ =>
        if w_unbound W ref then
          match w_genv W ref with
          | Some v => Some (tr, Val v)
          | None => Some (tr, Throw (VStr s_ReferenceError))
          end
        else Some (tr, Val (w_lenv W ref))
    | EDot t name oc _ _ =>
        catch_short (dot_step (if is_cont oc then eval_raw tr t else eval tr t) name oc)
    | EIndex t i oc =>
        catch_short (index_step (if is_cont oc then eval_raw tr t else eval tr t) (fun tr1 => eval tr1 i) oc)
    | ECall t args oc _ =>
        catch_short (call_step (if is_cont oc then eval_raw tr t else eval tr t) (fun tr1 => eval_items tr1 args []) oc)
    | ENew t args _ =>
        bind (eval tr t) (fun tr1 fv => lbind (eval_items tr1 args []) (fun tr2 vs => eff tr2 (w_new W fv vs)))
    | EArray items => lbind (eval_items tr items []) (fun tr1 _ => Some (tr1, Val VArr))
    | EObject props =>
        (fix go (tr : trace) (l : list (Z * bool * expr * expr)) {struct l} : option (trace * outcome) :=
           match l with
           | [] => Some (tr, Val VObjLit)
           | (kind, computed, key, value) :: r =>
               if kind =? 1 then
                 bind (eval tr value) (fun tr1 xv => bind (eff tr1 (w_spread W xv)) (fun tr2 _ => go tr2 r))
               else if computed then
                 bind (eval tr key) (fun tr1 kv => bind (eff tr1 (w_tokey W kv)) (fun tr2 _ =>
                   bind (eval tr2 value) (fun tr3 _ => go tr3 r)))
               else bind (eval tr value) (fun tr1 _ => go tr1 r)
           end) tr props
    | ETemplate head parts =>
        (fix go (tr : trace) (l : list (expr * list Z)) (acc : list Z) {struct l} : option (trace * outcome) :=
           match l with
           | [] => Some (tr, Val (VStr acc))
           | (v, tail) :: r =>
               bind (eval tr v) (fun tr1 x => bind (eff tr1 (w_tostr W x)) (fun tr2 sv =>
                 match sv with
                 | VStr s => go tr2 r (acc ++ s ++ tail)
                 | _ => None
                 end))
           end) tr parts head
    | EAnnot v _ => eval tr v
    | EInlinedEnum v => eval tr v
    | EUn op v w =>
        match op with
        | UNot => bind (eval tr v) (fun tr1 x => Some (tr1, Val (VBool (negb (truthy x)))))
        | UVoid => bind (eval tr v) (fun tr1 _ => Some (tr1, Val VUndef))
        | UTypeof =>
            (* "typeof x" on a bare identifier never throws; a node whose operand
               became an identifier later (w = false) stands for "typeof (0, x)" *)
            match v with
            | EId ref _ _ =>
                if w then
                  if w_unbound W ref then
                    match w_genv W ref with
                    | Some x => Some (tr, Val (VStr (typeof_value x)))
                    | None => Some (tr, Val (VStr s_undefined))
                    end
                  else Some (tr, Val (VStr (typeof_value (w_lenv W ref))))
                else bind (eval tr v) (fun tr1 x => Some (tr1, Val (VStr (typeof_value x))))
            | _ => bind (eval tr v) (fun tr1 x => Some (tr1, Val (VStr (typeof_value x))))
            end
        | UPos | UNeg | UCpl => bind (eval tr v) (fun tr1 x => eff tr1 (w_un W op x))
        | _ => None
        end
    | EBin op l r =>
        match op with
        | BComma => bind (eval tr l) (fun tr1 _ => eval tr1 r)
        | BLogAnd => bind (eval tr l) (fun tr1 x => if truthy x then eval tr1 r else Some (tr1, Val x))
        | BLogOr => bind (eval tr l) (fun tr1 x => if truthy x then Some (tr1, Val x) else eval tr1 r)
        | BNullish => bind (eval tr l) (fun tr1 x => if nullish x then eval tr1 r else Some (tr1, Val x))
        | BStrictEq =>
            bind (eval tr l) (fun tr1 x => bind (eval tr1 r) (fun tr2 y =>
              match strict_eq x y with Some b => Some (tr2, Val (VBool b)) | None => None end))
        | BStrictNe =>
            bind (eval tr l) (fun tr1 x => bind (eval tr1 r) (fun tr2 y =>
              match strict_eq x y with Some b => Some (tr2, Val (VBool (negb b))) | None => None end))
        | BLooseEq =>
            bind (eval tr l) (fun tr1 x => bind (eval tr1 r) (fun tr2 y => apply_bin BLooseEq tr2 x y))
        | BLooseNe =>
            neg_outcome (bind (eval tr l) (fun tr1 x => bind (eval tr1 r) (fun tr2 y => apply_bin BLooseEq tr2 x y)))
        | BAdd =>
            bind (eval tr l) (fun tr1 x => bind (eval tr1 r) (fun tr2 y => add_values tr2 x y))
        | _ =>
            if is_sem_binop op then
              bind (eval tr l) (fun tr1 x => bind (eval tr1 r) (fun tr2 y => apply_bin op tr2 x y))
            else None
        end
    | EIf t y n =>
        bind (eval tr t) (fun tr1 x => if truthy x then eval tr1 y else eval tr1 n)
    | _ => None
    end
  (* the same three nodes without ending the chain: used for the target of an oc = 2 node *)
  with eval_raw (tr : trace) (e : expr) {struct e} : option (trace * outcome) :=
    let eval_items :=
      fix go (tr : trace) (l : list expr) (acc : list value) {struct l} : option (trace * lres) :=
        match l with
        | [] => Some (tr, LVals acc)
        | x :: r =>
            match x with
            | ESpread v => lstep (bind (eval tr v) (fun tr1 xv => eff tr1 (w_spread W xv))) acc (fun tr2 acc2 => go tr2 r acc2)
            | EMissing => go tr r acc
            | _ => lstep (eval tr x) acc (fun tr2 acc2 => go tr2 r acc2)
            end
        end in
    match e with
    | EDot t name oc _ _ => dot_step (if is_cont oc then eval_raw tr t else eval tr t) name oc
    | EIndex t i oc => index_step (if is_cont oc then eval_raw tr t else eval tr t) (fun tr1 => eval tr1 i) oc
    | ECall t args oc _ => call_step (if is_cont oc then eval_raw tr t else eval tr t) (fun tr1 => eval_items tr1 args []) oc
    | _ => None
    end.

  (* the target of a chain-capable node *)
  Definition eval_target (oc : Z) (tr : trace) (t : expr) : option (trace * outcome) :=
    if is_cont oc then eval_raw tr t else eval tr t.

  (* the local list evaluators of [eval] are the named ones *)
  Lemma items_local_eq : forall args tr acc,
    (fix go (tr : trace) (l : list expr) (acc : list value) {struct l} : option (trace * lres) :=
        match l with
        | [] => Some (tr, LVals acc)
        | x :: r =>
            match x with
            | ESpread v => lstep (bind (eval tr v) (fun tr1 xv => eff tr1 (w_spread W xv))) acc (fun tr2 acc2 => go tr2 r acc2)
            | EMissing => go tr r acc
            | _ => lstep (eval tr x) acc (fun tr2 acc2 => go tr2 r acc2)
            end
        end) tr args acc = eval_items_with eval tr args acc.
  Proof.
    induction args as [|x r IH]; intros tr acc; [reflexivity|].
    cbn [eval_items_with]. destruct x; try (unfold lstep; destruct (eval tr _) as [[t0 [v|v]]|]; try reflexivity; apply IH).
    - apply IH.
    - unfold lstep. destruct (bind _ _) as [[t0 [v|v]]|]; try reflexivity. apply IH.
  Qed.

  Lemma call_step_ext : forall rt f g oc, (forall t, f t = g t) -> call_step rt f oc = call_step rt g oc.
  Proof.
    intros rt f g oc H. unfold call_step. destruct rt as [[t [v|v]]|]; cbn [bind]; try reflexivity.
    unfold short_if. destruct ((oc =? 1) && nullish v); [reflexivity|]. rewrite H. reflexivity.
  Qed.

  Lemma eval_call_eq : forall t args oc p tr,
    eval tr (ECall t args oc p) =
    catch_short (call_step (eval_target oc tr t) (fun tr1 => eval_items_with eval tr1 args []) oc).
  Proof.
    intros t args oc p tr. cbn [eval]. unfold eval_target. f_equal.
    apply call_step_ext. intros t0. apply items_local_eq.
  Qed.

  Lemma eval_raw_call_eq : forall t args oc p tr,
    eval_raw tr (ECall t args oc p) =
    call_step (eval_target oc tr t) (fun tr1 => eval_items_with eval tr1 args []) oc.
  Proof.
    intros t args oc p tr. cbn [eval_raw]. unfold eval_target.
    apply call_step_ext. intros t0. apply items_local_eq.
  Qed.

  Lemma eval_dot_eq : forall t name oc c s tr,
    eval tr (EDot t name oc c s) = catch_short (dot_step (eval_target oc tr t) name oc).
  Proof. reflexivity. Qed.
  Lemma eval_index_eq : forall t i oc tr,
    eval tr (EIndex t i oc) = catch_short (index_step (eval_target oc tr t) (fun tr1 => eval tr1 i) oc).
  Proof. reflexivity. Qed.

  Lemma eval_array_eq : forall items tr,
    eval tr (EArray items) = lbind (eval_items_with eval tr items []) (fun tr1 _ => Some (tr1, Val VArr)).
  Proof. intros items tr. cbn [eval]. f_equal. apply items_local_eq. Qed.

  Lemma eval_new_eq : forall t args p tr,
    eval tr (ENew t args p) =
    bind (eval tr t) (fun tr1 fv => lbind (eval_items_with eval tr1 args []) (fun tr2 vs => eff tr2 (w_new W fv vs))).
  Proof.
    intros t args p tr. cbn [eval].
    destruct (eval tr t) as [[tr1 [fv|x]]|]; cbn [bind]; try reflexivity. f_equal. apply items_local_eq.
  Qed.

  Lemma bind_ext : forall r k1 k2, (forall t v, k1 t v = k2 t v) -> bind r k1 = bind r k2.
  Proof. intros [[t [v|x]]|] k1 k2 H; cbn; auto. Qed.

  Lemma eval_object_eq : forall props tr, eval tr (EObject props) = eval_props_with eval tr props.
  Proof.
    intros props tr. cbn [eval]. revert tr.
    induction props as [|[[[kind computed] key] value] r IH]; intros tr; [reflexivity|].
    cbn [eval_props_with]. destruct (kind =? 1); [|destruct computed].
    - apply bind_ext; intros. apply bind_ext; intros. apply IH.
    - apply bind_ext; intros. apply bind_ext; intros. apply bind_ext; intros. apply IH.
    - apply bind_ext; intros. apply IH.
  Qed.

  Lemma eval_template_eq : forall head parts tr, eval tr (ETemplate head parts) = eval_parts_with eval tr parts head.
  Proof.
    intros head parts tr. cbn [eval]. revert tr head.
    induction parts as [|[v tail] r IH]; intros tr head; [reflexivity|].
    cbn [eval_parts_with]. apply bind_ext; intros. apply bind_ext; intros t1 sv. destruct sv; try reflexivity. apply IH.
  Qed.

  (* evaluation of a possibly removed expression statement *)
  Definition eval_unused (tr : trace) (r : ures) : option (trace * outcome) :=
    match r with
    | UNil => Some (tr, Val VUndef)
    | UExpr e => eval tr e
    | UFuel => None
    end.

  (* observable agreement of an expression statement: same trace, same
     completion kind, same thrown value *)
  Definition same_effects (a b : option (trace * outcome)) : Prop :=
    match a, b with
    | Some (t1, Val _), Some (t2, Val _) => t1 = t2
    | Some (t1, Throw x), Some (t2, Throw y) => t1 = t2 /\ x = y
    | _, _ => False
    end.

  (* agreement in a boolean context *)
  Definition same_truthiness (a b : option (trace * outcome)) : Prop :=
    match a, b with
    | Some (t1, Val x), Some (t2, Val y) => t1 = t2 /\ truthy x = truthy y
    | Some (t1, Throw x), Some (t2, Throw y) => t1 = t2 /\ x = y
    | _, _ => False
    end.
End Semantics.

(* 7.2.14 IsLooselyEqual restricted to primitive operands of the kinds the
   equality table of CheckEqualityIfNoSideEffects answers for:
   1. same type -> IsStrictlyEqual; 2-3. null/undefined pair -> true;
   9-10. a Boolean operand is replaced by ToNumber of it; 14. otherwise false
   (a null/undefined operand against any other primitive).
   None: pairs outside the table (Number/String, BigInt/Number, ...). *)
Definition bool_to_number (b : bool) : num := num_of_Z (if b then 1 else 0).
Definition spec_loose_eq (x y : value) : option bool :=
  match x, y with
  | (VUndef | VNull), (VUndef | VNull) => Some true
  | (VUndef | VNull), (VBool _ | VNum _ | VBig _ | VStr _ | VSym _) => Some false
  | (VBool _ | VNum _ | VBig _ | VStr _ | VSym _), (VUndef | VNull) => Some false
  | VBool a, VBool b => Some (Bool.eqb a b)
  | VBool a, VNum n => Some (num_eq (bool_to_number a) n)
  | VNum n, VBool b => Some (num_eq n (bool_to_number b))
  | VNum a, VNum b => Some (num_eq a b)
  | VBig a, VBig b => Some (a =? b)
  | VStr a, VStr b => Some (zlist_eqb a b)
  | _, _ => None
  end.

(* value of a bare literal (possibly an inlined enum constant) *)
Fixpoint lit_value (e : expr) : option value :=
  match e with
  | ENull => Some VNull
  | EUndefined => Some VUndef
  | EBool b => Some (VBool b)
  | ENum n => Some (VNum n)
  | EStr s => Some (VStr s)
  | EBig s => match big_value s with Some z => Some (VBig z) | None => None end
  | EInlinedEnum v => lit_value v
  | _ => None
  end.
