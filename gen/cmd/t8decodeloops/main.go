// t8decodeloops: translator T8b (property C16). Inventory of every call of a
// rune decoder (utf8.DecodeRuneInString, utf8.DecodeRune,
// utf8.DecodeLastRuneInString, utf8.DecodeLastRune, helpers.DecodeWTF8Rune)
// that is lexically inside a loop, with a syntactic classification of what
// keeps the loop from spinning when the decoder returns width 0 at the end of
// the input (the defect class of findings C16-truncated-utf8-hang and
// C16-css-identifier-range-hang).
// usage: t8decodeloops <repo> <outdir>   writes <outdir>/DecodeLoopsGen.v
// Fails closed if a package cannot be parsed or fewer sites than expected are found.
package main

import (
	"fmt"
	"go/ast"
	"go/parser"
	"go/token"
	"os"
	"path/filepath"
	"sort"
	"strings"
)

var pkgs = []string{"internal/css_lexer", "internal/css_parser", "internal/js_lexer", "internal/js_parser", "internal/helpers", "internal/logger",
	"internal/js_printer", "internal/css_printer", "internal/sourcemap", "internal/bundler", "internal/linker", "internal/resolver", "pkg/api", "pkg/cli", "cmd/esbuild"}

func die(format string, a ...interface{}) {
	fmt.Fprintf(os.Stderr, "t8decodeloops: "+format+"\n", a...)
	os.Exit(1)
}

func exprText(e ast.Expr) string {
	switch v := e.(type) {
	case *ast.Ident:
		return v.Name
	case *ast.SelectorExpr:
		return exprText(v.X) + "." + v.Sel.Name
	}
	return "?"
}

func isDecoder(c *ast.CallExpr) string {
	t := exprText(c.Fun)
	switch t {
	case "utf8.DecodeRuneInString", "utf8.DecodeRune", "utf8.DecodeLastRuneInString", "utf8.DecodeLastRune", "helpers.DecodeWTF8Rune", "DecodeWTF8Rune":
		return t
	}
	return ""
}

func q(s string) string {
	var sb strings.Builder
	sb.WriteByte('"')
	for _, c := range s {
		switch {
		case c == '"':
			sb.WriteString("\"\"")
		case c < 0x20 || c > 0x7E:
			sb.WriteByte('?')
		default:
			sb.WriteRune(c)
		}
	}
	sb.WriteByte('"')
	return sb.String()
}

func recvName(fd *ast.FuncDecl) string {
	if fd.Recv == nil || len(fd.Recv.List) == 0 {
		return ""
	}
	t := fd.Recv.List[0].Type
	for {
		switch v := t.(type) {
		case *ast.StarExpr:
			t = v.X
			continue
		case *ast.Ident:
			return v.Name + "."
		}
		return "?."
	}
}

// mentionsLenOrBound: the condition compares something with len(...) or with an identifier (i < n, p >= end)
func isBoundCond(e ast.Expr) bool {
	found := false
	ast.Inspect(e, func(x ast.Node) bool {
		if b, ok := x.(*ast.BinaryExpr); ok {
			switch b.Op {
			case token.LSS, token.LEQ, token.GTR, token.GEQ, token.EQL, token.NEQ:
				found = true
			}
		}
		return !found
	})
	return found
}

func hasExit(b *ast.BlockStmt) bool {
	found := false
	ast.Inspect(b, func(x ast.Node) bool {
		switch v := x.(type) {
		case *ast.FuncLit:
			return false
		case *ast.BranchStmt:
			if v.Tok == token.BREAK || v.Tok == token.GOTO {
				found = true
			}
		case *ast.ReturnStmt:
			found = true
		}
		return !found
	})
	return found
}

// comparesWithZero: `name == 0`, `name <= 0`, `name < 1`, `name > 0`, `name != 0`, `name >= 1`
func comparesWithZero(n ast.Node, name string) bool {
	found := false
	ast.Inspect(n, func(x ast.Node) bool {
		if b, ok := x.(*ast.BinaryExpr); ok {
			if id, ok := b.X.(*ast.Ident); ok && id.Name == name {
				if l, ok := b.Y.(*ast.BasicLit); ok && (l.Value == "0" || l.Value == "1") {
					found = true
				}
			}
		}
		return !found
	})
	return found
}

type site struct {
	pkg, fn, decoder, loop, guard string
	ord                           int
}

func main() {
	if len(os.Args) != 3 {
		die("usage: t8decodeloops <repo> <outdir>")
	}
	repo, outdir := os.Args[1], os.Args[2]
	var sites []site
	nAll := 0
	for _, dir := range pkgs {
		matches, _ := filepath.Glob(filepath.Join(repo, dir, "*.go"))
		sort.Strings(matches)
		fset := token.NewFileSet()
		nfiles := 0
		for _, f := range matches {
			base := filepath.Base(f)
			if strings.HasSuffix(base, "_test.go") || strings.HasPrefix(base, "export_verif") {
				continue
			}
			af, err := parser.ParseFile(fset, f, nil, 0)
			if err != nil {
				die("cannot parse %s: %v", f, err)
			}
			nfiles++
			for _, d := range af.Decls {
				fd, ok := d.(*ast.FuncDecl)
				if !ok || fd.Body == nil {
					continue
				}
				fname := recvName(fd) + fd.Name.Name
				ord := 0
				// walk with a stack of enclosing loops
				var stack []ast.Node
				var visit func(n ast.Node)
				visit = func(n ast.Node) {
					if n == nil {
						return
					}
					switch v := n.(type) {
					case *ast.ForStmt, *ast.RangeStmt:
						stack = append(stack, v)
						defer func() { stack = stack[:len(stack)-1] }()
					case *ast.FuncLit:
						saved := stack
						stack = nil
						defer func() { stack = saved }()
					case *ast.AssignStmt:
						// c, width := decode(...)
						if len(v.Rhs) == 1 {
							if call, ok := v.Rhs[0].(*ast.CallExpr); ok {
								if dec := isDecoder(call); dec != "" {
									nAll++
									if len(stack) > 0 {
										width := "_"
										if len(v.Lhs) == 2 {
											if id, ok := v.Lhs[1].(*ast.Ident); ok {
												width = id.Name
											}
										}
										loop := stack[len(stack)-1]
										s := site{pkg: dir, fn: fname, decoder: dec, ord: ord}
										ord++
										switch l := loop.(type) {
										case *ast.RangeStmt:
											s.loop, s.guard = "range", "range"
										case *ast.ForStmt:
											s.loop = "for"
											switch {
											case l.Cond != nil:
												s.loop, s.guard = "for-cond", "cond"
											default:
												s.guard = "none"
												// an exit guarded by a comparison before the decode in the loop body
												for _, st := range l.Body.List {
													if st.Pos() >= v.Pos() {
														break
													}
													if is, ok := st.(*ast.IfStmt); ok && isBoundCond(is.Cond) && hasExit(is.Body) {
														s.guard = "exit-before"
													}
												}
												if s.guard == "none" && width != "_" && comparesWithZero(l.Body, width) {
													s.guard = "width-check"
												}
											}
										}
										// a for-cond loop nested in an unconditional one is judged by its own condition only
										sites = append(sites, s)
									}
								}
							}
						}
					}
					// generic traversal of children
					ast.Inspect(n, func(x ast.Node) bool {
						if x == n {
							return true
						}
						if x != nil {
							visit(x)
						}
						return false
					})
				}
				visit(fd.Body)
			}
		}
		if nfiles == 0 {
			die("package %s not found under %s", dir, repo)
		}
	}
	if nAll < 40 || len(sites) < 15 {
		die("decoder inventory too small: %d calls, %d inside loops", nAll, len(sites))
	}
	var sb strings.Builder
	sb.WriteString("(* GENERATED by gen/cmd/t8decodeloops from the Go sources - do not edit *)\n")
	sb.WriteString("From Coq Require Import List String.\nImport ListNotations.\nOpen Scope string_scope.\n\n")
	sb.WriteString("(* a rune-decoder call lexically inside a loop.\n   dl_loop: range | for-cond | for (no condition)\n   dl_guard: range | cond | exit-before (a compared exit precedes the decode in the loop body) |\n             width-check (the returned width is compared with 0/1 in the loop body) | none *)\n")
	sb.WriteString("Record decloop := mkDL { dl_pkg : string; dl_func : string; dl_ord : nat; dl_decoder : string; dl_loop : string; dl_guard : string }.\n\n")
	sb.WriteString("Definition decode_loop_sites : list decloop := [\n")
	for i, s := range sites {
		sep := ";"
		if i == len(sites)-1 {
			sep = ""
		}
		fmt.Fprintf(&sb, "  mkDL %s %s %d %s %s %s%s\n", q(s.pkg), q(s.fn), s.ord, q(s.decoder), q(s.loop), q(s.guard), sep)
	}
	sb.WriteString("].\n\n")
	fmt.Fprintf(&sb, "Definition decoder_calls_total : nat := %d.\n", nAll)
	if err := os.MkdirAll(outdir, 0o755); err != nil {
		die("%v", err)
	}
	if err := os.WriteFile(filepath.Join(outdir, "DecodeLoopsGen.v"), []byte(sb.String()), 0o644); err != nil {
		die("%v", err)
	}
}
