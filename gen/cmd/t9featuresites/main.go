// T9: inventory of every place where the JavaScript pipeline consults a
// compat.JSFeature constant, and the disposition switch of markSyntaxFeature,
// into coq/gen/FeatureSitesGen.v.
//
//   - feature_sites: one entry per occurrence of `compat.<JSFeature>` in the
//     parser, lowering, printer, linker, helpers, bundler, resolver and runtime
//     sources, with file, enclosing function and how it is used:
//     SMark      first argument of markSyntaxFeature(...)
//     SDeferred  `feature: compat.X` field of a deferred syntaxFeature error
//     SHas       argument of <unsupported set>.Has(...)        (lower/adapt when unsupported)
//     SHasNot    same under a `!`                              (use the newer syntax when supported)
//     SOther     anything else (assignments, SymbolFeature, override fix-ups, switch cases)
//   - mark_cases / mark_default: what markSyntaxFeature does per feature once it
//     is unsupported: MNotSupportedYet ("Transforming X to ... is not supported yet"),
//     MError (own error text), MWarning (warning, continues).
//
// Std-lib only; fails closed when markSyntaxFeature changes shape.
package main

import (
	"fmt"
	"go/ast"
	"go/parser"
	"go/token"
	"os"
	"path/filepath"
	"strings"
)

func die(format string, a ...interface{}) {
	fmt.Fprintf(os.Stderr, "t9featuresites: "+format+"\n", a...)
	os.Exit(1)
}

var files = []string{
	"internal/js_parser/js_parser.go",
	"internal/js_parser/js_parser_lower.go",
	"internal/js_parser/js_parser_lower_class.go",
	"internal/js_parser/ts_parser.go",
	"internal/js_parser/json_parser.go",
	"internal/js_printer/js_printer.go",
	"internal/js_ast/js_ast_helpers.go",
	"internal/linker/linker.go",
	"internal/bundler/bundler.go",
	"internal/resolver/resolver.go",
	"internal/runtime/runtime.go",
}

func jsFeatures(repo string) map[string]bool {
	fset := token.NewFileSet()
	f, err := parser.ParseFile(fset, filepath.Join(repo, "internal/compat/js_table.go"), nil, 0)
	if err != nil {
		die("%v", err)
	}
	out := map[string]bool{}
	for _, d := range f.Decls {
		gd, ok := d.(*ast.GenDecl)
		if !ok || gd.Tok != token.CONST || len(gd.Specs) == 0 {
			continue
		}
		first := gd.Specs[0].(*ast.ValueSpec)
		if id, ok := first.Type.(*ast.Ident); !ok || id.Name != "JSFeature" {
			continue
		}
		for _, s := range gd.Specs {
			out[s.(*ast.ValueSpec).Names[0].Name] = true
		}
	}
	if len(out) < 40 {
		die("JSFeature enum not found")
	}
	return out
}

// the features compat.SymbolFeature can return (private name kinds)
func symbolFeatures(repo string, feats map[string]bool) []string {
	fset := token.NewFileSet()
	f, err := parser.ParseFile(fset, filepath.Join(repo, "internal/compat/compat.go"), nil, 0)
	if err != nil {
		die("%v", err)
	}
	var out []string
	for _, d := range f.Decls {
		fd, ok := d.(*ast.FuncDecl)
		if !ok || fd.Name.Name != "SymbolFeature" {
			continue
		}
		ast.Inspect(fd.Body, func(n ast.Node) bool {
			if rs, ok := n.(*ast.ReturnStmt); ok && len(rs.Results) == 1 {
				if id, ok := rs.Results[0].(*ast.Ident); ok && feats[id.Name] {
					out = append(out, id.Name)
				}
			}
			return true
		})
	}
	if len(out) < 4 {
		die("compat.SymbolFeature not understood")
	}
	return out
}

type site struct {
	file, fn, feature, kind string
}

func isCompatSel(e ast.Expr, feats map[string]bool) (string, bool) {
	sel, ok := e.(*ast.SelectorExpr)
	if !ok {
		return "", false
	}
	id, ok := sel.X.(*ast.Ident)
	if !ok || id.Name != "compat" || !feats[sel.Sel.Name] {
		return "", false
	}
	return sel.Sel.Name, true
}

func main() {
	if len(os.Args) != 3 {
		die("usage: t9featuresites <repo> <outdir>")
	}
	repo, outdir := os.Args[1], os.Args[2]
	feats := jsFeatures(repo)
	symFeats := symbolFeatures(repo, feats)
	var sites []site
	type markCase struct{ feature, kind string }
	var markCases []markCase
	markDefault := ""

	for _, rel := range files {
		fset := token.NewFileSet()
		f, err := parser.ParseFile(fset, filepath.Join(repo, rel), nil, 0)
		if err != nil {
			die("%v", err)
		}
		for _, d := range f.Decls {
			fd, ok := d.(*ast.FuncDecl)
			if !ok || fd.Body == nil {
				continue
			}
			fn := fd.Name.Name
			classified := map[ast.Expr]string{}
			// first pass: classify selectors by their parent
			var walk func(n ast.Node, negated bool)
			walk = func(n ast.Node, negated bool) {
				ast.Inspect(n, func(x ast.Node) bool {
					switch v := x.(type) {
					case *ast.UnaryExpr:
						if v.Op == token.NOT {
							walk(v.X, !negated)
							return false
						}
					case *ast.CallExpr:
						if sel, ok := v.Fun.(*ast.SelectorExpr); ok {
							if sel.Sel.Name == "markSyntaxFeature" && len(v.Args) >= 1 {
								if _, ok := isCompatSel(v.Args[0], feats); ok {
									classified[v.Args[0]] = "SMark"
								}
							}
							if sel.Sel.Name == "Has" && len(v.Args) == 1 {
								// Has(compat.SymbolFeature(kind)): a gate for every private-name feature
								if inner, ok := v.Args[0].(*ast.CallExpr); ok {
									if s2, ok := inner.Fun.(*ast.SelectorExpr); ok && s2.Sel.Name == "SymbolFeature" {
										if id, ok := s2.X.(*ast.Ident); ok && id.Name == "compat" {
											for _, sf := range symFeats {
												sites = append(sites, site{rel, fn, sf, map[bool]string{false: "SHas", true: "SHasNot"}[negated]})
											}
										}
									}
								}
								if _, ok := isCompatSel(v.Args[0], feats); ok {
									if negated {
										classified[v.Args[0]] = "SHasNot"
									} else {
										classified[v.Args[0]] = "SHas"
									}
								}
							}
						}
						// the negation applies to the call's value, not inside its arguments
						walk(v.Fun, false)
						for _, a := range v.Args {
							walk(a, false)
						}
						return false
					case *ast.KeyValueExpr:
						if k, ok := v.Key.(*ast.Ident); ok && k.Name == "feature" {
							if _, ok := isCompatSel(v.Value, feats); ok {
								classified[v.Value] = "SDeferred"
							}
						}
					case *ast.FuncLit:
						walk(v.Body, false)
						return false
					}
					return true
				})
			}
			walk(fd.Body, false)
			// second pass: every compat.<JSFeature> in source order
			ast.Inspect(fd.Body, func(x ast.Node) bool {
				if e, ok := x.(ast.Expr); ok {
					if name, ok := isCompatSel(e, feats); ok {
						kind := classified[e]
						if kind == "" {
							kind = "SOther"
						}
						sites = append(sites, site{rel, fn, name, kind})
					}
				}
				return true
			})

			// the disposition switch
			if fn == "markSyntaxFeature" && strings.HasSuffix(rel, "js_parser_lower.go") {
				var sw *ast.SwitchStmt
				for _, st := range fd.Body.List {
					if s, ok := st.(*ast.SwitchStmt); ok {
						if id, ok := s.Tag.(*ast.Ident); ok && id.Name == "feature" {
							sw = s
						}
					}
				}
				if sw == nil {
					die("markSyntaxFeature: switch feature not found")
				}
				// the statement after the switch must be the "not supported yet" error
				last := fd.Body.List[len(fd.Body.List)-2]
				if es, ok := last.(*ast.ExprStmt); !ok || !strings.Contains(exprText(es.X), "AddError") {
					die("markSyntaxFeature: the fall-through after the switch is not an AddError")
				}
				for _, c := range sw.Body.List {
					cc := c.(*ast.CaseClause)
					kind := classifyCase(cc.Body)
					if cc.List == nil {
						markDefault = kind
						continue
					}
					for _, e := range cc.List {
						name, ok := isCompatSel(e, feats)
						if !ok {
							die("markSyntaxFeature: case label is not a compat feature")
						}
						markCases = append(markCases, markCase{name, kind})
					}
				}
			}
		}
	}
	if len(markCases) < 15 || markDefault == "" {
		die("markSyntaxFeature: only %d cases found", len(markCases))
	}
	if len(sites) < 200 {
		die("implausibly few feature sites: %d", len(sites))
	}

	var sb strings.Builder
	w := func(format string, a ...interface{}) { fmt.Fprintf(&sb, format, a...) }
	w("(* GENERATED by gen/cmd/t9featuresites from the js_parser, js_printer, js_ast, linker, bundler,\n   resolver and runtime sources. Do not edit. *)\n")
	w("From Coq Require Import List String.\nFrom V Require Import gen.JsTableGen.\nImport ListNotations.\n\n")
	w("Inductive site_kind := SMark | SDeferred | SHas | SHasNot | SOther.\n")
	w("Inductive mark_kind := MNotSupportedYet | MError | MWarning.\n\n")
	w("(* (file, enclosing function, feature, use) in source order *)\n")
	w("Definition feature_sites : list (string * string * feature * site_kind) :=\n  [")
	for i, s := range sites {
		if i > 0 {
			w(";\n   ")
		}
		w("(%q%%string, %q%%string, F%s, %s)", s.file, s.fn, s.feature, s.kind)
	}
	w("].\n\n(* markSyntaxFeature: what happens once the feature is unsupported *)\n")
	w("Definition mark_cases : list (feature * mark_kind) :=\n  [")
	for i, c := range markCases {
		if i > 0 {
			w("; ")
		}
		w("(F%s, %s)", c.feature, c.kind)
	}
	w("].\nDefinition mark_default : mark_kind := %s.\n", markDefault)
	if err := os.MkdirAll(outdir, 0o755); err != nil {
		die("%v", err)
	}
	if err := os.WriteFile(filepath.Join(outdir, "FeatureSitesGen.v"), []byte(sb.String()), 0o644); err != nil {
		die("%v", err)
	}
}

func exprText(e ast.Expr) string {
	var sb strings.Builder
	ast.Inspect(e, func(n ast.Node) bool {
		if id, ok := n.(*ast.Ident); ok {
			sb.WriteString(id.Name + " ")
		}
		return true
	})
	return sb.String()
}

// a case body: `name = "..."` -> falls through to "not supported yet";
// AddError(...) + return -> own error; AddID(..., kind, ...) with logger.Warning -> warning
func classifyCase(body []ast.Stmt) string {
	text := ""
	for _, st := range body {
		ast.Inspect(st, func(n ast.Node) bool {
			switch v := n.(type) {
			case *ast.Ident:
				text += v.Name + " "
			case *ast.SelectorExpr:
				text += v.Sel.Name + " "
			}
			return true
		})
	}
	hasReturn := false
	for _, st := range body {
		if _, ok := st.(*ast.ReturnStmt); ok {
			hasReturn = true
		}
	}
	switch {
	case strings.Contains(text, "AddID") && strings.Contains(text, "Warning") && hasReturn:
		return "MWarning"
	case strings.Contains(text, "AddError") && hasReturn:
		return "MError"
	case len(body) == 1 && strings.HasPrefix(text, "name ") && !hasReturn:
		return "MNotSupportedYet"
	}
	die("markSyntaxFeature: unrecognised case body (%s)", text)
	return ""
}
