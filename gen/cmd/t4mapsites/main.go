// Translator T4: inventory of every `for ... range <map-typed expr>` in the
// packages whose iteration order can reach build output:
//
//	internal/linker internal/bundler internal/renamer internal/graph
//	internal/js_printer internal/css_printer pkg/api (api_impl.go)
//
// Emits coq/gen/MapSitesGen.v:
//
//	map_sites              : list (file * function * ranged expression * ordinal)
//	unresolved_range_sites : range statements whose operand type could not be
//	                         inferred (must be classified by hand as well)
//	range_stmt_count       : number of range statements inspected
//
// The operand type is inferred by a small, go/types-free type reconstruction
// over the ASTs of all esbuild packages (named types, struct fields, function
// results, local declarations).  Fails closed (non-zero exit, no file) when a
// scanned package or file is missing or cannot be parsed, or when no range
// statement at all is found in a scanned package.  Std-lib only.
package main

import (
	"bytes"
	"fmt"
	"go/ast"
	"go/parser"
	"go/printer"
	"go/token"
	"os"
	"path/filepath"
	"sort"
	"strings"
)

func die(format string, a ...interface{}) {
	fmt.Fprintf(os.Stderr, "t4mapsites: "+format+"\n", a...)
	os.Exit(1)
}

const modPath = "github.com/evanw/esbuild/"

type pkgInfo struct {
	dir           string // relative to the repo root
	name          string
	files         map[string]*ast.File
	types         map[string]ast.Expr          // named type -> type expression
	funcs         map[string]*ast.FuncType     // package-level functions
	methods       map[string]*ast.FuncType     // "Recv.Name"
	vars          map[string]typ               // package-level vars
	imports       map[string]map[string]string // file -> local name -> package dir
	localTypeFile map[string]string            // function-local type -> file
}

// a type expression together with the package (and file) it has to be read in
type typ struct {
	pkg  *pkgInfo
	file string
	e    ast.Expr
}

func (t typ) ok() bool { return t.e != nil }

var pkgs = map[string]*pkgInfo{} // by dir
var fset = token.NewFileSet()

func loadPkg(root, dir string) *pkgInfo {
	if p, ok := pkgs[dir]; ok {
		return p
	}
	p := &pkgInfo{dir: dir, files: map[string]*ast.File{}, types: map[string]ast.Expr{}, funcs: map[string]*ast.FuncType{},
		methods: map[string]*ast.FuncType{}, vars: map[string]typ{}, imports: map[string]map[string]string{}, localTypeFile: map[string]string{}}
	pkgs[dir] = p
	entries, err := os.ReadDir(filepath.Join(root, dir))
	if err != nil {
		return p // e.g. a std-lib or vendored import: stays empty
	}
	for _, e := range entries {
		n := e.Name()
		if e.IsDir() || !strings.HasSuffix(n, ".go") || strings.HasSuffix(n, "_test.go") || strings.HasPrefix(n, "export_verif") {
			continue
		}
		if strings.HasSuffix(n, "_wasm.go") || strings.HasSuffix(n, "_windows.go") || strings.HasSuffix(n, "_js.go") {
			continue
		}
		rel := filepath.ToSlash(filepath.Join(dir, n))
		f, err := parser.ParseFile(fset, filepath.Join(root, dir, n), nil, parser.SkipObjectResolution)
		if err != nil {
			die("cannot parse %s: %v", rel, err)
		}
		p.files[rel] = f
		p.name = f.Name.Name
		imp := map[string]string{}
		for _, is := range f.Imports {
			path := strings.Trim(is.Path.Value, "\"")
			local := path[strings.LastIndex(path, "/")+1:]
			if is.Name != nil {
				local = is.Name.Name
			}
			if strings.HasPrefix(path, modPath) {
				imp[local] = strings.TrimPrefix(path, modPath)
			} else {
				imp[local] = "std:" + path
			}
		}
		p.imports[rel] = imp
	}
	for rel, f := range p.files {
		for _, d := range f.Decls {
			switch d := d.(type) {
			case *ast.GenDecl:
				for _, s := range d.Specs {
					switch s := s.(type) {
					case *ast.TypeSpec:
						p.types[s.Name.Name] = s.Type
					case *ast.ValueSpec:
						for i, nm := range s.Names {
							if s.Type != nil {
								p.vars[nm.Name] = typ{p, rel, s.Type}
							} else if i < len(s.Values) {
								if cl, ok := s.Values[i].(*ast.CompositeLit); ok && cl.Type != nil {
									p.vars[nm.Name] = typ{p, rel, cl.Type}
								} else if ce, ok := s.Values[i].(*ast.CallExpr); ok {
									if id, ok := ce.Fun.(*ast.Ident); ok && id.Name == "make" && len(ce.Args) > 0 {
										p.vars[nm.Name] = typ{p, rel, ce.Args[0]}
									}
								}
							}
						}
					}
				}
			case *ast.FuncDecl:
				if d.Body != nil { // function-local type declarations
					ast.Inspect(d.Body, func(n ast.Node) bool {
						if ds, ok := n.(*ast.DeclStmt); ok {
							if gd, ok := ds.Decl.(*ast.GenDecl); ok {
								for _, s := range gd.Specs {
									if ts, ok := s.(*ast.TypeSpec); ok {
										if _, exists := p.types[ts.Name.Name]; !exists {
											p.types[ts.Name.Name] = ts.Type
											p.localTypeFile[ts.Name.Name] = rel
										}
									}
								}
							}
						}
						return true
					})
				}
				if d.Recv == nil {
					p.funcs[d.Name.Name] = d.Type
				} else if len(d.Recv.List) == 1 {
					p.methods[recvName(d.Recv.List[0].Type)+"."+d.Name.Name] = d.Type
				}
			}
		}
	}
	return p
}

func recvName(e ast.Expr) string {
	switch e := e.(type) {
	case *ast.StarExpr:
		return recvName(e.X)
	case *ast.Ident:
		return e.Name
	case *ast.IndexExpr:
		return recvName(e.X)
	}
	return "?"
}

var root string

// find the file of pkg that declares type name (needed for its import table)
func fileOfType(p *pkgInfo, name string) string {
	if f, ok := p.localTypeFile[name]; ok {
		return f
	}
	for rel, f := range p.files {
		for _, d := range f.Decls {
			if gd, ok := d.(*ast.GenDecl); ok {
				for _, s := range gd.Specs {
					if ts, ok := s.(*ast.TypeSpec); ok && ts.Name.Name == name {
						return rel
					}
				}
			}
		}
	}
	return ""
}

// one step of named-type resolution; returns the same type when not named
func underlying(t typ) typ {
	for depth := 0; depth < 20 && t.ok(); depth++ {
		switch e := t.e.(type) {
		case *ast.ParenExpr:
			t = typ{t.pkg, t.file, e.X}
		case *ast.Ident:
			if def, ok := t.pkg.types[e.Name]; ok {
				t = typ{t.pkg, fileOfType(t.pkg, e.Name), def}
			} else {
				return t // builtin
			}
		case *ast.SelectorExpr:
			id, ok := e.X.(*ast.Ident)
			if !ok {
				return typ{}
			}
			dir, ok := t.pkg.imports[t.file][id.Name]
			if !ok || strings.HasPrefix(dir, "std:") {
				return typ{t.pkg, t.file, e} // opaque std type
			}
			q := loadPkg(root, dir)
			def, ok := q.types[e.Sel.Name]
			if !ok {
				return typ{}
			}
			t = typ{q, fileOfType(q, e.Sel.Name), def}
		default:
			return t
		}
	}
	return t
}

func deref(t typ) typ {
	u := underlying(t)
	if s, ok := u.e.(*ast.StarExpr); ok {
		return typ{u.pkg, u.file, s.X}
	}
	return t
}

// named type (pkg, name) of t after dereferencing, for method lookup
func namedOf(t typ) (*pkgInfo, string) {
	for depth := 0; depth < 5 && t.ok(); depth++ {
		switch e := t.e.(type) {
		case *ast.StarExpr:
			t = typ{t.pkg, t.file, e.X}
		case *ast.ParenExpr:
			t = typ{t.pkg, t.file, e.X}
		case *ast.Ident:
			if _, ok := t.pkg.types[e.Name]; ok {
				return t.pkg, e.Name
			}
			return nil, ""
		case *ast.SelectorExpr:
			if id, ok := e.X.(*ast.Ident); ok {
				if dir, ok := t.pkg.imports[t.file][id.Name]; ok && !strings.HasPrefix(dir, "std:") {
					return loadPkg(root, dir), e.Sel.Name
				}
			}
			return nil, ""
		default:
			return nil, ""
		}
	}
	return nil, ""
}

func fieldOf(t typ, name string, depth int) typ {
	if depth > 6 {
		return typ{}
	}
	u := underlying(deref(t))
	st, ok := u.e.(*ast.StructType)
	if !ok {
		return typ{}
	}
	for _, f := range st.Fields.List {
		for _, n := range f.Names {
			if n.Name == name {
				return typ{u.pkg, u.file, f.Type}
			}
		}
	}
	for _, f := range st.Fields.List { // embedded
		if len(f.Names) == 0 {
			et := typ{u.pkg, u.file, f.Type}
			if recvName(f.Type) == name || selName(f.Type) == name {
				return et
			}
			if r := fieldOf(et, name, depth+1); r.ok() {
				return r
			}
		}
	}
	return typ{}
}

func selName(e ast.Expr) string {
	switch e := e.(type) {
	case *ast.StarExpr:
		return selName(e.X)
	case *ast.SelectorExpr:
		return e.Sel.Name
	}
	return ""
}

func methodOf(t typ, name string, depth int) (typ, bool) {
	if depth > 6 {
		return typ{}, false
	}
	if p, n := namedOf(t); p != nil {
		if ft, ok := p.methods[n+"."+name]; ok {
			return typ{p, fileOfMethod(p, n, name), ft}, true
		}
	}
	u := underlying(deref(t))
	switch ut := u.e.(type) {
	case *ast.InterfaceType:
		for _, m := range ut.Methods.List {
			for _, n := range m.Names {
				if n.Name == name {
					return typ{u.pkg, u.file, m.Type}, true
				}
			}
		}
	case *ast.StructType:
		for _, f := range ut.Fields.List {
			if len(f.Names) == 0 {
				if r, ok := methodOf(typ{u.pkg, u.file, f.Type}, name, depth+1); ok {
					return r, true
				}
			}
		}
	}
	return typ{}, false
}

func fileOfMethod(p *pkgInfo, recv, name string) string {
	for rel, f := range p.files {
		for _, d := range f.Decls {
			if fd, ok := d.(*ast.FuncDecl); ok && fd.Recv != nil && fd.Name.Name == name && len(fd.Recv.List) == 1 && recvName(fd.Recv.List[0].Type) == recv {
				return rel
			}
		}
	}
	return ""
}

func fileOfFunc(p *pkgInfo, name string) string {
	for rel, f := range p.files {
		for _, d := range f.Decls {
			if fd, ok := d.(*ast.FuncDecl); ok && fd.Recv == nil && fd.Name.Name == name {
				return rel
			}
		}
	}
	return ""
}

func results(ft typ) []typ {
	f, ok := ft.e.(*ast.FuncType)
	if !ok || f.Results == nil {
		return nil
	}
	var out []typ
	for _, r := range f.Results.List {
		n := len(r.Names)
		if n == 0 {
			n = 1
		}
		for i := 0; i < n; i++ {
			out = append(out, typ{ft.pkg, ft.file, r.Type})
		}
	}
	return out
}

type env struct {
	pkg  *pkgInfo
	file string
	vars map[string]typ
}

var builtinInt = &ast.Ident{Name: "int"}

// types of a (possibly multi-valued) expression
func (en *env) typesOf(e ast.Expr) []typ {
	switch e := e.(type) {
	case *ast.CallExpr:
		if ft := en.funcTypeOf(e.Fun); ft.ok() {
			return results(ft)
		}
	case *ast.IndexExpr:
		t := underlying(en.typeOf(e.X))
		if m, ok := t.e.(*ast.MapType); ok {
			return []typ{{t.pkg, t.file, m.Value}, {en.pkg, en.file, &ast.Ident{Name: "bool"}}}
		}
	case *ast.TypeAssertExpr:
		if e.Type != nil {
			return []typ{{en.pkg, en.file, e.Type}, {en.pkg, en.file, &ast.Ident{Name: "bool"}}}
		}
	}
	return []typ{en.typeOf(e)}
}

// type of the function value denoted by a call's Fun expression (FuncType)
func (en *env) funcTypeOf(fun ast.Expr) typ {
	switch f := fun.(type) {
	case *ast.ParenExpr:
		return en.funcTypeOf(f.X)
	case *ast.Ident:
		if t, ok := en.vars[f.Name]; ok {
			u := underlying(t)
			if _, ok := u.e.(*ast.FuncType); ok {
				return u
			}
			return typ{}
		}
		if ft, ok := en.pkg.funcs[f.Name]; ok {
			return typ{en.pkg, fileOfFunc(en.pkg, f.Name), ft}
		}
	case *ast.SelectorExpr:
		if id, ok := f.X.(*ast.Ident); ok {
			if _, isVar := en.vars[id.Name]; !isVar {
				if dir, ok := en.pkg.imports[en.file][id.Name]; ok {
					if strings.HasPrefix(dir, "std:") {
						return typ{}
					}
					q := loadPkg(root, dir)
					if ft, ok := q.funcs[f.Sel.Name]; ok {
						return typ{q, fileOfFunc(q, f.Sel.Name), ft}
					}
					return typ{}
				}
			}
		}
		xt := en.typeOf(f.X)
		if !xt.ok() {
			return typ{}
		}
		if m, ok := methodOf(xt, f.Sel.Name, 0); ok {
			return m
		}
		if ft := fieldOf(xt, f.Sel.Name, 0); ft.ok() {
			u := underlying(ft)
			if _, ok := u.e.(*ast.FuncType); ok {
				return u
			}
		}
	case *ast.FuncLit:
		return typ{en.pkg, en.file, f.Type}
	}
	return typ{}
}

func isTypeExpr(e ast.Expr) bool {
	switch e.(type) {
	case *ast.MapType, *ast.ArrayType, *ast.StructType, *ast.ChanType, *ast.FuncType, *ast.InterfaceType:
		return true
	}
	return false
}

func (en *env) typeOf(e ast.Expr) typ {
	switch e := e.(type) {
	case *ast.ParenExpr:
		return en.typeOf(e.X)
	case *ast.Ident:
		if t, ok := en.vars[e.Name]; ok {
			return t
		}
		if t, ok := en.pkg.vars[e.Name]; ok {
			return t
		}
		return typ{}
	case *ast.BasicLit:
		switch e.Kind {
		case token.STRING:
			return typ{en.pkg, en.file, &ast.Ident{Name: "string"}}
		case token.INT:
			return typ{en.pkg, en.file, builtinInt}
		}
		return typ{en.pkg, en.file, &ast.Ident{Name: "float64"}}
	case *ast.CompositeLit:
		if e.Type != nil {
			return typ{en.pkg, en.file, e.Type}
		}
	case *ast.UnaryExpr:
		if e.Op == token.AND {
			t := en.typeOf(e.X)
			if t.ok() {
				return typ{t.pkg, t.file, &ast.StarExpr{X: t.e}}
			}
		}
		if e.Op == token.SUB || e.Op == token.ADD || e.Op == token.XOR {
			return en.typeOf(e.X)
		}
		if e.Op == token.ARROW {
			t := underlying(en.typeOf(e.X))
			if c, ok := t.e.(*ast.ChanType); ok {
				return typ{t.pkg, t.file, c.Value}
			}
		}
		if e.Op == token.NOT {
			return typ{en.pkg, en.file, &ast.Ident{Name: "bool"}}
		}
	case *ast.BinaryExpr:
		switch e.Op {
		case token.EQL, token.NEQ, token.LSS, token.GTR, token.LEQ, token.GEQ, token.LAND, token.LOR:
			return typ{en.pkg, en.file, &ast.Ident{Name: "bool"}}
		}
		if t := en.typeOf(e.X); t.ok() {
			return t
		}
		return en.typeOf(e.Y)
	case *ast.StarExpr:
		t := underlying(en.typeOf(e.X))
		if s, ok := t.e.(*ast.StarExpr); ok {
			return typ{t.pkg, t.file, s.X}
		}
	case *ast.SelectorExpr:
		if id, ok := e.X.(*ast.Ident); ok {
			if _, isVar := en.vars[id.Name]; !isVar {
				if _, isPkgVar := en.pkg.vars[id.Name]; !isPkgVar {
					if dir, ok := en.pkg.imports[en.file][id.Name]; ok {
						if strings.HasPrefix(dir, "std:") {
							return typ{}
						}
						q := loadPkg(root, dir)
						if t, ok := q.vars[e.Sel.Name]; ok {
							return t
						}
						return typ{}
					}
				}
			}
		}
		xt := en.typeOf(e.X)
		if !xt.ok() {
			return typ{}
		}
		return fieldOf(xt, e.Sel.Name, 0)
	case *ast.IndexExpr:
		t := underlying(deref(en.typeOf(e.X)))
		switch tt := t.e.(type) {
		case *ast.MapType:
			return typ{t.pkg, t.file, tt.Value}
		case *ast.ArrayType:
			return typ{t.pkg, t.file, tt.Elt}
		case *ast.Ident:
			if tt.Name == "string" {
				return typ{t.pkg, t.file, &ast.Ident{Name: "byte"}}
			}
		}
	case *ast.SliceExpr:
		return en.typeOf(e.X)
	case *ast.TypeAssertExpr:
		if e.Type != nil {
			return typ{en.pkg, en.file, e.Type}
		}
	case *ast.FuncLit:
		return typ{en.pkg, en.file, e.Type}
	case *ast.CallExpr:
		if id, ok := e.Fun.(*ast.Ident); ok {
			if _, shadow := en.vars[id.Name]; !shadow {
				switch id.Name {
				case "make":
					if len(e.Args) > 0 {
						return typ{en.pkg, en.file, e.Args[0]}
					}
				case "new":
					if len(e.Args) > 0 {
						return typ{en.pkg, en.file, &ast.StarExpr{X: e.Args[0]}}
					}
				case "append":
					if len(e.Args) > 0 {
						return en.typeOf(e.Args[0])
					}
				case "len", "cap", "copy":
					return typ{en.pkg, en.file, builtinInt}
				case "string", "int", "uint32", "int32", "uint8", "byte", "uint16", "int64", "uint64", "float64", "uint", "rune", "bool":
					return typ{en.pkg, en.file, &ast.Ident{Name: id.Name}}
				}
				if _, ok := en.pkg.types[id.Name]; ok { // conversion
					return typ{en.pkg, en.file, id}
				}
			}
		}
		if isTypeExpr(e.Fun) {
			return typ{en.pkg, en.file, e.Fun}
		}
		if pe, ok := e.Fun.(*ast.ParenExpr); ok && isTypeExpr(pe.X) {
			return typ{en.pkg, en.file, pe.X}
		}
		if se, ok := e.Fun.(*ast.SelectorExpr); ok { // pkg.Type(x) conversion
			if id, ok := se.X.(*ast.Ident); ok {
				if _, isVar := en.vars[id.Name]; !isVar {
					if dir, ok := en.pkg.imports[en.file][id.Name]; ok && !strings.HasPrefix(dir, "std:") {
						if _, ok := loadPkg(root, dir).types[se.Sel.Name]; ok {
							return typ{en.pkg, en.file, se}
						}
					}
				}
			}
		}
		if ft := en.funcTypeOf(e.Fun); ft.ok() {
			if rs := results(ft); len(rs) > 0 {
				return rs[0]
			}
		}
	}
	return typ{}
}

func (en *env) bindFields(fl *ast.FieldList) {
	if fl == nil {
		return
	}
	for _, f := range fl.List {
		for _, n := range f.Names {
			t := f.Type
			if el, ok := t.(*ast.Ellipsis); ok {
				t = &ast.ArrayType{Elt: el.Elt}
			}
			en.vars[n.Name] = typ{en.pkg, en.file, t}
		}
	}
}

// key and element types when ranging over t
func rangeTypes(t typ) (typ, typ, string) {
	u := underlying(deref(t))
	if !u.ok() {
		return typ{}, typ{}, "unknown"
	}
	switch tt := u.e.(type) {
	case *ast.MapType:
		return typ{u.pkg, u.file, tt.Key}, typ{u.pkg, u.file, tt.Value}, "map"
	case *ast.ArrayType:
		return typ{u.pkg, u.file, builtinInt}, typ{u.pkg, u.file, tt.Elt}, "notmap"
	case *ast.ChanType:
		return typ{u.pkg, u.file, tt.Value}, typ{}, "notmap"
	case *ast.Ident:
		switch tt.Name {
		case "string":
			return typ{u.pkg, u.file, builtinInt}, typ{u.pkg, u.file, &ast.Ident{Name: "rune"}}, "notmap"
		case "int", "uint32", "int32", "uint":
			return typ{u.pkg, u.file, tt}, typ{}, "notmap"
		}
	case *ast.FuncType:
		return typ{}, typ{}, "notmap"
	}
	return typ{}, typ{}, "unknown"
}

type site struct {
	file, fn, expr string
	ord            int
	line           int
	pos            token.Pos
	sortAfter      bool // a sort.* call follows the loop in the same function before the next map-range loop
}

func exprText(e ast.Expr) string {
	var b bytes.Buffer
	printer.Fprint(&b, fset, e)
	return strings.Join(strings.Fields(b.String()), " ")
}

var sites, unresolved []site
var rangeCount int

// map-range statement -> index into sites
var siteOfRange = map[*ast.RangeStmt]int{}

type regularSite struct {
	s      site
	sorter string
}

var regular []regularSite

// sites whose whole loop body is one statement of a recognised shape
var shaped []regularSite

func bodyShape(rs *ast.RangeStmt) string {
	bound := map[string]bool{}
	if id, ok := rs.Key.(*ast.Ident); ok {
		bound[id.Name] = true
	}
	if id, ok := rs.Value.(*ast.Ident); ok {
		bound[id.Name] = true
	}
	return stmtsShape(rs, rs.Body.List, bound)
}

// shape of a statement list that must consist of exactly one statement; an
// "if" without initialiser is looked through (both branches must agree)
func stmtsShape(rs *ast.RangeStmt, list []ast.Stmt, bound map[string]bool) string {
	if len(list) != 1 {
		return ""
	}
	switch st := list[0].(type) {
	case *ast.IfStmt:
		if st.Init != nil {
			return ""
		}
		sh := stmtsShape(rs, st.Body.List, bound)
		if st.Else == nil {
			return sh
		}
		if eb, ok := st.Else.(*ast.BlockStmt); ok && sh != "" && stmtsShape(rs, eb.List, bound) == sh {
			return sh
		}
		return ""
	case *ast.AssignStmt:
		if len(st.Lhs) != 1 || len(st.Rhs) != 1 {
			return ""
		}
		switch st.Tok {
		case token.OR_ASSIGN:
			return "flag-or"
		case token.ADD_ASSIGN:
			return "sum"
		case token.ASSIGN:
		default:
			return ""
		}
		// the written location must be an element: x[i] or x[i].field
		var ix *ast.IndexExpr
		switch l := st.Lhs[0].(type) {
		case *ast.IndexExpr:
			ix = l
		case *ast.SelectorExpr:
			if inner, ok := l.X.(*ast.IndexExpr); ok {
				ix = inner
			}
		}
		if ix == nil {
			return ""
		}
		// value independent of the iteration: constant, or an expression without the loop variables
		usesLoopVar := false
		ast.Inspect(st.Rhs[0], func(n ast.Node) bool {
			if id, ok := n.(*ast.Ident); ok && bound[id.Name] {
				usesLoopVar = true
			}
			return true
		})
		if _, isCall := st.Rhs[0].(*ast.CallExpr); !usesLoopVar && !isCall {
			return "set-insert"
		}
		if key, ok := rs.Key.(*ast.Ident); ok && key.Name != "_" {
			if id, ok := ix.Index.(*ast.Ident); ok && id.Name == key.Name {
				if _, direct := st.Lhs[0].(*ast.IndexExpr); direct {
					return "per-key-write"
				}
			}
		}
	}
	return ""
}

type keyInit struct {
	file, fn, field, expr string
	ok                    bool
}
type rawUse struct{ file, fn, expr string }
type sortedAppend struct {
	file, fn, sorter, expr string
	raw                    bool
}

var keyInits []keyInit
var lessRawUses []rawUse
var sortedAppends []sortedAppend

// the element types whose key field must hold a STABLE source index
var stableKeyFields = map[string]string{"stableRef": "StableSourceIndex", "StableSymbolCount": "StableSourceIndex", "chunkOrder": "tieBreaker"}

func typeBaseName(e ast.Expr) string {
	switch e := e.(type) {
	case *ast.Ident:
		return e.Name
	case *ast.SelectorExpr:
		return e.Sel.Name
	case *ast.StarExpr:
		return typeBaseName(e.X)
	}
	return ""
}

func isStableTableIndex(e ast.Expr) bool {
	if call, ok := e.(*ast.CallExpr); ok && len(call.Args) == 1 { // uint32(x) / int(x)
		if id, ok := call.Fun.(*ast.Ident); ok && (id.Name == "uint32" || id.Name == "int") {
			return isStableTableIndex(call.Args[0])
		}
	}
	ix, ok := e.(*ast.IndexExpr)
	if !ok {
		return false
	}
	t := exprText(ix.X)
	return strings.HasSuffix(t, "StableSourceIndices") || strings.HasSuffix(t, "stableSourceIndices")
}

func mentionsRawIndex(e ast.Expr) bool {
	raw := false
	ast.Inspect(e, func(n ast.Node) bool {
		if n == nil {
			return true
		}
		if ex, ok := n.(ast.Expr); ok && isStableTableIndex(ex) {
			return false // an index INTO the stable table is the legal use
		}
		switch n := n.(type) {
		case *ast.SelectorExpr:
			if n.Sel.Name == "SourceIndex" || n.Sel.Name == "sourceIndex" {
				raw = true
			}
		case *ast.Ident:
			if n.Name == "sourceIndex" || n.Name == "SourceIndex" {
				raw = true
			}
		}
		return true
	})
	return raw
}

func sortCallOn(stmt ast.Stmt) (string, string) {
	es, ok := stmt.(*ast.ExprStmt)
	if !ok {
		return "", ""
	}
	call, ok := es.X.(*ast.CallExpr)
	if !ok || len(call.Args) != 1 {
		return "", ""
	}
	se, ok := call.Fun.(*ast.SelectorExpr)
	if !ok {
		return "", ""
	}
	if id, ok := se.X.(*ast.Ident); !ok || id.Name != "sort" {
		return "", ""
	}
	switch se.Sel.Name {
	case "Strings", "Ints", "Sort", "Stable":
		return "sort." + se.Sel.Name, exprText(call.Args[0])
	}
	return "", ""
}

// second pass over a function: sort keys and regular collect-then-sort shapes
func scanSortKeys(rel string, name string, fd *ast.FuncDecl) {
	isLess := fd.Recv != nil && fd.Name.Name == "Less"
	appends := map[string][]ast.Expr{}
	var sorts [][2]string
	ast.Inspect(fd.Body, func(n ast.Node) bool {
		switch n := n.(type) {
		case *ast.CompositeLit:
			if field, ok := stableKeyFields[typeBaseName(n.Type)]; ok && n.Type != nil {
				found := false
				for _, el := range n.Elts {
					if kv, ok := el.(*ast.KeyValueExpr); ok {
						if id, ok := kv.Key.(*ast.Ident); ok && id.Name == field {
							found = true
							keyInits = append(keyInits, keyInit{rel, name, typeBaseName(n.Type) + "." + field, exprText(kv.Value), isStableTableIndex(kv.Value)})
						}
					}
				}
				if !found && len(n.Elts) > 0 {
					keyInits = append(keyInits, keyInit{rel, name, typeBaseName(n.Type) + "." + field, "<not initialised by name: " + exprText(n) + ">", false})
				}
			}
		case *ast.SelectorExpr:
			if isLess && (n.Sel.Name == "SourceIndex" || n.Sel.Name == "sourceIndex") {
				lessRawUses = append(lessRawUses, rawUse{rel, name, exprText(n)})
			}
		case *ast.CallExpr:
			if se, ok := n.Fun.(*ast.SelectorExpr); ok {
				if id, ok := se.X.(*ast.Ident); ok && id.Name == "sort" && (se.Sel.Name == "Slice" || se.Sel.Name == "SliceStable") && len(n.Args) == 2 {
					ast.Inspect(n.Args[1], func(m ast.Node) bool {
						if sel, ok := m.(*ast.SelectorExpr); ok && (sel.Sel.Name == "SourceIndex" || sel.Sel.Name == "sourceIndex") {
							lessRawUses = append(lessRawUses, rawUse{rel, name + " (sort." + se.Sel.Name + " closure)", exprText(sel)})
						}
						return true
					})
				}
			}
		case *ast.AssignStmt:
			if len(n.Lhs) == 1 && len(n.Rhs) == 1 {
				if call, ok := n.Rhs[0].(*ast.CallExpr); ok {
					if id, ok := call.Fun.(*ast.Ident); ok && id.Name == "append" && len(call.Args) >= 2 && exprText(call.Args[0]) == exprText(n.Lhs[0]) {
						appends[exprText(n.Lhs[0])] = append(appends[exprText(n.Lhs[0])], call.Args[1:]...)
					}
				}
			}
		case *ast.ExprStmt:
			if sorter, arg := sortCallOn(n); sorter == "sort.Ints" || sorter == "sort.Strings" {
				sorts = append(sorts, [2]string{sorter, arg})
			}
		case *ast.BlockStmt, *ast.CaseClause, *ast.CommClause:
			var stmts []ast.Stmt
			switch b := n.(type) {
			case *ast.BlockStmt:
				stmts = b.List
			case *ast.CaseClause:
				stmts = b.Body
			case *ast.CommClause:
				stmts = b.Body
			}
			for i, st := range stmts {
				rs, ok := st.(*ast.RangeStmt)
				if !ok {
					continue
				}
				idx, isSite := siteOfRange[rs]
				if isSite {
					if sh := bodyShape(rs); sh != "" {
						shaped = append(shaped, regularSite{sites[idx], sh})
					}
				}
				if !isSite || i+1 >= len(stmts) || len(rs.Body.List) != 1 {
					continue
				}
				as, ok := rs.Body.List[0].(*ast.AssignStmt)
				if !ok || len(as.Lhs) != 1 || len(as.Rhs) != 1 {
					continue
				}
				call, ok := as.Rhs[0].(*ast.CallExpr)
				if !ok || len(call.Args) != 2 {
					continue
				}
				if id, ok := call.Fun.(*ast.Ident); !ok || id.Name != "append" || exprText(call.Args[0]) != exprText(as.Lhs[0]) {
					continue
				}
				if sorter, arg := sortCallOn(stmts[i+1]); sorter != "" && arg == exprText(as.Lhs[0]) {
					if sorter == "sort.Sort" || sorter == "sort.Stable" {
						// the comparator is the Less of the slice type: xs := make(T, ...)
						elem := "?"
						ast.Inspect(fd.Body, func(m ast.Node) bool {
							if d, ok := m.(*ast.AssignStmt); ok && d.Tok == token.DEFINE && len(d.Lhs) == 1 && len(d.Rhs) == 1 && exprText(d.Lhs[0]) == arg {
								if mk, ok := d.Rhs[0].(*ast.CallExpr); ok && len(mk.Args) >= 1 {
									if id, ok := mk.Fun.(*ast.Ident); ok && id.Name == "make" {
										elem = typeBaseName(mk.Args[0])
									}
								}
							}
							return true
						})
						sorter += ":" + elem
					}
					regular = append(regular, regularSite{sites[idx], sorter})
				}
			}
		}
		return true
	})
	for _, sc := range sorts {
		for _, e := range appends[sc[1]] {
			sortedAppends = append(sortedAppends, sortedAppend{rel, name, sc[0] + "(" + sc[1] + ")", exprText(e), mentionsRawIndex(e)})
		}
	}
}

func scanFile(p *pkgInfo, rel string, f *ast.File) {
	for _, d := range f.Decls {
		fd, ok := d.(*ast.FuncDecl)
		if !ok || fd.Body == nil {
			continue
		}
		name := fd.Name.Name
		if fd.Recv != nil && len(fd.Recv.List) == 1 {
			name = "(" + exprText(fd.Recv.List[0].Type) + ")." + name
		}
		en := &env{pkg: p, file: rel, vars: map[string]typ{}}
		en.bindFields(fd.Recv)
		en.bindFields(fd.Type.Params)
		en.bindFields(fd.Type.Results)
		seen := map[string]int{}
		firstSite := len(sites)
		var sortCalls []token.Pos
		var walk func(n ast.Node) bool
		walk = func(n ast.Node) bool {
			switch n := n.(type) {
			case *ast.CallExpr:
				if se, ok := n.Fun.(*ast.SelectorExpr); ok {
					if id, ok := se.X.(*ast.Ident); ok && id.Name == "sort" {
						switch se.Sel.Name {
						case "Sort", "Stable", "Strings", "Ints", "Slice", "SliceStable":
							sortCalls = append(sortCalls, n.Pos())
						}
					}
				}
			case *ast.FuncLit:
				en.bindFields(n.Type.Params)
				en.bindFields(n.Type.Results)
			case *ast.AssignStmt:
				if n.Tok == token.DEFINE || n.Tok == token.ASSIGN {
					var ts []typ
					if len(n.Rhs) == 1 && len(n.Lhs) > 1 {
						ts = en.typesOf(n.Rhs[0])
					} else {
						for _, r := range n.Rhs {
							ts = append(ts, en.typeOf(r))
						}
					}
					for i, l := range n.Lhs {
						if id, ok := l.(*ast.Ident); ok && id.Name != "_" && i < len(ts) && ts[i].ok() {
							if _, exists := en.vars[id.Name]; !exists || n.Tok == token.DEFINE {
								en.vars[id.Name] = ts[i]
							}
						}
					}
				}
			case *ast.DeclStmt:
				if gd, ok := n.Decl.(*ast.GenDecl); ok {
					for _, s := range gd.Specs {
						if vs, ok := s.(*ast.ValueSpec); ok {
							for i, nm := range vs.Names {
								if vs.Type != nil {
									en.vars[nm.Name] = typ{p, rel, vs.Type}
								} else if len(vs.Values) == len(vs.Names) {
									if t := en.typeOf(vs.Values[i]); t.ok() {
										en.vars[nm.Name] = t
									}
								} else if len(vs.Values) == 1 {
									if ts := en.typesOf(vs.Values[0]); i < len(ts) && ts[i].ok() {
										en.vars[nm.Name] = ts[i]
									}
								}
							}
						}
					}
				}
			case *ast.TypeSwitchStmt:
				// switch v := x.(type) { case T: ... }: bind v per single-type clause
				if as, ok := n.Assign.(*ast.AssignStmt); ok && len(as.Lhs) == 1 {
					if id, ok := as.Lhs[0].(*ast.Ident); ok {
						if n.Init != nil {
							ast.Inspect(n.Init, walk)
						}
						for _, c := range n.Body.List {
							cc := c.(*ast.CaseClause)
							if len(cc.List) == 1 {
								en.vars[id.Name] = typ{p, rel, cc.List[0]}
							} else if ta, ok := as.Rhs[0].(*ast.TypeAssertExpr); ok {
								if t := en.typeOf(ta.X); t.ok() {
									en.vars[id.Name] = t
								} else {
									delete(en.vars, id.Name)
								}
							}
							for _, st := range cc.Body {
								ast.Inspect(st, walk)
							}
						}
						return false
					}
				}
			case *ast.RangeStmt:
				rangeCount++
				t := en.typeOf(n.X)
				kt, vt, class := rangeTypes(t)
				if n.Tok == token.DEFINE {
					if id, ok := n.Key.(*ast.Ident); ok && id.Name != "_" && kt.ok() {
						en.vars[id.Name] = kt
					}
					if id, ok := n.Value.(*ast.Ident); ok && id.Name != "_" && vt.ok() {
						en.vars[id.Name] = vt
					}
				}
				if class != "notmap" {
					txt := exprText(n.X)
					s := site{file: rel, fn: name, expr: txt, ord: seen[txt], line: fset.Position(n.Pos()).Line, pos: n.Pos()}
					seen[txt]++
					if class == "map" {
						siteOfRange[n] = len(sites)
						sites = append(sites, s)
					} else {
						unresolved = append(unresolved, s)
					}
				}
			}
			return true
		}
		ast.Inspect(fd.Body, walk)
		scanSortKeys(rel, name, fd)
		// a sort call follows the loop before the next map-range loop of the function starts
		for i := firstSite; i < len(sites); i++ {
			next := token.Pos(1 << 60)
			for k := firstSite; k < len(sites); k++ {
				if sites[k].pos > sites[i].pos && sites[k].pos < next {
					next = sites[k].pos
				}
			}
			for _, sp := range sortCalls {
				if sp > sites[i].pos && sp < next {
					sites[i].sortAfter = true
				}
			}
		}
	}
}

func coqStr(s string) string { return "\"" + strings.ReplaceAll(s, "\"", "\"\"") + "\"" }

func emit(list []site) string {
	var items []string
	for _, s := range list {
		items = append(items, fmt.Sprintf("  (%s, %s, %s, %d%%nat)", coqStr(s.file), coqStr(s.fn), coqStr(s.expr), s.ord))
	}
	return "[\n" + strings.Join(items, ";\n") + "\n]"
}

func main() {
	if len(os.Args) != 3 {
		die("usage: t4mapsites <repo> <outdir>")
	}
	root = os.Args[1]
	scan := []struct {
		dir  string
		only string
	}{
		{"internal/linker", ""}, {"internal/bundler", ""}, {"internal/renamer", ""}, {"internal/graph", ""},
		{"internal/js_printer", ""}, {"internal/css_printer", ""}, {"pkg/api", "api_impl.go"},
	}
	for _, sc := range scan {
		p := loadPkg(root, sc.dir)
		if len(p.files) == 0 {
			die("package %s not found or empty", sc.dir)
		}
		before := rangeCount
		var rels []string
		for rel := range p.files {
			rels = append(rels, rel)
		}
		sort.Strings(rels)
		found := false
		for _, rel := range rels {
			if sc.only != "" && filepath.Base(rel) != sc.only {
				continue
			}
			found = true
			scanFile(p, rel, p.files[rel])
		}
		if !found {
			die("file %s/%s not found", sc.dir, sc.only)
		}
		if rangeCount == before {
			die("no range statement found in %s (unexpected shape)", sc.dir)
		}
	}
	less := func(l []site) func(i, j int) bool {
		return func(i, j int) bool {
			a, b := l[i], l[j]
			if a.file != b.file {
				return a.file < b.file
			}
			if a.fn != b.fn {
				return a.fn < b.fn
			}
			if a.expr != b.expr {
				return a.expr < b.expr
			}
			return a.ord < b.ord
		}
	}
	sort.Slice(sites, less(sites))
	sort.Slice(unresolved, less(unresolved))
	var sb strings.Builder
	sb.WriteString("(* GENERATED by gen/cmd/t4mapsites from the Go sources: do not edit.\n   Every `for ... range <map>` (file, enclosing function, ranged expression, ordinal). *)\n")
	sb.WriteString("From Coq Require Import String List.\nImport ListNotations.\nOpen Scope string_scope.\n\n")
	fmt.Fprintf(&sb, "Definition map_sites : list (string * string * string * nat) := %s.\n\n", emit(sites))
	var withSort []site
	for _, st := range sites {
		if st.sortAfter {
			withSort = append(withSort, st)
		}
	}
	sb.WriteString("(* the sites followed, in the same function and before its next map-range loop, by a call of sort.Sort/Stable/Strings/Ints/Slice *)\n")
	fmt.Fprintf(&sb, "Definition sites_with_sort_after : list (string * string * string * nat) := %s.\n\n", emit(withSort))
	fmt.Fprintf(&sb, "Definition unresolved_range_sites : list (string * string * string * nat) := %s.\n\n", emit(unresolved))
	fmt.Fprintf(&sb, "Definition range_stmt_count : nat := %d%%nat.\n", rangeCount)
	sort.Slice(regular, func(i, j int) bool { return less([]site{regular[i].s, regular[j].s})(0, 1) })
	var regItems []string
	for _, rg := range regular {
		regItems = append(regItems, fmt.Sprintf("  ((%s, %s, %s, %d%%nat), %s)", coqStr(rg.s.file), coqStr(rg.s.fn), coqStr(rg.s.expr), rg.s.ord, coqStr(rg.sorter)))
	}
	sb.WriteString("\n(* map-range sites of the regular shape  for k := range M { xs = append(xs, E) } ; sort.X(xs)  with the sorter *)\n")
	fmt.Fprintf(&sb, "Definition regular_collect_sort_sites : list ((string * string * string * nat) * string) := [\n%s\n].\n", strings.Join(regItems, ";\n"))
	sort.Slice(shaped, func(i, j int) bool { return less([]site{shaped[i].s, shaped[j].s})(0, 1) })
	regItems = nil
	for _, rg := range shaped {
		regItems = append(regItems, fmt.Sprintf("  ((%s, %s, %s, %d%%nat), %s)", coqStr(rg.s.file), coqStr(rg.s.fn), coqStr(rg.s.expr), rg.s.ord, coqStr(rg.sorter)))
	}
	sb.WriteString("\n(* map-range sites whose whole body is one statement:  m[E] = const or loop-invariant value, possibly under an if (set-insert),  dst[key] = E (per-key-write),  x |= E (flag-or),  x += E (sum) *)\n")
	fmt.Fprintf(&sb, "Definition shaped_fold_sites : list ((string * string * string * nat) * string) := [\n%s\n].\n", strings.Join(regItems, ";\n"))
	if err := os.WriteFile(filepath.Join(os.Args[2], "MapSitesGen.v"), []byte(sb.String()), 0o644); err != nil {
		die("%v", err)
	}

	// ---- SortKeysGen.v: where sort keys come from
	if len(keyInits) == 0 {
		die("no composite literal of stableRef/StableSymbolCount/chunkOrder found (unexpected shape)")
	}
	sort.Slice(keyInits, func(i, j int) bool {
		a, b := keyInits[i], keyInits[j]
		return a.file+"|"+a.fn+"|"+a.field+"|"+a.expr < b.file+"|"+b.fn+"|"+b.field+"|"+b.expr
	})
	sort.Slice(lessRawUses, func(i, j int) bool {
		a, b := lessRawUses[i], lessRawUses[j]
		return a.file+"|"+a.fn+"|"+a.expr < b.file+"|"+b.fn+"|"+b.expr
	})
	sort.Slice(sortedAppends, func(i, j int) bool {
		a, b := sortedAppends[i], sortedAppends[j]
		return a.file+"|"+a.fn+"|"+a.sorter+"|"+a.expr < b.file+"|"+b.fn+"|"+b.sorter+"|"+b.expr
	})
	cb := func(b bool) string {
		if b {
			return "true"
		}
		return "false"
	}
	var sk strings.Builder
	sk.WriteString("(* GENERATED by gen/cmd/t4mapsites from the Go sources: do not edit.\n   Where the keys of order-sensitive sorts come from. *)\n")
	sk.WriteString("From Coq Require Import String List Bool.\nImport ListNotations.\nOpen Scope string_scope.\n\n")
	var it []string
	for _, k := range keyInits {
		it = append(it, fmt.Sprintf("  (%s, %s, %s, %s, %s)", coqStr(k.file), coqStr(k.fn), coqStr(k.field), coqStr(k.expr), cb(k.ok)))
	}
	sk.WriteString("(* every composite literal of stableRef / StableSymbolCount / chunkOrder: (file, function, field, initialiser, initialiser is an index into StableSourceIndices) *)\n")
	fmt.Fprintf(&sk, "Definition stable_key_inits : list (string * string * string * string * bool) := [\n%s\n].\n\n", strings.Join(it, ";\n"))
	it = nil
	for _, k := range lessRawUses {
		it = append(it, fmt.Sprintf("  (%s, %s, %s)", coqStr(k.file), coqStr(k.fn), coqStr(k.expr)))
	}
	sk.WriteString("(* every use of a raw .SourceIndex / .sourceIndex inside a Less method or a sort.Slice closure *)\n")
	fmt.Fprintf(&sk, "Definition less_raw_index_uses : list (string * string * string) := [\n%s\n].\n\n", strings.Join(it, ";\n"))
	it = nil
	for _, k := range sortedAppends {
		it = append(it, fmt.Sprintf("  (%s, %s, %s, %s, %s)", coqStr(k.file), coqStr(k.fn), coqStr(k.sorter), coqStr(k.expr), cb(k.raw)))
	}
	sk.WriteString("(* what is appended to a slice that the same function sorts with sort.Ints/sort.Strings: (file, function, sort call, appended expression, mentions a raw source index) *)\n")
	fmt.Fprintf(&sk, "Definition sorted_append_exprs : list (string * string * string * string * bool) := [\n%s\n].\n", strings.Join(it, ";\n"))
	if err := os.WriteFile(filepath.Join(os.Args[2], "SortKeysGen.v"), []byte(sk.String()), 0o644); err != nil {
		die("%v", err)
	}

	// ---- HashPathsGen.v: how the local variables that generateIsolatedHash feeds to the hasher are defined
	var hashFn *ast.FuncDecl
	for _, f := range pkgs["internal/linker"].files {
		for _, d := range f.Decls {
			if fd, ok := d.(*ast.FuncDecl); ok && fd.Name.Name == "generateIsolatedHash" && fd.Body != nil {
				hashFn = fd
			}
		}
	}
	if hashFn == nil {
		die("linker.generateIsolatedHash not found")
	}
	hashed := map[string]bool{}
	nWrites := 0
	ast.Inspect(hashFn.Body, func(n ast.Node) bool {
		call, ok := n.(*ast.CallExpr)
		if !ok {
			return true
		}
		name := exprText(call.Fun)
		if name != "hashWriteLengthPrefixed" && name != "hashWriteUint32" && name != "hash.Write" {
			return true
		}
		nWrites++
		for _, a := range call.Args {
			ast.Inspect(a, func(m ast.Node) bool {
				if id, ok := m.(*ast.Ident); ok {
					hashed[id.Name] = true
				}
				return true
			})
		}
		return true
	})
	if nWrites == 0 {
		die("no hash write found in generateIsolatedHash (unexpected shape)")
	}
	var defs []string
	ast.Inspect(hashFn.Body, func(n ast.Node) bool {
		if as, ok := n.(*ast.AssignStmt); ok && len(as.Lhs) == len(as.Rhs) {
			for i, l := range as.Lhs {
				if id, ok := l.(*ast.Ident); ok && hashed[id.Name] && id.Name != "hash" {
					defs = append(defs, fmt.Sprintf("  (%s, %s)", coqStr(id.Name), coqStr(exprText(as.Rhs[i]))))
				}
			}
		}
		return true
	})
	sort.Strings(defs)
	var hp strings.Builder
	hp.WriteString("(* GENERATED by gen/cmd/t4mapsites from internal/linker/linker.go: do not edit.\n   generateIsolatedHash: every assignment to a local variable that is passed to a hash write: (variable, assigned expression). *)\n")
	hp.WriteString("From Coq Require Import String List.\nImport ListNotations.\nOpen Scope string_scope.\n\n")
	fmt.Fprintf(&hp, "Definition hash_operand_definitions : list (string * string) := [\n%s\n].\n\nDefinition hash_write_count : nat := %d%%nat.\n", strings.Join(defs, ";\n"), nWrites)
	if err := os.WriteFile(filepath.Join(os.Args[2], "HashPathsGen.v"), []byte(hp.String()), 0o644); err != nil {
		die("%v", err)
	}
	if os.Getenv("T4_VERBOSE") != "" {
		for _, s := range sites {
			fmt.Printf("MAP  %s:%d %s  range %s #%d sortAfter=%v\n", s.file, s.line, s.fn, s.expr, s.ord, s.sortAfter)
		}
		for _, s := range unresolved {
			fmt.Printf("???  %s:%d %s  range %s #%d\n", s.file, s.line, s.fn, s.expr, s.ord)
		}
		fmt.Printf("range statements: %d, map sites: %d, unresolved: %d\n", rangeCount, len(sites), len(unresolved))
	}
}
