// Translator T9: inventory of writes through AST-reachable storage in the code
// that runs after parsing (internal/linker/linker.go, internal/bundler/bundler.go),
// classified as "on a clone" versus "on an object the AST cache may still own".
//
//	usage: t9astwrites <repo> <outdir>      writes <outdir>/AstWritesGen.v
//
// A build context keeps parsed ASTs (js_ast.AST, css_ast.AST, JSON expressions)
// in its cache set and hands the same objects to every rebuild. The contract in
// internal/cache/cache.go says they are immutable: whatever the bundler or the
// linker mutates must first be cloned. graph.CloneLinkerGraph clones some
// levels (the repr, AST.Parts and its elements, Part.SymbolUses, AST.ImportRecords,
// AST.NamedImports, AST.ModuleScope), bundler.parseFile clones the import
// records; everything below those levels (statement slices, expression nodes,
// property lists ...) is shared with the cache.
//
// The analysis is syntactic (go/parser + go/ast, no type information) and
// conservative in one direction only: it follows, inside each function, values
// derived from AST storage (a selector through ".AST", a call of
// ".ImportRecords()", a type assertion to *js_ast.X / *css_ast.X, a parameter
// whose type mentions js_ast. or css_ast., and anything obtained from those by
// field selection, indexing, ranging, dereferencing or taking an address) and
// reports every assignment / op-assignment / inc-dec whose target is reached
// through such a value. Each site gets one class:
//
//	OwnedField   field of a local struct copy or of a freshly built value
//	OwnedSlice   element (and its direct fields) of a slice/map field that the
//	             function re-created on that copy before writing
//	ClonedLevel  a level CloneLinkerGraph / parseFile cloned (see above)
//	Shared       anything else: the write lands in storage the cached AST
//	             still references
//
// The proof obligation over the generated file (coq/C09/AstWrites.v) is that
// the Shared sites are exactly a justified allow-list. The translator fails
// closed if CloneLinkerGraph or parseFile no longer contain the clones the
// ClonedLevel class relies on.
package main

import (
	"fmt"
	"go/ast"
	"go/parser"
	"go/printer"
	"go/token"
	"os"
	"path/filepath"
	"sort"
	"strings"
)

func die(f string, a ...interface{}) {
	fmt.Fprintf(os.Stderr, "t9astwrites: "+f+"\n", a...)
	os.Exit(1)
}

var fset = token.NewFileSet()

func text(n ast.Node) string {
	var sb strings.Builder
	printer.Fprint(&sb, fset, n)
	return strings.Join(strings.Fields(sb.String()), " ")
}

// ---- value descriptions ----

type kind int

const (
	kNone   kind = iota
	kOwned       // local struct copy or freshly built value; owned[] = fields re-created freshly
	kNode        // pointer to a shared AST node (type assertion, pointer parameter, &shared)
	kPath        // alias of / pointer into AST storage described by path (relative to "AST")
	kShared      // AST-derived storage of unknown position (parameter slices, values pulled out of nodes)
)

type info struct {
	k     kind
	path  []string        // for kPath: steps after the AST root, e.g. ["Parts", "[]", "Stmts"]
	owned map[string]bool // for kOwned
	ptr   bool            // kPath: the variable is a pointer to the location (writes of fields hit the location)
	fresh bool            // kOwned built by a literal / make / new / append-to-fresh (not a copy of AST storage)
	astTy bool            // fresh value whose type mentions js_ast. / css_ast.
}

type env map[string]*info

func typeMentionsAST(e ast.Expr) bool {
	t := text(e)
	return strings.Contains(t, "js_ast.") || strings.Contains(t, "css_ast.")
}

func isFreshExpr(e ast.Expr) bool {
	switch t := e.(type) {
	case *ast.CompositeLit:
		return true
	case *ast.UnaryExpr:
		if t.Op == token.AND {
			if _, ok := t.X.(*ast.CompositeLit); ok {
				return true
			}
		}
	case *ast.CallExpr:
		if id, ok := t.Fun.(*ast.Ident); ok {
			switch id.Name {
			case "make", "new":
				return true
			case "append":
				if len(t.Args) > 0 {
					if _, ok := t.Args[0].(*ast.CompositeLit); ok {
						return true
					}
					if c, ok := t.Args[0].(*ast.CallExpr); ok { // []T(nil)
						if len(c.Args) == 1 {
							if id, ok := c.Args[0].(*ast.Ident); ok && id.Name == "nil" {
								return true
							}
						}
					}
					if id, ok := t.Args[0].(*ast.Ident); ok && id.Name == "nil" {
						return true
					}
				}
			}
		}
	}
	return false
}

// s[:n:n] (full slice expression): an append to it always allocates
func isClipped(e ast.Expr) bool {
	se, ok := e.(*ast.SliceExpr)
	return ok && se.Slice3 && se.Max != nil
}

// steps of a selector/index chain, outermost last; root identifier returned separately
type stepKind int

const (
	sField stepKind = iota
	sIndex
	sDeref
	sAssert
	sCall
)

type step struct {
	k    stepKind
	name string
}

func chain(e ast.Expr) (root string, steps []step, ok bool) {
	switch t := e.(type) {
	case *ast.Ident:
		return t.Name, nil, true
	case *ast.ParenExpr:
		return chain(t.X)
	case *ast.SelectorExpr:
		r, s, ok := chain(t.X)
		return r, append(s, step{sField, t.Sel.Name}), ok
	case *ast.IndexExpr:
		r, s, ok := chain(t.X)
		return r, append(s, step{sIndex, "[]"}), ok
	case *ast.SliceExpr:
		return chain(t.X)
	case *ast.StarExpr:
		r, s, ok := chain(t.X)
		return r, append(s, step{sDeref, "*"}), ok
	case *ast.TypeAssertExpr:
		r, s, ok := chain(t.X)
		name := "(type)"
		if t.Type != nil {
			name = text(t.Type)
		}
		return r, append(s, step{sAssert, name}), ok
	case *ast.CallExpr:
		if se, ok := t.Fun.(*ast.SelectorExpr); ok {
			r, s, ok2 := chain(se.X)
			return r, append(s, step{sCall, se.Sel.Name}), ok2
		}
	case *ast.UnaryExpr:
		if t.Op == token.AND {
			return chain(t.X)
		}
	}
	return "", nil, false
}

// resolve an expression to a value description
// describe the VALUE of e (what a variable defined from it holds): an element or
// dereference of shared storage is a copy. describeLoc describes the LOCATION.
func (ev env) describe(e ast.Expr) *info    { return ev.describe2(e, true) }
func (ev env) describeLoc(e ast.Expr) *info { return ev.describe2(e, false) }

func (ev env) describe2(e ast.Expr, asValue bool) *info {
	// the result of append(s, ...) may share s's backing array
	if c, ok := e.(*ast.CallExpr); ok && !isFreshExpr(e) {
		if id, ok := c.Fun.(*ast.Ident); ok && id.Name == "append" && len(c.Args) > 0 {
			if isClipped(c.Args[0]) {
				return &info{k: kOwned, owned: map[string]bool{"[]": true}, fresh: true}
			}
			return ev.describe2(c.Args[0], false)
		}
	}
	if isFreshExpr(e) {
		in := &info{k: kOwned, owned: map[string]bool{}, fresh: true, astTy: typeMentionsAST(e)}
		// fields of a composite literal that are themselves fresh are owned
		var cl *ast.CompositeLit
		switch t := e.(type) {
		case *ast.CompositeLit:
			cl = t
		case *ast.UnaryExpr:
			cl, _ = t.X.(*ast.CompositeLit)
		}
		if cl != nil {
			for _, el := range cl.Elts {
				if kv, ok := el.(*ast.KeyValueExpr); ok {
					if id, ok := kv.Key.(*ast.Ident); ok && isFreshExpr(kv.Value) {
						in.owned[id.Name] = true
					}
				}
			}
		} else {
			in.owned["[]"] = true // a fresh slice/map itself
		}
		return in
	}
	addr := false
	if u, ok := e.(*ast.UnaryExpr); ok && u.Op == token.AND {
		addr = true
	}
	root, steps, ok := chain(e)
	if !ok {
		return nil
	}
	// a leading dereference of the whole expression: *x  => struct copy
	if st, ok := e.(*ast.StarExpr); ok {
		inner := ev.describe(st.X)
		if inner == nil || inner.k == kNone {
			return nil
		}
		if inner.k == kPath {
			// *ptrToLocation is the location itself (for a slice: the same backing array)
			return &info{k: kPath, path: inner.path}
		}
		if inner.k == kOwned {
			return inner
		}
		return &info{k: kOwned, owned: map[string]bool{}} // struct copy of a shared node
	}
	base := ev[root]
	// locate an AST anchor inside the chain itself
	anchor := -1
	for i, s := range steps {
		if s.k == sField && s.name == "AST" {
			anchor = i
		}
		if s.k == sCall && s.name == "ImportRecords" {
			// x.Repr.ImportRecords() is a pointer to AST.ImportRecords
			rest := steps[i+1:]
			p := []string{"ImportRecords"}
			isPtr := true
			for _, r := range rest {
				switch r.k {
				case sDeref:
					isPtr = false
				case sIndex:
					p = append(p, "[]")
				case sField:
					p = append(p, r.name)
				}
			}
			return &info{k: kPath, path: p, ptr: isPtr || addr}
		}
	}
	var cur *info
	var rest []step
	if anchor >= 0 {
		cur = &info{k: kPath, path: nil}
		rest = steps[anchor+1:]
	} else if base != nil {
		cur = base
		rest = steps
	} else {
		// not AST-derived, unless the chain ends in an assertion to an AST node type
		for _, s := range steps {
			if s.k == sAssert && (strings.Contains(s.name, "*js_ast.") || strings.Contains(s.name, "*css_ast.")) {
				return &info{k: kNode}
			}
		}
		return nil
	}
	for _, s := range rest {
		switch cur.k {
		case kPath:
			switch s.k {
			case sField:
				cur = &info{k: kPath, path: append(append([]string{}, cur.path...), s.name)}
			case sIndex:
				cur = &info{k: kPath, path: append(append([]string{}, cur.path...), "[]")}
			case sDeref:
				cur = &info{k: kPath, path: cur.path}
			case sAssert:
				if strings.HasPrefix(s.name, "*") {
					cur = &info{k: kNode}
				} else {
					cur = &info{k: kShared}
				}
			case sCall:
				cur = &info{k: kShared}
			}
		case kOwned:
			switch s.k {
			case sField:
				if cur.owned[s.name] {
					cur = &info{k: kOwned, owned: map[string]bool{"[]": true}, fresh: cur.fresh, astTy: cur.astTy}
				} else if cur.fresh && !fieldTaint[s.name] {
					return nil // a field of a value built here that never receives AST storage
				} else {
					cur = &info{k: kShared}
				}
			case sIndex:
				if cur.owned["[]"] {
					// element of an owned slice: a struct we own (and as unrelated to the AST as its container)
					cur = &info{k: kOwned, owned: map[string]bool{}, fresh: cur.fresh, astTy: cur.astTy}
				} else {
					cur = &info{k: kShared}
				}
			case sAssert:
				if strings.HasPrefix(s.name, "*") {
					cur = &info{k: kNode}
				} else {
					cur = &info{k: kShared}
				}
			default:
				cur = &info{k: kShared}
			}
		case kNode, kShared:
			if s.k == sAssert && strings.HasPrefix(s.name, "*") {
				cur = &info{k: kNode}
			} else {
				cur = &info{k: kShared}
			}
		}
	}
	if asValue && cur.k == kShared && !addr && len(rest) > 0 && rest[len(rest)-1].k == sIndex {
		return &info{k: kOwned, owned: map[string]bool{}} // copy of an element of a shared slice
	}
	if cur.k == kPath {
		if asValue && !addr && len(rest) > 0 && rest[len(rest)-1].k == sIndex {
			// the value of a slice element is a copy of that element
			return &info{k: kOwned, owned: map[string]bool{}}
		}
		cur = &info{k: kPath, path: cur.path, ptr: addr}
	}
	return cur
}

// ---- cloned levels ----

var clonedLevels = map[string]bool{} // path strings relative to AST, e.g. "Parts", "Parts.[].SymbolUses"

// is a write to AST-relative path p (target location) on a cloned level?
func pathIsCloned(p []string) bool {
	// AST.f            : the repr (and with it the AST struct) is a copy
	if len(p) <= 1 {
		return true
	}
	// longest cloned prefix L; then: L[] (element assignment), L[].f.g... (fields of element, field steps only)
	for n := len(p); n >= 1; n-- {
		if !clonedLevels[strings.Join(p[:n], ".")] {
			continue
		}
		rest := p[n:]
		if len(rest) == 0 {
			return true
		}
		if rest[0] == "[]" {
			rest = rest[1:]
		}
		ok := true
		for i, r := range rest {
			if r == "[]" {
				// a nested cloned level may continue (Parts.[].SymbolUses.[])
				if clonedLevels[strings.Join(p[:len(p)-len(rest)+i], ".")] {
					continue
				}
				ok = false
				break
			}
		}
		return ok
	}
	return false
}

// ---- per-function analysis ----

type site struct {
	file, fn, lhs, class, why string
}

var sites []site

// field names that, somewhere in the function under analysis, are given a value
// that aliases AST storage (composite literal field or assignment): a slice
// held in such a field of any local struct may be the cached AST's slice
var fieldTaint map[string]bool

func analyseFunc(file string, fd *ast.FuncDecl) {
	fieldTaint = map[string]bool{}
	analysePass(file, fd, 1)
	analysePass(file, fd, 2)
}

func isAlias(in *info) bool {
	return in != nil && (in.k == kPath || in.k == kShared || in.k == kNode)
}

func cloneEnv(ev env) env {
	c := env{}
	for k, v := range ev {
		w := *v
		if v.owned != nil {
			w.owned = map[string]bool{}
			for f, b := range v.owned {
				w.owned[f] = b
			}
		}
		c[k] = &w
	}
	return c
}

func analysePass(file string, fd *ast.FuncDecl, pass int) {
	ev := env{}
	expired := map[string]bool{} // "root.field" re-created only inside a conditional block that has ended
	handled := map[token.Pos]bool{}
	if fd.Type.Params != nil {
		for _, f := range fd.Type.Params.List {
			if !typeMentionsAST(f.Type) {
				continue
			}
			for _, n := range f.Names {
				if _, ok := f.Type.(*ast.StarExpr); ok {
					ev[n.Name] = &info{k: kNode}
				} else {
					ev[n.Name] = &info{k: kShared}
				}
			}
		}
	}
	name := fd.Name.Name
	if fd.Recv != nil && len(fd.Recv.List) == 1 {
		name = text(fd.Recv.List[0].Type) + "." + name
	}
	define := func(lhs ast.Expr, in *info) {
		if id, ok := lhs.(*ast.Ident); ok && id.Name != "_" {
			if in == nil || in.k == kNone {
				delete(ev, id.Name)
			} else {
				ev[id.Name] = in
			}
		}
	}
	addSite := func(st site) {
		if pass == 2 {
			sites = append(sites, st)
		}
	}
	record := func(lhs ast.Expr) {
		if _, ok := lhs.(*ast.Ident); ok {
			return
		}
		root, steps, ok := chain(lhs)
		if !ok || len(steps) == 0 {
			return
		}
		// the location written is described by everything but the last step applied to the root,
		// then the last step selects the slot
		var target *info
		switch l := lhs.(type) {
		case *ast.SelectorExpr:
			target = ev.describeLoc(l.X)
		case *ast.IndexExpr:
			target = ev.describeLoc(l.X)
		case *ast.StarExpr:
			target = ev.describeLoc(l.X)
		default:
			return
		}
		for _, st := range steps {
			if st.k == sField && st.name == "Meta" {
				return // JSReprMeta is created by the linker for this link, it is not part of the cached AST
			}
		}
		// a chain of field selections only, starting at a local struct we own, stays inside that struct
		if rin := ev[root]; rin != nil && rin.k == kOwned {
			viaTainted := false
			for i, st := range steps[:len(steps)-1] {
				if st.k == sField && fieldTaint[st.name] && !rin.owned[st.name] {
					for _, later := range steps[i+1:] {
						if later.k != sField {
							viaTainted = true // an index or dereference below the aliasing field
						}
					}
				}
			}
			if rin.fresh && !rin.astTy && !viaTainted {
				return // a value built here whose type has nothing to do with the AST
			}
			if viaTainted {
				addSite(site{file, name, text(lhs), "Shared", "through a field that aliases AST storage in this function"})
				return
			}
			fieldsOnly := true
			for _, st := range steps {
				if st.k != sField {
					fieldsOnly = false
				}
			}
			if fieldsOnly {
				addSite(site{file, name, text(lhs), "OwnedField", "field (of a nested struct value) of a local copy / fresh value"})
				return
			}
		}
		if target == nil || target.k == kNone {
			return
		}
		last := steps[len(steps)-1]
		class, why := "Shared", ""
		switch target.k {
		case kOwned:
			switch last.k {
			case sField:
				class, why = "OwnedField", "field of a local copy / fresh value"
			case sIndex:
				if target.owned["[]"] {
					class, why = "OwnedSlice", "element of a slice or map created in this function"
				} else {
					why = "index into a slice the copy shares with its original"
				}
			case sDeref:
				class, why = "OwnedField", "store through a pointer to a fresh value"
			}
		case kPath:
			p := append([]string{}, target.path...)
			if last.k == sField {
				p = append(p, last.name)
			} else if last.k == sIndex {
				p = append(p, "[]")
			}
			if pathIsCloned(p) {
				class, why = "ClonedLevel", "AST."+strings.Join(p, ".")
			} else {
				why = "below the cloned levels: AST." + strings.Join(p, ".")
			}
		case kNode:
			why = "field of a shared AST node reached by pointer"
		case kShared:
			why = "AST-derived storage that was not cloned in this function"
		}
		addSite(site{file, name, text(lhs), class, why})
	}

	// append(s, ...) / copy(s, ...): the write goes to the backing array of s
	sliceTarget := func(call *ast.CallExpr, stmtText string) {
		if handled[call.Pos()] || len(call.Args) == 0 {
			return
		}
		handled[call.Pos()] = true
		a0 := call.Args[0]
		if isFreshExpr(a0) || isClipped(a0) {
			return
		}
		if id, ok := a0.(*ast.Ident); ok && id.Name == "nil" {
			return
		}
		in := ev.describeLoc(a0)
		root, steps, okc := chain(a0)
		shared, why := false, ""
		suffix := ""
		switch {
		case in != nil && in.k == kOwned && in.owned["[]"]:
			// a slice created in this function
		case in != nil && in.k == kPath:
			if !clonedLevels[strings.Join(in.path, ".")] {
				shared, why = true, "slice shared with the cached AST (AST."+strings.Join(in.path, ".")+"): writes the spare capacity of its backing array"
			}
		case in != nil && (in.k == kShared || in.k == kNode):
			shared, why = true, "slice derived from AST storage that was not re-created in this function"
		}
		if !shared && okc && len(steps) > 0 {
			last := steps[len(steps)-1]
			if last.k == sField && fieldTaint[last.name] {
				rin := ev[root]
				ownedHere := rin != nil && rin.k == kOwned && len(steps) == 1 && rin.owned[last.name]
				if !ownedHere {
					shared, why = true, "slice held in a field that aliases AST storage in this function"
					if len(steps) == 1 && expired[root+"."+last.name] {
						suffix = " {after a conditional re-creation of " + root + "." + last.name + "}"
					}
				}
			}
		}
		if shared && suffix == "" && okc && len(steps) == 1 && steps[0].k == sField && expired[root+"."+steps[0].name] {
			suffix = " {after a conditional re-creation of " + root + "." + steps[0].name + "}"
		}
		if shared {
			addSite(site{file, name, stmtText + suffix, "Shared", why})
		}
	}
	builtinSliceWrite := func(e ast.Expr) *ast.CallExpr {
		if c, ok := e.(*ast.CallExpr); ok {
			if id, ok := c.Fun.(*ast.Ident); ok && (id.Name == "append" || id.Name == "copy") {
				return c
			}
		}
		return nil
	}
	taintField := func(fieldName string, rhs ast.Expr) {
		if isAlias(ev.describe(rhs)) {
			fieldTaint[fieldName] = true
		}
	}
	var walk func(n ast.Node)
	walk = func(n ast.Node) {
		ast.Inspect(n, func(n ast.Node) bool {
			switch t := n.(type) {
			case *ast.FuncLit:
				// closures see the enclosing environment
				return true
			case *ast.IfStmt:
				// what a branch re-creates is owned only inside that branch
				if t.Init != nil {
					walk(t.Init)
				}
				walk(t.Cond)
				for _, blk := range []ast.Node{t.Body, t.Else} {
					if blk == nil || blk == ast.Node((*ast.BlockStmt)(nil)) {
						continue
					}
					saved := cloneEnv(ev)
					walk(blk)
					for nm, in := range ev {
						if in.k == kOwned {
							for f := range in.owned {
								if old := saved[nm]; old == nil || old.k != kOwned || !old.owned[f] {
									expired[nm+"."+f] = true
								}
							}
						}
					}
					for k := range ev {
						delete(ev, k)
					}
					for k, v := range saved {
						ev[k] = v
					}
				}
				return false
			case *ast.CompositeLit:
				for _, el := range t.Elts {
					if kv, ok := el.(*ast.KeyValueExpr); ok {
						if id, ok := kv.Key.(*ast.Ident); ok {
							taintField(id.Name, kv.Value)
						}
					}
				}
				return true
			case *ast.ExprStmt:
				if c := builtinSliceWrite(t.X); c != nil {
					sliceTarget(c, text(t.X))
				}
				return true
			case *ast.CallExpr:
				if c := builtinSliceWrite(t); c != nil {
					sliceTarget(c, text(t))
				}
				return true
			case *ast.AssignStmt:
				for i, r := range t.Rhs {
					if c := builtinSliceWrite(r); c != nil && i < len(t.Lhs) {
						sliceTarget(c, text(t.Lhs[i])+" = "+text(r))
					}
					if i < len(t.Lhs) {
						if se, ok := t.Lhs[i].(*ast.SelectorExpr); ok {
							taintField(se.Sel.Name, r)
						}
					}
				}
				if t.Tok == token.DEFINE || t.Tok == token.ASSIGN {
					if len(t.Lhs) == len(t.Rhs) {
						for i := range t.Lhs {
							if t.Tok == token.ASSIGN {
								record(t.Lhs[i])
								// x.F = fresh  makes F owned on an owned x
								if se, ok := t.Lhs[i].(*ast.SelectorExpr); ok {
									if id, ok := se.X.(*ast.Ident); ok {
										if in := ev[id.Name]; in != nil && in.k == kOwned && isFreshExpr(t.Rhs[i]) {
											in.owned[se.Sel.Name] = true
										} else if in == nil && isFreshExpr(t.Rhs[i]) && fieldTaint[se.Sel.Name] {
											ev[id.Name] = &info{k: kOwned, owned: map[string]bool{se.Sel.Name: true}, fresh: true}
										}
									}
								}
								if _, isIdent := t.Lhs[i].(*ast.Ident); !isIdent {
									continue
								}
							}
							define(t.Lhs[i], ev.describe(t.Rhs[i]))
						}
					} else if len(t.Rhs) == 1 { // x, ok := e.(T)  /  v, ok := m[k]
						if t.Tok == token.ASSIGN {
							for _, l := range t.Lhs {
								record(l)
							}
						}
						define(t.Lhs[0], ev.describe(t.Rhs[0]))
					}
				} else {
					for _, l := range t.Lhs {
						record(l)
					}
				}
			case *ast.IncDecStmt:
				record(t.X)
			case *ast.RangeStmt:
				src := ev.describe(t.X)
				if t.Value != nil && t.Tok == token.DEFINE {
					var el *info
					if src != nil {
						switch src.k {
						case kPath, kNode, kShared:
							el = &info{k: kOwned, owned: map[string]bool{}} // the range variable is a copy of the element
						case kOwned:
							el = &info{k: kOwned, owned: map[string]bool{}, fresh: src.fresh, astTy: src.astTy}
						}
					}
					define(t.Value, el)
				}
			case *ast.TypeSwitchStmt:
				// switch s := x.Data.(type): s is a pointer to a shared node in every clause
				if as, ok := t.Assign.(*ast.AssignStmt); ok && len(as.Lhs) == 1 && len(as.Rhs) == 1 {
					if ta, ok := as.Rhs[0].(*ast.TypeAssertExpr); ok {
						if in := ev.describe(ta.X); in != nil && in.k != kNone {
							define(as.Lhs[0], &info{k: kNode})
						} else if r, _, ok := chain(ta.X); ok && ev[r] != nil && !(ev[r].fresh && !ev[r].astTy) {
							define(as.Lhs[0], &info{k: kNode})
						}
					}
				}
			case *ast.ValueSpec:
				for i, nm := range t.Names {
					if i < len(t.Values) {
						define(nm, ev.describe(t.Values[i]))
					}
				}
			}
			return true
		})
	}
	if fd.Body != nil {
		walk(fd.Body)
	}
}

func parse(path string) *ast.File {
	f, err := parser.ParseFile(fset, path, nil, 0)
	if err != nil {
		die("cannot parse %s: %v", path, err)
	}
	return f
}

func findFunc(f *ast.File, name string) *ast.FuncDecl {
	for _, d := range f.Decls {
		if fd, ok := d.(*ast.FuncDecl); ok && fd.Name.Name == name {
			return fd
		}
	}
	return nil
}

func coqStr(s string) string { return "\"" + strings.ReplaceAll(s, "\"", "\"\"") + "\"" }

func main() {
	if len(os.Args) != 3 {
		die("usage: t9astwrites <repo> <outdir>")
	}
	repo, outdir := os.Args[1], os.Args[2]

	// 1. which levels does CloneLinkerGraph clone?
	gf := parse(filepath.Join(repo, "internal/graph/graph.go"))
	clg := findFunc(gf, "CloneLinkerGraph")
	if clg == nil {
		die("graph.CloneLinkerGraph not found")
	}
	reprCopied := 0
	ast.Inspect(clg.Body, func(n ast.Node) bool {
		as, ok := n.(*ast.AssignStmt)
		if !ok || len(as.Lhs) != 1 || len(as.Rhs) != 1 {
			return true
		}
		l := text(as.Lhs[0])
		r := text(as.Rhs[0])
		if as.Tok == token.DEFINE && l == "clone" && r == "*repr" {
			reprCopied++
		}
		if as.Tok == token.ASSIGN && strings.HasPrefix(l, "repr.AST.") {
			field := strings.TrimPrefix(l, "repr.AST.")
			if isFreshExpr(as.Rhs[0]) {
				clonedLevels[field] = true
			} else if id, ok := as.Rhs[0].(*ast.Ident); ok {
				// assigned from a local that was built freshly (make + copy loop, or &T{} + *new = *old)
				fresh := false
				ast.Inspect(clg.Body, func(m ast.Node) bool {
					if d, ok := m.(*ast.AssignStmt); ok && d.Tok == token.DEFINE && len(d.Lhs) == 1 && len(d.Rhs) == 1 {
						if x, ok := d.Lhs[0].(*ast.Ident); ok && x.Name == id.Name && isFreshExpr(d.Rhs[0]) {
							fresh = true
						}
					}
					return true
				})
				if fresh {
					clonedLevels[field] = true
				}
			}
		}
		if as.Tok == token.ASSIGN && l == "part.SymbolUses" && text(as.Rhs[0]) == "clone" {
			clonedLevels["Parts.[].SymbolUses"] = true
		}
		return true
	})
	if reprCopied < 2 {
		die("CloneLinkerGraph no longer copies the JS and CSS repr (clone := *repr)")
	}
	for _, need := range []string{"Parts", "ImportRecords", "NamedImports", "ModuleScope", "Parts.[].SymbolUses"} {
		if !clonedLevels[need] {
			die("CloneLinkerGraph no longer clones AST.%s", need)
		}
	}

	// 2. parseFile clones the import records before the bundler mutates them
	bf := parse(filepath.Join(repo, "internal/bundler/bundler.go"))
	pf := findFunc(bf, "parseFile")
	if pf == nil {
		die("bundler.parseFile not found")
	}
	okClone := false
	ast.Inspect(pf.Body, func(n ast.Node) bool {
		if as, ok := n.(*ast.AssignStmt); ok && as.Tok == token.ASSIGN && len(as.Lhs) == 1 && text(as.Lhs[0]) == "*recordsPtr" && text(as.Rhs[0]) == "records" {
			okClone = true
		}
		return true
	})
	if !okClone {
		die("bundler.parseFile no longer stores a clone of the import records (*recordsPtr = records)")
	}

	// 3. the write sites
	lf := parse(filepath.Join(repo, "internal/linker/linker.go"))
	for _, pair := range []struct {
		name string
		f    *ast.File
	}{{"internal/linker/linker.go", lf}, {"internal/bundler/bundler.go", bf}} {
		for _, d := range pair.f.Decls {
			if fd, ok := d.(*ast.FuncDecl); ok {
				analyseFunc(pair.name, fd)
			}
		}
	}
	if len(sites) < 20 {
		die("only %d write sites found: the analysis no longer recognises the code", len(sites))
	}

	// collapse identical (file, func, lhs, class) into counts
	type key struct{ file, fn, lhs, class, why string }
	count := map[key]int{}
	var keys []key
	for _, s := range sites {
		k := key{s.file, s.fn, s.lhs, s.class, s.why}
		if count[k] == 0 {
			keys = append(keys, k)
		}
		count[k]++
	}
	sort.Slice(keys, func(i, j int) bool {
		a, b := keys[i], keys[j]
		if a.file != b.file {
			return a.file < b.file
		}
		if a.fn != b.fn {
			return a.fn < b.fn
		}
		if a.lhs != b.lhs {
			return a.lhs < b.lhs
		}
		return a.class < b.class
	})

	var sb strings.Builder
	sb.WriteString("(* GENERATED by gen/cmd/t9astwrites from internal/linker/linker.go, internal/bundler/bundler.go,\n   internal/graph/graph.go. Regenerated on every run; do not edit. *)\n")
	sb.WriteString("From Coq Require Import List String ZArith.\nImport ListNotations.\nOpen Scope string_scope.\n\n")
	sb.WriteString("Inductive wclass := OwnedField | OwnedSlice | ClonedLevel | Shared.\n")
	sb.WriteString("Record wsite := mkWSite {\n  ws_file : string; ws_func : string; ws_lhs : string; ws_class : wclass; ws_count : nat; ws_why : string }.\n\n")
	var lv []string
	for l := range clonedLevels {
		lv = append(lv, l)
	}
	sort.Strings(lv)
	q := make([]string, len(lv))
	for i, l := range lv {
		q[i] = coqStr("AST." + l)
	}
	sb.WriteString("(* levels cloned by graph.CloneLinkerGraph (import records also by bundler.parseFile) *)\n")
	fmt.Fprintf(&sb, "Definition cloned_levels : list string := [%s].\n\n", strings.Join(q, "; "))
	sb.WriteString("Definition ast_write_sites : list wsite := [\n")
	for i, k := range keys {
		sep := ";"
		if i == len(keys)-1 {
			sep = ""
		}
		fmt.Fprintf(&sb, "  mkWSite %s %s %s %s %d %s%s\n", coqStr(k.file), coqStr(k.fn), coqStr(k.lhs), k.class, count[k], coqStr(k.why), sep)
	}
	sb.WriteString("].\n")
	if err := os.MkdirAll(outdir, 0o755); err != nil {
		die("%v", err)
	}
	if err := os.WriteFile(filepath.Join(outdir, "AstWritesGen.v"), []byte(sb.String()), 0o644); err != nil {
		die("%v", err)
	}
}
