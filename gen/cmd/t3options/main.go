// Translator T3: inventory of parser option fields versus what the cache's
// option comparison looks at.
//
//	usage: t3options <repo> <outdir>      writes <outdir>/OptionFieldsGen.v
//
// Reads (go/parser, go/ast only):
//
//	internal/js_parser/js_parser.go   type Options, optionsThatSupportStructuralEquality,
//	                                  func (a *Options) Equal, OptionsFromConfig, local helpers
//	internal/js_parser/json_parser.go type JSONOptions
//	internal/css_parser/css_parser.go type Options, optionsThatSupportStructuralEquality, Equal, OptionsFromConfig
//	internal/config/*.go              JSXOptions, TSOptions, TSConfig, TSAlwaysStrict, InjectedFile, DefineExpr
//	internal/cache/cache_ast.go       how each cache compares options
//	internal/js_parser/*.go, internal/css_parser/*.go (non-test): which option fields the parser reads
//
// For every flattened leaf field it emits: name, Go type, whether
// OptionsFromConfig sets it, whether the parser package reads it, and how Equal
// treats it (structural ==, compared directly / through a helper, only
// asserted, not looked at). Fails closed (exit 1) if a declaration it expects
// is missing or has an unexpected shape.
package main

import (
	"fmt"
	"go/ast"
	"go/parser"
	"go/token"
	"os"
	"path/filepath"
	"sort"
	"strings"
)

func die(f string, a ...interface{}) {
	fmt.Fprintf(os.Stderr, "t3options: "+f+"\n", a...)
	os.Exit(1)
}

type pkgInfo struct {
	fset    *token.FileSet
	files   map[string]*ast.File
	structs map[string]*ast.StructType
	funcs   map[string]*ast.FuncDecl // "Recv.Name" or "Name"
}

func loadPkg(dir string) *pkgInfo {
	p := &pkgInfo{fset: token.NewFileSet(), files: map[string]*ast.File{}, structs: map[string]*ast.StructType{}, funcs: map[string]*ast.FuncDecl{}}
	ents, err := os.ReadDir(dir)
	if err != nil {
		die("cannot read %s: %v", dir, err)
	}
	for _, e := range ents {
		n := e.Name()
		if !strings.HasSuffix(n, ".go") || strings.HasSuffix(n, "_test.go") || strings.HasSuffix(n, "_verif.go") {
			continue
		}
		f, err := parser.ParseFile(p.fset, filepath.Join(dir, n), nil, 0)
		if err != nil {
			die("cannot parse %s: %v", n, err)
		}
		p.files[n] = f
		for _, d := range f.Decls {
			switch d := d.(type) {
			case *ast.GenDecl:
				for _, s := range d.Specs {
					if ts, ok := s.(*ast.TypeSpec); ok {
						if st, ok := ts.Type.(*ast.StructType); ok {
							p.structs[ts.Name.Name] = st
						}
					}
				}
			case *ast.FuncDecl:
				name := d.Name.Name
				if d.Recv != nil && len(d.Recv.List) == 1 {
					name = typeString(d.Recv.List[0].Type) + "." + name
				}
				p.funcs[name] = d
			}
		}
	}
	return p
}

func typeString(e ast.Expr) string {
	switch t := e.(type) {
	case *ast.Ident:
		return t.Name
	case *ast.StarExpr:
		return "*" + typeString(t.X)
	case *ast.SelectorExpr:
		return typeString(t.X) + "." + t.Sel.Name
	case *ast.ArrayType:
		return "[]" + typeString(t.Elt)
	case *ast.MapType:
		return "map[" + typeString(t.Key) + "]" + typeString(t.Value)
	case *ast.InterfaceType:
		return "interface{}"
	}
	return fmt.Sprintf("%T", e)
}

type leaf struct {
	name  string // flattened path; slice elements are "x[]"
	typ   string
	group string // name of the embedded struct the leaf comes from ("" = direct)
}

// flatten a struct type: fields of struct types declared in `own` or in the
// config package are expanded recursively, everything else is a leaf
func flatten(prefix string, st *ast.StructType, own *pkgInfo, cfg *pkgInfo, ownIsCfg bool, group string, out *[]leaf, depth int) {
	if depth > 6 {
		die("struct nesting too deep at %s", prefix)
	}
	for _, f := range st.Fields.List {
		ts := typeString(f.Type)
		names := []string{}
		for _, n := range f.Names {
			names = append(names, n.Name)
		}
		if len(names) == 0 { // embedded
			inner, ok := own.structs[strings.TrimPrefix(ts, "*")]
			if !ok {
				die("embedded field %s of unknown struct", ts)
			}
			flatten(prefix, inner, own, cfg, ownIsCfg, ts, out, depth+1)
			continue
		}
		for _, n := range names {
			path := prefix + n
			base := strings.TrimPrefix(ts, "*")
			elemSuffix := ""
			if strings.HasPrefix(base, "[]") {
				base = strings.TrimPrefix(base, "[]")
				elemSuffix = "[]"
			}
			var inner *ast.StructType
			innerIsCfg := false
			if strings.HasPrefix(base, "config.") && cfg != nil {
				inner = cfg.structs[strings.TrimPrefix(base, "config.")]
				innerIsCfg = true
			} else if ownIsCfg && !strings.Contains(base, ".") {
				inner = own.structs[base]
				innerIsCfg = true
			}
			if inner != nil && base != "config.ProcessedDefines" && base != "ProcessedDefines" {
				p2 := own
				if innerIsCfg {
					p2 = cfg
				}
				flatten(path+elemSuffix+".", inner, p2, cfg, innerIsCfg, group, out, depth+1)
			} else {
				*out = append(*out, leaf{name: path, typ: ts, group: group})
			}
		}
	}
}

// ---- analysis of Equal ----

type mention struct {
	path   string
	assert bool // inside an if whose body only panics
}

type equalAnalysis struct {
	pkg      *pkgInfo
	compared []mention // whole-value comparisons at these paths
}

// path of a selector chain rooted at an aliased identifier; "" if not rooted
func chain(e ast.Expr, alias map[string]string) (string, bool) {
	switch t := e.(type) {
	case *ast.Ident:
		if p, ok := alias[t.Name]; ok {
			return p, true
		}
		return "", false
	case *ast.SelectorExpr:
		p, ok := chain(t.X, alias)
		if !ok {
			return "", false
		}
		if p == "" {
			return t.Sel.Name, true
		}
		return p + "." + t.Sel.Name, true
	case *ast.StarExpr:
		return chain(t.X, alias)
	case *ast.ParenExpr:
		return chain(t.X, alias)
	case *ast.IndexExpr:
		p, ok := chain(t.X, alias)
		if !ok {
			return "", false
		}
		return p + "[]", true
	case *ast.UnaryExpr:
		if t.Op == token.AND {
			return chain(t.X, alias)
		}
	}
	return "", false
}

func isNil(e ast.Expr) bool {
	id, ok := e.(*ast.Ident)
	return ok && id.Name == "nil"
}

func onlyPanics(b *ast.BlockStmt) bool {
	if len(b.List) != 1 {
		return false
	}
	es, ok := b.List[0].(*ast.ExprStmt)
	if !ok {
		return false
	}
	c, ok := es.X.(*ast.CallExpr)
	if !ok {
		return false
	}
	id, ok := c.Fun.(*ast.Ident)
	return ok && id.Name == "panic"
}

func (ea *equalAnalysis) expr(e ast.Expr, alias map[string]string, assert bool, depth int) {
	ast.Inspect(e, func(n ast.Node) bool {
		switch t := n.(type) {
		case *ast.BinaryExpr:
			if t.Op == token.EQL || t.Op == token.NEQ {
				px, okx := chain(t.X, alias)
				py, oky := chain(t.Y, alias)
				if okx && oky && px != "" && py != "" {
					ea.compared = append(ea.compared, mention{px, assert}, mention{py, assert})
					return false
				}
				// comparisons against nil or of len(...) values say nothing about the contents
			}
		case *ast.CallExpr:
			if id, ok := t.Fun.(*ast.Ident); ok && (id.Name == "len" || id.Name == "cap" || id.Name == "panic") {
				return false
			}
			var paths []string
			rooted := 0
			for _, a := range t.Args {
				p, ok := chain(a, alias)
				if ok && p != "" {
					rooted++
				}
				paths = append(paths, p)
			}
			if rooted == 0 {
				return true
			}
			// local helper: analyse its body with the parameters aliased
			if id, ok := t.Fun.(*ast.Ident); ok && depth < 3 {
				if fd, ok := ea.pkg.funcs[id.Name]; ok && fd.Body != nil {
					inner := map[string]string{}
					i := 0
					for _, f := range fd.Type.Params.List {
						for _, nm := range f.Names {
							if i < len(paths) && paths[i] != "" {
								inner[nm.Name] = paths[i]
							}
							i++
						}
					}
					before := len(ea.compared)
					ea.block(fd.Body, inner, assert, depth+1)
					if len(ea.compared) == before {
						// the helper looks at nothing we can see: count the arguments as compared whole
						for _, p := range paths {
							if p != "" {
								ea.compared = append(ea.compared, mention{p, assert})
							}
						}
					}
					return false
				}
			}
			for _, p := range paths {
				if p != "" {
					ea.compared = append(ea.compared, mention{p, assert})
				}
			}
			return false
		}
		return true
	})
}

func (ea *equalAnalysis) block(b *ast.BlockStmt, alias map[string]string, assert bool, depth int) {
	for _, s := range b.List {
		ea.stmt(s, alias, assert, depth)
	}
}

func (ea *equalAnalysis) stmt(s ast.Stmt, alias map[string]string, assert bool, depth int) {
	switch t := s.(type) {
	case *ast.IfStmt:
		if t.Init != nil {
			ea.stmt(t.Init, alias, assert, depth)
		}
		a := assert || onlyPanics(t.Body)
		ea.expr(t.Cond, alias, a, depth)
		ea.block(t.Body, alias, assert, depth)
		if t.Else != nil {
			ea.stmt(t.Else, alias, assert, depth)
		}
	case *ast.BlockStmt:
		ea.block(t, alias, assert, depth)
	case *ast.RangeStmt:
		if p, ok := chain(t.X, alias); ok && p != "" {
			if v, ok := t.Value.(*ast.Ident); ok && v.Name != "_" {
				alias[v.Name] = p + "[]"
			}
		}
		ea.block(t.Body, alias, assert, depth)
	case *ast.ForStmt:
		ea.block(t.Body, alias, assert, depth)
	case *ast.AssignStmt:
		if (len(t.Lhs) == 1 || len(t.Lhs) == 2) && len(t.Rhs) == 1 { // x := path   or   x, ok := path[k]
			if id, ok := t.Lhs[0].(*ast.Ident); ok {
				if p, ok := chain(t.Rhs[0], alias); ok && p != "" {
					alias[id.Name] = p
					return
				}
			}
		}
		for _, r := range t.Rhs {
			ea.expr(r, alias, assert, depth)
		}
	case *ast.ExprStmt:
		ea.expr(t.X, alias, assert, depth)
	case *ast.ReturnStmt:
		for _, r := range t.Results {
			ea.expr(r, alias, assert, depth)
		}
	}
}

func normPath(p string) string { return strings.TrimSuffix(p, "[]") }

// does a whole-value mention at path m cover leaf l?
func covers(m string, l leaf) bool {
	m = normPath(m)
	if m == l.group && l.group != "" {
		return true
	}
	return m == l.name || strings.HasPrefix(l.name, m+".") || strings.HasPrefix(l.name, m+"[].") || l.name == m+"[]"
}

// ---- what OptionsFromConfig sets ----

func setKeys(fd *ast.FuncDecl) map[string]bool {
	keys := map[string]bool{}
	ast.Inspect(fd.Body, func(n ast.Node) bool {
		if cl, ok := n.(*ast.CompositeLit); ok {
			for _, e := range cl.Elts {
				if kv, ok := e.(*ast.KeyValueExpr); ok {
					if id, ok := kv.Key.(*ast.Ident); ok {
						keys[id.Name] = true
					}
				}
			}
		}
		return true
	})
	return keys
}

// ---- which fields the parser package reads ----

func readPaths(p *pkgInfo, skipFuncs map[string]bool) map[string]bool {
	reads := map[string]bool{}
	for _, f := range p.files {
		for _, d := range f.Decls {
			fd, ok := d.(*ast.FuncDecl)
			if !ok || fd.Body == nil {
				continue
			}
			name := fd.Name.Name
			if fd.Recv != nil && len(fd.Recv.List) == 1 {
				name = typeString(fd.Recv.List[0].Type) + "." + name
			}
			if skipFuncs[name] {
				continue
			}
			ast.Inspect(fd.Body, func(n ast.Node) bool {
				se, ok := n.(*ast.SelectorExpr)
				if !ok {
					return true
				}
				// collect the full chain x.y.z...
				var parts []string
				var cur ast.Expr = se
				for {
					if s, ok := cur.(*ast.SelectorExpr); ok {
						parts = append([]string{s.Sel.Name}, parts...)
						cur = s.X
						continue
					}
					if ix, ok := cur.(*ast.IndexExpr); ok {
						cur = ix.X
						continue
					}
					break
				}
				id, ok := cur.(*ast.Ident)
				if !ok {
					return true
				}
				full := append([]string{id.Name}, parts...)
				for i, s := range full {
					if s == "options" || s == "Options" {
						if i+1 < len(full) {
							reads[strings.Join(full[i+1:], ".")] = true
						} else {
							reads["*"] = true
						}
						break
					}
				}
				return false
			})
		}
	}
	return reads
}

func isRead(reads map[string]bool, l leaf) bool {
	ln := strings.ReplaceAll(l.name, "[]", "")
	for r := range reads {
		if r == ln || strings.HasPrefix(ln, r+".") || strings.HasPrefix(r, ln+".") {
			return true
		}
	}
	return false
}

func coqStr(s string) string { return "\"" + strings.ReplaceAll(s, "\"", "\"\"") + "\"" }

func emitTable(sb *strings.Builder, name string, leaves []leaf, set func(leaf) bool, read func(leaf) bool, cmp func(leaf) string) {
	fmt.Fprintf(sb, "Definition %s : list ofield := [\n", name)
	for i, l := range leaves {
		sep := ";"
		if i == len(leaves)-1 {
			sep = ""
		}
		b := func(x bool) string {
			if x {
				return "true"
			}
			return "false"
		}
		fmt.Fprintf(sb, "  mkOField %s %s %s %s %s%s\n", coqStr(l.name), coqStr(l.typ), b(set(l)), b(read(l)), cmp(l), sep)
	}
	sb.WriteString("].\n\n")
}

func main() {
	if len(os.Args) != 3 {
		die("usage: t3options <repo> <outdir>")
	}
	repo, outdir := os.Args[1], os.Args[2]
	js := loadPkg(filepath.Join(repo, "internal/js_parser"))
	css := loadPkg(filepath.Join(repo, "internal/css_parser"))
	cfg := loadPkg(filepath.Join(repo, "internal/config"))
	cch := loadPkg(filepath.Join(repo, "internal/cache"))

	var sb strings.Builder
	sb.WriteString("(* GENERATED by gen/cmd/t3options from internal/js_parser, internal/css_parser, internal/config, internal/cache.\n   Regenerated on every run; do not edit. *)\n")
	sb.WriteString("From Coq Require Import List String Bool.\nImport ListNotations.\nOpen Scope string_scope.\n\n")
	sb.WriteString("(* how the option comparison used by the cache treats a field *)\nInductive ocmp := CmpStructural | CmpDirect | CmpAssertOnly | CmpNone.\n")
	sb.WriteString("Record ofield := mkOField {\n  of_name : string;  (* flattened field path *)\n  of_type : string;  (* Go type *)\n  of_set : bool;     (* assigned by OptionsFromConfig *)\n  of_read : bool;    (* read by the parser package *)\n  of_cmp : ocmp }.\n\n")

	analyse := func(p *pkgInfo, what string) ([]leaf, func(leaf) bool, func(leaf) bool, func(leaf) string) {
		opt, ok := p.structs["Options"]
		if !ok {
			die("%s: type Options struct not found", what)
		}
		if _, ok := p.structs["optionsThatSupportStructuralEquality"]; !ok {
			die("%s: optionsThatSupportStructuralEquality not found", what)
		}
		var leaves []leaf
		flatten("", opt, p, cfg, false, "", &leaves, 0)
		eq, ok := p.funcs["*Options.Equal"]
		if !ok || eq.Body == nil || len(eq.Recv.List[0].Names) != 1 || len(eq.Type.Params.List) != 1 || len(eq.Type.Params.List[0].Names) != 1 {
			die("%s: func (a *Options) Equal(b *Options) not found", what)
		}
		ea := &equalAnalysis{pkg: p}
		alias := map[string]string{eq.Recv.List[0].Names[0].Name: "", eq.Type.Params.List[0].Names[0].Name: ""}
		ea.block(eq.Body, alias, false, 0)
		ofc, ok := p.funcs["OptionsFromConfig"]
		if !ok {
			die("%s: OptionsFromConfig not found", what)
		}
		keys := setKeys(ofc)
		reads := readPaths(p, map[string]bool{"*Options.Equal": true, "OptionsFromConfig": true, "OptionsForYarnPnP": true, "isSameRegexp": true, "jsxExprsEqual": true})
		set := func(l leaf) bool {
			top := strings.SplitN(strings.SplitN(l.name, ".", 2)[0], "[", 2)[0]
			return keys[top]
		}
		read := func(l leaf) bool { return isRead(reads, l) }
		cmp := func(l leaf) string {
			res := "CmpNone"
			for _, m := range ea.compared {
				if covers(m.path, l) {
					if m.assert {
						if res == "CmpNone" {
							res = "CmpAssertOnly"
						}
					} else if normPath(m.path) == l.group && l.group != "" {
						return "CmpStructural"
					} else {
						res = "CmpDirect"
					}
				}
			}
			return res
		}
		structural := 0
		for _, l := range leaves {
			if cmp(l) == "CmpStructural" {
				structural++
			}
		}
		if structural == 0 {
			die("%s: Equal no longer compares optionsThatSupportStructuralEquality as a whole", what)
		}
		return leaves, set, read, cmp
	}

	jl, jset, jread, jcmp := analyse(js, "js_parser")
	emitTable(&sb, "js_option_fields", jl, jset, jread, jcmp)
	cl, cset, cread, ccmp := analyse(css, "css_parser")
	emitTable(&sb, "css_option_fields", cl, cset, cread, ccmp)

	// JSONOptions: compared with == in the cache
	jo, ok := js.structs["JSONOptions"]
	if !ok {
		die("js_parser: type JSONOptions struct not found")
	}
	var jsonLeaves []leaf
	for _, f := range jo.Fields.List {
		for _, n := range f.Names {
			jsonLeaves = append(jsonLeaves, leaf{name: n.Name, typ: typeString(f.Type)})
		}
	}

	// how the caches compare: look inside the three Parse methods
	cacheCmp := map[string]string{}
	for _, c := range []string{"JSCache", "CSSCache", "JSONCache"} {
		fd, ok := cch.funcs["*"+c+".Parse"]
		if !ok {
			die("cache: func (c *%s) Parse not found", c)
		}
		mode := "none"
		ast.Inspect(fd.Body, func(n ast.Node) bool {
			switch t := n.(type) {
			case *ast.CallExpr:
				if se, ok := t.Fun.(*ast.SelectorExpr); ok && se.Sel.Name == "Equal" {
					if x, ok := se.X.(*ast.SelectorExpr); ok && x.Sel.Name == "options" {
						mode = "Equal"
					}
				}
			case *ast.BinaryExpr:
				if t.Op == token.EQL {
					if x, ok := t.X.(*ast.SelectorExpr); ok && x.Sel.Name == "options" {
						if y, ok := t.Y.(*ast.Ident); ok && y.Name == "options" {
							mode = "=="
						}
					}
				}
			}
			return true
		})
		cacheCmp[c] = mode
	}
	if cacheCmp["JSCache"] != "Equal" || cacheCmp["CSSCache"] != "Equal" {
		die("cache: JSCache/CSSCache no longer compare options with Equal (%v)", cacheCmp)
	}
	jsonReads := readPaths(js, map[string]bool{})
	emitTable(&sb, "json_option_fields", jsonLeaves,
		func(l leaf) bool { return true },
		func(l leaf) bool { return isRead(jsonReads, l) },
		func(l leaf) string {
			if cacheCmp["JSONCache"] == "==" {
				return "CmpStructural"
			}
			return "CmpNone"
		})

	// does each cache also compare the source (entry.source == source)?
	srcCmp := []string{}
	for _, c := range []string{"JSCache", "CSSCache", "JSONCache"} {
		fd := cch.funcs["*"+c+".Parse"]
		found := false
		ast.Inspect(fd.Body, func(n ast.Node) bool {
			if t, ok := n.(*ast.BinaryExpr); ok && t.Op == token.EQL {
				if x, ok := t.X.(*ast.SelectorExpr); ok && x.Sel.Name == "source" {
					if y, ok := t.Y.(*ast.Ident); ok && y.Name == "source" {
						found = true
					}
				}
			}
			return true
		})
		if found {
			srcCmp = append(srcCmp, c)
		}
	}
	sort.Strings(srcCmp)
	fmt.Fprintf(&sb, "(* caches whose hit test contains `entry.source == source` *)\nDefinition caches_comparing_source : list string := [%s].\n", strings.Join(mapStr(srcCmp, coqStr), "; "))

	if err := os.MkdirAll(outdir, 0o755); err != nil {
		die("%v", err)
	}
	if err := os.WriteFile(filepath.Join(outdir, "OptionFieldsGen.v"), []byte(sb.String()), 0o644); err != nil {
		die("%v", err)
	}
}

func mapStr(xs []string, f func(string) string) []string {
	out := make([]string, len(xs))
	for i, x := range xs {
		out[i] = f(x)
	}
	return out
}
