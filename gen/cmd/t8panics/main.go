// t8panics: translator T8 (property C16). Purely syntactic go/parser scan of
// the parser/linker/bundler packages:
//   - goroutine spawn sites (`go f(...)`, `go func(){...}()`), whether the
//     spawned body defers a recover wrapper, and which parser/printer entry
//     points it reaches through the same-package call graph;
//   - functions that construct a js_lexer lexer and whether they defer the
//     LexerPanic recover before doing so;
//   - the inventory of panic( sites, typed LexerPanic vs other.
//
// usage: t8panics <repo> <outdir>   writes <outdir>/PanicSitesGen.v
// Fails closed (exit 1, no file) if the sources do not look as expected.
package main

import (
	"fmt"
	"go/ast"
	"go/parser"
	"go/token"
	"os"
	"path/filepath"
	"sort"
	"strings"
)

var pkgs = []string{"internal/bundler", "internal/linker", "internal/js_parser", "internal/css_parser", "internal/js_lexer", "internal/css_lexer", "pkg/api"}

var sinkQualified = map[string]bool{
	"js_parser.Parse": true, "js_parser.ParseJSON": true, "js_parser.ParseSourceMap": true, "js_parser.ParseGlobalName": true,
	"js_parser.LazyExportAST": true, "js_parser.GlobResolveAST": true, "css_parser.Parse": true,
	"js_printer.Print": true, "css_printer.Print": true, "js_printer.PrintExpr": true,
}
var sinkSuffix = []string{"JSCache.Parse", "CSSCache.Parse", "JSONCache.Parse"}

func die(format string, a ...interface{}) {
	fmt.Fprintf(os.Stderr, "t8panics: "+format+"\n", a...)
	os.Exit(1)
}

func exprText(e ast.Expr) string {
	switch v := e.(type) {
	case *ast.Ident:
		return v.Name
	case *ast.SelectorExpr:
		return exprText(v.X) + "." + v.Sel.Name
	case *ast.ParenExpr:
		return exprText(v.X)
	case *ast.StarExpr:
		return exprText(v.X)
	case *ast.IndexExpr:
		return exprText(v.X)
	case *ast.CallExpr:
		return exprText(v.Fun) + "()"
	}
	return "?"
}

func recvName(fd *ast.FuncDecl) string {
	if fd.Recv == nil || len(fd.Recv.List) == 0 {
		return ""
	}
	t := fd.Recv.List[0].Type
	for {
		switch v := t.(type) {
		case *ast.StarExpr:
			t = v.X
			continue
		case *ast.IndexExpr:
			t = v.X
			continue
		case *ast.Ident:
			return v.Name
		}
		return "?"
	}
}

func funcName(fd *ast.FuncDecl) string {
	if r := recvName(fd); r != "" {
		return r + "." + fd.Name.Name
	}
	return fd.Name.Name
}

type pkgInfo struct {
	dir   string
	decls map[string][]*ast.FuncDecl // bare name -> declarations
	files []*ast.File
	names []string
}

// containsCall reports whether a call to the bare identifier `name` occurs in n
// (optionally not descending into nested function literals).
func containsCall(n ast.Node, name string, intoLits bool) bool {
	found := false
	ast.Inspect(n, func(x ast.Node) bool {
		if found {
			return false
		}
		if _, ok := x.(*ast.FuncLit); ok && !intoLits && x != n {
			return false
		}
		if c, ok := x.(*ast.CallExpr); ok {
			if id, ok := c.Fun.(*ast.Ident); ok && id.Name == name {
				found = true
			}
		}
		return true
	})
	return found
}

func mentionsIdent(n ast.Node, name string) bool {
	found := false
	ast.Inspect(n, func(x ast.Node) bool {
		if id, ok := x.(*ast.Ident); ok && id.Name == name {
			found = true
		}
		return !found
	})
	return found
}

// isRecoverWrapper: `defer func(){ ... recover() ... }()` or `defer X(...)` where
// the same-package function X calls recover().
func (p *pkgInfo) isRecoverWrapper(d *ast.DeferStmt) bool {
	switch f := d.Call.Fun.(type) {
	case *ast.FuncLit:
		return containsCall(f.Body, "recover", true)
	case *ast.Ident:
		for _, fd := range p.decls[f.Name] {
			if fd.Body != nil && containsCall(fd.Body, "recover", true) {
				return true
			}
		}
	case *ast.SelectorExpr:
		for _, fd := range p.decls[f.Sel.Name] {
			if fd.Body != nil && containsCall(fd.Body, "recover", true) {
				return true
			}
		}
	}
	return false
}

func (p *pkgInfo) recoverLevel(body *ast.BlockStmt) int {
	for _, s := range body.List {
		if d, ok := s.(*ast.DeferStmt); ok && p.isRecoverWrapper(d) {
			return 2
		}
	}
	level := 0
	ast.Inspect(body, func(x ast.Node) bool {
		if _, ok := x.(*ast.FuncLit); ok {
			return false
		}
		if d, ok := x.(*ast.DeferStmt); ok && p.isRecoverWrapper(d) {
			level = 1
		}
		return true
	})
	return level
}

// callees: bare names and sink texts mentioned in a body (func literals included)
func callees(n ast.Node) (names map[string]bool, sinks map[string]bool) {
	names, sinks = map[string]bool{}, map[string]bool{}
	ast.Inspect(n, func(x ast.Node) bool {
		c, ok := x.(*ast.CallExpr)
		if !ok {
			return true
		}
		switch f := c.Fun.(type) {
		case *ast.Ident:
			names[f.Name] = true
		case *ast.SelectorExpr:
			names[f.Sel.Name] = true
			t := exprText(f)
			if sinkQualified[t] {
				sinks[t] = true
			}
			for _, s := range sinkSuffix {
				if strings.HasSuffix(t, "."+s) || t == s {
					sinks[s] = true
				}
			}
		}
		return true
	})
	return
}

func (p *pkgInfo) reachableSinks(root ast.Node) []string {
	all := map[string]bool{}
	visited := map[string]bool{}
	var work []ast.Node
	work = append(work, root)
	for len(work) > 0 {
		n := work[len(work)-1]
		work = work[:len(work)-1]
		names, sinks := callees(n)
		for s := range sinks {
			all[s] = true
		}
		for name := range names {
			if visited[name] {
				continue
			}
			visited[name] = true
			for _, fd := range p.decls[name] {
				if fd.Body != nil {
					work = append(work, fd.Body)
				}
			}
		}
	}
	var out []string
	for s := range all {
		out = append(out, s)
	}
	sort.Strings(out)
	return out
}

func q(s string) string {
	var sb strings.Builder
	sb.WriteByte('"')
	for _, c := range s {
		switch {
		case c == '"':
			sb.WriteString("\"\"")
		case c < 0x20 || c > 0x7E:
			sb.WriteByte('?')
		default:
			sb.WriteRune(c)
		}
	}
	sb.WriteByte('"')
	return sb.String()
}

func qlist(xs []string) string {
	var ys []string
	for _, x := range xs {
		ys = append(ys, q(x))
	}
	return "[" + strings.Join(ys, "; ") + "]"
}

func b(v bool) string {
	if v {
		return "true"
	}
	return "false"
}

func firstString(e ast.Expr) string {
	res := ""
	ast.Inspect(e, func(x ast.Node) bool {
		if res != "" {
			return false
		}
		if l, ok := x.(*ast.BasicLit); ok && l.Kind == token.STRING {
			s := strings.Trim(l.Value, "\"`")
			if len(s) > 60 {
				s = s[:60]
			}
			res = s
		}
		return true
	})
	return res
}

func main() {
	if len(os.Args) != 3 {
		die("usage: t8panics <repo> <outdir>")
	}
	repo, outdir := os.Args[1], os.Args[2]
	var spawns, entries, panics []string
	nTyped := 0
	entryNames := map[string]bool{}
	haveRecoverInternal, haveParseFile := false, false
	var serviceSpawns, regexps []string
	regexpSeen := map[string]bool{}
	pass := 1
	scan := func(dir string) {
		matches, _ := filepath.Glob(filepath.Join(repo, dir, "*.go"))
		sort.Strings(matches)
		p := &pkgInfo{dir: dir, decls: map[string][]*ast.FuncDecl{}}
		fset := token.NewFileSet()
		for _, f := range matches {
			base := filepath.Base(f)
			if strings.HasSuffix(base, "_test.go") || strings.HasPrefix(base, "export_verif") {
				continue
			}
			af, err := parser.ParseFile(fset, f, nil, 0)
			if err != nil {
				die("cannot parse %s: %v", f, err)
			}
			p.files = append(p.files, af)
			p.names = append(p.names, base)
			for _, d := range af.Decls {
				if fd, ok := d.(*ast.FuncDecl); ok {
					p.decls[fd.Name.Name] = append(p.decls[fd.Name.Name], fd)
				}
			}
		}
		if len(p.files) == 0 {
			die("package %s not found under %s", dir, repo)
		}
		if dir == "internal/linker" && len(p.decls["recoverInternalError"]) > 0 {
			haveRecoverInternal = true
		}
		if dir == "internal/bundler" && len(p.decls["parseFile"]) > 0 {
			haveParseFile = true
		}
		for _, af := range p.files {
			// walk top-level declarations so that the enclosing function is known
			for _, d := range af.Decls {
				encl := "<init>"
				var root ast.Node = d
				fd, isFunc := d.(*ast.FuncDecl)
				if isFunc {
					if fd.Body == nil {
						continue
					}
					encl = funcName(fd)
					root = fd.Body
				}
				ord := 0
				ast.Inspect(root, func(x ast.Node) bool {
					switch v := x.(type) {
					case *ast.GoStmt:
						target, resolved, level := "", false, 0
						var sinks []string
						switch f := v.Call.Fun.(type) {
						case *ast.FuncLit:
							target, resolved = "func", true
							level = p.recoverLevel(f.Body)
							sinks = p.reachableSinks(f.Body)
						default:
							target = exprText(v.Call.Fun)
							name := target
							if i := strings.LastIndex(name, "."); i >= 0 {
								name = name[i+1:]
							}
							level = 2
							seen := map[string]bool{}
							for _, cd := range p.decls[name] {
								if cd.Body == nil {
									continue
								}
								resolved = true
								if l := p.recoverLevel(cd.Body); l < level {
									level = l
								}
								for _, s := range p.reachableSinks(cd.Body) {
									if !seen[s] {
										seen[s] = true
										sinks = append(sinks, s)
									}
								}
							}
							if !resolved {
								level = 0
							}
							sort.Strings(sinks)
						}
						line := fmt.Sprintf("mkSpawn %s %s %d %s %s %d %s", q(dir), q(encl), ord, q(target), b(resolved), level, qlist(sinks))
						if pass == 1 {
							spawns = append(spawns, line)
						} else if dir == "pkg/api" || dir == "cmd/esbuild" || dir == "pkg/cli" {
							serviceSpawns = append(serviceSpawns, line)
						}
						ord++
					case *ast.CallExpr:
						if t := exprText(v.Fun); (t == "regexp.MustCompile" || t == "regexp.Compile" || t == "regexp.MustCompilePOSIX" || t == "regexp.CompilePOSIX") && len(v.Args) == 1 && !regexpSeen[fset.Position(v.Pos()).String()] {
							regexpSeen[fset.Position(v.Pos()).String()] = true
							_, isLit := v.Args[0].(*ast.BasicLit)
							regexps = append(regexps, fmt.Sprintf("mkRegexp %s %s %s %s", q(dir), q(encl), b(strings.HasPrefix(t, "regexp.Must")), b(isLit)))
						}
						if id, ok := v.Fun.(*ast.Ident); ok && pass == 1 && id.Name == "panic" && len(v.Args) == 1 {
							typed := false
							if cl, ok := v.Args[0].(*ast.CompositeLit); ok {
								t := exprText(cl.Type)
								typed = t == "LexerPanic" || t == "js_lexer.LexerPanic"
							}
							if typed {
								nTyped++
							}
							panics = append(panics, fmt.Sprintf("mkPanic %s %s %s %s", q(dir), q(encl), b(typed), q(firstString(v.Args[0]))))
						}
					}
					return true
				})
				// lexer entry points
				if isFunc && (dir == "internal/js_parser" || dir == "internal/css_parser") {
					ctor := ""
					ast.Inspect(fd.Body, func(x ast.Node) bool {
						if c, ok := x.(*ast.CallExpr); ok && ctor == "" {
							if t := exprText(c.Fun); strings.HasPrefix(t, "js_lexer.NewLexer") {
								ctor = t
							}
						}
						return true
					})
					if ctor != "" {
						before := false
						for _, s := range fd.Body.List {
							if ds, ok := s.(*ast.DeferStmt); ok {
								if fl, ok := ds.Call.Fun.(*ast.FuncLit); ok && containsCall(fl.Body, "recover", true) && mentionsIdent(fl.Body, "LexerPanic") {
									before = true
								}
							}
							hasCtor := false
							ast.Inspect(s, func(x ast.Node) bool {
								if c, ok := x.(*ast.CallExpr); ok && strings.HasPrefix(exprText(c.Fun), "js_lexer.NewLexer") {
									hasCtor = true
								}
								return true
							})
							if hasCtor {
								break
							}
						}
						entries = append(entries, fmt.Sprintf("mkEntry %s %s %s %s %s", q(dir), q(encl), b(ast.IsExported(fd.Name.Name)), q(ctor), b(before)))
						if dir == "internal/js_parser" {
							entryNames[encl] = true
						}
					}
				}
			}
		}
	}
	for _, dir := range pkgs {
		scan(dir)
	}
	// second pass: goroutines of the API layer and of the stdio service, with BUILD-level sinks
	pass = 2
	sinkQualified = map[string]bool{"api.Build": true, "api.Transform": true, "api.Context": true, "bundler.ScanBundle": true, "linker.Link": true,
		"api.FormatMessages": true, "api.AnalyzeMetafile": true, "cli.Run": true, "cli.ParseBuildOptions": true, "cli.ParseTransformOptions": true}
	sinkSuffix = []string{"Compile", "Rebuild", "Watch", "Serve", "Dispose", "Cancel"}
	for _, dir := range []string{"pkg/api", "cmd/esbuild", "pkg/cli", "internal/resolver", "internal/config", "internal/helpers", "internal/logger", "internal/fs", "internal/cache", "internal/js_printer", "internal/css_printer", "internal/sourcemap", "internal/renamer", "internal/graph"} {
		scan(dir)
	}
	if len(regexps) < 4 {
		die("only %d regexp compile sites found", len(regexps))
	}
	if len(serviceSpawns) < 20 {
		die("only %d goroutine spawn sites found in pkg/api, cmd/esbuild, pkg/cli", len(serviceSpawns))
	}
	if len(spawns) < 10 {
		die("only %d goroutine spawn sites found", len(spawns))
	}
	for _, n := range []string{"Parse", "ParseJSON", "ParseGlobalName"} {
		if !entryNames[n] {
			die("lexer entry point %s not found in internal/js_parser", n)
		}
	}
	if len(panics) < 20 || nTyped < 10 {
		die("panic inventory too small: %d sites, %d typed", len(panics), nTyped)
	}
	if !haveRecoverInternal || !haveParseFile {
		die("linker.recoverInternalError / bundler.parseFile not found")
	}
	var sb strings.Builder
	sb.WriteString("(* GENERATED by gen/cmd/t8panics from the Go sources - do not edit *)\n")
	sb.WriteString("From Coq Require Import List String Bool.\nImport ListNotations.\nOpen Scope string_scope.\n\n")
	sb.WriteString("Record spawn := mkSpawn {\n  sp_pkg : string; sp_func : string; sp_ord : nat; sp_target : string;\n  sp_resolved : bool; sp_recover : nat; sp_sinks : list string }.\n")
	sb.WriteString("Record entry := mkEntry {\n  en_pkg : string; en_func : string; en_exported : bool; en_ctor : string; en_recover_before : bool }.\n")
	sb.WriteString("Record regexpsite := mkRegexp {\n  re_pkg : string; re_func : string; re_must : bool; re_const : bool }.\n")
	sb.WriteString("Record panicsite := mkPanic {\n  pa_pkg : string; pa_func : string; pa_typed : bool; pa_text : string }.\n\n")
	emit := func(name, typ string, items []string) {
		if len(items) == 0 {
			fmt.Fprintf(&sb, "Definition %s : list %s := [].\n\n", name, typ)
			return
		}
		fmt.Fprintf(&sb, "Definition %s : list %s := [\n  %s\n].\n\n", name, typ, strings.Join(items, ";\n  "))
	}
	emit("spawn_sites", "spawn", spawns)
	emit("service_spawn_sites", "spawn", serviceSpawns)
	emit("lexer_entries", "entry", entries)
	emit("regexp_sites", "regexpsite", regexps)
	emit("panic_sites", "panicsite", panics)
	if err := os.MkdirAll(outdir, 0o755); err != nil {
		die("%v", err)
	}
	if err := os.WriteFile(filepath.Join(outdir, "PanicSitesGen.v"), []byte(sb.String()), 0o644); err != nil {
		die("%v", err)
	}
}
