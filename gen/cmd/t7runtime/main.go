// T7: translate internal/runtime/runtime.go into coq/gen/RuntimeGuardsGen.v:
// for every runtime helper (`var __name = ...` / `export var __name = ...`) the
// syntax features its text uses unconditionally, the helpers it refers to, and
// for every `unsupportedJSFeatures.Has(compat.X)` guard the features that must
// be supported for the first variant to be selected together with the features
// and helper references of both variants.
//
// Std-lib only. Fails closed when Source() contains a statement shape it does
// not understand.
package main

import (
	"fmt"
	"go/ast"
	"go/parser"
	"go/token"
	"os"
	"path/filepath"
	"regexp"
	"sort"
	"strconv"
	"strings"
)

func die(format string, a ...interface{}) {
	fmt.Fprintf(os.Stderr, "t7runtime: "+format+"\n", a...)
	os.Exit(1)
}

type variant struct {
	feats []string
	deps  []string
}

type guard struct {
	needs     []string // all supported => then-variant
	then, els variant
}

type helper struct {
	name   string
	base   variant
	guards []guard
}

var declRe = regexp.MustCompile(`(?m)^[ \t]*(?:export )?var (__[A-Za-z0-9_]+) =`)
var identRe = regexp.MustCompile(`__[A-Za-z][A-Za-z0-9_]*`)

// remove comments and the contents of string literals
func strip(s string) string {
	var sb strings.Builder
	for i := 0; i < len(s); {
		c := s[i]
		switch {
		case c == '/' && i+1 < len(s) && s[i+1] == '/':
			for i < len(s) && s[i] != '\n' {
				i++
			}
		case c == '/' && i+1 < len(s) && s[i+1] == '*':
			j := strings.Index(s[i+2:], "*/")
			if j < 0 {
				die("unterminated comment in runtime text")
			}
			i += j + 4
		case c == '\'' || c == '"':
			j := i + 1
			for j < len(s) && s[j] != c {
				if s[j] == '\\' {
					j++
				}
				j++
			}
			sb.WriteString(`""`)
			i = j + 1
		default:
			sb.WriteByte(c)
			i++
		}
	}
	return sb.String()
}

var scanners = []struct {
	feature string
	re      *regexp.Regexp
}{
	{"Arrow", regexp.MustCompile(`=>`)},
	{"ForOf", regexp.MustCompile(`for \((?:var|let|const) [A-Za-z_$][A-Za-z0-9_$]* of `)},
	{"ConstAndLet", regexp.MustCompile(`\b(?:let|const)\b`)},
	{"LogicalAssignment", regexp.MustCompile(`\|\|=|&&=|\?\?=`)},
	{"NullishCoalescing", regexp.MustCompile(`\?\?(?:[^=]|$)`)},
	{"OptionalChain", regexp.MustCompile(`\?\.[^0-9]`)},
	{"ObjectAccessors", regexp.MustCompile(`\b(?:get|set) (?:\[|[A-Za-z_$][A-Za-z0-9_$]*\()`)},
	{"ObjectExtensions", regexp.MustCompile(`\b(?:get|set) \[`)},
	{"ArraySpread", regexp.MustCompile(`\.\.\.`)},
	{"Class", regexp.MustCompile(`\bclass\b`)},
	{"AsyncAwait", regexp.MustCompile(`\basync\s+(?:function|\()|\bawait\b`)},
	{"Generator", regexp.MustCompile(`function\s*\*|\byield\b`)},
	{"ExponentOperator", regexp.MustCompile(`\*\*`)},
	{"TemplateLiteral", regexp.MustCompile("`")},
	{"Destructuring", regexp.MustCompile(`\b(?:var|let|const)\s*[\[{]`)},
}

func scan(text string, self string) variant {
	t := strip(text)
	var v variant
	for _, s := range scanners {
		if s.re.MatchString(t) {
			v.feats = append(v.feats, s.feature)
		}
	}
	seen := map[string]bool{}
	for _, id := range identRe.FindAllString(t, -1) {
		if id != self && !seen[id] && id != "__this" && id != "__arguments" && id != "__init" && id != "__require" && id != "__esModule" {
			seen[id] = true
			v.deps = append(v.deps, id)
		}
	}
	sort.Strings(v.deps)
	return v
}

func merge(a *variant, b variant) {
	for _, f := range b.feats {
		found := false
		for _, g := range a.feats {
			if g == f {
				found = true
			}
		}
		if !found {
			a.feats = append(a.feats, f)
		}
	}
	for _, f := range b.deps {
		found := false
		for _, g := range a.deps {
			if g == f {
				found = true
			}
		}
		if !found {
			a.deps = append(a.deps, f)
		}
	}
}

// split a chunk of runtime text into (helper name, text) pieces; the text before
// the first declaration continues the helper `current`
func split(text string, current string) ([][2]string, string) {
	var out [][2]string
	idx := declRe.FindAllStringSubmatchIndex(text, -1)
	pos := 0
	for _, m := range idx {
		if m[0] > pos {
			out = append(out, [2]string{current, text[pos:m[0]]})
		}
		current = text[m[2]:m[3]]
		pos = m[0]
	}
	out = append(out, [2]string{current, text[pos:]})
	return out, current
}

func litOf(e ast.Expr) string {
	bl, ok := e.(*ast.BasicLit)
	if !ok || bl.Kind != token.STRING {
		die("text is extended by something that is not a string literal")
	}
	s, err := strconv.Unquote(bl.Value)
	if err != nil {
		die("bad string literal")
	}
	return s
}

// !unsupportedJSFeatures.Has(compat.A) && !unsupportedJSFeatures.Has(compat.B) ...
func condFeatures(e ast.Expr) []string {
	switch x := e.(type) {
	case *ast.BinaryExpr:
		if x.Op != token.LAND {
			die("guard uses operator %s", x.Op)
		}
		return append(condFeatures(x.X), condFeatures(x.Y)...)
	case *ast.UnaryExpr:
		if x.Op != token.NOT {
			die("guard is not a negated Has")
		}
		call, ok := x.X.(*ast.CallExpr)
		if !ok || len(call.Args) != 1 {
			die("guard is not a Has call")
		}
		sel, ok := call.Fun.(*ast.SelectorExpr)
		if !ok || sel.Sel.Name != "Has" {
			die("guard is not a Has call")
		}
		if id, ok := sel.X.(*ast.Ident); !ok || id.Name != "unsupportedJSFeatures" {
			die("guard does not test unsupportedJSFeatures")
		}
		arg, ok := call.Args[0].(*ast.SelectorExpr)
		if !ok {
			die("guard argument is not compat.X")
		}
		return []string{arg.Sel.Name}
	case *ast.ParenExpr:
		return condFeatures(x.X)
	}
	die("unexpected guard expression %T (a positive Has(...) guard would invert the variants)", e)
	return nil
}

func textOfBlock(b *ast.BlockStmt) string {
	if b == nil || len(b.List) != 1 {
		die("guard branch is not a single `text += ...`")
	}
	as, ok := b.List[0].(*ast.AssignStmt)
	if !ok || as.Tok != token.ADD_ASSIGN || len(as.Lhs) != 1 {
		die("guard branch is not `text += ...`")
	}
	if id, ok := as.Lhs[0].(*ast.Ident); !ok || id.Name != "text" {
		die("guard branch does not extend text")
	}
	return litOf(as.Rhs[0])
}

func main() {
	if len(os.Args) != 3 {
		die("usage: t7runtime <repo> <outdir>")
	}
	repo, outdir := os.Args[1], os.Args[2]
	fset := token.NewFileSet()
	f, err := parser.ParseFile(fset, filepath.Join(repo, "internal/runtime/runtime.go"), nil, 0)
	if err != nil {
		die("%v", err)
	}
	var fd *ast.FuncDecl
	for _, d := range f.Decls {
		if x, ok := d.(*ast.FuncDecl); ok && x.Name.Name == "Source" {
			fd = x
		}
	}
	if fd == nil {
		die("func Source not found")
	}
	if len(fd.Type.Params.List) != 1 || fd.Type.Params.List[0].Names[0].Name != "unsupportedJSFeatures" {
		die("Source's parameter is not unsupportedJSFeatures")
	}

	helpers := map[string]*helper{}
	var order []string
	get := func(name string) *helper {
		if name == "" {
			die("runtime text before the first helper declaration uses syntax")
		}
		if h, ok := helpers[name]; ok {
			return h
		}
		h := &helper{name: name}
		helpers[name] = h
		order = append(order, name)
		return h
	}
	current := ""
	nGuards := 0
	for _, st := range fd.Body.List {
		switch s := st.(type) {
		case *ast.AssignStmt:
			if len(s.Lhs) != 1 || len(s.Rhs) != 1 {
				die("unexpected assignment in Source")
			}
			if id, ok := s.Lhs[0].(*ast.Ident); !ok || id.Name != "text" || (s.Tok != token.DEFINE && s.Tok != token.ADD_ASSIGN) {
				die("unexpected assignment in Source")
			}
			var pieces [][2]string
			pieces, current = split(litOf(s.Rhs[0]), current)
			for _, p := range pieces {
				if strings.TrimSpace(strip(p[1])) == "" {
					continue
				}
				merge(&get(p[0]).base, scan(p[1], p[0]))
			}
		case *ast.IfStmt:
			if s.Init != nil {
				die("guard with init statement")
			}
			needs := condFeatures(s.Cond)
			els, ok := s.Else.(*ast.BlockStmt)
			if !ok {
				die("guard without a plain else block")
			}
			thenPieces, cur1 := split(textOfBlock(s.Body), current)
			elsePieces, cur2 := split(textOfBlock(els), current)
			if cur1 != cur2 {
				die("the two variants of a guard end in different helpers (%s / %s)", cur1, cur2)
			}
			byName := map[string]*guard{}
			var names []string
			for _, p := range thenPieces {
				if strings.TrimSpace(strip(p[1])) == "" {
					continue
				}
				g, ok := byName[p[0]]
				if !ok {
					g = &guard{needs: needs}
					byName[p[0]] = g
					names = append(names, p[0])
				}
				merge(&g.then, scan(p[1], p[0]))
			}
			for _, p := range elsePieces {
				if strings.TrimSpace(strip(p[1])) == "" {
					continue
				}
				g, ok := byName[p[0]]
				if !ok {
					g = &guard{needs: needs}
					byName[p[0]] = g
					names = append(names, p[0])
				}
				merge(&g.els, scan(p[1], p[0]))
			}
			for _, n := range names {
				h := get(n)
				h.guards = append(h.guards, *byName[n])
			}
			current = cur1
			nGuards++
		case *ast.ReturnStmt:
		default:
			die("unexpected statement %T in Source (guards must be if/else over text)", st)
		}
	}
	if nGuards < 3 || len(order) < 40 {
		die("implausible runtime: %d guards, %d helpers", nGuards, len(order))
	}

	var sb strings.Builder
	w := func(format string, a ...interface{}) { fmt.Fprintf(&sb, format, a...) }
	fl := func(xs []string) string {
		ys := make([]string, len(xs))
		for i, x := range xs {
			ys[i] = "F" + x
		}
		return "[" + strings.Join(ys, "; ") + "]"
	}
	sl := func(xs []string) string {
		ys := make([]string, len(xs))
		for i, x := range xs {
			ys[i] = fmt.Sprintf("%q%%string", x)
		}
		return "[" + strings.Join(ys, "; ") + "]"
	}
	w("(* GENERATED by gen/cmd/t7runtime from internal/runtime/runtime.go. Do not edit. *)\n")
	w("From Coq Require Import List String.\nFrom V Require Import gen.JsTableGen.\nImport ListNotations.\n\n")
	w("(* a variant of a helper's text: the syntax features it uses and the helpers it refers to *)\n")
	w("Definition rt_variant := (list feature * list string)%%type.\n")
	w("(* guard: (features that must ALL be supported to select the first variant, first variant, second variant) *)\n")
	w("Definition rt_guard := (list feature * rt_variant * rt_variant)%%type.\n")
	w("(* helper: (name, unconditional text, guards) *)\n")
	w("Definition rt_helper := (string * rt_variant * list rt_guard)%%type.\n\n")
	w("Definition runtime_helpers : list rt_helper :=\n  [")
	for i, n := range order {
		h := helpers[n]
		if i > 0 {
			w(";\n   ")
		}
		w("(%q%%string, (%s, %s), [", h.name, fl(h.base.feats), sl(h.base.deps))
		for j, g := range h.guards {
			if j > 0 {
				w("; ")
			}
			w("(%s, (%s, %s), (%s, %s))", fl(g.needs), fl(g.then.feats), sl(g.then.deps), fl(g.els.feats), sl(g.els.deps))
		}
		w("])")
	}
	w("].\n\nDefinition runtime_guard_count : nat := %d.\n", nGuards)
	if err := os.MkdirAll(outdir, 0o755); err != nil {
		die("%v", err)
	}
	if err := os.WriteFile(filepath.Join(outdir, "RuntimeGuardsGen.v"), []byte(sb.String()), 0o644); err != nil {
		die("%v", err)
	}
}
