// T2: translate internal/compat/js_table.go (feature enum, engine enum,
// StringToJSFeature, IsBrowser, jsTable), the ES-target switch of
// pkg/api/api_impl.go validateFeatures, and the
// fixInvalidUnsupportedJSFeatureOverrides call list of
// internal/bundler/bundler.go into coq/gen/JsTableGen.v.
//
// Std-lib only. Fails closed (non-zero exit, no file) when a shape it expects
// is not found.
package main

import (
	"fmt"
	"go/ast"
	"go/parser"
	"go/token"
	"os"
	"path/filepath"
	"strconv"
	"strings"
)

func die(format string, a ...interface{}) {
	fmt.Fprintf(os.Stderr, "t2jstable: "+format+"\n", a...)
	os.Exit(1)
}

type vrange struct{ start, end [3]int }

func parseFile(path string) *ast.File {
	fset := token.NewFileSet()
	f, err := parser.ParseFile(fset, path, nil, 0)
	if err != nil {
		die("cannot parse %s: %v", path, err)
	}
	return f
}

// the names of a `const ( A T = iota; B; ... )` / `1 << iota` block of type typ
func enumOf(f *ast.File, typ string, wantShift bool) []string {
	for _, d := range f.Decls {
		gd, ok := d.(*ast.GenDecl)
		if !ok || gd.Tok != token.CONST || len(gd.Specs) == 0 {
			continue
		}
		first := gd.Specs[0].(*ast.ValueSpec)
		id, ok := first.Type.(*ast.Ident)
		if !ok || id.Name != typ || len(first.Values) != 1 {
			continue
		}
		// first value must be iota (engine) or 1 << iota (feature)
		switch v := first.Values[0].(type) {
		case *ast.Ident:
			if v.Name != "iota" || wantShift {
				die("enum %s: unexpected first value", typ)
			}
		case *ast.BinaryExpr:
			l, lok := v.X.(*ast.BasicLit)
			r, rok := v.Y.(*ast.Ident)
			if !wantShift || v.Op != token.SHL || !lok || l.Value != "1" || !rok || r.Name != "iota" {
				die("enum %s: first value is not 1 << iota", typ)
			}
		default:
			die("enum %s: unexpected first value", typ)
		}
		var names []string
		for i, s := range gd.Specs {
			vs := s.(*ast.ValueSpec)
			if len(vs.Names) != 1 {
				die("enum %s: multi-name spec", typ)
			}
			if i > 0 && (vs.Type != nil || len(vs.Values) != 0) {
				die("enum %s: entry %s has an explicit value", typ, vs.Names[0].Name)
			}
			names = append(names, vs.Names[0].Name)
		}
		return names
	}
	die("enum %s not found", typ)
	return nil
}

func findVar(f *ast.File, name string) ast.Expr {
	for _, d := range f.Decls {
		gd, ok := d.(*ast.GenDecl)
		if !ok || gd.Tok != token.VAR {
			continue
		}
		for _, s := range gd.Specs {
			vs := s.(*ast.ValueSpec)
			for i, n := range vs.Names {
				if n.Name == name && i < len(vs.Values) {
					return vs.Values[i]
				}
			}
		}
	}
	die("var %s not found", name)
	return nil
}

func findFunc(f *ast.File, name string) *ast.FuncDecl {
	for _, d := range f.Decls {
		if fd, ok := d.(*ast.FuncDecl); ok && fd.Name.Name == name {
			return fd
		}
	}
	die("func %s not found", name)
	return nil
}

func intLit(e ast.Expr) int {
	bl, ok := e.(*ast.BasicLit)
	if !ok || bl.Kind != token.INT {
		die("expected integer literal")
	}
	n, err := strconv.Atoi(bl.Value)
	if err != nil {
		die("bad int %s", bl.Value)
	}
	return n
}

func parseV(e ast.Expr) [3]int {
	cl, ok := e.(*ast.CompositeLit)
	if !ok || len(cl.Elts) != 3 {
		die("version literal is not v{a, b, c}")
	}
	if id, ok := cl.Type.(*ast.Ident); !ok || id.Name != "v" {
		die("version literal type is not v")
	}
	return [3]int{intLit(cl.Elts[0]), intLit(cl.Elts[1]), intLit(cl.Elts[2])}
}

// compat.A | compat.B | ...  (or bare idents inside package compat)
func featureOr(e ast.Expr) []string {
	switch x := e.(type) {
	case *ast.BinaryExpr:
		if x.Op != token.OR {
			die("feature expression uses operator %s", x.Op)
		}
		return append(featureOr(x.X), featureOr(x.Y)...)
	case *ast.SelectorExpr:
		if p, ok := x.X.(*ast.Ident); !ok || p.Name != "compat" {
			die("feature expression is not compat.X")
		}
		return []string{x.Sel.Name}
	case *ast.ParenExpr:
		return featureOr(x.X)
	}
	die("unexpected feature expression %T", e)
	return nil
}

func main() {
	if len(os.Args) != 3 {
		die("usage: t2jstable <repo> <outdir>")
	}
	repo, outdir := os.Args[1], os.Args[2]
	f := parseFile(filepath.Join(repo, "internal/compat/js_table.go"))

	features := enumOf(f, "JSFeature", true)
	engines := enumOf(f, "Engine", false)
	if len(features) < 40 || len(features) > 64 || len(engines) < 8 {
		die("implausible enum sizes: %d features, %d engines", len(features), len(engines))
	}
	isFeature := map[string]bool{}
	for _, n := range features {
		isFeature[n] = true
	}
	isEngine := map[string]bool{}
	for _, n := range engines {
		isEngine[n] = true
	}

	// StringToJSFeature
	var strKeys [][2]string
	{
		cl, ok := findVar(f, "StringToJSFeature").(*ast.CompositeLit)
		if !ok {
			die("StringToJSFeature is not a composite literal")
		}
		for _, el := range cl.Elts {
			kv := el.(*ast.KeyValueExpr)
			k, ok1 := kv.Key.(*ast.BasicLit)
			v, ok2 := kv.Value.(*ast.Ident)
			if !ok1 || !ok2 || !isFeature[v.Name] {
				die("StringToJSFeature: unexpected entry")
			}
			s, err := strconv.Unquote(k.Value)
			if err != nil {
				die("StringToJSFeature: bad key")
			}
			strKeys = append(strKeys, [2]string{s, v.Name})
		}
	}

	// IsBrowser
	var browsers []string
	{
		fd := findFunc(f, "IsBrowser")
		found := false
		ast.Inspect(fd.Body, func(n ast.Node) bool {
			if cc, ok := n.(*ast.CaseClause); ok && !found {
				// must be `case ...: return true`
				if len(cc.Body) == 1 {
					if rs, ok := cc.Body[0].(*ast.ReturnStmt); ok && len(rs.Results) == 1 {
						if id, ok := rs.Results[0].(*ast.Ident); ok && id.Name == "true" {
							for _, e := range cc.List {
								id, ok := e.(*ast.Ident)
								if !ok || !isEngine[id.Name] {
									die("IsBrowser: unexpected case")
								}
								browsers = append(browsers, id.Name)
							}
							found = true
						}
					}
				}
			}
			return true
		})
		if !found {
			die("IsBrowser: no `return true` case found")
		}
	}

	// Has / ApplyOverrides bodies are checked textually for shape: the model in
	// coq/C14/Model.v mirrors exactly these expressions.
	{
		src, err := os.ReadFile(filepath.Join(repo, "internal/compat/js_table.go"))
		if err != nil {
			die("%v", err)
		}
		for _, want := range []string{
			"return (features & feature) != 0",
			"return (features & ^mask) | (overrides & mask)",
		} {
			if !strings.Contains(string(src), want) {
				die("js_table.go no longer contains %q (Has/ApplyOverrides changed shape)", want)
			}
		}
	}

	// jsTable
	type engEntry struct {
		engine string
		ranges []vrange
	}
	type featEntry struct {
		feature string
		engines []engEntry
	}
	var table []featEntry
	{
		cl, ok := findVar(f, "jsTable").(*ast.CompositeLit)
		if !ok {
			die("jsTable is not a composite literal")
		}
		seen := map[string]bool{}
		for _, el := range cl.Elts {
			kv := el.(*ast.KeyValueExpr)
			k, ok := kv.Key.(*ast.Ident)
			if !ok || !isFeature[k.Name] || seen[k.Name] {
				die("jsTable: unexpected or duplicate key")
			}
			seen[k.Name] = true
			inner, ok := kv.Value.(*ast.CompositeLit)
			if !ok {
				die("jsTable[%s]: not a literal", k.Name)
			}
			fe := featEntry{feature: k.Name}
			seenE := map[string]bool{}
			for _, el2 := range inner.Elts {
				kv2 := el2.(*ast.KeyValueExpr)
				en, ok := kv2.Key.(*ast.Ident)
				if !ok || !isEngine[en.Name] || seenE[en.Name] {
					die("jsTable[%s]: unexpected or duplicate engine", k.Name)
				}
				seenE[en.Name] = true
				rl, ok := kv2.Value.(*ast.CompositeLit)
				if !ok {
					die("jsTable[%s][%s]: not a literal", k.Name, en.Name)
				}
				ee := engEntry{engine: en.Name}
				for _, r := range rl.Elts {
					rc, ok := r.(*ast.CompositeLit)
					if !ok {
						die("jsTable[%s][%s]: range is not a literal", k.Name, en.Name)
					}
					var vr vrange
					haveStart := false
					for _, fld := range rc.Elts {
						kv3, ok := fld.(*ast.KeyValueExpr)
						if !ok {
							die("jsTable[%s][%s]: positional range fields", k.Name, en.Name)
						}
						switch kv3.Key.(*ast.Ident).Name {
						case "start":
							vr.start = parseV(kv3.Value)
							haveStart = true
						case "end":
							vr.end = parseV(kv3.Value)
						default:
							die("jsTable[%s][%s]: unknown range field", k.Name, en.Name)
						}
					}
					if !haveStart {
						die("jsTable[%s][%s]: range without start", k.Name, en.Name)
					}
					ee.ranges = append(ee.ranges, vr)
				}
				fe.engines = append(fe.engines, ee)
			}
			table = append(table, fe)
		}
	}

	// The loop in UnsupportedJSFeatures skips exactly InlineScript.
	{
		fd := findFunc(f, "UnsupportedJSFeatures")
		skips := []string{}
		ast.Inspect(fd.Body, func(n ast.Node) bool {
			if is, ok := n.(*ast.IfStmt); ok {
				if be, ok := is.Cond.(*ast.BinaryExpr); ok && be.Op == token.EQL {
					if l, ok := be.X.(*ast.Ident); ok && l.Name == "feature" {
						if r, ok := be.Y.(*ast.Ident); ok && len(is.Body.List) == 1 {
							if bs, ok := is.Body.List[0].(*ast.BranchStmt); ok && bs.Tok == token.CONTINUE {
								skips = append(skips, r.Name)
							}
						}
					}
				}
			}
			return true
		})
		if len(skips) != 1 || skips[0] != "InlineScript" {
			die("UnsupportedJSFeatures: the skipped-feature shape changed: %v", skips)
		}
	}

	// ES targets in validateFeatures
	type esT struct {
		name string
		year int
	}
	var targets []esT
	var noConstraint []string
	{
		af := parseFile(filepath.Join(repo, "pkg/api/api_impl.go"))
		fd := findFunc(af, "validateFeatures")
		ast.Inspect(fd.Body, func(n ast.Node) bool {
			sw, ok := n.(*ast.SwitchStmt)
			if !ok {
				return true
			}
			tag, ok := sw.Tag.(*ast.Ident)
			if !ok || tag.Name != "target" {
				return true
			}
			for _, c := range sw.Body.List {
				cc := c.(*ast.CaseClause)
				if cc.List == nil {
					continue // default: panic
				}
				if len(cc.Body) == 0 {
					for _, e := range cc.List {
						noConstraint = append(noConstraint, e.(*ast.Ident).Name)
					}
					continue
				}
				if len(cc.List) != 1 || len(cc.Body) != 1 {
					die("validateFeatures: unexpected case shape")
				}
				as, ok := cc.Body[0].(*ast.AssignStmt)
				if !ok || len(as.Lhs) != 1 || len(as.Rhs) != 1 {
					die("validateFeatures: case body is not an assignment")
				}
				ix, ok := as.Lhs[0].(*ast.IndexExpr)
				if !ok {
					die("validateFeatures: case body does not assign constraints[...]")
				}
				if sel, ok := ix.Index.(*ast.SelectorExpr); !ok || sel.Sel.Name != "ES" {
					die("validateFeatures: constraint engine is not compat.ES")
				}
				cl, ok := as.Rhs[0].(*ast.CompositeLit)
				if !ok || len(cl.Elts) != 1 {
					die("validateFeatures: Semver literal shape")
				}
				kv := cl.Elts[0].(*ast.KeyValueExpr)
				if kv.Key.(*ast.Ident).Name != "Parts" {
					die("validateFeatures: Semver literal without Parts")
				}
				pl := kv.Value.(*ast.CompositeLit)
				if len(pl.Elts) != 1 {
					die("validateFeatures: Parts has %d elements", len(pl.Elts))
				}
				targets = append(targets, esT{cc.List[0].(*ast.Ident).Name, intLit(pl.Elts[0])})
			}
			return false
		})
		if len(targets) < 10 {
			die("validateFeatures: only %d ES targets found", len(targets))
		}
	}

	// fixInvalidUnsupportedJSFeatureOverrides(options, X, A|B|...) calls, in order
	type impl struct {
		implies string
		implied []string
	}
	var impls []impl
	{
		bf := parseFile(filepath.Join(repo, "internal/bundler/bundler.go"))
		fd := findFunc(bf, "applyOptionDefaults")
		ast.Inspect(fd.Body, func(n ast.Node) bool {
			ce, ok := n.(*ast.CallExpr)
			if !ok {
				return true
			}
			id, ok := ce.Fun.(*ast.Ident)
			if !ok || id.Name != "fixInvalidUnsupportedJSFeatureOverrides" {
				return true
			}
			if len(ce.Args) != 3 {
				die("fixInvalidUnsupportedJSFeatureOverrides: arity")
			}
			a := featureOr(ce.Args[1])
			if len(a) != 1 {
				die("fixInvalidUnsupportedJSFeatureOverrides: `implies` is not a single feature")
			}
			impls = append(impls, impl{a[0], featureOr(ce.Args[2])})
			return true
		})
		if len(impls) == 0 {
			die("no fixInvalidUnsupportedJSFeatureOverrides calls found")
		}
		// body shape of the fixer itself
		src, _ := os.ReadFile(filepath.Join(repo, "internal/bundler/bundler.go"))
		for _, want := range []string{
			"if options.UnsupportedJSFeatureOverrides.Has(implies) {",
			"options.UnsupportedJSFeatures |= implied",
			"options.UnsupportedJSFeatureOverrides |= implied",
			"options.UnsupportedJSFeatureOverridesMask |= implied",
		} {
			if !strings.Contains(string(src), want) {
				die("bundler.go no longer contains %q", want)
			}
		}
	}

	// ---- emit ----
	var sb strings.Builder
	w := func(format string, a ...interface{}) { fmt.Fprintf(&sb, format, a...) }
	w("(* GENERATED by gen/cmd/t2jstable from internal/compat/js_table.go, pkg/api/api_impl.go,\n   internal/bundler/bundler.go. Do not edit. *)\n")
	w("From Coq Require Import List ZArith String.\nImport ListNotations.\nLocal Open Scope Z_scope.\n\n")
	w("Inductive feature : Set :=\n")
	for _, n := range features {
		w("  | F%s\n", n)
	}
	w(".\n\nDefinition all_features : list feature :=\n  [%s].\n\n", joinPref(features, "F", "; "))
	w("(* bit position: JSFeature = 1 << iota *)\nDefinition feature_index (f : feature) : Z :=\n  match f with\n")
	for i, n := range features {
		w("  | F%s => %d\n", n, i)
	}
	w("  end.\n\n")
	w("Inductive engine : Set :=\n")
	for _, n := range engines {
		w("  | E%s\n", n)
	}
	w(".\n\nDefinition all_engines : list engine :=\n  [%s].\n\n", joinPref(engines, "E", "; "))
	w("Definition engine_index (e : engine) : Z :=\n  match e with\n")
	for i, n := range engines {
		w("  | E%s => %d\n", n, i)
	}
	w("  end.\n\n")
	w("Definition browsers : list engine := [%s].\n\n", joinPref(browsers, "E", "; "))
	w("Definition string_to_feature : list (string * feature) :=\n  [")
	for i, kv := range strKeys {
		if i > 0 {
			w(";\n   ")
		}
		w("(%q%%string, F%s)", kv[0], kv[1])
	}
	w("].\n\n")
	w("(* version = (major, minor, patch); range = (start, end), end = (0,0,0) means no end *)\n")
	w("Definition jsTable : list (feature * list (engine * list ((Z * Z * Z) * (Z * Z * Z)))) :=\n  [")
	for i, fe := range table {
		if i > 0 {
			w(";\n   ")
		}
		w("(F%s, [", fe.feature)
		for j, ee := range fe.engines {
			if j > 0 {
				w("; ")
			}
			w("(E%s, [", ee.engine)
			for k, r := range ee.ranges {
				if k > 0 {
					w("; ")
				}
				w("((%d, %d, %d), (%d, %d, %d))", r.start[0], r.start[1], r.start[2], r.end[0], r.end[1], r.end[2])
			}
			w("])")
		}
		w("])")
	}
	w("].\n\n")
	w("(* pkg/api validateFeatures: api.Target constant -> ES constraint year *)\n")
	w("Definition es_targets : list (string * Z) :=\n  [")
	for i, t := range targets {
		if i > 0 {
			w("; ")
		}
		w("(%q%%string, %d)", t.name, t.year)
	}
	w("].\n")
	w("Definition es_targets_unconstrained : list string := [")
	for i, t := range noConstraint {
		if i > 0 {
			w("; ")
		}
		w("%q%%string", t)
	}
	w("].\n\n")
	w("(* bundler applyOptionDefaults: fixInvalidUnsupportedJSFeatureOverrides(options, implies, implied), in call order *)\n")
	w("Definition implied_table : list (feature * list feature) :=\n  [")
	for i, im := range impls {
		if i > 0 {
			w(";\n   ")
		}
		w("(F%s, [%s])", im.implies, joinPref(im.implied, "F", "; "))
	}
	w("].\n")

	if err := os.MkdirAll(outdir, 0o755); err != nil {
		die("%v", err)
	}
	if err := os.WriteFile(filepath.Join(outdir, "JsTableGen.v"), []byte(sb.String()), 0o644); err != nil {
		die("%v", err)
	}
}

func joinPref(xs []string, pref, sep string) string {
	out := make([]string, len(xs))
	for i, x := range xs {
		out[i] = pref + x
	}
	return strings.Join(out, sep)
}
