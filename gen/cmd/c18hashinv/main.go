// Translator for C18: inventory of everything that is written into the hasher
// by internal/linker/linker.go
//
//	generateIsolatedHash                     -> iso_writes
//	appendIsolatedHashesForImportedChunks    -> final_writes
//	generateChunksInParallel (the call of appendIsolatedHashesForImportedChunks
//	  that computes the final hash)          -> loop_calls
//
// Each entry is (kind, argument text, enclosing guards outermost first) in
// source order.  kinds: "lenpref" hashWriteLengthPrefixed(hash, X), "u32"
// hashWriteUint32(hash, X), "raw" hash.Write(X), "recurse" the recursive call,
// "mark" an assignment to visited[..], "return" a return statement, "sum" a
// use of hash.Sum.  Guards are the texts of the enclosing if conditions
// ("if C", "else C"), for/range headers and switch cases.
// Emits <outdir>/HashInventoryGen.v.  Fails closed (non-zero exit, no output)
// if a function is missing, if a hasher write occurs in a construct it does
// not understand (closure, goroutine, defer, select, labelled statement), or
// if no write is found.
//
//	usage: c18hashinv <repo> <outdir>
package main

import (
	"bytes"
	"fmt"
	"go/ast"
	"go/parser"
	"go/printer"
	"go/token"
	"os"
	"path/filepath"
	"strings"
)

func die(format string, a ...interface{}) {
	fmt.Fprintf(os.Stderr, "c18hashinv: "+format+"\n", a...)
	os.Exit(1)
}

var fset = token.NewFileSet()

func text(n ast.Node) string {
	var buf bytes.Buffer
	if err := printer.Fprint(&buf, fset, n); err != nil {
		die("cannot print node: %v", err)
	}
	return strings.Join(strings.Fields(buf.String()), " ")
}

type entry struct {
	kind, arg string
	guards    []string
}

type walker struct {
	fn      string
	entries []entry
}

func (w *walker) add(kind, arg string, guards []string) {
	w.entries = append(w.entries, entry{kind, arg, append([]string{}, guards...)})
}

// mentionsHasher: does the node call one of the hasher-writing functions?
func mentionsHasher(n ast.Node, self string) bool {
	found := false
	ast.Inspect(n, func(m ast.Node) bool {
		if call, ok := m.(*ast.CallExpr); ok {
			switch callName(call) {
			case "hashWriteLengthPrefixed", "hashWriteUint32", "hash.Write", "hash.Sum", "c." + self:
				found = true
			}
		}
		return true
	})
	return found
}

func callName(call *ast.CallExpr) string {
	switch f := call.Fun.(type) {
	case *ast.Ident:
		return f.Name
	case *ast.SelectorExpr:
		if x, ok := f.X.(*ast.Ident); ok {
			return x.Name + "." + f.Sel.Name
		}
	}
	return ""
}

func (w *walker) expr(e ast.Expr, guards []string) {
	// calls nested in an expression, in evaluation (source) order
	ast.Inspect(e, func(m ast.Node) bool {
		switch n := m.(type) {
		case *ast.FuncLit:
			if mentionsHasher(n, w.fn) {
				die("%s: hasher write inside a function literal", w.fn)
			}
			return false
		case *ast.CallExpr:
			switch callName(n) {
			case "hashWriteLengthPrefixed":
				if len(n.Args) != 2 || text(n.Args[0]) != "hash" {
					die("%s: unexpected arguments of hashWriteLengthPrefixed: %s", w.fn, text(n))
				}
				w.add("lenpref", text(n.Args[1]), guards)
			case "hashWriteUint32":
				if len(n.Args) != 2 || text(n.Args[0]) != "hash" {
					die("%s: unexpected arguments of hashWriteUint32: %s", w.fn, text(n))
				}
				w.add("u32", text(n.Args[1]), guards)
			case "hash.Write":
				if len(n.Args) != 1 {
					die("%s: unexpected arguments of hash.Write", w.fn)
				}
				w.add("raw", text(n.Args[0]), guards)
			case "hash.Sum":
				w.add("sum", "", guards)
			case "c." + w.fn:
				var args []string
				for _, a := range n.Args {
					args = append(args, text(a))
				}
				w.add("recurse", strings.Join(args, ", "), guards)
			}
		}
		return true
	})
}

func (w *walker) stmts(list []ast.Stmt, guards []string) {
	for _, s := range list {
		w.stmt(s, guards)
	}
}

func push(guards []string, g string) []string { return append(append([]string{}, guards...), g) }

func (w *walker) stmt(s ast.Stmt, guards []string) {
	switch n := s.(type) {
	case nil:
	case *ast.BlockStmt:
		w.stmts(n.List, guards)
	case *ast.ExprStmt:
		w.expr(n.X, guards)
	case *ast.AssignStmt:
		for _, r := range n.Rhs {
			w.expr(r, guards)
		}
		for _, l := range n.Lhs {
			if ix, ok := l.(*ast.IndexExpr); ok && text(ix.X) == "visited" {
				w.add("mark", text(n), guards)
			}
		}
	case *ast.DeclStmt:
		ast.Inspect(n, func(m ast.Node) bool {
			if e, ok := m.(ast.Expr); ok {
				w.expr(e, guards)
				return false
			}
			return true
		})
	case *ast.SendStmt:
		w.expr(n.Value, guards)
	case *ast.ReturnStmt:
		for _, r := range n.Results {
			w.expr(r, guards)
		}
		w.add("return", "", guards)
	case *ast.IfStmt:
		if n.Init != nil {
			w.stmt(n.Init, guards)
		}
		cond := text(n.Cond)
		if n.Init != nil {
			cond = text(n.Init) + "; " + cond
		}
		w.expr(n.Cond, guards)
		w.stmts(n.Body.List, push(guards, "if "+cond))
		if n.Else != nil {
			w.stmt(n.Else, push(guards, "else "+cond))
		}
	case *ast.ForStmt:
		hdr := "for "
		if n.Init != nil {
			hdr += text(n.Init)
		}
		hdr += "; "
		if n.Cond != nil {
			hdr += text(n.Cond)
		}
		hdr += "; "
		if n.Post != nil {
			hdr += text(n.Post)
		}
		w.stmts(n.Body.List, push(guards, hdr))
	case *ast.RangeStmt:
		hdr := "range " + text(n.X)
		if n.Key != nil {
			hdr = text(n.Key) + " := " + hdr
			if n.Value != nil {
				hdr = text(n.Key) + ", " + text(n.Value) + " := range " + text(n.X)
			}
		}
		w.expr(n.X, guards)
		w.stmts(n.Body.List, push(guards, "for "+hdr))
	case *ast.SwitchStmt:
		tag := ""
		if n.Tag != nil {
			tag = text(n.Tag)
		}
		for _, c := range n.Body.List {
			cc := c.(*ast.CaseClause)
			var cs []string
			for _, e := range cc.List {
				cs = append(cs, text(e))
			}
			label := "default"
			if cc.List != nil {
				label = "case " + strings.Join(cs, ", ")
			}
			w.stmts(cc.Body, push(guards, "switch "+tag+" "+label))
		}
	case *ast.TypeSwitchStmt:
		for _, c := range n.Body.List {
			cc := c.(*ast.CaseClause)
			var cs []string
			for _, e := range cc.List {
				cs = append(cs, text(e))
			}
			w.stmts(cc.Body, push(guards, "typeswitch "+text(n.Assign)+" case "+strings.Join(cs, ", ")))
		}
	case *ast.IncDecStmt, *ast.BranchStmt, *ast.EmptyStmt:
		if _, ok := n.(*ast.BranchStmt); ok && mentionsHasherInGuards(guards) {
			w.add("branch", text(n), guards)
		}
	default:
		if mentionsHasher(n, w.fn) {
			die("%s: hasher write inside an unsupported statement (%T)", w.fn, n)
		}
	}
}

func mentionsHasherInGuards([]string) bool { return true }

func coqString(s string) string { return "\"" + strings.ReplaceAll(s, "\"", "\"\"") + "\"" }

func emit(sb *strings.Builder, name string, es []entry) {
	fmt.Fprintf(sb, "Definition %s : list (string * string * list string) := [\n", name)
	for i, e := range es {
		var gs []string
		for _, g := range e.guards {
			gs = append(gs, coqString(g))
		}
		sep := ";"
		if i == len(es)-1 {
			sep = ""
		}
		fmt.Fprintf(sb, "  (%s, %s, [%s])%s\n", coqString(e.kind), coqString(e.arg), strings.Join(gs, "; "), sep)
	}
	sb.WriteString("].\n\n")
}

func main() {
	if len(os.Args) != 3 {
		die("usage: c18hashinv <repo> <outdir>")
	}
	path := filepath.Join(os.Args[1], "internal", "linker", "linker.go")
	f, err := parser.ParseFile(fset, path, nil, 0)
	if err != nil {
		die("%v", err)
	}
	funcs := map[string]*ast.FuncDecl{}
	for _, d := range f.Decls {
		if fn, ok := d.(*ast.FuncDecl); ok && fn.Recv != nil {
			funcs[fn.Name.Name] = fn
		}
	}
	get := func(name string) *ast.FuncDecl {
		fn, ok := funcs[name]
		if !ok || fn.Body == nil {
			die("function %s not found", name)
		}
		return fn
	}
	iso := &walker{fn: "generateIsolatedHash"}
	iso.stmts(get("generateIsolatedHash").Body.List, nil)
	fin := &walker{fn: "appendIsolatedHashesForImportedChunks"}
	fin.stmts(get("appendIsolatedHashesForImportedChunks").Body.List, nil)
	// the final-hash loop: only the statements that lead to the traversal call
	loop := &walker{fn: "appendIsolatedHashesForImportedChunks"}
	loop.stmts(get("generateChunksInParallel").Body.List, nil)
	var calls []entry
	for _, e := range loop.entries {
		if e.kind == "recurse" || e.kind == "sum" {
			calls = append(calls, e)
		}
	}
	count := func(es []entry, kind string) int {
		n := 0
		for _, e := range es {
			if e.kind == kind {
				n++
			}
		}
		return n
	}
	if count(iso.entries, "lenpref") == 0 || count(iso.entries, "sum") != 1 {
		die("generateIsolatedHash: expected length-prefixed writes and exactly one hash.Sum, found %d and %d", count(iso.entries, "lenpref"), count(iso.entries, "sum"))
	}
	if count(fin.entries, "recurse") != 1 || count(fin.entries, "raw") == 0 || count(fin.entries, "mark") != 1 {
		die("appendIsolatedHashesForImportedChunks: expected one recursive call, one visited mark and a raw write")
	}
	if count(calls, "recurse") != 1 {
		die("generateChunksInParallel: expected exactly one call of appendIsolatedHashesForImportedChunks, found %d", count(calls, "recurse"))
	}
	// also the two helpers, so that a changed encoding is seen
	helpers := &walker{fn: "-"}
	for _, name := range []string{"hashWriteUint32", "hashWriteLengthPrefixed"} {
		var fn *ast.FuncDecl
		for _, d := range f.Decls {
			if g, ok := d.(*ast.FuncDecl); ok && g.Recv == nil && g.Name.Name == name {
				fn = g
			}
		}
		if fn == nil {
			die("function %s not found", name)
		}
		helpers.add("func", name+" "+text(fn.Type), nil)
		for _, s := range fn.Body.List {
			helpers.add("stmt", text(s), nil)
		}
	}
	var sb strings.Builder
	sb.WriteString("(* GENERATED by gen/cmd/c18hashinv from internal/linker/linker.go - do not edit *)\n")
	sb.WriteString("From Coq Require Import String List.\nImport ListNotations.\nLocal Open Scope string_scope.\n\n")
	emit(&sb, "iso_writes", iso.entries)
	emit(&sb, "final_writes", fin.entries)
	emit(&sb, "loop_calls", calls)
	emit(&sb, "helper_bodies", helpers.entries)
	if err := os.MkdirAll(os.Args[2], 0o755); err != nil {
		die("%v", err)
	}
	if err := os.WriteFile(filepath.Join(os.Args[2], "HashInventoryGen.v"), []byte(sb.String()), 0o644); err != nil {
		die("%v", err)
	}
}
