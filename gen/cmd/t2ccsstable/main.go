// T2c: translate internal/compat/css_table.go (CSSFeature enum, StringToCSSFeature,
// cssTable, the shape of UnsupportedCSSFeatures) into coq/gen/CssTableGen.v.
// Std-lib only; fails closed.
package main

import (
	"fmt"
	"go/ast"
	"go/parser"
	"go/token"
	"os"
	"path/filepath"
	"strconv"
	"strings"
)

type vrange struct{ start, end [3]int }

func die(format string, a ...interface{}) {
	fmt.Fprintf(os.Stderr, "t2ccsstable: "+format+"\n", a...)
	os.Exit(1)
}

func parseFile(path string) *ast.File {
	fset := token.NewFileSet()
	f, err := parser.ParseFile(fset, path, nil, 0)
	if err != nil {
		die("cannot parse %s: %v", path, err)
	}
	return f
}

// the names of a `const ( A T = iota; B; ... )` / `1 << iota` block of type typ
func enumOf(f *ast.File, typ string, wantShift bool) []string {
	for _, d := range f.Decls {
		gd, ok := d.(*ast.GenDecl)
		if !ok || gd.Tok != token.CONST || len(gd.Specs) == 0 {
			continue
		}
		first := gd.Specs[0].(*ast.ValueSpec)
		id, ok := first.Type.(*ast.Ident)
		if !ok || id.Name != typ || len(first.Values) != 1 {
			continue
		}
		// first value must be iota (engine) or 1 << iota (feature)
		switch v := first.Values[0].(type) {
		case *ast.Ident:
			if v.Name != "iota" || wantShift {
				die("enum %s: unexpected first value", typ)
			}
		case *ast.BinaryExpr:
			l, lok := v.X.(*ast.BasicLit)
			r, rok := v.Y.(*ast.Ident)
			if !wantShift || v.Op != token.SHL || !lok || l.Value != "1" || !rok || r.Name != "iota" {
				die("enum %s: first value is not 1 << iota", typ)
			}
		default:
			die("enum %s: unexpected first value", typ)
		}
		var names []string
		for i, s := range gd.Specs {
			vs := s.(*ast.ValueSpec)
			if len(vs.Names) != 1 {
				die("enum %s: multi-name spec", typ)
			}
			if i > 0 && (vs.Type != nil || len(vs.Values) != 0) {
				die("enum %s: entry %s has an explicit value", typ, vs.Names[0].Name)
			}
			names = append(names, vs.Names[0].Name)
		}
		return names
	}
	die("enum %s not found", typ)
	return nil
}

func findVar(f *ast.File, name string) ast.Expr {
	for _, d := range f.Decls {
		gd, ok := d.(*ast.GenDecl)
		if !ok || gd.Tok != token.VAR {
			continue
		}
		for _, s := range gd.Specs {
			vs := s.(*ast.ValueSpec)
			for i, n := range vs.Names {
				if n.Name == name && i < len(vs.Values) {
					return vs.Values[i]
				}
			}
		}
	}
	die("var %s not found", name)
	return nil
}

func findFunc(f *ast.File, name string) *ast.FuncDecl {
	for _, d := range f.Decls {
		if fd, ok := d.(*ast.FuncDecl); ok && fd.Name.Name == name {
			return fd
		}
	}
	die("func %s not found", name)
	return nil
}

func intLit(e ast.Expr) int {
	bl, ok := e.(*ast.BasicLit)
	if !ok || bl.Kind != token.INT {
		die("expected integer literal")
	}
	n, err := strconv.Atoi(bl.Value)
	if err != nil {
		die("bad int %s", bl.Value)
	}
	return n
}

func parseV(e ast.Expr) [3]int {
	cl, ok := e.(*ast.CompositeLit)
	if !ok || len(cl.Elts) != 3 {
		die("version literal is not v{a, b, c}")
	}
	if id, ok := cl.Type.(*ast.Ident); !ok || id.Name != "v" {
		die("version literal type is not v")
	}
	return [3]int{intLit(cl.Elts[0]), intLit(cl.Elts[1]), intLit(cl.Elts[2])}
}

// compat.A | compat.B | ...  (or bare idents inside package compat)
func joinPref(xs []string, pref, sep string) string {
	out := make([]string, len(xs))
	for i, x := range xs {
		out[i] = pref + x
	}
	return strings.Join(out, sep)
}

func main() {
	if len(os.Args) != 3 {
		die("usage: t2ccsstable <repo> <outdir>")
	}
	repo, outdir := os.Args[1], os.Args[2]
	f := parseFile(filepath.Join(repo, "internal/compat/css_table.go"))
	jf := parseFile(filepath.Join(repo, "internal/compat/js_table.go"))
	features := enumOf(f, "CSSFeature", true)
	engines := enumOf(jf, "Engine", false)
	if len(features) < 8 || len(features) > 16 {
		die("implausible CSSFeature enum: %d", len(features))
	}
	isFeature := map[string]bool{}
	for _, n := range features {
		isFeature[n] = true
	}
	isEngine := map[string]bool{}
	for _, n := range engines {
		isEngine[n] = true
	}
	src, err := os.ReadFile(filepath.Join(repo, "internal/compat/css_table.go"))
	if err != nil {
		die("%v", err)
	}
	for _, want := range []string{
		"return (features & feature) != 0",
		"return (features & ^mask) | (overrides & mask)",
		"if feature == InlineStyle {",
		"if !engine.IsBrowser() {",
		"if versionRanges, ok := engines[engine]; !ok || !isVersionSupported(versionRanges, version) {",
	} {
		if !strings.Contains(string(src), want) {
			die("css_table.go no longer contains %q (Has/ApplyOverrides/UnsupportedCSSFeatures changed shape)", want)
		}
	}
	var strKeys [][2]string
	{
		cl, ok := findVar(f, "StringToCSSFeature").(*ast.CompositeLit)
		if !ok {
			die("StringToCSSFeature is not a composite literal")
		}
		for _, el := range cl.Elts {
			kv := el.(*ast.KeyValueExpr)
			k, ok1 := kv.Key.(*ast.BasicLit)
			v, ok2 := kv.Value.(*ast.Ident)
			if !ok1 || !ok2 || !isFeature[v.Name] {
				die("StringToCSSFeature: unexpected entry")
			}
			s, _ := strconv.Unquote(k.Value)
			strKeys = append(strKeys, [2]string{s, v.Name})
		}
	}
	var sb strings.Builder
	w := func(format string, a ...interface{}) { fmt.Fprintf(&sb, format, a...) }
	w("(* GENERATED by gen/cmd/t2ccsstable from internal/compat/css_table.go. Do not edit. *)\n")
	w("From Coq Require Import List ZArith String.\nFrom V Require Import gen.JsTableGen.\nImport ListNotations.\nLocal Open Scope Z_scope.\n\n")
	w("Inductive css_feature : Set :=\n")
	for _, n := range features {
		w("  | C%s\n", n)
	}
	w(".\n\nDefinition all_css_features : list css_feature :=\n  [%s].\n\n", joinPref(features, "C", "; "))
	w("Definition css_feature_index (f : css_feature) : Z :=\n  match f with\n")
	for i, n := range features {
		w("  | C%s => %d\n", n, i)
	}
	w("  end.\n\n")
	w("Definition string_to_css_feature : list (string * css_feature) :=\n  [")
	for i, kv := range strKeys {
		if i > 0 {
			w(";\n   ")
		}
		w("(%q%%string, C%s)", kv[0], kv[1])
	}
	w("].\n\n")
	cl, ok := findVar(f, "cssTable").(*ast.CompositeLit)
	if !ok {
		die("cssTable is not a composite literal")
	}
	w("Definition cssTable : list (css_feature * list (engine * list ((Z * Z * Z) * (Z * Z * Z)))) :=\n  [")
	seen := map[string]bool{}
	for i, el := range cl.Elts {
		kv := el.(*ast.KeyValueExpr)
		k, ok := kv.Key.(*ast.Ident)
		if !ok || !isFeature[k.Name] || seen[k.Name] {
			die("cssTable: unexpected or duplicate key")
		}
		seen[k.Name] = true
		inner, ok := kv.Value.(*ast.CompositeLit)
		if !ok {
			die("cssTable[%s]: not a literal", k.Name)
		}
		if i > 0 {
			w(";\n   ")
		}
		w("(C%s, [", k.Name)
		seenE := map[string]bool{}
		for j, el2 := range inner.Elts {
			kv2 := el2.(*ast.KeyValueExpr)
			en, ok := kv2.Key.(*ast.Ident)
			if !ok || !isEngine[en.Name] || seenE[en.Name] {
				die("cssTable[%s]: unexpected or duplicate engine", k.Name)
			}
			seenE[en.Name] = true
			rl, ok := kv2.Value.(*ast.CompositeLit)
			if !ok {
				die("cssTable[%s][%s]: not a literal", k.Name, en.Name)
			}
			if j > 0 {
				w("; ")
			}
			w("(E%s, [", en.Name)
			for m, r := range rl.Elts {
				rc, ok := r.(*ast.CompositeLit)
				if !ok {
					die("range is not a literal")
				}
				var vr vrange
				haveStart := false
				for _, fld := range rc.Elts {
					kv3, ok := fld.(*ast.KeyValueExpr)
					if !ok {
						die("positional range fields")
					}
					switch kv3.Key.(*ast.Ident).Name {
					case "start":
						vr.start = parseV(kv3.Value)
						haveStart = true
					case "end":
						vr.end = parseV(kv3.Value)
					default:
						die("unknown range field")
					}
				}
				if !haveStart {
					die("range without start")
				}
				if m > 0 {
					w("; ")
				}
				w("((%d, %d, %d), (%d, %d, %d))", vr.start[0], vr.start[1], vr.start[2], vr.end[0], vr.end[1], vr.end[2])
			}
			w("])")
		}
		w("])")
	}
	w("].\n")
	if err := os.MkdirAll(outdir, 0o755); err != nil {
		die("%v", err)
	}
	if err := os.WriteFile(filepath.Join(outdir, "CssTableGen.v"), []byte(sb.String()), 0o644); err != nil {
		die("%v", err)
	}
}
