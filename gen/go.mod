module verifgen

go 1.13
