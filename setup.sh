#!/bin/bash
# Offline setup after a fresh restore: build every Coq file (full .vo) and warm
# the Go build cache for the harness. Nothing is fetched.
set -e
cd "$(dirname "$0")"
export GOFLAGS=-mod=mod GOPROXY=off GOSUMDB=off GOTOOLCHAIN=local CGO_ENABLED=0
mkdir -p .build evidence coq/gen
python3 - <<'PY'
import sys, os
sys.path.insert(0, "lib")
import verif
verif.write_coqproject()
PY
# translators: regenerate coq/gen/*.v from /repo
for d in gen/cmd/*/; do
  [ -d "$d" ] || continue
  t=$(basename $d)
  (cd gen && go build -o ../.build/gen-$t ./cmd/$t && ../.build/gen-$t /repo ../coq/gen) || echo "translator $t failed (checks will report it)"
done
python3 -c "import sys; sys.path.insert(0,'lib'); import verif; verif.write_coqproject()"
(cd coq && timeout 3000 make -j16 >/dev/null 2>.make.err || { tail -30 .make.err; echo "coq build failed (checks will report it)"; })
cp /repo/go.sum harness/go.sum
(cd harness && for d in cmd/*/; do go build -tags verif -o ../.build/warm-$(basename $d) ./$d || echo "harness $d build failed (checks will report it)"; done)
echo setup-done
