// Verification harness: runs the real esbuild code (from /repo's working tree,
// built with -tags verif) on seeded, structured inputs and writes, per family,
// a Coq file of cases (inputs together with the observed outputs) that the
// model evaluates with vm_compute, plus a JSON stats file for the evidence.
package main

import (
	"encoding/json"
	"flag"
	"fmt"
	"os"
	"sort"
	"strings"
)

type Stats struct {
	Family      string                 `json:"family"`
	Seed        uint64                 `json:"seed"`
	Evaluations int                    `json:"evaluations"`
	Distinct    int                    `json:"distinct_nontrivial"`
	Rule        string                 `json:"rule"`
	Histogram   map[string]int         `json:"histogram"`
	Samples     []interface{}          `json:"samples"`
	Failures    []Failure              `json:"failures"`
	Extra       map[string]interface{} `json:"extra,omitempty"`
}

// A Failure is a concrete input on which the property's own predicate failed
// when evaluated on the implementation (glue stream / oracle).
type Failure struct {
	What   string      `json:"what"`
	Input  interface{} `json:"input"`
	Got    interface{} `json:"got"`
	Expect interface{} `json:"expect"`
}

func newStats(family string, seed uint64) *Stats {
	return &Stats{Family: family, Seed: seed, Histogram: map[string]int{}, Samples: []interface{}{}, Failures: []Failure{}, Extra: map[string]interface{}{}}
}

func (s *Stats) sample(v interface{}) {
	if len(s.Samples) < 6 {
		s.Samples = append(s.Samples, v)
	}
}

func (s *Stats) fail(what string, input, got, expect interface{}) {
	if len(s.Failures) < 20 {
		s.Failures = append(s.Failures, Failure{what, input, got, expect})
	}
	s.Histogram["FAIL:"+what]++
}

type family func(seed uint64, n int, tier string, outDir string) []*Stats

var families = map[string]family{}

func main() {
	seed := flag.Uint64("seed", 1, "PRNG seed")
	n := flag.Int("n", 500, "case count scale")
	tier := flag.String("tier", "quick", "quick|thorough")
	out := flag.String("out", ".", "output directory")
	flag.Parse()
	if flag.NArg() < 1 {
		names := []string{}
		for k := range families {
			names = append(names, k)
		}
		sort.Strings(names)
		fmt.Fprintln(os.Stderr, "usage: harness [flags] <family>; families:", strings.Join(names, " "))
		os.Exit(2)
	}
	name := flag.Arg(0)
	f, ok := families[name]
	if !ok {
		fmt.Fprintln(os.Stderr, "unknown family", name)
		os.Exit(2)
	}
	if err := os.MkdirAll(*out, 0o755); err != nil {
		panic(err)
	}
	stats := f(*seed, *n, *tier, *out)
	data, _ := json.MarshalIndent(stats, "", " ")
	if err := os.WriteFile(*out+"/"+name+".stats.json", data, 0o644); err != nil {
		panic(err)
	}
}
