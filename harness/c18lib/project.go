// Package c18lib: project generator, build runner and output-reference parser
// shared by the C18 and C19 harness binaries (glue streams through api.Build).
package c18lib

import (
	"encoding/json"
	"fmt"
	"os"
	"path"
	"path/filepath"
	"sort"
	"strings"

	"github.com/evanw/esbuild/pkg/api"
	. "github.com/evanw/esbuild/verifharness/hlib"
)

type Module struct {
	Name       string
	Static     []int    // statically imported modules
	Dynamic    []int    // dynamically imported modules (in statement order)
	Assets     []string // file-loader assets imported
	Copies     []string // copy-loader files imported
	CSS        []string // css files imported
	Ext        []string // external packages imported
	Lit        string
	Comment    string
	Legal      string
	Planted    string // placeholder-like text carried in a string literal
	Unused     bool   // exports an extra binding nobody imports (tree shaking)
	CJS        bool   // module.exports style (wrapped)
	PureImport bool   // imports ./pure0.js for side effects (it has none: tree-shaken entirely)
}

type CSSFile struct {
	Name    string
	Imports []int
	URLs    []string
	Color   string
	Comment string
	Legal   string
	Planted string
	ExtURL  string // external url() left alone
}

type Opt struct {
	Entries       []string
	Splitting     bool
	Format        string // esm cjs iife
	EntryNames    string
	ChunkNames    string
	AssetNames    string
	PublicPath    string
	Sourcemap     string // "" linked external inline both
	NoSrcContent  bool
	SourceRoot    string
	Legal         string // "" none inline eof linked external
	MinifyW       bool
	MinifyI       bool
	MinifyS       bool
	BannerJS      string
	FooterJS      string
	BannerCSS     string
	Outbase       string
	External      []string
	Stdin         string // contents of a stdin entry ("" none)
	Inject        []string
	MetafileStyle string
	NoBundle      bool
	OutExtJS      string
	Platform      string
	AssetsAsCopy  bool // .png handled by the copy loader instead of file
	DataurlForTxt bool
}

type Project struct {
	Mods   []Module
	CSS    []CSSFile
	Assets map[string]string
	Extra  map[string]string // further verbatim files
	Opt    Opt
}

func (p *Project) Clone() *Project {
	data, _ := json.Marshal(p)
	var q Project
	json.Unmarshal(data, &q)
	return &q
}

func (p *Project) JSON() string {
	data, _ := json.Marshal(p)
	return string(data)
}

func relImport(from, to string) string {
	r, _ := filepath.Rel(path.Dir(from), to)
	r = filepath.ToSlash(r)
	if !strings.HasPrefix(r, ".") {
		r = "./" + r
	}
	return r
}

func modVar(i int) string { return fmt.Sprintf("v%d", i) }

func (p *Project) renderModule(i int) string {
	m := &p.Mods[i]
	var sb strings.Builder
	if m.Legal != "" {
		fmt.Fprintf(&sb, "/*! %s */\n", m.Legal)
	}
	if m.Comment != "" {
		fmt.Fprintf(&sb, "// %s\n", m.Comment)
	}
	if m.CJS {
		terms := []string{fmt.Sprintf("%q", m.Lit)}
		for _, s := range m.Static {
			fmt.Fprintf(&sb, "const r%d = require(%q);\n", s, relImport(m.Name, p.Mods[s].Name))
			terms = append(terms, fmt.Sprintf("r%d.%s", s, modVar(s)))
		}
		fmt.Fprintf(&sb, "exports.%s = %s;\n", modVar(i), strings.Join(terms, " + "))
		fmt.Fprintf(&sb, "console.log(%q, exports.%s);\n", m.Name, modVar(i))
		return sb.String()
	}
	terms := []string{fmt.Sprintf("%q", m.Lit)}
	for _, s := range m.Static {
		fmt.Fprintf(&sb, "import {%s} from %q;\n", modVar(s), relImport(m.Name, p.Mods[s].Name))
		terms = append(terms, modVar(s))
	}
	for k, a := range m.Assets {
		fmt.Fprintf(&sb, "import a%d from %q;\n", k, relImport(m.Name, a))
		terms = append(terms, fmt.Sprintf("a%d", k))
	}
	for k, a := range m.Copies {
		fmt.Fprintf(&sb, "import c%d from %q;\n", k, relImport(m.Name, a))
		terms = append(terms, fmt.Sprintf("c%d", k))
	}
	for _, c := range m.CSS {
		fmt.Fprintf(&sb, "import %q;\n", relImport(m.Name, c))
	}
	for k, e := range m.Ext {
		fmt.Fprintf(&sb, "import * as e%d from %q;\n", k, e)
		terms = append(terms, fmt.Sprintf("String(e%d.x)", k))
	}
	if m.PureImport {
		fmt.Fprintf(&sb, "import %q;\n", relImport(m.Name, "pure0.js"))
	}
	fmt.Fprintf(&sb, "export const %s = %s;\n", modVar(i), strings.Join(terms, " + "))
	if m.Unused {
		fmt.Fprintf(&sb, "export const unused%d = %q;\n", i, "never-used-"+m.Lit)
	}
	if m.Planted != "" {
		fmt.Fprintf(&sb, "console.log(%q, %s, %q);\n", m.Name, modVar(i), m.Planted)
	} else {
		fmt.Fprintf(&sb, "console.log(%q, %s);\n", m.Name, modVar(i))
	}
	for _, d := range m.Dynamic {
		fmt.Fprintf(&sb, "import(%q).then(x => console.log(Object.keys(x)));\n", relImport(m.Name, p.Mods[d].Name))
	}
	return sb.String()
}

func (p *Project) renderCSS(i int) string {
	c := &p.CSS[i]
	var sb strings.Builder
	for _, s := range c.Imports {
		fmt.Fprintf(&sb, "@import %q;\n", relImport(c.Name, p.CSS[s].Name))
	}
	if c.Legal != "" {
		fmt.Fprintf(&sb, "/*! %s */\n", c.Legal)
	}
	if c.Comment != "" {
		fmt.Fprintf(&sb, "/* %s */\n", c.Comment)
	}
	fmt.Fprintf(&sb, ".k%d { color: %s }\n", i, c.Color)
	for k, u := range c.URLs {
		fmt.Fprintf(&sb, ".k%du%d { background: url(%s) }\n", i, k, relImport(c.Name, u))
	}
	if c.ExtURL != "" {
		fmt.Fprintf(&sb, ".k%dx { background: url(%s) }\n", i, c.ExtURL)
	}
	if c.Planted != "" {
		fmt.Fprintf(&sb, ".k%dp::after { content: %q }\n", i, c.Planted)
	}
	return sb.String()
}

// Render returns the file tree (relative path -> contents).
func (p *Project) Render() map[string]string {
	out := map[string]string{}
	for i := range p.Mods {
		out[p.Mods[i].Name] = p.renderModule(i)
	}
	for i := range p.CSS {
		out[p.CSS[i].Name] = p.renderCSS(i)
	}
	for k, v := range p.Assets {
		out[k] = v
	}
	for k, v := range p.Extra {
		out[k] = v
	}
	return out
}

func (o *Opt) BuildOptions(dir string) api.BuildOptions {
	b := api.BuildOptions{
		AbsWorkingDir:     dir,
		Outdir:            filepath.Join(dir, "out"),
		Bundle:            !o.NoBundle,
		Write:             false,
		LogLevel:          api.LogLevelSilent,
		Metafile:          true,
		EntryPoints:       append([]string{}, o.Entries...),
		Splitting:         o.Splitting,
		EntryNames:        o.EntryNames,
		ChunkNames:        o.ChunkNames,
		AssetNames:        o.AssetNames,
		PublicPath:        o.PublicPath,
		SourceRoot:        o.SourceRoot,
		MinifyWhitespace:  o.MinifyW,
		MinifyIdentifiers: o.MinifyI,
		MinifySyntax:      o.MinifyS,
		External:          append([]string{}, o.External...),
		Inject:            append([]string{}, o.Inject...),
		Loader:            map[string]api.Loader{".png": api.LoaderFile, ".bin": api.LoaderCopy, ".txt": api.LoaderText, ".svg": api.LoaderDataURL},
	}
	if o.AssetsAsCopy {
		b.Loader[".png"] = api.LoaderCopy
	}
	if o.DataurlForTxt {
		b.Loader[".txt"] = api.LoaderDataURL
	}
	if o.Outbase != "" {
		b.Outbase = filepath.Join(dir, o.Outbase)
	}
	switch o.Format {
	case "esm":
		b.Format = api.FormatESModule
	case "cjs":
		b.Format = api.FormatCommonJS
	case "iife":
		b.Format = api.FormatIIFE
	}
	switch o.Platform {
	case "node":
		b.Platform = api.PlatformNode
	case "neutral":
		b.Platform = api.PlatformNeutral
	}
	switch o.Sourcemap {
	case "linked":
		b.Sourcemap = api.SourceMapLinked
	case "external":
		b.Sourcemap = api.SourceMapExternal
	case "inline":
		b.Sourcemap = api.SourceMapInline
	case "both":
		b.Sourcemap = api.SourceMapInlineAndExternal
	}
	if o.NoSrcContent {
		b.SourcesContent = api.SourcesContentExclude
	}
	switch o.Legal {
	case "none":
		b.LegalComments = api.LegalCommentsNone
	case "inline":
		b.LegalComments = api.LegalCommentsInline
	case "eof":
		b.LegalComments = api.LegalCommentsEndOfFile
	case "linked":
		b.LegalComments = api.LegalCommentsLinked
	case "external":
		b.LegalComments = api.LegalCommentsExternal
	}
	if o.BannerJS != "" || o.BannerCSS != "" {
		b.Banner = map[string]string{}
		if o.BannerJS != "" {
			b.Banner["js"] = o.BannerJS
		}
		if o.BannerCSS != "" {
			b.Banner["css"] = o.BannerCSS
		}
	}
	if o.FooterJS != "" {
		b.Footer = map[string]string{"js": o.FooterJS}
	}
	if o.OutExtJS != "" {
		b.OutExtension = map[string]string{".js": o.OutExtJS}
	}
	if o.Stdin != "" {
		b.Stdin = &api.StdinOptions{Contents: o.Stdin, ResolveDir: dir, Sourcefile: "stdin-entry.js", Loader: api.LoaderJS}
	}
	switch o.MetafileStyle {
	case "abs":
		b.AbsPaths = api.MetafileAbsPath
	}
	return b
}

type Built struct {
	Dir      string
	Outdir   string
	Outputs  map[string][]byte // path relative to outdir (forward slashes)
	Order    []string          // output paths in the order returned
	Metafile string
	Errors   []string
	Warnings []string
}

// WriteTree writes the project's files under dir (removing files that are no longer part of it).
func WriteTree(dir string, prev, files map[string]string) error {
	for k := range prev {
		if _, ok := files[k]; !ok {
			os.Remove(filepath.Join(dir, k))
		}
	}
	for k, v := range files {
		if pv, ok := prev[k]; ok && pv == v {
			continue
		}
		fp := filepath.Join(dir, k)
		if err := os.MkdirAll(filepath.Dir(fp), 0o755); err != nil {
			return err
		}
		if err := os.WriteFile(fp, []byte(v), 0o644); err != nil {
			return err
		}
	}
	return nil
}

// Build runs api.Build on the tree already written under dir.
func Build(dir string, o *Opt) *Built {
	bo := o.BuildOptions(dir)
	r := api.Build(bo)
	b := &Built{Dir: dir, Outdir: bo.Outdir, Outputs: map[string][]byte{}, Metafile: r.Metafile}
	for _, e := range r.Errors {
		b.Errors = append(b.Errors, e.Text)
	}
	for _, e := range r.Warnings {
		b.Warnings = append(b.Warnings, e.Text)
	}
	for _, f := range r.OutputFiles {
		rel, err := filepath.Rel(bo.Outdir, f.Path)
		if err != nil {
			rel = f.Path
		}
		rel = filepath.ToSlash(rel)
		b.Outputs[rel] = f.Contents
		b.Order = append(b.Order, rel)
	}
	return b
}

func (b *Built) Paths() []string {
	var ks []string
	for k := range b.Outputs {
		ks = append(ks, k)
	}
	sort.Strings(ks)
	return ks
}

// ---------------------------------------------------------------- generator

var litWords = []string{"alpha", "beta", "gamma", "delta", "eps", "zeta", "eta", "theta"}

func randWord(r *Rng) string { return litWords[r.Intn(len(litWords))] + fmt.Sprint(r.Intn(1000)) }

// PlantedStrings are placeholder-like texts put into inputs: 16 characters of
// the unique-key alphabet followed by A/C and 8 digits (and near misses).
func PlantedString(r *Rng) string {
	const alpha = "ABCDEFGHIJKLMNOPQRSTUVWXYZabcdefghijklmnopqrstuvwxyz0123456789-_"
	var sb strings.Builder
	sb.WriteString("PLANT")
	for i := 0; i < 11; i++ {
		sb.WriteByte(alpha[r.Intn(len(alpha))])
	}
	sb.WriteByte("ACB"[r.Intn(3)])
	n := 8
	if r.Chance(20) {
		n = 7
	}
	for i := 0; i < n; i++ {
		sb.WriteByte(byte('0' + r.Intn(3)))
	}
	return sb.String()
}

type GenCfg struct {
	Hashed bool // every name template contains [hash]
	CSS    bool
	Rich   bool // C19: externals, stdin, inject, cjs modules, tree-shaken exports
}

func GenProject(r *Rng, cfg GenCfg) *Project {
	p := &Project{Assets: map[string]string{}, Extra: map[string]string{}}
	nm := r.Range(2, 6)
	dirs := []string{"", "", "lib/", "lib/deep/"}
	for i := 0; i < nm; i++ {
		d := ""
		if i > 0 {
			d = dirs[r.Intn(len(dirs))]
		}
		p.Mods = append(p.Mods, Module{Name: fmt.Sprintf("%sm%d.js", d, i), Lit: randWord(r)})
	}
	na := r.Intn(4)
	var assets, copies []string
	for i := 0; i < na; i++ {
		n := fmt.Sprintf("%simg%d.png", []string{"", "assets/"}[r.Intn(2)], i)
		p.Assets[n] = "PNG" + randWord(r)
		assets = append(assets, n)
	}
	if r.Chance(35) {
		n := "data0.bin"
		p.Assets[n] = "BIN" + randWord(r)
		copies = append(copies, n)
	}
	if cfg.CSS {
		nc := r.Intn(4)
		for i := 0; i < nc; i++ {
			c := CSSFile{Name: fmt.Sprintf("%ss%d.css", []string{"", "styles/"}[r.Intn(2)], i), Color: []string{"red", "green", "blue", "#abc"}[r.Intn(4)]}
			p.CSS = append(p.CSS, c)
		}
		for i := range p.CSS {
			c := &p.CSS[i]
			for j := i + 1; j < len(p.CSS); j++ {
				if r.Chance(40) {
					c.Imports = append(c.Imports, j)
				}
			}
			for _, a := range assets {
				if r.Chance(45) {
					c.URLs = append(c.URLs, a)
				}
			}
			if len(copies) > 0 && r.Chance(25) {
				c.URLs = append(c.URLs, copies[0])
			}
			if r.Chance(30) {
				c.Comment = "css note " + randWord(r)
			}
			if r.Chance(30) {
				c.Legal = "css license " + randWord(r)
			}
			if r.Chance(12) {
				c.Planted = PlantedString(r)
			}
			if r.Chance(15) {
				c.ExtURL = "https://example.com/x.png"
			}
		}
	}
	for i := range p.Mods {
		m := &p.Mods[i]
		for j := i + 1; j < nm; j++ {
			if r.Chance(35) {
				m.Static = append(m.Static, j)
			}
		}
		for j := 0; j < nm; j++ {
			if j != i && r.Chance(25) {
				m.Dynamic = append(m.Dynamic, j)
			}
		}
		for _, a := range assets {
			if r.Chance(30) {
				m.Assets = append(m.Assets, a)
			}
		}
		if len(copies) > 0 && r.Chance(25) {
			m.Copies = append(m.Copies, copies[0])
		}
		for k := range p.CSS {
			if r.Chance(25) {
				m.CSS = append(m.CSS, p.CSS[k].Name)
			}
		}
		if r.Chance(40) {
			m.Comment = "note " + randWord(r)
		}
		if r.Chance(35) {
			m.Legal = "license " + randWord(r)
		}
		if r.Chance(12) {
			m.Planted = PlantedString(r)
		}
		if cfg.Rich {
			m.Unused = r.Chance(40)
			if r.Chance(20) {
				m.Ext = append(m.Ext, []string{"ext-pkg", "node:fs-x", "ext-pkg/sub"}[r.Intn(3)])
			}
		}
	}
	if cfg.Rich {
		// some leaf modules in CommonJS style (only when nobody imports them with named ESM bindings)
		for i := nm - 1; i > 0; i-- {
			if r.Chance(15) && len(p.Mods[i].Assets) == 0 && len(p.Mods[i].Dynamic) == 0 {
				imported := false
				for k := range p.Mods {
					for _, s := range p.Mods[k].Static {
						if s == i {
							imported = true
						}
					}
				}
				if !imported {
					m := &p.Mods[i]
					m.CJS = true
					m.Copies, m.CSS, m.Ext = nil, nil, nil
				}
			}
		}
	}
	o := &p.Opt
	// entries: m0 always; others sometimes
	o.Entries = []string{p.Mods[0].Name}
	for i := 1; i < nm; i++ {
		if r.Chance(30) {
			o.Entries = append(o.Entries, p.Mods[i].Name)
		}
	}
	if len(p.CSS) > 0 && r.Chance(40) {
		o.Entries = append(o.Entries, p.CSS[0].Name)
	}
	o.Format = "esm"
	o.Splitting = r.Chance(70)
	if !o.Splitting {
		o.Format = []string{"esm", "cjs", "iife"}[r.Intn(3)]
	}
	hashed := func(opts []string, plain []string) string {
		if cfg.Hashed || r.Chance(50) {
			return opts[r.Intn(len(opts))]
		}
		return plain[r.Intn(len(plain))]
	}
	o.EntryNames = hashed([]string{"[name]-[hash]", "[dir]/[name]-[hash]", "e/[name].[hash]", "[name]-[hash]"}, []string{"", "[dir]/[name]", "entries/[name]"})
	o.ChunkNames = hashed([]string{"", "[name]-[hash]", "chunks/[name]-[hash]", "c/[hash]"}, []string{""})
	o.AssetNames = hashed([]string{"", "[name]-[hash]", "assets/[name]-[hash]", "media/[hash]"}, []string{"", "[dir]/[name]"})
	o.PublicPath = []string{"", "", "", "https://cdn.example.com/base/", "/static", "//h.example/p"}[r.Intn(6)]
	o.Sourcemap = []string{"", "", "linked", "external", "inline", "both"}[r.Intn(6)]
	o.Legal = []string{"", "none", "inline", "eof", "linked", "external"}[r.Intn(6)]
	o.MinifyW = r.Chance(30)
	o.MinifyI = r.Chance(25)
	o.MinifyS = r.Chance(25)
	if r.Chance(15) {
		o.BannerJS = "/* banner " + randWord(r) + " */"
	}
	if r.Chance(10) {
		o.FooterJS = "/* footer */"
	}
	if r.Chance(15) {
		o.Outbase = "."
	}
	if r.Chance(10) {
		o.SourceRoot = "https://src.example/"
	}
	o.NoSrcContent = r.Chance(15)
	if cfg.Rich {
		o.External = []string{"ext-pkg", "ext-pkg/*", "node:fs-x"}
		if r.Chance(20) {
			o.Stdin = fmt.Sprintf("import {%s} from %q;\nconsole.log('stdin', %s);\n", modVar(0), "./"+p.Mods[0].Name, modVar(0))
		}
		if r.Chance(15) {
			p.Extra["inject0.js"] = "export let injected = 'inj-" + randWord(r) + "';\n"
			o.Inject = []string{"inject0.js"}
			p.Mods[0].Comment = "uses injected"
			p.Extra["uses-inject.js"] = "console.log(injected);\n"
			o.Entries = append(o.Entries, "uses-inject.js")
		}
		if r.Chance(30) {
			k := r.Intn(nm)
			if !p.Mods[k].CJS {
				p.Mods[k].PureImport = true
				p.Extra["pure0.js"] = "export const never = \"PUREMARK\";\n"
			}
		}
		o.AssetsAsCopy = r.Chance(15)
		if r.Chance(15) {
			o.MetafileStyle = "abs"
		}
		if r.Chance(10) {
			o.OutExtJS = ".mjs"
		}
	}
	return p
}
