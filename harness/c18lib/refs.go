package c18lib

import (
	"bytes"
	"encoding/base64"
	"path"
	"regexp"
	"sort"
	"strings"
)

type Ref struct {
	Kind string `json:"kind"`
	Spec string `json:"spec"`
	From string `json:"from"`
}

var (
	reFrom      = regexp.MustCompile(`\bfrom\s*["']([^"'\n]+)["']`)
	reImportStr = regexp.MustCompile(`\bimport\s*["']([^"'\n]+)["']`)
	reDynImport = regexp.MustCompile(`\bimport\(\s*["']([^"'\n]+)["']\s*\)`)
	reRequire   = regexp.MustCompile(`\brequire\(\s*["']([^"'\n]+)["']\s*\)`)
	reAssetStr  = regexp.MustCompile(`["']([^"'\n]*\.(?:png|bin))["']`)
	reCSSURL    = regexp.MustCompile(`url\(\s*["']?([^"')\s]+)["']?\s*\)`)
	reCSSImport = regexp.MustCompile(`@import\s*["']([^"']+)["']`)
	reSMURL     = regexp.MustCompile(`[#@] sourceMappingURL=([^\s*]+)`)
	reLegalLink = regexp.MustCompile(`For license information please see (\S+) \*/`)
	// a unique key: 16 characters of base64url, 'A' or 'C', 8 decimal digits
	reUniqueKey = regexp.MustCompile(`[A-Za-z0-9_-]{16}[AC][0-9]{8}`)
	reInlineMap = regexp.MustCompile(`sourceMappingURL=data:application/json;base64,([A-Za-z0-9+/=]+)`)
	reMappings  = regexp.MustCompile(`"mappings":\s*"[^"]*"`)
)

func isJS(p string) bool  { return strings.HasSuffix(p, ".js") || strings.HasSuffix(p, ".mjs") }
func isCSS(p string) bool { return strings.HasSuffix(p, ".css") }

// ExtractRefs parses every import path, asset URL, source-map link and
// legal-comment link written into one output file.
func ExtractRefs(rel string, data []byte) []Ref {
	var out []Ref
	add := func(kind string, re *regexp.Regexp, text string) {
		for _, m := range re.FindAllStringSubmatch(text, -1) {
			out = append(out, Ref{kind, m[1], rel})
		}
	}
	text := string(data)
	switch {
	case isJS(rel):
		add("import", reFrom, text)
		add("import", reImportStr, text)
		add("dynamic-import", reDynImport, text)
		add("require", reRequire, text)
		add("asset-string", reAssetStr, text)
		add("sourcemap", reSMURL, text)
		add("legal", reLegalLink, text)
	case isCSS(rel):
		add("url", reCSSURL, text)
		add("css-import", reCSSImport, text)
		add("sourcemap", reSMURL, text)
		add("legal", reLegalLink, text)
	}
	// an import statement of a copied asset is seen both as import and as asset-string: keep one
	seen := map[Ref]bool{}
	var uniq []Ref
	for _, r := range out {
		k := Ref{"", r.Spec, r.From}
		if r.Kind == "asset-string" && seen[k] {
			continue
		}
		seen[k] = true
		uniq = append(uniq, r)
	}
	return uniq
}

// ResolveRef returns the output-relative path a reference denotes, or
// ("", false) when it points outside the build (external package, data: URL, http URL).
func ResolveRef(r Ref, publicPath string) (string, bool) {
	s := r.Spec
	if strings.HasPrefix(s, "data:") {
		return "", false
	}
	if i := strings.IndexAny(s, "?#"); i >= 0 && r.Kind == "url" {
		s = s[:i]
	}
	if publicPath != "" && strings.HasPrefix(s, publicPath) {
		rest := strings.TrimPrefix(s[len(publicPath):], "/")
		return path.Clean(rest), true
	}
	if strings.HasPrefix(s, "./") || strings.HasPrefix(s, "../") {
		return path.Clean(path.Join(path.Dir(r.From), s)), true
	}
	if r.Kind == "sourcemap" || r.Kind == "legal" {
		// written with the leading "./" trimmed
		if strings.Contains(s, "://") || strings.HasPrefix(s, "/") {
			return s, true // cannot be an emitted file: reported by the caller
		}
		return path.Clean(path.Join(path.Dir(r.From), s)), true
	}
	if r.Kind == "asset-string" {
		// quoted module paths (wrapper keys such as __esm({"img.png"(){}})) are not references
		return "", false
	}
	if r.Kind == "url" {
		if strings.Contains(s, "://") || strings.HasPrefix(s, "//") {
			return "", false
		}
		return path.Clean(path.Join(path.Dir(r.From), s)), true
	}
	return "", false
}

// Unresolved lists the references of a build that do not name an emitted file.
func Unresolved(b *Built, publicPath string) []Ref {
	var bad []Ref
	for _, p := range b.Paths() {
		for _, r := range ExtractRefs(p, b.Outputs[p]) {
			t, internal := ResolveRef(r, publicPath)
			if !internal {
				continue
			}
			if _, ok := b.Outputs[t]; !ok {
				bad = append(bad, r)
			}
		}
	}
	return bad
}

// SurvivingKeys lists unique-key-shaped texts left in an output. Texts planted
// in the inputs are removed first (and must still be there verbatim: see
// MissingPlanted); inline source maps are scanned in decoded form.
func SurvivingKeys(data []byte, planted []string) []string {
	text := string(data)
	var extra []string
	text = reInlineMap.ReplaceAllStringFunc(text, func(m string) string {
		sm := reInlineMap.FindStringSubmatch(m)
		if dec, err := base64.StdEncoding.DecodeString(sm[1]); err == nil {
			extra = append(extra, string(dec))
		}
		return "sourceMappingURL=data:application/json;base64,"
	})
	all := append([]string{text}, extra...)
	var found []string
	for _, t := range all {
		t = reMappings.ReplaceAllString(t, `"mappings":""`)
		for _, pl := range planted {
			t = strings.ReplaceAll(t, pl, "<planted>")
		}
		found = append(found, reUniqueKey.FindAllString(t, -1)...)
	}
	return found
}

func (p *Project) PlantedList() []string {
	var out []string
	for _, m := range p.Mods {
		if m.Planted != "" {
			out = append(out, m.Planted)
		}
	}
	for _, c := range p.CSS {
		if c.Planted != "" {
			out = append(out, c.Planted)
		}
	}
	return out
}

var reTrailSM = regexp.MustCompile(`(?m)^(?://|/\*)# sourceMappingURL=[^\n]*\n?`)
var reTrailLegal = regexp.MustCompile(`(?m)^/\*! For license information please see [^\n]* \*/\n?`)

// ClassifyDiff says how two different byte strings emitted under the same
// path differ. The classes name the known ways in which the name does not
// determine the bytes; everything else is "other".
func ClassifyDiff(rel string, a, b []byte, oa, ob *Opt) string {
	if strings.HasSuffix(rel, ".LEGAL.txt") {
		return "legal-comments-file-not-hashed"
	}
	// the two option findings are about the MODE being changed between the builds;
	// a differing trailing comment under the same mode (e.g. an inline map with
	// other contents) is not one of them
	smChanged, legalChanged := oa.Sourcemap != ob.Sourcemap, oa.Legal != ob.Legal
	a1, b1 := reTrailSM.ReplaceAll(a, nil), reTrailSM.ReplaceAll(b, nil)
	if bytes.Equal(a1, b1) {
		if smChanged {
			return "sourcemap-comment"
		}
		return "other/source-map-comment-differs-under-the-same-mode"
	}
	a2, b2 := reTrailLegal.ReplaceAll(a, nil), reTrailLegal.ReplaceAll(b, nil)
	if bytes.Equal(a2, b2) {
		if legalChanged {
			return "legal-comments-option"
		}
		return "other/legal-link-differs-under-the-same-mode"
	}
	a3, b3 := reTrailLegal.ReplaceAll(a1, nil), reTrailLegal.ReplaceAll(b1, nil)
	if bytes.Equal(a3, b3) {
		if smChanged && legalChanged {
			return "sourcemap-comment+legal-comments-option"
		}
		return "other/trailing-comments-differ"
	}
	// same text up to a permutation of the references to other emitted files?
	na, ra := normaliseRefs(rel, a3)
	nb, rb := normaliseRefs(rel, b3)
	if na == nb && len(ra) == len(rb) && len(ra) > 1 {
		sa, sb := append([]string{}, ra...), append([]string{}, rb...)
		sort.Strings(sa)
		sort.Strings(sb)
		if strings.Join(sa, "\n") == strings.Join(sb, "\n") && strings.Join(ra, "\n") != strings.Join(rb, "\n") {
			return "import-order-swapped"
		}
	}
	return "other"
}

func normaliseRefs(rel string, data []byte) (string, []string) {
	text := string(data)
	var specs []string
	for _, re := range []*regexp.Regexp{reDynImport, reFrom, reImportStr, reRequire, reCSSImport} {
		for _, m := range re.FindAllStringSubmatchIndex(text, -1) {
			specs = append(specs, text[m[2]:m[3]])
		}
	}
	// order of appearance
	type occ struct {
		pos  int
		spec string
	}
	var occs []occ
	for _, s := range uniqueStrings(specs) {
		from := 0
		for {
			i := strings.Index(text[from:], s)
			if i < 0 {
				break
			}
			occs = append(occs, occ{from + i, s})
			from += i + len(s)
		}
	}
	sort.Slice(occs, func(i, j int) bool { return occs[i].pos < occs[j].pos })
	var order []string
	for _, o := range occs {
		order = append(order, o.spec)
	}
	for _, s := range uniqueStrings(specs) {
		text = strings.ReplaceAll(text, s, "<REF>")
	}
	return text, order
}

func uniqueStrings(xs []string) []string {
	seen := map[string]bool{}
	var out []string
	for _, x := range xs {
		if !seen[x] {
			seen[x] = true
			out = append(out, x)
		}
	}
	// longest first so that replacing one spec cannot split another
	sort.SliceStable(out, func(i, j int) bool { return len(out[i]) > len(out[j]) })
	return out
}
