package main

// C03: minification never changes behaviour.
//  * correspondence cases for the compile-time evaluation cores of
//    internal/js_ast/js_ast_helpers.go (numbers as 64-bit patterns, strings as
//    UTF-16 code units, expression trees as Coq terms), written to c03_cases.v;
//  * the glue stream: generated closed deterministic programs pushed through
//    api.Transform / api.Build with every minify flag subset (+ define, pure,
//    drop, drop-labels, keep-names, TypeScript enums), input and outputs
//    executed in Node with probes; traces must be identical (glue.go).

import (
	"fmt"
	"math"
	"os"
	"path/filepath"

	"github.com/evanw/esbuild/internal/js_ast"
	"github.com/evanw/esbuild/internal/logger"
	. "github.com/evanw/esbuild/verifharness/hlib"
)

func main() { Main("c03", runC03) }

// boundary grid of float64 values
var floatGrid = []float64{
	0, math.Copysign(0, -1), 1, -1, 2, -2, 0.5, -0.5, 1.5, -1.5, 2.5, 255, 256, -255, -256, 65535, 65536,
	2147483647, 2147483648, -2147483648, -2147483649, 2147483647.5, -2147483648.5, 2147483648.5,
	4294967295, 4294967296, 4294967297, -4294967295, -4294967296, -4294967297, 4294967295.5, 4294967296.5,
	6442450944, -6442450944, 8589934592, 8589934593, 1 << 52, 1<<53 - 1, 1 << 53, 1<<53 + 2, -(1 << 53), 1 << 62, 1 << 63, -(1 << 63), 1 << 64,
	1e21, -1e21, 1e300, -1e300, math.MaxFloat64, -math.MaxFloat64, math.SmallestNonzeroFloat64, -math.SmallestNonzeroFloat64,
	2.2250738585072014e-308, 2.225073858507201e-308, 1e-7, 0.1, 0.2, 0.3, 1 / 3.0, 3, 10, 31, 32, 33, 63, 64, -31, -32, -33, 100, 1000, 123456789, -123456789,
	math.Inf(1), math.Inf(-1), math.NaN(), 0xFFFF_FFFF, 0xFF, 0x100, -0xFF, 4294967296 * 3, 4294967296*3 + 2147483648, 4294967296*1024 + 7, 3000000000, -3000000000,
}

func randFloat(r *Rng) float64 {
	switch r.Intn(10) {
	case 0, 1, 2:
		return floatGrid[r.Intn(len(floatGrid))]
	case 3:
		return float64(int64(r.Intn(64)) - 32)
	case 4:
		return float64(int32(r.U64()))
	case 5:
		// around multiples of 2^31 / 2^32
		k := float64(int64(r.Intn(9)) - 4)
		d := []float64{-1.5, -1, -0.5, 0, 0.5, 1, 1.5}[r.Intn(7)]
		return k*2147483648 + d
	case 6:
		// integers up to 2^64 with a random sign
		v := float64(r.U64() >> uint(r.Intn(64)))
		if r.Bool() {
			v = -v
		}
		return v
	case 7:
		// arbitrary bit pattern (any exponent, NaNs, subnormals)
		return math.Float64frombits(r.U64())
	case 8:
		// non-integers of moderate size
		v := float64(int64(r.U64()%(1<<40))) / float64(int64(1)<<uint(r.Intn(20)))
		if r.Bool() {
			v = -v
		}
		return v
	default:
		// large exact powers of two times small odd numbers
		v := math.Ldexp(float64(2*r.Intn(50)+1), r.Intn(120))
		if r.Bool() {
			v = -v
		}
		return v
	}
}

func fbits(f float64) string {
	if f != f {
		return "9221120237041090560" // canonical NaN 0x7FF8000000000000
	}
	return fmt.Sprintf("%d", math.Float64bits(f))
}

var unitGrid = []uint16{0, 1, 0x20, '-', '0', '1', '9', 'A', 'a', 'u', 0x7F, 0x80, 0xFF, 0x100, 0xD7FF, 0xD800, 0xDBFF, 0xDC00, 0xDFFF, 0xE000, 0xFF01, 0xFFFE, 0xFFFF}

func randUTF16(r *Rng, maxLen int) []uint16 {
	n := r.Intn(maxLen + 1)
	s := make([]uint16, n)
	for i := range s {
		switch r.Intn(4) {
		case 0:
			s[i] = unitGrid[r.Intn(len(unitGrid))]
		case 1:
			s[i] = uint16('a' + r.Intn(3))
		case 2:
			s[i] = uint16(0xD800 + r.Intn(0x800))
		default:
			s[i] = uint16(r.U64())
		}
	}
	return s
}

func estr(s []uint16) js_ast.Expr { return js_ast.Expr{Data: &js_ast.EString{Value: s}} }
func enum(f float64) js_ast.Expr  { return js_ast.Expr{Data: &js_ast.ENumber{Value: f}} }

func foldBool(op js_ast.OpCode, a, b js_ast.Expr) (bool, bool) {
	res := js_ast.FoldBinaryOperator(logger.Loc{}, &js_ast.EBinary{Op: op, Left: a, Right: b})
	if bv, ok := res.Data.(*js_ast.EBoolean); ok {
		return bv.Value, true
	}
	return false, false
}

func runC03(seed uint64, n int, tier string, outDir string) []*Stats {
	// hlib.NewRng(seed) and NewRng(seed+1) produce the same stream shifted by
	// one draw; decorrelate the seeds by hashing first
	r := NewRng(NewRng(seed).U64() ^ (seed * 0xD6E8FEB86659FD93))
	cf := NewCoqFile("From V Require Import Common.Base C03.Num C03.SpecOps C03.Tree C03.Fold C03.MiniJS C03.Stmt C03.Harness.")
	st := NewStats("c03", seed)

	// --- ToInt32 / ToUint32
	var items []string
	fl := append([]float64{}, floatGrid...)
	for i := 0; i < n; i++ {
		fl = append(fl, randFloat(r))
	}
	for _, f := range fl {
		gi := js_ast.ToInt32(f)
		gu := js_ast.ToUint32(f)
		items = append(items, fmt.Sprintf("(%s,%s,%d)", fbits(f), CZ(int64(gi)), gu))
		st.Note("toint32", fbits(f), f != 0)
	}
	cf.AddCases("toint_cases", "Z * Z * Z", "check_toint", items)

	// --- stringCompareUCS2 (unexported) through FoldBinaryOperator on string literals
	items = nil
	for i := 0; i < n; i++ {
		a := randUTF16(r, 5)
		b := randUTF16(r, 5)
		switch r.Intn(4) {
		case 0:
			b = append(append([]uint16{}, a...), randUTF16(r, 2)...)
		case 1:
			if len(a) > 0 {
				b = append([]uint16{}, a...)
				k := r.Intn(len(b))
				b[k] = unitGrid[r.Intn(len(unitGrid))]
			}
		}
		lt, ok1 := foldBool(js_ast.BinOpLt, estr(a), estr(b))
		gt, ok2 := foldBool(js_ast.BinOpGt, estr(a), estr(b))
		eq, ok3 := foldBool(js_ast.BinOpStrictEq, estr(a), estr(b))
		if !ok1 || !ok2 || !ok3 {
			st.Fail("fold-string-compare-not-folded", fmt.Sprint(a, b), "no fold", "boolean")
			continue
		}
		items = append(items, fmt.Sprintf("(%s,%s,%s,%s,%s)", CU16(a), CU16(b), CBool(lt), CBool(gt), CBool(eq)))
		st.Note("cmp-ucs2", fmt.Sprint(a, b), len(a) > 0 && len(b) > 0)
	}
	cf.AddCases("cmp_cases", "list Z * list Z * bool * bool * bool", "check_cmp", items)

	extraCases(r, n, tier, cf, st)
	stmtCases(r, n, tier, cf, st)

	// --- glue stream
	runGlue(r, n, tier, st)

	st.Finish("seeded generator (splitmix64 from VERIF_SEED): float64 boundary grid (+-0, +-2^31, 2^32+-1, 2^53, subnormals, NaN, +-Inf) + random bit patterns; UTF-16 strings incl. lone surrogates; expression trees over literals/probes; glue: generated closed programs x 8 minify subsets x options executed in Node. distinct_nontrivial = distinct (family,input) pairs excluding zero/empty inputs")
	if err := os.WriteFile(filepath.Join(outDir, "c03_cases.v"), []byte(cf.String()), 0o644); err != nil {
		panic(err)
	}
	return []*Stats{st}
}
